#!/bin/sh
# Extracts the pipe_in model (coq/theories/PipeIn/Model.v) and builds the replay driver.
# The model must have been compiled (cd /verif/coq && make -f Makefile.pipein).
set -e
cd "$(dirname "$0")"
mkdir -p _build && cd _build
coqc -Q ../../../coq/theories/PipeIn PipeIn ../../../coq/theories/PipeIn/ExtractPipeIn.v > extract.log 2>&1
rm -f ../../../coq/theories/PipeIn/ExtractPipeIn.vo ../../../coq/theories/PipeIn/ExtractPipeIn.vos ../../../coq/theories/PipeIn/ExtractPipeIn.vok ../../../coq/theories/PipeIn/ExtractPipeIn.glob ../../../coq/theories/PipeIn/.ExtractPipeIn.aux
cp ../replay_pipein.ml .
ocamlfind ocamlopt -O2 -w -a -package str pipeinmodel.mli pipeinmodel.ml replay_pipein.ml -linkpkg -o replay_pipein 2>/dev/null || ocamlfind ocamlopt -w -a -package str pipeinmodel.mli pipeinmodel.ml replay_pipein.ml -linkpkg -o replay_pipein
