(* Correspondence check, implementation -> model, for pipe_in (C11): replays the critical-section log of one execution of
   the real crate (written by the harness through src/verif.rs) on the extracted model of coq/theories/PipeIn/Model.v
   (pipeinmodel.ml).

   Mapping of implementation events to model actors
     api PRODUCE k / CLOSE k   the environment actors AEnvAvail / AEnvEnd (logged by the harness inside the input's own
                               lock section, i.e. atomically with "push item / set closed, TAKE the registered waker").
                               If the model's input had a registered waker the step creates a wake thread (WCall k): it
                               belongs to the task that logged the marker, which must call the waker next.
     api DROPOBJ q             the program drops ITS handle of the object.  Other callers may still hold temporary clones
                               (every D/S/T/I op clones the Arc for the duration of the call), so the model's AEnvDrop
                               ("the LAST external owner drops") is applied lazily: at the first upgrade that fails.
     cs pwaker k               the wake thread of that task at WCall k (LPipeWaker).  The [rc]/enqueue steps that follow
                               (WUpgrade, WEnq, WDropRc) are silent in the log and are taken at once; whether the upgrade
                               succeeded is read off the log: the task's next pipe section is `pollfn` (the take, l.155)
                               iff it failed.
     new pollfn                pipe_in has built its context: the initial PipeContext::poll (wake thread 0) is taken.
     new pwaker k              the runner (whichever task) has started poll job k: silent ARun steps (finish the previous
                               operation, dequeue) up to JNew, then JNew.
     cs pollfn                 WTake of the task's wake thread if its upgrade failed, else the runner's JLockPf / JClear.
     cs pipeobj <stream>       the runner's JPoll (LStream);   cs pipeobj <process>   the runner's JProc (LProcess).
   Everything else (core, sched, threads, busy, fres, ... and all `acq` events) belongs to lower layers and is ignored;
   the other operations on the object (D/S/T) are not replayed: nothing of them is visible in the pipe's lock classes.
   At every event the model actor must be enabled and its step_label must be the event's class.  At the end the
   model's observable state is compared with the implementation's (recomputed independently from the raw log):
   number of items processed, poll_fn present, released (if the program waited for it with Z).
   Usage: replay_pipein file.log ... *)
open Pipeinmodel

let rec nat_of_int n = if n <= 0 then O else S (nat_of_int (n - 1))
let rec int_of_nat = function O -> 0 | S n -> 1 + int_of_nat n
let i = int_of_nat

type ev = { task : int; kind : string; cls : string; id : int; snap : string }

exception Diverge of string
exception Unsupported of string

(* ---------- program text: the one pipe_in, its stream, its object, the number of items, is the release awaited ---------- *)
type pinfo = { obj : int; stream : int; nitems : int; has_z : bool }

let parse_prog (text : string) : pinfo =
  let parts = String.split_on_char '|' text in
  let toks = List.concat_map (fun p -> List.filter (fun x -> x <> "") (String.split_on_char ' ' p)) (List.tl parts) in
  let num s from = let n = String.length s in let j = ref from in
    while !j < n && s.[!j] >= '0' && s.[!j] <= '9' do incr j done;
    (int_of_string (String.sub s from (!j - from)), !j) in
  let pipes = List.filter (fun t -> t.[0] = 'I') toks in
  if List.exists (fun t -> t.[0] = 'J') toks then raise (Unsupported "pipe (J) in the program");
  (match pipes with [_] -> () | [] -> raise (Unsupported "no pipe_in in the program") | _ -> raise (Unsupported "more than one pipe_in"));
  let t = List.hd pipes in
  let (q, j) = num t 1 in
  let (k, _) = num t (j + 1) in
  let nitems = List.fold_left (fun acc t -> if t.[0] = 'G' then (let (k', j) = num t 1 in let (n, _) = num t (j + 1) in if k' = k then acc + n else acc) else acc) 0 toks in
  let has_z = List.exists (fun t -> t.[0] = 'Z' && fst (num t 1) = k) toks in
  { obj = q; stream = k; nitems; has_z }

(* ---------- printing the model state for messages ---------- *)
let show_op = function OPoll k -> Printf.sprintf "OPoll %d" (i k) | OOther n -> Printf.sprintf "OOther %d" (i n) | OFree -> "OFree"
let show_pc = function JNew -> "JNew" | JLockPf -> "JLockPf" | JPoll -> "JPoll" | JProc x -> Printf.sprintf "JProc %d" (i x) | JClear -> "JClear" | JEnd -> "JEnd"
let show_wpc = function WCall k -> Printf.sprintf "WCall %d" (i k) | WUpgrade -> "WUpgrade" | WEnq -> "WEnq" | WDropRc -> "WDropRc" | WTake -> "WTake" | WDone -> "WDone"
let show_label = function LPollFn -> "pollfn" | LStream -> "stream" | LProcess -> "process" | LPipeWaker -> "pwaker" | LNone -> "silent"
let show_running (s : state) = match s.running with
  | None -> Printf.sprintf "nothing running, queue [%s]" (String.concat "; " (List.map show_op s.opq))
  | Some (o, pc) -> Printf.sprintf "running %s at %s, queue [%s]" (show_op o) (show_pc pc) (String.concat "; " (List.map show_op s.opq))
let show_input (s : state) = Printf.sprintf "ready=%d future=%d ended=%b reg=%s" (List.length s.ready) (List.length s.future) s.ended
    (match s.reg with Some k -> string_of_int (i k) | None -> "none")
let show_actor = function ARun -> "ARun" | AWake n -> Printf.sprintf "AWake %d" (i n) | AChute -> "AChute" | AEnvAvail -> "AEnvAvail"
                          | AEnvEnd -> "AEnvEnd" | AEnvSpur k -> Printf.sprintf "AEnvSpur %d" (i k) | AEnvOp -> "AEnvOp" | AEnvDrop -> "AEnvDrop"

(* ---------- replay ---------- *)
type stats = { mutable steps : int; mutable labelled : int; mutable stutters : int }
type upgrade = UOk | UFail

let replay (p : pinfo) (evs : ev array) : stats =
  let items = List.init p.nitems nat_of_int in
  let s = ref (init items) in
  let st = { steps = 0; labelled = 0; stutters = 0 } in
  let n = Array.length evs in
  let cur = ref 0 in
  let div fmt = Printf.ksprintf (fun m -> raise (Diverge (Printf.sprintf "event %d: %s" !cur m))) fmt in
  (* one model step of actor a whose label must be l *)
  let do_step (a : actor) (l : label) (why : string) =
    (match step_label !s a with
     | Some l' when l' = l -> ()
     | Some l' -> div "%s: model actor %s is at a %s step, the implementation performed a %s section (model: %s; input %s)" why (show_actor a) (show_label l') (show_label l) (show_running !s) (show_input !s)
     | None -> div "%s: model actor %s is not enabled, the implementation performed a %s section (model: %s; input %s)" why (show_actor a) (show_label l) (show_running !s) (show_input !s));
    match step !s a with
    | Some s' -> s := s'; st.steps <- st.steps + 1; if l <> LNone then st.labelled <- st.labelled + 1
    | None -> div "%s: step_label defined but step undefined for %s" why (show_actor a) in
  let wake_at idx = match List.nth_opt !s.wakes idx with Some w -> w | None -> div "no wake thread %d in the model" idx in
  (* silent steps of the runner: finish an operation, dequeue the next, run an opaque one; stops in front of JNew *)
  let settle_run () =
    let rec go guard =
      if guard = 0 then div "too many silent runner steps";
      match !s.running with
      | Some (OPoll _, JNew) -> ()
      | Some (OPoll _, (JLockPf | JPoll | JProc _ | JClear)) -> ()
      | _ -> (match step_label !s ARun with Some LNone -> do_step ARun LNone "silent runner step"; go (guard - 1) | _ -> ()) in
    go 100 in
  (* identities learnt from the log *)
  let pipeobjs = ref [] in                      (* ids of the pipeobj mutexes in creation order: stream, process *)
  let pollfn_id = ref (-1) in
  let created = ref false in
  let runner = ref (-1) in
  let pend_call : (int, int) Hashtbl.t = Hashtbl.create 8 in      (* task -> its wake thread, still to call the waker *)
  let pend_take : (int, int) Hashtbl.t = Hashtbl.create 8 in      (* task -> its wake thread, upgrade failed, still to take poll_fn *)
  let drop_seen = ref false and drop_applied = ref false in
  (* the implementation's observable state, recomputed from the raw log only *)
  let impl_processed = ref 0 and impl_pollfn = ref true in
  let after_wake : (int, bool) Hashtbl.t = Hashtbl.create 8 in    (* task has called a waker and not started a job / a new input event since *)
  let job_pollfn : (int, int) Hashtbl.t = Hashtbl.create 8 in     (* pollfn sections of the task inside its current poll job *)
  (* did the upgrade of the wake that task t has just started succeed?  (see the header) *)
  let lookahead t =
    let rec go j =
      if j >= n then UOk else
        let e = evs.(j) in
        if e.task <> t then go (j + 1)
        else if e.kind = "cs" && e.cls = "pollfn" then UFail
        else if (e.kind = "new" || e.kind = "cs") && e.cls = "pwaker" then UOk
        else if e.kind = "api" then UOk
        else go (j + 1) in
    go (!cur + 1) in
  let flush_wakes () =
    List.iteri (fun idx w -> match w with
        | WEnq -> do_step (AWake (nat_of_int idx)) LNone "flush enqueue"; do_step (AWake (nat_of_int idx)) LNone "flush drop of the temporary Arc"
        | WDropRc -> do_step (AWake (nat_of_int idx)) LNone "flush drop of the temporary Arc"
        | _ -> ()) !s.wakes in
  let after_call t idx =
    (* the wake thread has taken the waker's context: decide the upgrade *)
    match wake_at idx with
    | WUpgrade ->
      (match lookahead t with
       | UOk ->
         if i !s.strong = 0 then div "task %d scheduled a poll job after its wake (no poll_fn take follows), but the model's strong count is 0: the upgrade must fail" t;
         do_step (AWake (nat_of_int idx)) LNone "upgrade";
         do_step (AWake (nat_of_int idx)) LNone "enqueue of the poll job";
         do_step (AWake (nat_of_int idx)) LNone "drop of the temporary Arc"
       | UFail ->
         flush_wakes ();
         if not !drop_applied then begin
           if not !drop_seen then div "task %d takes poll_fn after its wake (the upgrade failed) but the program has not dropped the object" t;
           do_step AEnvDrop LNone "last external owner drops"; drop_applied := true
         end;
         if i !s.strong <> 0 then div "task %d: the upgrade failed in the implementation but the model's strong count is %d" t (i !s.strong);
         do_step (AWake (nat_of_int idx)) LNone "failed upgrade";
         Hashtbl.replace pend_take t idx)
    | WDone -> ()
    | w -> div "wake thread %d is at %s after its call" idx (show_wpc w) in
  let input_event t (a : actor) (name : string) =
    (match Hashtbl.find_opt pend_call t with
     | Some idx -> div "task %d performs %s but the model still expects it to call the waker it took at its previous input event (wake thread %d at %s)" t name idx (show_wpc (wake_at idx))
     | None -> ());
    Hashtbl.replace after_wake t false;
    let before = List.length !s.wakes in
    (match step !s a with
     | Some _ -> ()
     | None ->
       if !s.ended then raise (Unsupported (name ^ " after the input was closed (the harness stream still accepts it, the model's environment does not)"))
       else div "%s: the model's environment cannot do this (input %s)" name (show_input !s));
    do_step a LNone name;
    if List.length !s.wakes = before + 1 then Hashtbl.replace pend_call t before in
