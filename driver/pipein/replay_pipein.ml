(* Correspondence check, implementation -> model, for pipe_in (C11): replays the critical-section log of one execution of
   the real crate (written by the harness through src/verif.rs) on the extracted model of coq/theories/PipeIn/Model.v
   (pipeinmodel.ml).

   Mapping of implementation events to model actors
     api PRODUCE k / CLOSE k   the environment actors AEnvAvail / AEnvEnd (logged by the harness inside the input's own
                               lock section, i.e. atomically with "push item / set closed, TAKE the registered waker").
                               If the model's input had a registered waker the step creates a wake thread (WCall k): it
                               belongs to the task that logged the marker, which must call the waker next.
     api DROPOBJ q             the program drops ITS handle of the object.  Other callers may still hold temporary clones
                               (every D/S/T/I op clones the Arc for the duration of the call), so the model's AEnvDrop
                               ("the LAST external owner drops") is applied lazily: at the first upgrade that fails.
     cs pwaker k               the wake thread of that task at WCall k (LPipeWaker).  The [rc]/enqueue steps that follow
                               (WUpgrade, WEnq, WDropRc) are silent in the log; they are taken lazily, when evidence of
                               the upgrade's outcome arrives (see resolve_ok / resolve_fail): the task's next pipe
                               section is `pollfn` (the take, l.155) iff it failed.
     new pollfn                pipe_in has built its context: the initial PipeContext::poll (wake thread 0) is taken.
     new pwaker k              the runner (whichever task) has started poll job k: silent ARun steps (finish the previous
                               operation, dequeue) up to JNew, then JNew.
     cs pollfn                 WTake of the task's wake thread if its upgrade failed, else the runner's JLockPf / JClear.
     cs pipeobj <stream>       the runner's JPoll (LStream);   cs pipeobj <process>   the runner's JProc (LProcess).
     api COOPYIELD             (directly after the task's process section) the processing future of a SLOW item has woken its
                               own waker and returned Pending: the model's JProc step must have suspended the item (JSusp;
                               items produced by the op g are slow).  The re-poll of the suspended poll job is silent
                               (LNone); it is taken when the next stream section arrives, performed by WHICHEVER task (pool
                               thread, sync caller draining, another future's poll): that task is the runner from then on.
                               A COOPYIELD without a later stream section = an item still suspended at the end.
   Everything else (core, sched, threads, busy, fres, ... and all `acq` events) belongs to lower layers and is ignored;
   the other operations on the object (D/S/T) are not replayed: nothing of them is visible in the pipe's lock classes.
   At every event the model actor must be enabled and its step_label must be the event's class.  At the end the
   model's observable state is compared with the implementation's (recomputed independently from the raw log):
   number of items processed, poll_fn present, released (if the program waited for it with Z).
   Usage: replay_pipein file.log ... *)
open Pipeinmodel

let rec nat_of_int n = if n <= 0 then O else S (nat_of_int (n - 1))
let rec int_of_nat = function O -> 0 | S n -> 1 + int_of_nat n
let i = int_of_nat

type ev = { task : int; kind : string; cls : string; id : int; snap : string }

exception Diverge of string
exception Unsupported of string

(* ---------- program text: the one pipe_in, its stream, its object, the number of items, is the release awaited ---------- *)
(* slow : per caller, the flags (slow or not) of the items it produces on the pipe's stream, in script order *)
type pinfo = { obj : int; stream : int; slow : bool list array; has_z : bool }

let parse_prog (text : string) : pinfo =
  let parts = String.split_on_char '|' text in
  let toks = List.concat_map (fun p -> List.filter (fun x -> x <> "") (String.split_on_char ' ' p)) (List.tl parts) in
  let num s from = let n = String.length s in let j = ref from in
    while !j < n && s.[!j] >= '0' && s.[!j] <= '9' do incr j done;
    (int_of_string (String.sub s from (!j - from)), !j) in
  let pipes = List.filter (fun t -> t.[0] = 'I') toks in
  if List.exists (fun t -> t.[0] = 'J') toks then raise (Unsupported "pipe (J) in the program");
  (match pipes with [_] -> () | [] -> raise (Unsupported "no pipe_in in the program") | _ -> raise (Unsupported "more than one pipe_in"));
  let t = List.hd pipes in
  let (q, j) = num t 1 in
  let (k, _) = num t (j + 1) in
  let slow = Array.of_list (List.map (fun part ->
      List.concat_map (fun t -> if t.[0] = 'G' || t.[0] = 'g' then (let (k', j) = num t 1 in let (n, _) = num t (j + 1) in if k' = k then List.init n (fun _ -> t.[0] = 'g') else []) else [])
        (List.filter (fun x -> x <> "") (String.split_on_char ' ' part))) (List.tl parts)) in
  let has_z = List.exists (fun t -> t.[0] = 'Z' && fst (num t 1) = k) toks in
  { obj = q; stream = k; slow; has_z }

(* ---------- printing the model state for messages ---------- *)
let show_op = function OPoll k -> Printf.sprintf "OPoll %d" (i k) | OOther n -> Printf.sprintf "OOther %d" (i n) | OFree -> "OFree"
let show_pc = function JNew -> "JNew" | JLockPf -> "JLockPf" | JPoll -> "JPoll" | JProc x -> Printf.sprintf "JProc %d%s" (i (fst x)) (if snd x then " (slow)" else "") | JSusp x -> Printf.sprintf "JSusp %d" (i (fst x)) | JClear -> "JClear" | JEnd -> "JEnd"
let show_wpc = function WCall k -> Printf.sprintf "WCall %d" (i k) | WUpgrade -> "WUpgrade" | WEnq -> "WEnq" | WDropRc -> "WDropRc" | WTake -> "WTake" | WDone -> "WDone"
let show_label = function LPollFn -> "pollfn" | LStream -> "stream" | LProcess -> "process" | LPipeWaker -> "pwaker" | LNone -> "silent"
let show_running (s : state) = match s.running with
  | None -> Printf.sprintf "nothing running, queue [%s]" (String.concat "; " (List.map show_op s.opq))
  | Some (o, pc) -> Printf.sprintf "running %s at %s, queue [%s]" (show_op o) (show_pc pc) (String.concat "; " (List.map show_op s.opq))
let show_input (s : state) = Printf.sprintf "ready=%d future=%d ended=%b reg=%s" (List.length s.ready) (List.length s.future) s.ended
    (match s.reg with Some k -> string_of_int (i k) | None -> "none")
let show_actor = function ARun -> "ARun" | AWake n -> Printf.sprintf "AWake %d" (i n) | AChute -> "AChute" | AEnvAvail -> "AEnvAvail"
                          | AEnvEnd -> "AEnvEnd" | AEnvSpur k -> Printf.sprintf "AEnvSpur %d" (i k) | AEnvOp -> "AEnvOp" | AEnvDrop -> "AEnvDrop"

(* ---------- replay ---------- *)
type stats = { mutable steps : int; mutable labelled : int; mutable stutters : int }
type upgrade = UOk | UFail
(* coverage of the model's branches over all replayed logs *)
let c_upg_ok = ref 0 and c_upg_fail = ref 0 and c_drop = ref 0 and c_take = ref 0 and c_clear = ref 0 and c_pending = ref 0 and c_none = ref 0
and c_late = ref 0 and c_susp = ref 0 and c_resume = ref 0 and c_resume_other = ref 0 and c_items = ref 0 and c_jobs = ref 0 and c_noreg = ref 0 and c_queued_behind = ref 0 and c_pollfn_gone_job = ref 0

let replay (p : pinfo) (evs : ev array) : stats =
  (* the items in the order in which they are made available (PRODUCE markers), each with its script: item x is slow iff the
     op that produced it is g; the producing op is found through the caller (api CALLER) that logged the marker *)
  let items =
    let caller_of : (int, int) Hashtbl.t = Hashtbl.create 8 in
    let rest = Array.copy p.slow in
    let acc = ref [] and cnt = ref 0 in
    Array.iter (fun (e : ev) ->
        if e.kind = "api" && e.cls = "CALLER" then Hashtbl.replace caller_of e.task e.id
        else if e.kind = "api" && e.cls = "PRODUCE" && e.id = p.stream then begin
          let c = (match Hashtbl.find_opt caller_of e.task with Some c -> c | None -> raise (Unsupported "PRODUCE by a task that is no caller")) in
          (match (if c < Array.length rest then rest.(c) else []) with
           | f :: r -> rest.(c) <- r; acc := (nat_of_int !cnt, f) :: !acc; incr cnt
           | [] -> raise (Diverge (Printf.sprintf "caller %d produces more items than its script says" c)))
        end) evs;
    List.rev !acc in
  let s = ref (init items) in
  let st = { steps = 0; labelled = 0; stutters = 0 } in
  let n = Array.length evs in
  let cur = ref 0 in
  let div fmt = Printf.ksprintf (fun m -> raise (Diverge (Printf.sprintf "event %d: %s" !cur m))) fmt in
  (* one model step of actor a whose label must be l *)
  let do_step (a : actor) (l : label) (why : string) =
    (match step_label !s a with
     | Some l' when l' = l -> ()
     | Some l' -> div "%s: model actor %s is at a %s step, the implementation performed a %s section (model: %s; input %s)" why (show_actor a) (show_label l') (show_label l) (show_running !s) (show_input !s)
     | None -> div "%s: model actor %s is not enabled, the implementation performed a %s section (model: %s; input %s)" why (show_actor a) (show_label l) (show_running !s) (show_input !s));
    match step !s a with
    | Some s' -> s := s'; st.steps <- st.steps + 1; if l <> LNone then st.labelled <- st.labelled + 1
    | None -> div "%s: step_label defined but step undefined for %s" why (show_actor a) in
  let wake_at idx = match List.nth_opt !s.wakes idx with Some w -> w | None -> div "no wake thread %d in the model" idx in
  (* silent steps of the runner: finish an operation, dequeue the next, run an opaque one; stops in front of JNew *)
  let settle_run () =
    let rec go guard =
      if guard = 0 then div "too many silent runner steps";
      match !s.running with
      | Some (OPoll _, JNew) -> ()
      | Some (OPoll _, (JLockPf | JPoll | JProc _ | JSusp _ | JClear)) -> ()
      | _ -> (match step_label !s ARun with Some LNone -> do_step ARun LNone "silent runner step"; go (guard - 1) | _ -> ()) in
    go 100 in
  (* identities learnt from the log *)
  let pipeobjs = ref [] in                      (* ids of the pipeobj mutexes in creation order: stream, process *)
  let pollfn_id = ref (-1) in
  let created = ref false in
  let runner = ref (-1) and susp_task = ref (-1) in
  let just_processed : (int, bool) Hashtbl.t = Hashtbl.create 8 in   (* the task's last pipe event was a process section *)
  let pend_call : (int, int) Hashtbl.t = Hashtbl.create 8 in      (* task -> its wake thread, still to call the waker *)
  let pend_take : (int, int) Hashtbl.t = Hashtbl.create 8 in      (* task -> its wake thread, upgrade failed, still to take poll_fn *)
  let drop_seen = ref false and drop_applied = ref false in
  (* the implementation's observable state, recomputed from the raw log only *)
  let impl_processed = ref 0 and impl_pollfn = ref true and impl_susp = ref false in
  let after_wake : (int, bool) Hashtbl.t = Hashtbl.create 8 in    (* task has called a waker and not started a job / a new input event since *)
  let job_pollfn = ref 0 in                                        (* pollfn sections inside the current poll job (by whichever tasks poll it) *)
  (* did the upgrade of the wake that task t has just started succeed?  (see the header) *)
  let lookahead t =
    let rec go j =
      if j >= n then UOk else
        let e = evs.(j) in
        if e.task <> t then go (j + 1)
        else if e.kind = "cs" && e.cls = "pollfn" then UFail
        else if (e.kind = "new" || e.kind = "cs") && e.cls = "pwaker" then UOk
        else if e.kind = "api" then UOk
        else go (j + 1) in
    go (!cur + 1) in
  let flush_wakes () =
    List.iteri (fun idx w -> match w with
        | WEnq -> do_step (AWake (nat_of_int idx)) LNone "flush enqueue"; do_step (AWake (nat_of_int idx)) LNone "flush drop of the temporary Arc"
        | WDropRc -> do_step (AWake (nat_of_int idx)) LNone "flush drop of the temporary Arc"
        | _ -> ()) !s.wakes in
  (* The upgrade of a wake thread is silent in the log and is taken LAZILY: after its pwaker section the thread stays at
     WUpgrade until evidence of the outcome arrives - the task's own next pipe event (a pollfn section = the take of l.155:
     the upgrade failed; anything else: it succeeded), a poll job started by some task that the model has not queued yet,
     or another thread's failed upgrade (after which no upgrade can succeed: every thread that will not take poll_fn has
     succeeded before).  The DROPOBJ markers that count are those seen up to that point. *)
  let pend_upg : (int, int) Hashtbl.t = Hashtbl.create 8 in       (* task -> its wake thread, context taken, upgrade not yet decided *)
  let resolve_ok t idx =
    Hashtbl.remove pend_upg t;
    if i !s.strong = 0 then div "task %d scheduled a poll job after its wake (no poll_fn take follows), but the model's strong count is 0: the upgrade must fail" t;
    incr c_upg_ok; (match !s.running with Some (OPoll _, (JNew | JLockPf | JPoll | JProc _ | JClear)) -> incr c_queued_behind | _ -> ());
    do_step (AWake (nat_of_int idx)) LNone "upgrade";
    do_step (AWake (nat_of_int idx)) LNone "enqueue of the poll job";
    do_step (AWake (nat_of_int idx)) LNone "drop of the temporary Arc" in
  let candidates () =     (* undecided threads that will not take poll_fn, oldest first *)
    List.sort compare (Hashtbl.fold (fun t idx acc -> if lookahead t = UOk then (idx, t) :: acc else acc) pend_upg []) in
  let resolve_fail t idx =
    Hashtbl.remove pend_upg t;
    List.iter (fun (idx', t') -> resolve_ok t' idx') (candidates ());
    flush_wakes ();
    if not !drop_applied then begin
      if not !drop_seen then div "task %d takes poll_fn after its wake (the upgrade failed) but the program has not dropped the object" t;
      do_step AEnvDrop LNone "last external owner drops"; drop_applied := true; incr c_drop
    end;
    if i !s.strong <> 0 then div "task %d: the upgrade failed in the implementation but the model's strong count is %d" t (i !s.strong);
    incr c_upg_fail;
    do_step (AWake (nat_of_int idx)) LNone "failed upgrade";
    Hashtbl.replace pend_take t idx in
  (* the task's own next pipe event decides its pending upgrade *)
  let decide_own t (is_pollfn : bool) =
    match Hashtbl.find_opt pend_upg t with
    | Some idx -> if is_pollfn then resolve_fail t idx else resolve_ok t idx
    | None -> () in
  let after_call t idx =
    match wake_at idx with
    | WUpgrade -> Hashtbl.replace pend_upg t idx
    | WDone -> ()
    | w -> div "wake thread %d is at %s after its call" idx (show_wpc w) in
  let input_event t (a : actor) (name : string) =
    (match Hashtbl.find_opt pend_call t with
     | Some idx -> div "task %d performs %s but the model still expects it to call the waker it took at its previous input event (wake thread %d at %s)" t name idx (show_wpc (wake_at idx))
     | None -> ());
    Hashtbl.replace after_wake t false;
    (* an item pushed after the close: the harness stream accepts it, the model's input does not.  If the pipe never polls
       the stream again the item is invisible to it and the event is no input event of the model; otherwise give up *)
    let polled_later () =
      let sid = (match !pipeobjs with sid :: _ -> sid | [] -> -1) in
      let rec go j = j < n && ((evs.(j).kind = "cs" && evs.(j).cls = "pipeobj" && evs.(j).id = sid) || (evs.(j).kind = "new" && evs.(j).cls = "pipeobj") || go (j + 1)) in
      go (!cur + 1) in
    if step !s a = None && !s.ended && not (polled_later ()) then incr c_late
    else begin
      let before = List.length !s.wakes in
      (match step !s a with
       | Some _ -> ()
       | None ->
         if !s.ended then raise (Unsupported (name ^ " after the input was closed and the pipe polls the stream afterwards (the harness stream still yields the item, the model's environment has no such event)"))
         else div "%s: the model's environment cannot do this (input %s)" name (show_input !s));
      do_step a LNone name;
      if List.length !s.wakes = before + 1 then Hashtbl.replace pend_call t before else incr c_noreg
    end in
  for k = 0 to n - 1 do
    cur := k;
    let e = evs.(k) in
    let t = e.task in
    (match e.kind, e.cls with
     | "api", "COOPYIELD" -> ()
     | "cs", ("pollfn" | "pwaker" | "pipeobj") | "new", "pwaker" -> Hashtbl.replace just_processed t false
     | _ -> ());
    (match e.kind, e.cls with
     | "cs", "pollfn" -> decide_own t true
     | "api", _ | "cs", "pwaker" | "new", "pwaker" | "cs", "pipeobj" -> decide_own t false
     | _ -> ());
    match e.kind, e.cls with
    | "new", "pipeobj" -> pipeobjs := !pipeobjs @ [ e.id ]
    | "new", "pollfn" ->
      if !created then raise (Unsupported "a second PipeContext");
      created := true; pollfn_id := e.id;
      (* the initial PipeContext::poll(context) of pipe_in: the caller holds the Arc, the upgrade succeeds *)
      (match wake_at 0 with WUpgrade -> () | w -> div "initial poll: wake thread 0 is at %s" (show_wpc w));
      if i !s.strong = 0 then div "pipe_in called but the model's object has no owner";
      do_step (AWake O) LNone "initial upgrade"; do_step (AWake O) LNone "initial enqueue"; do_step (AWake O) LNone "initial drop of the temporary Arc"
    | "api", "PRODUCE" when e.id = p.stream -> input_event t AEnvAvail "PRODUCE"
    | "api", "CLOSE" when e.id = p.stream -> input_event t AEnvEnd "CLOSE"
    | "api", "COOPYIELD" ->
      (* the processing future of a slow item wakes its own waker and returns Pending *)
      (* (other futures on the object may yield co-operatively too: the marker is the pipe's iff the task's previous pipe
         event was the process section) *)
      if Hashtbl.find_opt just_processed t = Some true then begin
        Hashtbl.replace just_processed t false;
        match !s.running with
        | Some (OPoll _, JSusp _) when t = !runner && not !impl_susp -> impl_susp := true; susp_task := t; decr impl_processed; incr c_susp
        | _ -> div "the implementation's processing of an item yields co-operatively, but the model's item is not slow / not in hand (%s)" (show_running !s)
      end
    | "api", "DROPOBJ" when e.id = p.obj -> drop_seen := true; Hashtbl.replace after_wake t false
    | "api", _ -> Hashtbl.replace after_wake t false
    | "cs", "pwaker" ->
      Hashtbl.replace after_wake t true;
      (match Hashtbl.find_opt pend_call t with
       | None -> div "task %d calls PipeWaker %d, but in the model the input held no waker when this task last changed the input (input %s)" t e.id (show_input !s)
       | Some idx ->
         (match wake_at idx with
          | WCall kk when i kk = e.id -> ()
          | w -> div "task %d calls PipeWaker %d, the model's wake thread %d is at %s" t e.id idx (show_wpc w));
         Hashtbl.remove pend_call t;
         do_step (AWake (nat_of_int idx)) LPipeWaker "PipeWaker::wake";
         after_call t idx)
    | "new", "pwaker" ->
      Hashtbl.replace after_wake t false; job_pollfn := 0;
      settle_run ();
      (* a job the model has not queued yet: some undecided wake thread has succeeded *)
      let rec need () = match !s.running with
        | Some (OPoll _, JNew) -> ()
        | None when !s.opq = [] -> (match candidates () with (idx', t') :: _ -> resolve_ok t' idx'; settle_run (); need () | [] -> ())
        | _ -> () in
      need ();
      (match !s.running with
       | Some (OPoll kk, JNew) when i kk = e.id -> ()
       | _ -> div "task %d starts poll job %d (creates its PipeWaker), model: %s" t e.id (show_running !s));
      incr c_jobs; do_step ARun LNone "PipeWaker created";
      runner := t
    | "cs", "pollfn" ->
      if e.id <> !pollfn_id then div "pollfn mutex %d is not the pipe's (%d)" e.id !pollfn_id;
      (* implementation side, from the raw log *)
      (if Hashtbl.find_opt after_wake t = Some true then impl_pollfn := false
       else begin
         incr job_pollfn; if !job_pollfn >= 2 then impl_pollfn := false
       end);
      (match Hashtbl.find_opt pend_take t with
       | Some idx -> Hashtbl.remove pend_take t; incr c_take; do_step (AWake (nat_of_int idx)) LPollFn "poll_fn take after a failed upgrade"
       | None ->
         if t <> !runner then div "task %d locks poll_fn but is neither the task running the poll job (task %d) nor a wake thread whose upgrade failed (model: %s)" t !runner (show_running !s);
         (match !s.running with Some (_, JClear) -> incr c_clear | Some (_, JLockPf) when not !s.pollfn -> incr c_pollfn_gone_job | _ -> ());
         do_step ARun LPollFn "poll_fn section of the poll job")
    | "cs", "pipeobj" ->
      Hashtbl.replace after_wake t false;
      (match !pipeobjs with
       | [ sid; pid ] ->
         (* a suspended poll job is re-polled by whichever task drains the queue: the silent resume step, and that task
            is the runner from now on *)
         (match !s.running with
          | Some (OPoll _, JSusp _) when e.id = sid ->
            if not !impl_susp then div "model: an item is suspended, but the implementation logged no COOPYIELD";
            do_step ARun LNone "re-poll of the suspended poll job"; runner := t; impl_susp := false; incr impl_processed; incr c_resume;
            if t <> !susp_task then incr c_resume_other
          | Some (OPoll _, JSusp _) -> div "task %d locks pipeobj %d while an item is suspended: the re-polled poll job must go on with poll_next (%s)" t e.id (show_running !s)
          | _ -> if !impl_susp then div "task %d locks pipeobj %d after a COOPYIELD, but the model has no suspended item (%s)" t e.id (show_running !s));
         if t <> !runner then div "task %d locks pipeobj %d but the poll job is run by task %d" t e.id !runner;
         if e.id = sid then begin
           (if !s.ready = [] then (if !s.ended then incr c_none else incr c_pending) else incr c_items);
           do_step ARun LStream "poll_next" end
         else if e.id = pid then begin
           incr impl_processed; do_step ARun LProcess "processing closure"; Hashtbl.replace just_processed t true
         end
         else div "unknown pipeobj mutex %d" e.id
       | _ -> div "pipeobj section before both mutexes of pipe_in were created")
    | _ -> ()
  done;
  cur := n;
  (* ---------- the end of the log (api END): every caller has finished its script ---------- *)
  Hashtbl.iter (fun t idx -> div "at END: in the model task %d still has to call the waker it took (wake thread %d at %s), the implementation's task has finished" t idx (show_wpc (wake_at idx))) pend_call;
  Hashtbl.iter (fun t idx -> div "at END: in the model task %d still has to take poll_fn (wake thread %d)" t idx) pend_take;
  List.iter (fun (idx', t') -> resolve_ok t' idx') (candidates ());
  Hashtbl.iter (fun t idx -> div "at END: in the model task %d has an undecided upgrade (wake thread %d)" t idx) pend_upg;
  settle_run ();
  flush_wakes ();
  (match step_label !s AChute with Some LNone -> do_step AChute LNone "chute" | _ -> ());
  let model_processed = List.map (fun x -> i (fst x)) (processed !s.log) in
  if List.length model_processed <> !impl_processed then div "at END: the implementation processed %d items, the model %d" !impl_processed (List.length model_processed);
  List.iteri (fun j x -> if x <> j then div "at END: the model processed item %d at position %d" x j) model_processed;
  (match !s.running with
   | Some (OPoll _, JSusp _) -> if not !impl_susp then div "at END: the model has a suspended item, the implementation has not"
   | _ -> if !impl_susp then div "at END: the implementation has a suspended item, the model has not (%s)" (show_running !s));
  if !created && !s.pollfn <> !impl_pollfn then div "at END: poll_fn is %s in the implementation and %s in the model" (if !impl_pollfn then "present" else "None") (if !s.pollfn then "present" else "None");
  if !created && p.has_z && not !s.released then div "at END: the implementation has released stream and closure (Z returned), the model has not (%s; poll_fn %b, chute %b)" (show_running !s) !s.pollfn !s.chute;
  st

let () =
  let files = Array.sub Sys.argv 1 (Array.length Sys.argv - 1) in
  let ok = ref 0 and bad = ref 0 and skipped = ref 0 and steps = ref 0 and labelled = ref 0 and stutters = ref 0 and events = ref 0 in
  Array.iter (fun file ->
      let ic = open_in file in
      let prog = ref "" and status = ref "" and evs = ref [] in
      (try while true do
           let l = input_line ic in
           if String.length l > 7 && String.sub l 0 7 = "# prog " then prog := String.sub l 7 (String.length l - 7)
           else if String.length l > 9 && String.sub l 0 9 = "# status " then status := String.sub l 9 (String.length l - 9)
           else if String.length l > 0 && l.[0] = '#' then ()
           else match String.split_on_char '\t' l with
             | [t; kind; cls; id; snap] ->
               if kind = "api" && cls = "END" then raise End_of_file;
               evs := { task = int_of_string t; kind; cls; id = int_of_string id; snap } :: !evs
             | _ -> ()
         done with End_of_file -> close_in ic);
      let evs = Array.of_list (List.rev !evs) in
      if String.length !status < 2 || String.sub !status 0 2 <> "ok" then begin incr skipped; Printf.printf "SKIP\t%s\tstatus %s\n" file !status end
      else
        (try
           let p = parse_prog !prog in
           let st = replay p evs in
           incr ok; steps := !steps + st.steps; labelled := !labelled + st.labelled; stutters := !stutters + st.stutters; events := !events + Array.length evs;
           Printf.printf "OK\t%s\t%d\t%d\n" file st.steps st.labelled
         with
         | Diverge msg -> incr bad; Printf.printf "DIVERGE\t%s\t%s\t%s\n" file !prog msg
         | Unsupported why -> incr skipped; Printf.printf "SKIP\t%s\t%s\n" file why)) files;
  Printf.printf "COVER\tpoll_jobs=%d\tpoll_item=%d\tpoll_pending=%d\tpoll_none=%d\tclear=%d\tjob_finds_pollfn_none=%d\tevents_without_waker=%d\tupgrade_ok=%d\tenqueued_while_job_in_body=%d\tupgrade_failed=%d\tlast_owner_drop=%d\ttake=%d\tlate_items_never_polled=%d\tsuspended=%d\tresumed=%d\tresumed_by_other_task=%d\n"
    !c_jobs !c_items !c_pending !c_none !c_clear !c_pollfn_gone_job !c_noreg !c_upg_ok !c_queued_behind !c_upg_fail !c_drop !c_take !c_late !c_susp !c_resume !c_resume_other;
  Printf.printf "SUMMARY\tok=%d\tdiverged=%d\tskipped=%d\tmodel_steps=%d\tlabelled_steps=%d\tstutters=%d\tevents=%d\n" !ok !bad !skipped !steps !labelled !stutters !events
