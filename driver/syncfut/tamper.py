#!/usr/bin/env python3
"""Tampering experiment for the future_sync replay driver: for each given log and each position of a oneshot operation
(os ...), a result-cell section (cs fres) or a harness marker (sf ...) before `api END`, write copies with that line
deleted / duplicated and, for sections, with the whole section (acq + cs lines) deleted / duplicated; replay all copies
and report how many the driver rejects.
usage: tamper.py <outdir> log..."""
import sys, os, subprocess, collections
out = sys.argv[1]; os.makedirs(out, exist_ok=True)
here = os.path.dirname(os.path.abspath(__file__))
files = []
for f in sys.argv[2:]:
    lines = open(f).read().split('\n')
    end = next((i for i, l in enumerate(lines) if '\tapi\tEND\t' in l), len(lines))
    # the channels and result cells of the future_sync calls (created by the calling task right before sf YNEW)
    ychan, yfres, last = set(), set(), {}
    for l in lines[:end]:
        c = l.split('\t')
        if len(c) != 5: continue
        if c[1] == 'new' and c[2] == 'oneshot': last.setdefault(c[0], {'os': [], 'fres': None})['os'].append(c[3])
        if c[1] == 'new' and c[2] == 'fres': last.setdefault(c[0], {'os': [], 'fres': None})['fres'] = c[3]
        if c[1] == 'sf' and c[2] == 'YNEW' and c[0] in last:
            ychan.update(last[c[0]]['os'][-2:]); yfres.add(last[c[0]]['fres'])
    for i, l in enumerate(lines[:end]):
        c = l.split('\t')
        if len(c) != 5: continue
        sec = c[1] == 'cs' and c[2] == 'fres' and c[3] in yfres
        op = c[1] == 'os' and c[3] in ychan
        marker = c[1] == 'sf'
        if not (sec or op or marker): continue
        what = 'fres' if sec else ('os-' + c[2] if op else 'sf-' + c[2])
        base = os.path.basename(f)[:-4]
        variants = [('del', lines[:i] + lines[i+1:]), ('dup', lines[:i+1] + [l] + lines[i+1:])]
        if sec:
            a = next((j for j in range(i - 1, -1, -1) if lines[j].split('\t')[:1] == c[:1] and lines[j].split('\t')[1:4] == ['acq', c[2], c[3]]), None)
            if a is not None:
                variants = [('delsec', lines[:a] + lines[a+1:i] + lines[i+1:]), ('dupsec', lines[:i+1] + [lines[a], l] + lines[i+1:])]
        for kind, new in variants:
            name = '%s/%s_%s_%d_%s.log' % (out, base, kind, i, what)
            open(name, 'w').write('\n'.join(new)); files.append((name, kind, what))
res = {}
for k in range(0, len(files), 400):
    o = subprocess.run([here + '/_build/replay_syncfut'] + [f[0] for f in files[k:k+400]], capture_output=True, text=True).stdout
    for l in o.split('\n'):
        c = l.split('\t')
        if c[0] in ('OK', 'DIVERGE', 'SKIP'): res[c[1]] = c[0]
tab = collections.Counter()
for name, kind, what in files: tab[(kind, what, res.get(name, '?'))] += 1
for k in sorted(tab): print('%s\t%s\t%s\t%d' % (k + (tab[k],)))
tot = collections.Counter(res.values())
print('TOTAL\ttampered=%d\trejected=%d\taccepted=%d\tskipped=%d' % (len(files), tot['DIVERGE'], tot['OK'], tot['SKIP']))
for name, kind, what in files:
    if res.get(name) == 'OK': print('ACCEPTED\t' + name)
