(* Correspondence check, implementation -> model, for `future_sync` (C08): replays the log of one execution of the real
   crate (oneshot operations `os`, SchedulerFuture result sections `cs fres`, harness markers `sf ...`) on the extracted
   model of coq/theories/SyncFut/Model.v (syncfutmodel.ml) with the field order of the code (code_facts).

   Every `future_sync` call of the log (harness marker `sf YNEW oid`, by the task that created two oneshot channels and a
   result cell just before) is replayed on its own model instance; all other operations on the same object (D/S/T/F and other
   Y) are the model's `Other k` operations: those whose body starts (sf OSTART) before the slot job's first action are the
   `before` operations, the later ones the `after` operations.

   Mapping of log events to model steps (T = the task that called future_sync, runner = the task that executes the slot job)
     sf POLL (T)            ATask at PIdle (silent): block_on polls; the model's task must have been woken (`pollable`)
     cs fres f (T)          LSfPoll: ATask / ADrain at PLoop (first section of SchedulerFuture::poll; ADrain iff T's next own
                            event is another `cs fres f`, the take at the top of drain_queue's loop), ATask at PDrainLoop,
                            PDrainPend, PDrainWaker
     os poll ready (T)      LReadyPoll at PReadyPoll, result pending/value compared
     sf OSTART oid (T)      PCreate (silent): create_future()
     sf EVPOLL e (T)        LEvent at PUser (the user future awaits event e), result ready/pending compared; the silent steps
                            before it (the user future's poll begins, touches) are taken lazily
     sf OEND oid finished   PUser with an empty script (silent): the user future completes
     os send fin (T)        LFinSend at PFinSend
     sf DROPFUT (T)         ADrop (LDrop); then lazily PDropState (LDrop: `os rxdrop ready` in WaitingForQueue, `sf OEND oid cancelled`
                            in WaitingForFuture, no event otherwise) and PDropFin (LDrop: `os txdrop fin` if the sender is held)
     slot job, by runner    dequeue (LQueue, lazily before S1) ; os send ready = LReadySend ; os poll fin = LFinPoll (result compared) ;
                            cs fres f = LSfSignal, followed by one more `cs fres f` of the same task (Drop of the signaller:
                            not a model step).  The runner is AQueue, or ATask at PDrainJob when the runner is T itself.
     sf FIRE e              AEvent e (LEvent)
     other operations       D/S/T/F: sf OSTART / sf OEND of their bodies; another future_sync on the object: its slot job, from its
                            queue_ready send to the drop of its done_recv.  LQueue steps OStart / OFinish of the model's queue.
                            When T's drain_queue runs one and then goes on to its Pending path (`cs fres f` while the model has the
                            other operation in progress) the operation has returned Pending: AOSusp (silent).  A suspended other
                            operation is resumed by AOWake (silent; inferred when a background runner continues it, or when T is
                            polled again although nothing else has woken it: the DoubleWaker of drain_queue).
     a runner polls done_recv of a parked slot job without any wake-up: AWakeQ (silent) first (a pool thread took the queue in
                            state WaitingForPoll from a stale entry of the schedule)
   Not model steps: `os rxdrop` of the ready receiver after Ready (folded into PCreate; checked: exactly once, before the user
   future is polled), `os rxdrop` of done_recv (checked: exactly once, between its resolution and the signal), the second
   `cs fres f` of the signalling task, all `cs core` / dwaker / dblwaker sections (the queue is abstract in the model).
   `os send` / `os txdrop` lines are written AFTER the operation, whose wake-ups contain scheduling points: a poll by the
   woken task may be logged before them.  When a logged poll result (or a poll by block_on) needs a send/drop that the model
   has not seen yet, the first later `os send`/`os txdrop` line of that channel is replayed at once (counted as pull_forward).
   At the end the observables recomputed from the log (user future started / finished / cancelled, result, dropped, slot
   started / ended, and the order of all these and of the other operations' starts and ends; the future "resolves" at T's last
   section on the result cell before the harness reports Ok) are compared with the model's ghost log.
   Body primitives c and o<e>-<e2> of the future_sync are played with PRIVATE events of the model (numbered from the program's ev on):
     c            UAwait x: `api COOPYIELD` = the await finds x not fired (LEvent), then x fires at once (AEvent x: CoopYield wakes its
                  own waker during the poll); the second, silent poll of CoopYield is the await of the fired x (taken lazily)
     o<e>-<e2>    UAwait x, where x fires in the model together with the first of e, e2 (sf/api FIRE); `api EITHERREG e e2` /
                  `api EITHERREADY e` = the await of x, pending / ready (LEvent, compared).  The waker left behind on the other
                  event is called when that one fires: AWake (counted as stale_waker_called) while the call is still alive.
   The future modes k<n>l<m> need nothing special: the drop point is the marker sf DROPFUT.  With them a `queue_ready.send` that
   returned ok can have its line after the lines of the drop: it is replayed before the receiver's drop.
   Mode i (run-on-wake executor) of OTHER futures: their polls are made inside wake-up calls, also inside T's own
   `task_finished.send` / sender drop.  Between the early replay of such a line of T and the line itself, what T's thread does is
   attributed to a foreign runner, not to T's poll (counted as inline_poll_inside_T_wake when an api INLINEWAKE lies in between).
   A call whose body has other primitives, or on whose object a stream is piped (I/J) or a future is awaited with .sync() (F..s:
   those queue jobs have no marker) is not replayed but still is an `other operation` for the other calls of the log; the log is
   SKIPped only if none of its calls can be replayed.
   SKIP also: status not ok; no future_sync; future_sync nested in a body; suspend (U, u: queue-level objects).
   A poll by block_on without the model's task having been woken is accepted (AWake, counted as wake_delivered_late) only if
   an earlier wake-up of the task found it already woken: the calls of wakers are not atomic with the steps that take them.
   Blind spots (tamper.py): sf FIRE of an event nobody waits for afterwards, or fired twice; markers of other operations (an
   operation whose OSTART is deleted vanishes); the signal section vs. the signaller's Drop section (indistinguishable: no
   snapshot); spurious polls of a parked done_recv (the model allows any number).
   Usage: replay_syncfut [--swapped] [--trace] [--single] file.log ...   (--single: skip logs with several future_sync on one object) *)
open Syncfutmodel

let rec nat_of_int n = if n <= 0 then O else S (nat_of_int (n - 1))
let rec int_of_nat = function O -> 0 | S n -> 1 + int_of_nat n
let i = int_of_nat

type ev = { task : int; kind : string; cls : string; id : int; snap : string; mutable used : bool }
exception Diverge of string
exception Unsupported of string

let facts = ref code_facts
let trace = ref false
let single = ref false

(* ---------- program text ---------- *)
(* body primitives: touch, await event, co-operative yield, await either of two events *)
type bprim = BT | BW of int | BC | BO of int * int
type yop = { yobj : int; ybody : bprim list option }
type pinfo = { nev : int; ys : yop list array (* per caller, top-level Y operations in order *); has_u : bool; sync_objs : int list (* objects with a future awaited by .sync() *);
               pipe_objs : int list (* objects a stream is piped into / through *) }

let parse_prog (text : string) : pinfo =
  let parts = Array.of_list (String.split_on_char '|' text) in
  let header = parts.(0) in
  let nev = (try Scanf.sscanf (List.find (fun w -> String.length w > 3 && String.sub w 0 3 = "ev=") (String.split_on_char ' ' header)) "ev=%d" (fun x -> x) with _ -> 0) in
  let has_u = ref false and sync_objs = ref [] and pipe_objs = ref [] in
  let num s from = let n = String.length s in let j = ref from in
    while !j < n && s.[!j] >= '0' && s.[!j] <= '9' do incr j done;
    (int_of_string (String.sub s from (!j - from)), !j) in
  let parse_body (b : string) : bprim list option =
    let n = String.length b in
    let rec go j acc =
      if j >= n then Some (List.rev acc)
      else match b.[j] with
        | 't' -> go (j + 1) (BT :: acc)
        | 'c' -> go (j + 1) (BC :: acc)
        | 'w' -> let (e, j') = num b (j + 1) in go j' (BW e :: acc)
        | 'o' -> let (e, j1) = num b (j + 1) in
          if j1 < n && b.[j1] = '-' then (let (e2, j2) = num b (j1 + 1) in go j2 (BO (e, e2) :: acc)) else None
        | _ -> None in
    (try go 0 [] with _ -> None) in
  let ys = Array.init (Array.length parts - 1) (fun c ->
      let toks = List.filter (fun x -> x <> "") (String.split_on_char ' ' parts.(c + 1)) in
      List.concat_map (fun t ->
          if t.[0] = 'U' || t.[0] = 'u' || t.[0] = 'C' then has_u := true;
          if t.[0] = 'I' || t.[0] = 'J' then pipe_objs := fst (num t 1) :: !pipe_objs;
          if (t.[0] = 'F' || t.[0] = 'A') && t.[String.length t - 1] = 's' then sync_objs := fst (num t 1) :: !sync_objs;
          let inner = (try let a = String.index t '[' in String.sub t (a + 1) (String.rindex t ']' - a - 1) with Not_found -> "") in
          if t.[0] <> 'Y' && String.contains inner 'Y' then raise (Unsupported "future_sync nested in another operation's body");
          if t.[0] = 'Y' then begin
            let (q, _) = num t 1 in
            [ { yobj = q; ybody = parse_body inner } ] end
          else []) toks) in
  { nev; ys; has_u = !has_u; sync_objs = !sync_objs; pipe_objs = !pipe_objs }

(* ---------- printing ---------- *)
let show_pc = function
  | PIdle -> "PIdle" | PLoop -> "PLoop" | PDrainLoop -> "PDrainLoop" | PDrainJob -> "PDrainJob" | PDrainPend -> "PDrainPend"
  | PDrainWaker -> "PDrainWaker" | PReadyPoll -> "PReadyPoll" | PCreate -> "PCreate" | PUser -> "PUser" | PFinSend -> "PFinSend"
  | PErrSend -> "PErrSend" | PErrDropRx -> "PErrDropRx" | PDone -> "PDone" | PDropState -> "PDropState" | PDropFin -> "PDropFin"
  | PGone -> "PGone" | PPanic -> "PPanic"
let show_sst = function SWaitQueue -> "WaitingForQueue" | SWaitFuture -> "WaitingForFuture" | SWaitSched _ -> "WaitingForScheduler" | SCompleted -> "Completed"
let show_cur = function CNone -> "none" | COther k -> Printf.sprintf "Other %d" (i k) | CSlot QS1 -> "Slot S1" | CSlot QS2 -> "Slot S2" | CSlot QS3 -> "Slot S3"
let show_label = function
  | Some LReadySend -> "ready.send" | Some LReadyPoll -> "ready.poll" | Some LFinSend -> "fin.send" | Some LFinPoll -> "fin.poll"
  | Some LSfPoll -> "sf.poll" | Some LSfSignal -> "sf.signal" | Some LEvent -> "event" | Some LDrop -> "drop" | Some LQueue -> "queue"
  | None -> "silent"
let show_actor = function AQueue -> "AQueue" | ATask -> "ATask" | ADrain -> "ADrain" | AEvent e -> Printf.sprintf "AEvent %d" (i e) | ADrop -> "ADrop" | AWake -> "AWake"
let show_os (c : oneshot) = Printf.sprintf "sent=%b txdrop=%b rxdrop=%b waker=%s" c.o_sent c.o_txdrop c.o_rxdrop
    (match c.o_waker with None -> "none" | Some WTask -> "task" | Some WQueue -> "queue" | Some WBoth -> "both")
let show_state (s : state) =
  Printf.sprintf "T at %s in %s pollable=%b txheld=%b script=%d; queue cur=%s parked=%b next=%s; ready{%s} fin{%s} sf=%s"
    (show_pc s.pc) (show_sst s.sst) s.pollable s.txheld (List.length s.uscr) (show_cur s.cur) s.parked
    (match s.opq with [] -> "-" | Slot :: _ -> "Slot" | Other k :: _ -> Printf.sprintf "Other %d" (i k))
    (show_os s.ready) (show_os s.fin)
    (match s.sf.sf_res with SfNone -> "None" | SfOk -> "Ok" | SfErr -> "Err" | SfReturned -> "Returned")
let show_ev = function
  | OStart k -> Printf.sprintf "S%d" (i k) | OFinish k -> Printf.sprintf "F%d" (i k) | SlotStart -> "slotstart" | SlotEnd -> "slotend"
  | UStart -> "ustart" | UPoll -> "upoll" | UStep -> "ustep" | UFinish _ -> "ufinish" | UCancel -> "ucancel"
  | Ret _ -> "ret" | RetErr -> "reterr" | Dropped -> "dropped"

(* ---------- statistics ---------- *)
type stats = { mutable steps : int; mutable labelled : int }
let cov : (string, int) Hashtbl.t = Hashtbl.create 32
let hit name = Hashtbl.replace cov name (1 + (match Hashtbl.find_opt cov name with Some n -> n | None -> 0))

(* ---------- the future_sync calls of a log ---------- *)
(* [body = None]: the body uses primitives this driver does not interpret; the call is then only an `other operation` for the
   other calls on its object.  c and o are played with private events of the model: [priv] gives, for each private event
   (numbered from the program's ev on), `C or `O (e, e2) *)
type pkind = PC | PO of int * int
type inst = { oid : int; tT : int; cr : int; cf : int; fres : int; obj : int; body : (uprim list * (int * pkind) list) option; at : int (* index of YNEW *) }

let find_instances (p : pinfo) (evs : ev array) : inst list =
  let caller_of : (int, int) Hashtbl.t = Hashtbl.create 8 in
  let last_os : (int, int list) Hashtbl.t = Hashtbl.create 8 and last_fres : (int, int) Hashtbl.t = Hashtbl.create 8 in
  let nth_y : (int, int) Hashtbl.t = Hashtbl.create 8 in
  let res = ref [] in
  Array.iteri (fun k e ->
      match e.kind, e.cls with
      | "api", "CALLER" -> Hashtbl.replace caller_of e.task e.id
      | "new", "oneshot" -> Hashtbl.replace last_os e.task (e.id :: (match Hashtbl.find_opt last_os e.task with Some l -> l | None -> []))
      | "new", "fres" -> Hashtbl.replace last_fres e.task e.id
      | "sf", "YNEW" ->
        let c = (match Hashtbl.find_opt caller_of e.task with Some c -> c | None -> raise (Unsupported "future_sync by a task that is not a caller (nested)")) in
        let n = (match Hashtbl.find_opt nth_y e.task with Some n -> n | None -> 0) in
        Hashtbl.replace nth_y e.task (n + 1);
        let y = (try List.nth p.ys.(c) n with _ -> raise (Unsupported "more future_sync calls in the log than in the caller's script")) in
        let body = (match y.ybody with
            | None -> None
            | Some b ->
              let next = ref p.nev and priv = ref [] in
              let prims = List.map (function
                  | BT -> UTouch | BW e -> UAwait (nat_of_int e)
                  | BC -> let x = !next in incr next; priv := (x, PC) :: !priv; UAwait (nat_of_int x)
                  | BO (e, e2) -> let x = !next in incr next; priv := (x, PO (e, e2)) :: !priv; UAwait (nat_of_int x)) b in
              Some (prims, List.rev !priv)) in
        (match Hashtbl.find_opt last_os e.task, Hashtbl.find_opt last_fres e.task with
         | Some (b :: a :: _), Some f -> res := { oid = e.id; tT = e.task; cr = a; cf = b; fres = f; obj = y.yobj; body; at = k } :: !res
         | _ -> raise (Diverge (Printf.sprintf "event %d: sf YNEW %d without two oneshot channels and a result cell created by task %d" k e.id e.task)))
      | _ -> ()) evs;
  List.rev !res

(* ---------- replay of one future_sync call ---------- *)
let replay_one (p : pinfo) (evs : ev array) (insts : inst list) (y : inst) (st : stats) : unit =
  let n = Array.length evs in
  Array.iter (fun e -> e.used <- false) evs;
  let objs = string_of_int y.obj in
  (* the other operations on the object: D/S/T/F by the markers of their bodies; another future_sync by its slot job
     (first action: its queue_ready send; last channel action: the drop of its done_recv) *)
  let other_ys = List.filter (fun z -> z.oid <> y.oid && z.obj = y.obj) insts in
  let is_y_oid o = List.exists (fun z -> z.oid = o) insts in
  let s1_index = (let r = ref max_int in Array.iteri (fun k e -> if !r = max_int && e.kind = "os" && e.cls = "send" && e.id = y.cr then r := k) evs; !r) in
  let start_at : (int, int) Hashtbl.t = Hashtbl.create 8 and end_at : (int, int) Hashtbl.t = Hashtbl.create 8 in
  let key_num : (string, int) Hashtbl.t = Hashtbl.create 8 in
  let nb = ref 0 and na = ref 0 in
  Array.iteri (fun k e ->
      let start key = (Hashtbl.replace key_num key (!nb + !na); Hashtbl.replace start_at k (!nb + !na); if k < s1_index then incr nb else incr na) in
      let fin key = (match Hashtbl.find_opt key_num key with Some num -> Hashtbl.replace end_at k num | None -> ()) in
      if e.kind = "sf" && e.cls = "OSTART" && e.snap = objs && not (is_y_oid e.id) then start (Printf.sprintf "o%d" e.id)
      else if e.kind = "sf" && e.cls = "OEND" && not (is_y_oid e.id) then fin (Printf.sprintf "o%d" e.id)
      else if e.kind = "os" && e.cls = "send" && List.exists (fun z -> z.cr = e.id) other_ys then start (Printf.sprintf "y%d" e.id)
      else if e.kind = "os" && e.cls = "rxdrop" then
        (match List.find_opt (fun z -> z.cf = e.id) other_ys with Some z -> fin (Printf.sprintf "y%d" z.cr) | None -> ())) evs;
  (* the moment the future resolves: T's last section on the result cell before the harness reports the result *)
  let ret_index = (let r = ref (-1) and stop = ref false in
                   Array.iteri (fun k e -> if not !stop then begin
                       if e.kind = "sf" && e.cls = "YDONE" && e.id = y.oid then (stop := true; if e.snap = "dropped" || e.snap = "err" then r := -1)
                       else if e.kind = "cs" && e.cls = "fres" && e.id = y.fres && e.task = y.tT && k > y.at then r := k end) evs; !r) in
  let (ybody, priv) = (match y.body with Some b -> b | None -> raise (Unsupported "internal: uninterpreted body")) in
  let nev_total = p.nev + List.length priv in
  let s = ref (init true (nat_of_int !nb) (nat_of_int !na) ybody (nat_of_int y.oid) (nat_of_int nev_total)) in
  let fired_in_model x = (match List.nth_opt !s.evs x with Some c -> c.fired | None -> false) in
  let stale : (int, unit) Hashtbl.t = Hashtbl.create 4 in  (* private `either` events with a waker left behind on the partner event *)
  let cur = ref 0 in
  let div fmt = Printf.ksprintf (fun m -> raise (Diverge (Printf.sprintf "future_sync op %d, event %d: %s" y.oid !cur m))) fmt in
  (* wake-ups of T that found it already woken: the call of a waker is not atomic with the step that takes it (e.g. the two
     calls of a DoubleWaker), so such a wake-up may be delivered later and cause one more poll *)
  let merged_wakes = ref 0 in
  let do_step (a : actor) (l : label option) (why : string) =
    (if !s.pollable && a <> AWake then
       match step !facts { !s with pollable = false } a with Some s2 when s2.pollable -> incr merged_wakes | _ -> ());
    match step !facts !s a with
    | None -> div "%s: model actor %s is not enabled, the implementation performed %s (model: %s)" why (show_actor a) (show_label l) (show_state !s)
    | Some s' ->
      let l' = step_label !s a in
      if l' <> l then div "%s: model actor %s is at a %s step, the implementation performed %s (model: %s)" why (show_actor a) (show_label l') (show_label l) (show_state !s);
      if !trace then Printf.printf "  [op %d, event %d] %s (%s): %s\n" y.oid !cur (show_actor a) (show_label l) why;
      s := s'; st.steps <- st.steps + 1; if l <> None then st.labelled <- st.labelled + 1 in
  let runner t =
    if t = y.tT && !s.pc = PDrainJob then ATask
    else begin
      (* a background runner continues a parked operation: it was woken (unobservable for other operations), or it polls again
         without a wake-up (stale schedule entry) *)
      if !s.parked then begin
        if is_other !s.cur && !s.owk <> None then (hit "other_op_resumed"; do_step AOWake None "the suspended other operation is resumed")
        else (hit "parked_queue_polled_again_without_wake"; do_step AWakeQ None "a runner takes the parked queue without a wake-up") end;
      AQueue end in
  let in_user () = (match !s.pc, !s.sst with PUser, _ -> true | PLoop, SWaitFuture -> true | _ -> false) in
  (* silent steps of the user future that leave no trace: its poll begins, touches *)
  let settle_user () =
    (match !s.pc, !s.sst with PLoop, SWaitFuture -> do_step ATask None "future.poll_unpin begins" | _ -> ());
    let continue = ref true in
    while !continue do
      (match !s.pc, !s.uscr with
       | PUser, UTouch :: _ -> do_step ATask None "touch"
       | PUser, UAwait x :: _ when List.mem_assoc (i x) priv && List.assoc (i x) priv = PC && fired_in_model (i x) ->
         do_step ATask (Some LEvent) "the co-operative yield is over (second poll of CoopYield)"
       | _ -> continue := false)
    done in
  (* field drops that leave no trace *)
  let settle_drop () =
    let continue = ref true in
    while !continue do
      (match !s.pc, !s.sst with
       | PDropState, (SWaitSched _ | SCompleted) -> do_step ATask (Some LDrop) "drop(state): nothing to release"
       | PDropFin, _ when not !s.txheld -> do_step ATask (Some LDrop) "drop(task_finished): already used"
       | _ -> continue := false)
    done in
  let active = ref true and sigdrop : int option ref = ref None in
  (* T's own `send` / sender drop whose line was replayed early: until that line, what T's thread does happens inside the
     wake-up calls of that operation (a run-on-wake executor polls another future there), not in T's own poll *)
  let nested_until = ref (-1) in
  let owe_rxdrop_ready = ref false and owe_rxdrop_fin = ref false and in_body = ref false in
  (* the implementation's observables, from the log in log order *)
  let impl_seq = ref [] in
  let push tok = impl_seq := tok :: !impl_seq in
  let poll_result (c : oneshot) = if c.o_sent then "value" else if c.o_txdrop then "canceled" else "pending" in
  (* T's next own event that tells whether SchedulerFuture::poll drains *)
  let lookahead_drain () =
    let rec go j =
      if j >= n then false else
        let e = evs.(j) in
        if e.task <> y.tT || e.used then go (j + 1)
        else if e.kind = "cs" && e.cls = "fres" && e.id = y.fres then true
        else if e.kind = "os" && (e.id = y.cr || e.id = y.cf) then false
        else if e.kind = "sf" then false
        else go (j + 1) in
    go (!cur + 1) in
  let rec handle (k : int) =
    let e = evs.(k) in
    let t = if e.task = y.tT && k < !nested_until then -1 else e.task in
    e.used <- true;
    match e.kind, e.cls with
    | "sf", "POLL" when t = y.tT && !active && k > y.at ->
      if not !s.pollable && !s.parked && is_other !s.cur && !s.owk = Some WBoth && not (in_drain !s.pc) then
        (hit "other_op_resumed_wakes_T"; do_step AOWake None "the other operation suspended in T's drain is resumed");
      if not !s.pollable && !s.ready.o_waker = Some WTask && not !s.ready.o_sent then ignore (pull_forward y.cr "send" "ready_send_before_poll");
      if not !s.pollable && !merged_wakes > 0 then
        (decr merged_wakes; hit "wake_delivered_late"; do_step AWake None "a wake-up that found the task already woken is delivered late");
      if not !s.pollable then div "block_on polls the future, but in the model its task has not been woken since its last poll (model: %s)" (show_state !s);
      do_step ATask None "SyncFuture::poll begins"
    | "sf", "DROPFUT" when t = y.tT && !active && k > y.at ->
      (match !s.pc, !s.sst with
       | PIdle, SWaitQueue -> hit (if e.id = 0 then "drop_before_first_poll" else if !s.ready.o_sent then "drop_slot_reached_future_not_created" else "drop_while_waiting_for_slot")
       | PIdle, SWaitFuture -> hit "drop_mid_operation"
       | PIdle, SWaitSched _ -> hit "drop_after_completion_before_result"
       | _ -> ());
      push "dropped"; do_step ADrop (Some LDrop) "the harness drops the future"
    | "sf", "YDONE" when e.id = y.oid ->
      if not !active then div "the harness reports the end of the future_sync call twice";
      settle_drop ();
      (match e.snap with
       | "dropped" -> if !s.pc <> PGone then div "the future has been dropped, the model's task is at %s (model: %s)" (show_pc !s.pc) (show_state !s)
       | "err" -> div "the future resolved to Err"
       | r ->
         if !s.pc <> PDone then div "the future resolved (%s), the model's task is at %s (model: %s)" r (show_pc !s.pc) (show_state !s);
         if r <> Printf.sprintf "ok %d" (i !s.uval) then div "the future resolved to %s, the model's value is %d" r (i !s.uval));
      active := false
    | "sf", "OSTART" when e.id = y.oid ->
      if !s.pc <> PCreate then div "create_future() ran, the model's task is at %s (model: %s)" (show_pc !s.pc) (show_state !s);
      push "ustart"; do_step ATask None "create_future()"; owe_rxdrop_ready := true; in_body := true
    | "sf", "OEND" when e.id = y.oid ->
      if !owe_rxdrop_ready then div "the user future ends, but the queue_ready receiver has not been dropped after create_future()";
      in_body := false;
      if e.snap = "finished" then begin
        settle_user ();
        (match !s.pc, !s.uscr with PUser, [] -> () | _ -> div "the user future completed, the model's is at %s with %d primitives left" (show_pc !s.pc) (List.length !s.uscr));
        push "ufinish"; do_step ATask None "the user future completes" end
      else begin
        (match !s.pc, !s.sst with PDropState, SWaitFuture -> () | _ -> div "the user future was destroyed unfinished, the model's task is at %s in %s" (show_pc !s.pc) (show_sst !s.sst));
        push "ucancel"; do_step ATask (Some LDrop) "drop(state): the user future is destroyed" end
    | _, _ when Hashtbl.mem start_at k ->
      let num = Hashtbl.find start_at k in
      let r = runner t in
      (match !s.cur, !s.opq with
       | CNone, Other j :: _ when i j = num -> ()
       | _ -> div "another operation (the model's Other %d) starts on the object, but the model's queue is at %s (model: %s)" num (show_cur !s.cur) (show_state !s));
      push (Printf.sprintf "S%d" num);
      hit (if r = ATask then "other_op_run_by_T_draining" else "other_op_run_elsewhere");
      do_step r (Some LQueue) "another operation starts"
    | _, _ when Hashtbl.mem end_at k ->
      let num = Hashtbl.find end_at k in
      let r = runner t in
      (match !s.cur with COther j when i j = num -> () | _ -> div "another operation (Other %d) ends, the model's queue is at %s" num (show_cur !s.cur));
      push (Printf.sprintf "F%d" num);
      do_step r (Some LQueue) "another operation ends"
    | "sf", "EVPOLL" when t = y.tT && !active && (in_user () || !in_body) ->
      if !owe_rxdrop_ready then div "the user future is polled, but the queue_ready receiver has not been dropped after create_future()";
      if not (in_user ()) then div "the user future polls event %d, but the model's task is not polling it (model: %s)" e.id (show_state !s);
      settle_user ();
      (match !s.uscr with
       | UAwait e' :: _ when i e' = e.id -> ()
       | _ -> div "the user future polls event %d, the model's script does not await it next (model: %s)" e.id (show_state !s));
      let fired = (match List.nth_opt !s.evs e.id with Some c -> c.fired | None -> false) in
      if fired <> (e.snap = "ready") then div "the user future found event %d %s, in the model it is %s" e.id e.snap (if fired then "fired" else "not fired");
      hit (if fired then "await_ready" else "await_pending");
      do_step ATask (Some LEvent) "the user future awaits an event"
    | ("sf" | "api"), "FIRE" ->
      (match List.nth_opt !s.evs e.id with
       | Some c when not c.fired && e.id < p.nev ->
         do_step (AEvent (nat_of_int e.id)) (Some LEvent) "event fired";
         (* the select-like await of the body: its model event fires with the first of its two events; the second one calls a stale waker *)
         List.iter (fun (x, kd) -> match kd with
             | PO (e1, e2) when e.id = e1 || e.id = e2 ->
               if not (fired_in_model x) then do_step (AEvent (nat_of_int x)) (Some LEvent) "either-event of the body fired"
               else if Hashtbl.mem stale x && !active then begin
                 Hashtbl.remove stale x; hit "stale_waker_called";
                 do_step AWake None "the second event of a select-like await calls the waker left behind" end
             | _ -> ()) priv
       | _ -> ())
    | "api", "COOPYIELD" when t = y.tT && !active && !in_body ->
      if not (in_user ()) then div "the user future yields co-operatively, but the model's task is not polling it (model: %s)" (show_state !s);
      settle_user ();
      (match !s.uscr with
       | UAwait x :: _ when List.mem_assoc (i x) priv && List.assoc (i x) priv = PC && not (fired_in_model (i x)) ->
         hit "coop_yield";
         do_step ATask (Some LEvent) "CoopYield: Pending";
         do_step (AEvent x) (Some LEvent) "CoopYield: it has woken its own waker"
       | _ -> div "the user future yields co-operatively, the model's script is not at a yield (model: %s)" (show_state !s))
    | "api", ("EITHERREG" | "EITHERREADY") when t = y.tT && !active && !in_body ->
      if not (in_user ()) then div "the user future polls a select-like await, but the model's task is not polling it (model: %s)" (show_state !s);
      settle_user ();
      (match !s.uscr with
       | UAwait x :: _ when List.mem_assoc (i x) priv && (match List.assoc (i x) priv with PO (e1, e2) -> (if e.cls = "EITHERREG" then e.id = e1 && e.snap = string_of_int e2 else e.id = e1 || e.id = e2) | PC -> false) ->
         let f = fired_in_model (i x) in
         if f <> (e.cls = "EITHERREADY") then div "the select-like await of the body is %s, in the model its event is %s" (if e.cls = "EITHERREADY" then "ready" else "pending") (if f then "fired" else "not fired");
         hit (if f then "either_ready" else "either_pending");
         if not f then Hashtbl.replace stale (i x) ();
         do_step ATask (Some LEvent) "select-like await of the body"
       | _ -> div "the user future polls a select-like await, the model's script is not there (model: %s)" (show_state !s))
    | "os", cls when e.id = y.cr -> handle_ready k e cls
    | "os", cls when e.id = y.cf -> handle_fin k e cls
    | "cs", "fres" when e.id = y.fres -> handle_fres k e
    | _ -> ()
  (* a logged poll result needs a send / sender drop that the model has not seen: its line comes later (see the header) *)
  and pull_forward (chan : int) (cls : string) (why : string) : bool =
    let rec go j =
      if j >= n then false else
        let e = evs.(j) in
        if not e.used && e.kind = "os" && e.id = chan && e.cls = cls then begin
          hit ("pull_forward_" ^ why);
          let saved = !cur in handle j; cur := saved;
          if e.task = y.tT && chan = y.cf then (nested_until := j; if Array.exists (fun x -> x.kind = "api" && x.cls = "INLINEWAKE" && x.task = y.tT) (Array.sub evs saved (j - saved)) then hit "inline_poll_inside_T_wake");
          true end
        else go (j + 1) in
    go (!cur + 1)
  and handle_ready (k : int) (e : ev) (cls : string) =
    let t = if e.task = y.tT && k < !nested_until then -1 else e.task in
    match cls with
    | "send" ->
      (* S1 of the slot job; the dequeue of the slot job has no event of its own *)
      (match !s.cur, !s.opq with
       | CNone, Slot :: _ -> do_step (runner t) (Some LQueue) "the slot job is dequeued"
       | _ -> ());
      (match !s.cur with CSlot QS1 -> () | _ -> div "queue_ready is sent, the model's queue is at %s (model: %s)" (show_cur !s.cur) (show_state !s));
      let closed = !s.ready.o_rxdrop in
      if closed <> (e.snap = "closed") then div "queue_ready.send returned %s, in the model the receiver is %s" e.snap (if closed then "dropped" else "alive");
      hit (if closed then "ready_send_closed" else "ready_send_ok");
      hit (if t = y.tT && !s.pc = PDrainJob then "slot_job_run_by_T_draining" else "slot_job_run_elsewhere");
      push "slotstart"; do_step (runner t) (Some LReadySend) "queue_ready_send.send(())"
    | "poll" ->
      if t <> y.tT then div "task %d polls queue_ready, the future belongs to task %d" t y.tT;
      if !s.pc <> PReadyPoll then div "recv.poll_unpin, the model's task is at %s (model: %s)" (show_pc !s.pc) (show_state !s);
      if e.snap = "value" && not !s.ready.o_sent then ignore (pull_forward y.cr "send" "ready_send");
      let exp = poll_result !s.ready in
      if exp <> e.snap then div "recv.poll_unpin returned %s, the model's channel gives %s (model: %s)" e.snap exp (show_state !s);
      hit ("ready_poll_" ^ exp);
      do_step ATask (Some LReadyPoll) "recv.poll_unpin"
    | "rxdrop" ->
      if t <> y.tT then div "task %d drops the queue_ready receiver" t;
      (* a send that returned ok happened before the receiver was dropped, wherever its line is *)
      if not !s.ready.o_sent && Array.exists (fun x -> not x.used && x.kind = "os" && x.cls = "send" && x.id = y.cr && x.snap = "ok") evs then
        ignore (pull_forward y.cr "send" "ready_send_before_receiver_drop");
      (match !s.pc, !s.sst with
       | PDropState, SWaitQueue -> do_step ATask (Some LDrop) "drop(state): the queue_ready receiver is dropped"
       | _ ->
         if not !s.ready.o_rxdrop then div "the queue_ready receiver is dropped, in the model it is still alive (model: %s)" (show_state !s);
         if not !owe_rxdrop_ready then div "the queue_ready receiver is dropped twice";
         owe_rxdrop_ready := false)
    | "txdrop" -> div "the queue_ready sender was dropped unsent (the slot job was destroyed)"
    | _ -> ()
  and handle_fin (k : int) (e : ev) (cls : string) =
    let t = if e.task = y.tT && k < !nested_until then -1 else e.task in
    match cls with
    | "poll" ->
      (match !s.cur with CSlot QS2 -> () | _ -> div "done_recv is polled, the model's queue is at %s (model: %s)" (show_cur !s.cur) (show_state !s));
      if e.snap = "value" && not !s.fin.o_sent then ignore (pull_forward y.cf "send" "fin_send");
      if e.snap = "canceled" && not !s.fin.o_txdrop then ignore (pull_forward y.cf "txdrop" "fin_txdrop");
      let exp = poll_result !s.fin in
      if exp <> e.snap then div "done_recv.poll returned %s, the model's channel gives %s (model: %s)" e.snap exp (show_state !s);
      hit ("fin_poll_" ^ exp ^ (if !s.parked then "_again" else ""));
      do_step (runner t) (Some LFinPoll) "done_recv.poll";
      if exp <> "pending" then owe_rxdrop_fin := true
    | "send" ->
      if t <> y.tT then div "task %d sends task_finished" t;
      if e.snap <> "ok" then div "task_finished.send returned %s" e.snap;
      if !s.pc <> PFinSend then div "task_finished is sent, the model's task is at %s (model: %s)" (show_pc !s.pc) (show_state !s);
      do_step ATask (Some LFinSend) "task_finished.send(())"
    | "txdrop" ->
      if t <> y.tT then div "task %d drops the task_finished sender" t;
      settle_drop ();
      (match !s.pc with PDropFin when !s.txheld -> () | _ -> div "the task_finished sender is dropped, the model's task is at %s txheld=%b (model: %s)" (show_pc !s.pc) !s.txheld (show_state !s));
      do_step ATask (Some LDrop) "drop(task_finished)"
    | "rxdrop" ->
      (* the slot job drops done_recv once it has resolved: not a model step *)
      (match !s.cur with CSlot QS3 -> () | _ -> div "done_recv is dropped, the model's slot job is at %s" (show_cur !s.cur));
      if not !owe_rxdrop_fin then div "done_recv is dropped twice";
      owe_rxdrop_fin := false
    | _ -> ()
  and handle_fres (k : int) (e : ev) =
    let t = if e.task = y.tT && k < !nested_until then -1 else e.task in
    if k = ret_index then push "ret";
    if t = y.tT && !active && !sigdrop <> Some t && !s.pc = PDrainJob && is_other !s.cur then
      (hit "other_op_suspends_in_T_drain"; do_step AOSusp None "the other operation run by drain_queue returns Pending");
    if !sigdrop = Some t then begin sigdrop := None; hit "signaller_drop_section" end
    else if t = y.tT && !active && (match !s.pc, !s.sst with
        | PLoop, (SWaitQueue | SWaitSched _) -> true | (PDrainLoop | PDrainPend | PDrainWaker), _ -> true | _ -> false) then begin
      match !s.pc with
      | PLoop ->
        let drain = lookahead_drain () in
        hit (if !s.sf.sf_res <> SfNone then "sf_poll_ready" else if drain then "sf_poll_drains" else "sf_poll_waits");
        do_step (if drain then ADrain else ATask) (Some LSfPoll) "SchedulerFuture::poll, first section"
      | _ -> do_step ATask (Some LSfPoll) "drain_queue section on the result"
    end else begin
      (match !s.cur with CSlot QS3 -> () | _ -> div "task %d locks the result cell; it is not the polling task at a poll section and the model's slot job is at %s (model: %s)" t (show_cur !s.cur) (show_state !s));
      if !owe_rxdrop_fin then div "the slot job signals, but done_recv has not been dropped";
      push "slotend"; do_step (runner t) (Some LSfSignal) "send.signal(())"; sigdrop := Some t
    end in
  (* ---------- main loop ---------- *)
  for k = 0 to n - 1 do
    cur := k;
    if not evs.(k).used then handle k
  done;
  cur := n;
  if !active then div "at END: the future_sync call has not returned (no sf YDONE)";
  if !sigdrop <> None then hit "signaller_drop_after_END";
  (* ---------- observables ---------- *)
  let model_seq = List.filter_map (fun e -> match e with UPoll | UStep -> None | e -> Some (show_ev e)) !s.log in
  let impl = List.rev !impl_seq in
  if model_seq <> impl then
    div "at END: order of observable events: implementation [%s], model [%s]" (String.concat " " impl) (String.concat " " model_seq)

let () =
  let args = Array.to_list (Array.sub Sys.argv 1 (Array.length Sys.argv - 1)) in
  let files = List.filter (fun a -> match a with
      | "--swapped" -> facts := swapped_facts; false
      | "--trace" -> trace := true; false
      | "--single" -> single := true; false
      | _ -> true) args in
  let ok = ref 0 and bad = ref 0 and skipped = ref 0 and steps = ref 0 and labelled = ref 0 and events = ref 0 and calls = ref 0 and calls_skipped = ref 0 and partial = ref 0 in
  List.iter (fun file ->
      let ic = open_in file in
      let prog = ref "" and status = ref "" and evs = ref [] and ended = ref false in
      (try while true do
           let l = input_line ic in
           if String.length l > 7 && String.sub l 0 7 = "# prog " then prog := String.sub l 7 (String.length l - 7)
           else if String.length l > 9 && String.sub l 0 9 = "# status " then status := String.sub l 9 (String.length l - 9)
           else if String.length l > 0 && l.[0] = '#' then ()
           else match String.split_on_char '\t' l with
             | [t; kind; cls; id; snap] ->
               if kind = "api" && cls = "END" then (ended := true; raise End_of_file);
               evs := { task = int_of_string t; kind; cls; id = int_of_string id; snap; used = false } :: !evs
             | _ -> ()
         done with End_of_file -> close_in ic);
      let evs = Array.of_list (List.rev !evs) in
      if String.length !status < 2 || String.sub !status 0 2 <> "ok" then begin incr skipped; Printf.printf "SKIP\t%s\tstatus %s\n" file !status end
      else if not !ended then begin incr skipped; Printf.printf "SKIP\t%s\tno api END in the log\n" file end
      else
        (try
           let p = parse_prog !prog in
           if p.has_u then raise (Unsupported "suspend (U) in the program: queue-level objects");
           let insts = find_instances p evs in
           if insts = [] then raise (Unsupported "no future_sync call in the log");
           (* a call is replayed unless its body or its object has something this driver cannot see; the other calls of the log are *)
           let why_not y =
             if y.body = None then Some "body of the future_sync uses more than t / w / c / o"
             else if List.mem y.obj p.pipe_objs then Some "a stream is piped into the same object: its poll jobs on the queue are not announced by a marker"
             else if List.mem y.obj p.sync_objs then Some "a future on the same object is awaited with .sync(): its job on the queue is not announced by a marker"
             else None in
           let todo = List.filter (fun y -> why_not y = None) insts in
           List.iter (fun y -> match why_not y with Some w -> (incr calls_skipped; hit ("call_not_replayed: " ^ w)) | None -> ()) insts;
           if todo = [] then raise (Unsupported (match why_not (List.hd insts) with Some w -> w | None -> "?"));
           if !single then begin
             let objs = List.map (fun y -> y.obj) insts in
             if List.length (List.sort_uniq compare objs) <> List.length objs then raise (Unsupported "several future_sync calls on one object (--single)") end;
           let st = { steps = 0; labelled = 0 } in
           List.iter (fun y -> replay_one p evs insts y st) todo;
           incr ok; calls := !calls + List.length todo; (if List.length todo < List.length insts then incr partial);
           steps := !steps + st.steps; labelled := !labelled + st.labelled; events := !events + Array.length evs;
           Printf.printf "OK\t%s\t%d\t%d\t%d\n" file (List.length todo) st.steps (List.length insts - List.length todo)
         with
         | Diverge msg -> incr bad; Printf.printf "DIVERGE\t%s\t%s\t%s\n" file !prog msg
         | Unsupported why -> incr skipped; Printf.printf "SKIP\t%s\t%s\n" file why
         | ex -> incr bad; Printf.printf "DIVERGE\t%s\t%s\tmalformed log (%s)\n" file !prog (Printexc.to_string ex))) files;
  let names = List.sort compare (Hashtbl.fold (fun k _ acc -> k :: acc) cov []) in
  Printf.printf "COVER\t%s\n" (String.concat "\t" (List.map (fun k -> Printf.sprintf "%s=%d" k (Hashtbl.find cov k)) names));
  Printf.printf "FACTS\tstate_dropped_first=%b\n" (f_state_dropped_first !facts);
  Printf.printf "SUMMARY\tok=%d\tdiverged=%d\tskipped=%d\tmodel_steps=%d\tlabelled_steps=%d\tevents=%d\tfuture_sync_calls=%d\tcalls_not_replayed_in_ok_or_skipped_logs=%d\tok_logs_with_a_call_not_replayed=%d\n" !ok !bad !skipped !steps !labelled !events !calls !calls_skipped !partial
