#!/bin/sh
# Extracts the SyncFut model (coq/theories/SyncFut/Model.v) and builds the replay driver.
# The model must have been compiled (cd /verif/coq && make -f Makefile.syncfut).
# Typical use:
#   cd /verif/harness && ./target/release/runner run --profile fsync --count 40 --scheds 5 --seed 3 --logdir /tmp/sfl --no-touch-yield
#   /verif/driver/syncfut/_build/replay_syncfut /tmp/sfl/*.log      # lines OK / DIVERGE / SKIP, then COVER and SUMMARY
#   /verif/driver/syncfut/tamper.py /tmp/sft /tmp/sfl/p0_s0.log ... # deletes / duplicates operations and markers
set -e
cd "$(dirname "$0")"
mkdir -p _build && cd _build
# the Coq development is read only here: the extraction file is compiled on a copy, so that nothing is written next to it
C=${COQDIR:-$(cd ../../../coq && pwd)}
cp $C/theories/SyncFut/ExtractSyncFut.v .
coqc -Q $C/theories/SyncFut SyncFut ExtractSyncFut.v > extract.log 2>&1
cp ../replay_syncfut.ml .
ocamlfind ocamlopt -O2 -w -a -package str syncfutmodel.mli syncfutmodel.ml replay_syncfut.ml -linkpkg -o replay_syncfut 2>/dev/null || ocamlfind ocamlopt -w -a -package str syncfutmodel.mli syncfutmodel.ml replay_syncfut.ml -linkpkg -o replay_syncfut
