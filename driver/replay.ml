(* Correspondence check, implementation -> model: replays the critical-section log of one execution of the real crate
   (written by the harness through src/verif.rs) on the extracted L1 model (l1model.ml, extracted from
   coq/theories/L1/Model.v together with the tables/facts generated from the current source).

   For every logged critical section of task a the model's actor a is stepped through its silent frames until its
   top frame expects that lock, the step is taken, and the snapshot of the protected data logged by the implementation
   must equal the model's.  Read-only sections the model does not have (debug assertions, Debug printing, the reap
   pass) are stutters: their snapshot must equal the model's current view.  Usage: replay file.log ...

   Programs with nested operations (`(op)` in a body) are replayed on the nested model L1n (coq/theories/L1n/Model.v, extracted by
   ExtractL1n.v): every body is an activation; a nested operation is executed by the task that runs the enclosing job, so the
   sections of a task go to the deepest activation of its chain that has been started and has not finished (see [resolve]). *)
open L1nmodel

let rec nat_of_int n = if n <= 0 then O else S (nat_of_int (n - 1))
let rec int_of_nat = function O -> 0 | S n -> 1 + int_of_nat n

type label =
  | Core of int | Sched | Busy of int | Threads | Max | Ready of int | SyncRes of int
  | Wait of int | Woken of int | Kick of int | AcqThreads | AcqSched | AcqBusy of int

type ev = { task : int; kind : string; cls : string; id : int; snap : string; mutable used : bool }

let show_state = function
  | Idle -> "Idle" | Pending -> "Pending" | Running -> "Running" | WaitingForWake -> "WaitingForWake"
  | WaitingForUnpark -> "WaitingForUnpark" | WaitingForPoll _ -> "WaitingForPoll" | AwokenWhileRunning -> "AwokenWhileRunning" | Panicked -> "Panicked"

let show_label = function
  | Core q -> Printf.sprintf "core(%d)" q | Sched -> "sched" | Busy t -> Printf.sprintf "busy(%d)" t | Threads -> "threads" | Max -> "max"
  | Ready w -> Printf.sprintf "ready(actor %d)" w | SyncRes w -> Printf.sprintf "syncres(actor %d)" w | Wait w -> Printf.sprintf "wait(%d)" w
  | Woken w -> Printf.sprintf "woken(%d)" w | Kick w -> Printf.sprintf "kick(actor %d)" w | AcqThreads -> "acq threads" | AcqSched -> "acq sched" | AcqBusy t -> Printf.sprintf "acq busy(%d)" t

exception Diverge of string
let max_waiters = ref 0      (* largest number of sync callers registered on one queue at the same time, so far in this trace *)
exception Unsupported of string
exception Redirect of int        (* nested programs: the task's sections now belong to another activation of its chain *)

(* ---------- program text -> scripts (L1 programs only: D/S/T with body [t]) ---------- *)
let parse_prog (text : string) =
  let parts = String.split_on_char '|' text in
  let head = List.hd parts in
  let kv = List.filter (fun x -> x <> "") (String.split_on_char ' ' head) in
  let get k d = List.fold_left (fun acc x -> match String.split_on_char '=' x with [a; b] when a = k -> int_of_string b | _ -> acc) d kv in
  let nq = get "nq" 1 and pool = get "pool" 0 in
  let scripts = List.map (fun p ->
    List.map (fun tok ->
      let n = String.length tok in
      let j = ref 1 in
      while !j < n && tok.[!j] >= '0' && tok.[!j] <= '9' do incr j done;
      if n < 2 then raise (Unsupported tok);
      let q = nat_of_int (int_of_string (String.sub tok 1 (!j - 1))) in
      if String.sub tok !j (n - !j) <> "[t]" then raise (Unsupported tok);
      match tok.[0] with 'D' -> ODesync q | 'S' -> OSync q | 'T' -> OTrySync q | _ -> raise (Unsupported tok))
      (List.filter (fun x -> x <> "") (String.split_on_char ' ' p))) (List.tl parts) in
  (nq, pool, scripts)

(* programs with nested operations: body = (t | '(' op ')')*  ->  the recursive syntax of L1n *)
let parse_nested (text : string) =
  let parts = String.split_on_char '|' text in
  let head = List.hd parts in
  let kv = List.filter (fun x -> x <> "") (String.split_on_char ' ' head) in
  let get k d = List.fold_left (fun acc x -> match String.split_on_char '=' x with [a; b] when a = k -> int_of_string b | _ -> acc) d kv in
  let nq = get "nq" 1 and pool = get "pool" 0 in
  let parse_tok tok =
    let n = String.length tok in
    let pos = ref 0 in
    let fail () = raise (Unsupported tok) in
    let rec op () =
      if !pos >= n then fail ();
      let c = tok.[!pos] in
      incr pos;
      let j = ref !pos in
      while !j < n && tok.[!j] >= '0' && tok.[!j] <= '9' do incr j done;
      if !j = !pos then fail ();
      let q = nat_of_int (int_of_string (String.sub tok !pos (!j - !pos))) in
      pos := !j;
      if !pos >= n || tok.[!pos] <> '[' then fail ();
      incr pos;
      let b = body () in
      if !pos >= n || tok.[!pos] <> ']' then fail ();
      incr pos;
      (match c with 'D' -> NDesync (q, b) | 'S' -> NSync (q, b) | 'T' -> NTrySync (q, b) | _ -> fail ())
    and body () =
      if !pos >= n then fail ()
      else match tok.[!pos] with
        | 't' -> incr pos; body ()
        | '(' -> incr pos; let o = op () in if !pos >= n || tok.[!pos] <> ')' then fail (); incr pos; o :: body ()
        | ']' -> []
        | _ -> fail () in
    let o = op () in
    if !pos <> n then fail ();
    o in
  let scripts = List.map (fun p -> List.map parse_tok (List.filter (fun x -> x <> "") (String.split_on_char ' ' p))) (List.tl parts) in
  (nq, pool, scripts)

type mode = Plain | Nested of int * act list        (* number of top-level callers, the flattened program *)

(* ---------- what each frame does to which lock (events are logged at the END of a critical section) ---------- *)
let i = int_of_nat
let job_labels = function JPlain _ -> [] | JSyncDrain (_, c) -> [ (SyncRes (i c), false) ] | JSyncBg (_, c) -> [ (SyncRes (i c), false); (Ready (i c), false) ]

(* what the frame's model step corresponds to in the log: sections that come BEFORE the point where the step takes
   effect (pre), the section at whose end the step is taken (at), and sections that follow inside the same step (post;
   the bool marks a label that may be absent) *)
type expect = { pre : (label * bool) list; at : label option; post : (label * bool) list }
let silent = { pre = []; at = None; post = [] }
let one l = { pre = []; at = Some l; post = [] }

let expected tables facts (s : state) (a : int) (ac : actor) (fr : frame) : expect =
  match fr with
  | FTop _ -> silent
  | FD1 q | FSIidle q | FSDpush q | FSDidle q | FSBreg q | FSBpush q | FSBstealidle q | FSBdone q | FDRfin q -> one (Core (i q))
  (* with debug assertions on (the harness builds with them) the code re-locks the core to assert is_running at these places *)
  | FS1 q ->
    let qq = List.nth s.queues (i q) in
    (match tables.t_sync qq.qs (qq.jobs = []) with
     | (_, (SAImmediate | SADrain)) -> { pre = []; at = Some (Core (i q)); post = [ (Core (i q), false) ] }
     | _ -> one (Core (i q)))
  | FTS1 q ->
    let qq = List.nth s.queues (i q) in
    (match tables.t_trysync qq.qs (qq.jobs = []) with
     | (_, TAImmediate) -> { pre = []; at = Some (Core (i q)); post = [ (Core (i q), false) ] }
     | _ -> one (Core (i q)))
  | FROdeq q | FDRdeq q ->
    let qq = List.nth s.queues (i q) in
    if (not (tables.t_dequeue_refuses qq.qs)) && qq.jobs <> [] then { pre = []; at = Some (Core (i q)); post = [ (Core (i q), false) ] } else one (Core (i q))
  | FD2 _ | FRQ2 _ -> one Sched
  | FSTlock -> { pre = [ (AcqThreads, false); (Threads, false) ]; at = Some AcqThreads; post = [] }     (* first the reap pass (its own section), then the scan takes the lock *)
  | FSTscan t ->
    (match List.nth_opt s.threads (i t) with
     | Some th -> if th.busy then one (Busy (i t)) else { pre = []; at = Some (Busy (i t)); post = [ (Threads, false) ] }
     | None -> one Threads)
  | FSTspawn -> one Threads                            (* reading max_threads before it is a stutter *)
  | FSIrun _ -> silent
  | FSDloop _ -> one (SyncRes a)
  | FSBcheck _ -> if ac.ready then { pre = []; at = Some (SyncRes a); post = [ (Ready a, false) ] } else if ac.kicked then one (Ready a) else one (Wait a)
  | FSBwait _ -> silent
  | FSBwoken _ -> if ac.ready then { pre = []; at = Some (Woken a); post = [ (SyncRes a, false); (Ready a, false) ] } else { pre = []; at = Some (Woken a); post = [ (Ready a, false) ] }
  | FSBclaim q -> { pre = []; at = Some (Core (i q)); post = [ (Sched, false) ] }
  | FSBsteal _ -> one (Ready a)
  | FDRrun (_, j) ->
    (match j with
     | JPlain _ -> silent
     | JSyncDrain (_, c) -> one (SyncRes (i c))
     | JSyncBg (_, c) -> { pre = [ (SyncRes (i c), false) ]; at = Some (Ready (i c)); post = [] })     (* others observe the ready flag *)
  | FROrun (q, j) ->                                   (* run_one_job_now asserts is_running once more after the job *)
    (match j with
     | JPlain _ -> one (Core (i q))
     | JSyncDrain (_, c) -> { pre = []; at = Some (SyncRes (i c)); post = [ (Core (i q), false) ] }
     | JSyncBg (_, c) -> { pre = [ (SyncRes (i c), false); (Core (i q), false) ]; at = Some (Ready (i c)); post = [] })
  | FRQ1 q ->
    let qq = List.nth s.queues (i q) in
    (* each registered waiter whose condvar is still alive gets: flag store (kick), a pass through its mutex, notify - all
       INSIDE the core section, so a waiter can be seen to react before the section ends: the model step takes effect at the
       first of these events.  A waiter that has its result and is leaving may or may not still be notified. *)
    let ws = List.concat_map (fun w ->
        let w = i w in
        let aw = List.nth s.actors w in
        let leaving = aw.ready || (match aw.stack with FSBdone _ :: _ -> true | _ -> false) in
        [ (Kick w, leaving); (Ready w, leaving) ]) qq.wake_blocked in
    let rec split acc = function
      | (l, true) :: r -> split ((l, true) :: acc) r
      | (l, false) :: r -> (List.rev acc, Some l, r)
      | [] -> (List.rev acc, None, []) in
    (match split [] ws with
     | (opt, Some l, r) -> { pre = opt; at = Some l; post = r @ [ (Core (i q), false) ] }
     | (opt, None, _) -> { pre = opt; at = Some (Core (i q)); post = [] })
  | FTrecv _ -> silent
  | FTlock t -> one (AcqBusy (i t))
  | FTnext _ -> one AcqSched
  | FTexam _ ->
    (match s.sched with
     | [] -> one Sched
     | q :: _ ->
       (match List.nth_opt s.queues (i q) with
        | None -> silent
        | Some qq -> (match tables.t_next qq.qs with Some _ -> { pre = []; at = Some (Core (i q)); post = [ (Sched, false) ] } | None -> one (Core (i q)))))
  | FTrelnone t -> one (Busy (i t))
  | FTrelsome (t, q) -> { pre = []; at = Some (Busy (i t)); post = [ (Core (i q), false) ] }      (* drain starts by asserting is_running *)

let snapshot (s : state) (l : label) : string option =
  match l with
  | Core q -> (match List.nth_opt s.queues q with
      | Some qq -> Some (Printf.sprintf "%s/%d" (show_state qq.qs) (List.length qq.jobs))
      | None -> None)
  | Sched -> Some ("[" ^ String.concat ", " (List.map (fun q -> string_of_int (i q)) s.sched) ^ "]")
  | Busy t -> (match List.nth_opt s.threads t with Some th -> Some (string_of_bool th.busy) | None -> None)
  | Threads -> Some (string_of_int (List.length s.threads))
  | Max -> Some (string_of_int (i s.maxt))
  | Ready w -> (match List.nth_opt s.actors w with Some ac -> Some (string_of_bool ac.ready) | None -> None)
  | _ -> None

(* ---------- replay ---------- *)
type stats = { mutable steps : int; mutable stutters : int; mutable labelled : int }

let replay tables facts (mode : mode) (nq, pool, scripts) (evs : ev array) =
  let ns = ref (match mode with Nested (_, p) -> Some (ninit (nat_of_int nq) (nat_of_int pool) p) | Plain -> None) in
  let s = ref (match !ns with Some x -> x.base | None -> init (nat_of_int nq) (nat_of_int pool) scripts) in
  let st = { steps = 0; stutters = 0; labelled = 0 } in
  let n = Array.length evs in
  (* identities of per-call mutexes: ready/syncres ordinal -> actor, learnt from the creation events *)
  let ready_of : (int, int) Hashtbl.t = Hashtbl.create 16 and syncres_of : (int, int) Hashtbl.t = Hashtbl.create 16 in
  let label_of (e : ev) : label option =
    match e.kind, e.cls with
    | "cs", "core" -> Some (Core e.id) | "cs", "sched" -> Some Sched | "cs", "busy" -> Some (Busy e.id) | "cs", "threads" -> Some Threads
    | "cs", "max" -> Some Max
    | "cs", "ready" -> (match Hashtbl.find_opt ready_of e.id with Some w -> Some (Ready w) | None -> raise (Diverge (Printf.sprintf "ready mutex %d of unknown origin" e.id)))
    | "cs", "syncres" -> (match Hashtbl.find_opt syncres_of e.id with Some w -> Some (SyncRes w) | None -> raise (Diverge "syncres of unknown origin"))
    | "wait", "ready" -> (match Hashtbl.find_opt ready_of e.id with Some w -> Some (Wait w) | None -> None)
    | "woken", "ready" -> (match Hashtbl.find_opt ready_of e.id with Some w -> Some (Woken w) | None -> None)
    | "kick", "ready" -> (match Hashtbl.find_opt ready_of e.id with Some w -> Some (Kick w) | None -> None)
    | "acq", "threads" -> Some AcqThreads | "acq", "sched" -> Some AcqSched | "acq", "busy" -> Some (AcqBusy e.id)
    | _ -> None in
  let is_acq = function AcqThreads | AcqSched | AcqBusy _ -> true | _ -> false in
  let actor a = match List.nth_opt !s.actors a with Some ac -> ac | None -> raise (Diverge (Printf.sprintf "event by unknown actor %d" a)) in
  let top a = match (actor a).stack with f :: _ -> Some f | [] -> None in
  max_waiters := 0;
  let try_step a =
    List.iter (fun (qq : queue) -> let live = List.length (List.filter (fun w -> not (List.nth !s.actors (int_of_nat w)).ready) qq.wake_blocked) in if live > !max_waiters then max_waiters := live) !s.queues;
    (match mode, !ns with
     | Nested (ntop, p), Some x ->
       (match nstep tables facts (nat_of_int ntop) p { x with base = !s } (nat_of_int a) with
        | Some x' -> ns := Some x'; Some x'.base
        | None -> None)
     | _ -> step tables facts !s (nat_of_int a)) in
  let frame_name a = match top a with
    | Some (FSBwait _) -> "FSBwait" | Some (FSTscan _) -> "FSTscan" | Some (FTrecv _) -> "FTrecv" | Some (FTop _) -> "FTop" | Some (FTnext _) -> "FTnext"
    | Some FSTlock -> "FSTlock" | Some FSTspawn -> "FSTspawn" | Some (FSBclaim _) -> "FSBclaim" | Some (FD2 _) -> "FD2" | Some (FRQ2 _) -> "FRQ2" | Some (FTexam _) -> "FTexam"
    | Some _ -> "other" | None -> "empty" in
  let norm (l : label) (snap : string) = match l with
    | Core _ -> (match String.rindex_opt snap '/' with Some p -> String.sub snap 0 p | None -> snap)     (* state/len; the waiter count is not compared *)
    | _ -> snap in
  let agrees st0 l snap = match snapshot st0 l with Some m -> snap = "" || m = norm l snap | None -> true in
  let pend : (int, (label * bool) list) Hashtbl.t = Hashtbl.create 8 in      (* sections still to come inside the task's last model step *)
  let prec : (int, int) Hashtbl.t = Hashtbl.create 8 in                       (* pre-sections of the task's next model step already seen *)
  let get h a d = match Hashtbl.find_opt h a with Some x -> x | None -> d in
  let describe a = match top a with
    | Some fr -> let e = expected tables facts !s a (actor a) fr in (match e.at with Some l -> show_label l | None -> "nothing")
    | None -> "nothing" in
  (* nested programs: the body activation of the closure that activation a is about to finish, if any *)
  let body_of a = match mode, !ns with
    | Nested _, Some x ->
      (match List.nth_opt !s.actors a with
       | Some ac -> (match clos_op ac with
           | Some o -> (match List.nth_opt x.ops (i o) with Some (_, Some k) -> Some (i k, List.exists (fun y -> i y = i k) x.started) | _ -> None)
           | None -> None)
       | None -> None)
    | _ -> None in
  let needs_start a = match body_of a with Some (_, false) -> true | _ -> false in
  (* the activation of the chain of [a] that the task's next section belongs to: the deepest one that has been started and
     has not finished (or has finished, but sections of its last model step are still to come) *)
  let rec resolve a = match body_of a with
    | Some (k, true) when not (done_b !s (nat_of_int k)) || get pend k [] <> [] -> resolve k
    | _ -> a in
  (* task ids of the controlled runtime are spawn ordinals, which depend on the schedule: callers announce themselves,
     a pool thread is recognised by the first busy flag it takes (its own) *)
  let actor_of : (int, int) Hashtbl.t = Hashtbl.create 8 in
  let ncallers0 = List.length scripts in
  for k = 0 to n - 1 do
    let e0 = evs.(k) in
    (if e0.kind = "api" && e0.cls = "CALLER" then Hashtbl.replace actor_of e0.task e0.id
     else if e0.kind = "acq" && e0.cls = "busy" && not (Hashtbl.mem actor_of e0.task) then Hashtbl.replace actor_of e0.task (ncallers0 + e0.id));
    let e = (match Hashtbl.find_opt actor_of e0.task with Some a -> { e0 with task = a } | None -> { e0 with task = -1 }) in
    if e0.kind = "api" then ()
    else if e.task < 0 && e.kind <> "new" then ()          (* set-up by the main thread before it announces itself *)
    else if e.kind = "new" then begin
      (let a = if e.task >= 0 then resolve e.task else e.task in
       if e.cls = "ready" then Hashtbl.replace ready_of e.id a else if e.cls = "syncres" then Hashtbl.replace syncres_of e.id a)
    end else match label_of e with
      | None -> ()
      | Some lab ->
        let root = e.task in
        let rec handle a guard =
        if guard = 0 then raise (Diverge "too many activations") else try begin
        let stutter why =
          if is_acq lab then ()
          else if agrees !s lab e.snap then st.stutters <- st.stutters + 1
          else raise (Diverge (Printf.sprintf "event %d: task %d did %s with snapshot %s, model has %s (%s; model frame %s expects %s)" k a (show_label lab) e.snap
                                 (match snapshot !s lab with Some m -> m | None -> "?") why (frame_name a) (describe a))) in
        (* 1. sections that belong to the task's previous model step *)
        let rec drop_opt = function (l, true) :: r when l <> lab -> drop_opt r | l -> l in
        (match drop_opt (get pend a []) with
         | (l, _) :: r when l = lab ->
           Hashtbl.replace pend a r;
           if not (agrees !s lab e.snap) then raise (Diverge (Printf.sprintf "event %d: task %d %s inside a model step: impl=%s model=%s" k a (show_label lab) e.snap (match snapshot !s lab with Some m -> m | None -> "?")))
         | _ :: _ -> stutter "inside a model step"
         | [] ->
           Hashtbl.replace pend a [];
           (* 2. silent frames, then the frame that expects something *)
           let rec settle guard =
             if guard = 0 then raise (Diverge "too many silent steps");
             if needs_start a then (match try_step a with Some s' -> s := s'; st.steps <- st.steps + 1; raise (Redirect (resolve root)) | None -> ());
             (let a' = resolve root in if a' <> a then raise (Redirect a'));
             match top a with
             | None -> silent
             | Some fr ->
               let ex = expected tables facts !s a (actor a) fr in
               if ex.at = None then
                 (match try_step a with
                  | Some s' -> s := s'; st.steps <- st.steps + 1; Hashtbl.replace prec a 0; settle (guard - 1)
                  | None -> silent)
               else ex in
           let ex = settle 100 in
           (match ex.at with
            | None -> stutter "model actor is blocked or finished"
            | Some at ->
              let np = get prec a 0 in
              let rec drop n l = if n = 0 then l else (match l with _ :: r -> drop (n - 1) r | [] -> []) in
              let rest = drop np ex.pre in
              let rec skip_opt n = function (l, true) :: r when l <> lab -> skip_opt (n + 1) r | l -> (n, l) in
              let (skipped, rest') = skip_opt 0 rest in
              if (match rest' with (l, _) :: _ -> l = lab && not (at = lab && List.for_all snd rest') | [] -> false) then begin
                Hashtbl.replace prec a (np + skipped + 1);
                if not (agrees !s lab e.snap) then raise (Diverge (Printf.sprintf "event %d: task %d %s before a model step: impl=%s model=%s" k a (show_label lab) e.snap (match snapshot !s lab with Some m -> m | None -> "?")))
              end
              else if rest' <> [] && not (List.for_all snd rest') then stutter "before a model step"
              else if at = lab then begin
                let before = !s in
                if Sys.getenv_opt "REPLAY_DEBUG" <> None then Printf.printf "  ev %d: actor %d steps at %s on %s\n" k a (frame_name a) (show_label lab);
                (match try_step a with
                 | Some s' -> s := s'; st.steps <- st.steps + 1; st.labelled <- st.labelled + 1
                 | None -> raise (Diverge (Printf.sprintf "event %d: model actor %d cannot move at %s but the implementation performed %s" k a (frame_name a) (show_label lab))));
                if agrees !s lab e.snap then begin Hashtbl.replace prec a 0; Hashtbl.replace pend a ex.post end
                else if agrees before lab e.snap then begin s := before; st.steps <- st.steps - 1; st.labelled <- st.labelled - 1; st.stutters <- st.stutters + 1 end
                else raise (Diverge (Printf.sprintf "event %d: after the model step of task %d at %s: %s impl=%s model=%s" k a (frame_name a) (show_label lab) e.snap
                                       (match snapshot !s lab with Some m -> m | None -> "?")))
              end
              else stutter "not the section the model expects"))
        end with Redirect a' -> handle a' (guard - 1) in
        handle (resolve root) 50
  done;
  (* at END every caller has finished its script in the implementation: the model's callers must get there by silent steps *)
  let ncallers = (match mode with Nested (ntop, _) -> ntop | Plain -> List.length scripts) in
  for root = 0 to ncallers - 1 do
    let rec fin guard = if guard > 0 then
      let a = resolve root in
      if needs_start a then (match try_step a with Some s' -> s := s'; fin (guard - 1) | None -> ()) else
      match top a with
        | Some (FTop []) when a <> root -> Hashtbl.replace pend a []; fin (guard - 1)
        | Some (FTop []) -> ()
        | Some fr when (expected tables facts !s a (actor a) fr).at = None -> (match try_step a with Some s' -> s := s'; fin (guard - 1) | None -> raise (Diverge (Printf.sprintf "at END caller %d is blocked at %s in the model" a (frame_name a))))
        | Some _ -> raise (Diverge (Printf.sprintf "at END caller %d still has critical sections to perform in the model (%s)" a (frame_name a)))
        | None -> () in
    fin (match mode with Plain -> 100 | Nested _ -> 300)
  done;
  st

let () =
  let files = Array.sub Sys.argv 1 (Array.length Sys.argv - 1) in
  let ok = ref 0 and bad = ref 0 and skipped = ref 0 and steps = ref 0 and labelled = ref 0 and stutters = ref 0 and events = ref 0 in
  Array.iter (fun file ->
      let ic = open_in file in
      let prog = ref "" and status = ref "" and evs = ref [] in
      (try while true do
           let l = input_line ic in
           if String.length l > 7 && String.sub l 0 7 = "# prog " then prog := String.sub l 7 (String.length l - 7)
           else if String.length l > 9 && String.sub l 0 9 = "# status " then status := String.sub l 9 (String.length l - 9)
           else if String.length l > 0 && l.[0] = '#' then ()
           else match String.split_on_char '\t' l with
             | [t; kind; cls; id; snap] ->
               if kind = "api" && cls = "END" then raise End_of_file;
               evs := { task = int_of_string t; kind; cls; id = (match int_of_string_opt id with Some n -> n | None -> -1 (* usize::MAX: the kicked waiter is already gone *)); snap; used = false } :: !evs
             | _ -> ()
         done with End_of_file -> close_in ic);
      let evs = Array.of_list (List.rev !evs) in
      if String.length !status < 2 || String.sub !status 0 2 <> "ok" then incr skipped
      else
        (try
           let (mode, p) =
             (try (Plain, parse_prog !prog) with Unsupported _ ->
                let (nq, pool, nscripts) = parse_nested !prog in
                let fp = flatten nscripts in
                (Nested (List.length nscripts, fp), (nq, pool, List.map (fun (a : act) -> a.a_script) fp))) in
           let st = replay gen_tables gen_facts mode p evs in
           incr ok; steps := !steps + st.steps; labelled := !labelled + st.labelled; stutters := !stutters + st.stutters; events := !events + Array.length evs;
           Printf.printf "OK\t%s\t%d\t%d\n" file st.steps st.labelled
         with
         | Diverge msg -> incr bad; Printf.printf "DIVERGE\t%s\t%s\twaiters=%d\t%s\n" file !prog !max_waiters msg
         | Unsupported _ -> incr skipped)) files;
  Printf.printf "SUMMARY\tok=%d\tdiverged=%d\tskipped=%d\tmodel_steps=%d\tlabelled_steps=%d\tstutters=%d\tevents=%d\n" !ok !bad !skipped !steps !labelled !stutters !events
