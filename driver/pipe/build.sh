#!/bin/sh
# Extracts the pipe model (coq/theories/Pipe/Model.v) and builds the replay driver.
# The model must have been compiled (cd /verif/coq && make -f Makefile.pipe) and gen/Tables.vo must exist.
# Typical use:
#   cd /verif/harness && ./target/release/runner run --profile pipe --count 20 --scheds 5 --seed 3 --logdir /tmp/ppl --no-touch-yield --max-steps 30000
#   (also --profile pipedrop, and --progs /verif/driver/pipe/progs_extra.txt --sched rnd --scheds 40)
#   /verif/driver/pipe/_build/replay_pipe /tmp/ppl/*.log        # lines OK / DIVERGE / SKIP, then COVER, FACTS, SUMMARY
#   /verif/driver/pipe/tamper.py /tmp/tampered /tmp/ppl/p0_s0.log ...   # deletes / duplicates sections and markers
set -e
cd "$(dirname "$0")"
mkdir -p _build && cd _build
C=../../../coq
coqc -Q $C/theories/L0 L0 -Q $C/gen Gen -Q $C/theories/Pipe Pipe $C/theories/Pipe/ExtractPipe.v > extract.log 2>&1
rm -f $C/theories/Pipe/ExtractPipe.vo $C/theories/Pipe/ExtractPipe.vos $C/theories/Pipe/ExtractPipe.vok $C/theories/Pipe/ExtractPipe.glob $C/theories/Pipe/.ExtractPipe.aux
cp ../replay_pipe.ml .
ocamlfind ocamlopt -O2 -w -a -package str pipemodel.mli pipemodel.ml replay_pipe.ml -linkpkg -o replay_pipe 2>/dev/null || ocamlfind ocamlopt -w -a -package str pipemodel.mli pipemodel.ml replay_pipe.ml -linkpkg -o replay_pipe
