#!/usr/bin/env python3
"""Tampering experiment for the pipe replay driver: for each given log and each position of a pipe-class section
(cs pstream/pollfn/pipeobj/pwaker) or marker before `api END`, write copies with that line deleted / duplicated and,
for sections, with the whole section (acq + cs lines) deleted / duplicated (the log then stays well-formed), replay all copies and report how many the driver rejects.
usage: tamper.py <outdir> log..."""
import sys, os, subprocess, collections
out = sys.argv[1]; os.makedirs(out, exist_ok=True)
here = os.path.dirname(os.path.abspath(__file__))
files = []
for f in sys.argv[2:]:
    lines = open(f).read().split('\n')
    end = next((i for i, l in enumerate(lines) if '\tapi\tEND\t' in l), len(lines))
    for i, l in enumerate(lines[:end]):
        c = l.split('\t')
        if len(c) != 5: continue
        pipe_cs = c[1] == 'cs' and c[2] in ('pstream', 'pollfn', 'pipeobj', 'pwaker')
        marker = c[1] == 'api' and c[2] in ('CONSUMED', 'CONSUMEDEND', 'PRODUCE', 'CLOSE')
        if not (pipe_cs or marker): continue
        what = c[2] if pipe_cs else 'api-' + c[2]
        base = os.path.basename(f)[:-4]
        variants = [('del', lines[:i] + lines[i+1:]), ('dup', lines[:i+1] + [l] + lines[i+1:])]
        if pipe_cs:
            # the whole section (acq line + cs line), so that the log stays well-formed
            a = next((j for j in range(i - 1, -1, -1) if lines[j].split('\t')[:1] == c[:1] and lines[j].split('\t')[1:4] == ['acq', c[2], c[3]]), None)
            if a is not None:
                variants += [('delsec', lines[:a] + lines[a+1:i] + lines[i+1:]), ('dupsec', lines[:i+1] + [lines[a], l] + lines[i+1:])]
        for kind, new in variants:
            name = '%s/%s_%s_%d_%s.log' % (out, base, kind, i, what)
            open(name, 'w').write('\n'.join(new)); files.append((name, kind, what))
res = {}
for k in range(0, len(files), 500):
    o = subprocess.run([here + '/_build/replay_pipe'] + [f[0] for f in files[k:k+500]], capture_output=True, text=True).stdout
    for l in o.split('\n'):
        c = l.split('\t')
        if c[0] in ('OK', 'DIVERGE', 'SKIP'): res[c[1]] = c[0]
tab = collections.Counter()
for name, kind, what in files: tab[(kind, what, res.get(name, '?'))] += 1
for k in sorted(tab): print('%s\t%s\t%s\t%d' % (k + (tab[k],)))
tot = collections.Counter(res.values())
print('TOTAL\ttampered=%d\trejected=%d\taccepted=%d\tskipped=%d' % (len(files), tot['DIVERGE'], tot['OK'], tot['SKIP']))
for name, kind, what in files:
    if res.get(name) == 'OK': print('ACCEPTED\t' + name)
