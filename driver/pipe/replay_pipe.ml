(* Correspondence check, implementation -> model, for `pipe` (C12, C16): replays the critical-section log of one execution
   of the real crate (written by the harness through src/verif.rs) on the extracted model of coq/theories/Pipe/Model.v
   (pipemodel.ml), with the facts read from the source (Pipemodel.replay_facts = gen/Tables.v).

   Roles of implementation tasks
     consumer   the task that created the PipeStream (`new pstream`); it executes N / K and the implicit drop at its end
     producer   the task that logs `api PRODUCE k` / `api CLOSE k` (the model has ONE environment thread)
     runner     the task that logged `new pwaker j`: it executes poll job j until the job's last section

   Mapping of implementation events to model actors (a `cs` event is the END of a critical section; sections are
   replayed in the order of their ends, which is the order in which their effects become visible)
     api PRODUCE k / CLOSE k   AItem / AEnd (logged inside the input's own lock section, atomically with "push / close, take
                               the registered waker").  If the model's input held a waker the task must call it next.
     new pwaker j              AProd, silent: poll job j is taken from the queue (it must be the head of the model's jobq)
     cs pollfn                 runner: AProd at JStart / JClear (LPollFn); a task whose upgrade of the Weak<Desync> failed:
                               ACons / AEnv at WTakeFn
     cs pstream                runner: AProd at JFull, JClosedTake, JLoop, JPendStore, JEndClose, JPush (LStream);
                               consumer: ACSetDepth d (after api SETDEPTH), a poll, or the END of Drop::drop (ACons at CDrop1).
                               A poll is ACPoll when the model's consumer owes one (idle, or the waker of its latest Pending
                               poll has been called) and ACProbe otherwise (a spurious poll: the harness's probes with a
                               throw-away waker, and the real poll that follows a Pending probe)
     acq pstream               consumer, after api DROPSTREAM: ACDrop (the section of Drop::drop stays open across the wake of
                               notify_stream_closed and the hand-over to the disposal queue, so its start is used)
     cs pipeobj <1st> / <2nd>  AProd at JInput (LInput) / JProc (LProcess)
     cs pwaker j               ACons / AEnv at WCall j (LPipeWaker), by the task that took waker j
     api COOPYIELD             (runner) the processing future of a SLOW item returned Pending: the model's job must be at JSusp
                               (after the JProc section of an item listed as slow: g<k>n<n> in the program text, or - several
                               producing callers - read off the log).  The suspended job is re-polled by whichever thread runs
                               the queue next: the first PipeStreamCore section of a thread that is not in its consumer role
                               while the model is at JSusp makes that thread the runner (silent AProd, JSusp -> JPush).  The
                               consumer thread is in its consumer role only between PROBE / CONSUME and CONSUMED[END], after
                               SETDEPTH, and inside Drop::drop.
     api DROPOBJ q             the program drops ITS handle (X): the model's AExtDrop is applied lazily (other callers hold
                               temporary clones during their operations): when an upgrade fails, or at the end.
   References: WCtx (upgrade) -> WEnq (enqueue + drop of the temporary Arc) are taken at once after `cs pwaker`; a thread that
   dropped the LAST Arc<Desync> (WSync / ChSync / xsync: it is inside Desync::drop) completes as soon as the model's queue has
   drained, at the latest at the end, where `freed` must be 1 if the stream and the program's handle were dropped and no poll
   job is left (the harness waits for the object to be freed), and never more than 1.
   Silent model steps: JWake (taken at once after the section that took the consumer's waker); the return from poll_next
   (at once when no back-pressure waker was taken, else after the wake); WCtx (at once after `cs pwaker`; whether the
   upgrade succeeded is read off the log: it failed iff the task's next pipe section is `pollfn`); CDrop2 -> CGone (the
   drop of the stream's Arc<core>: lazily, when a poll job's upgrade fails - read off the log: after JStart the runner's
   next section is `pollfn` instead of `pstream` - or at the end); ADispose, AExtDrop (lazily, when an upgrade fails, or at
   the end).
   At every event the model actor must be enabled and its step_label must be the event's class.  At the end (api END) the
   model's observable state is compared with the implementation's, recomputed from markers and the raw log: the values the
   consumer received, in order (api CONSUMED v); end of stream seen (api CONSUMEDEND); poll_fn present or None; input
   stream and closure released (the program's Z returned); strong reference released (the harness waits for the object to
   be freed after the stream was dropped, status ok).
   With the harness markers api PROBE / api CONSUME (first poll of a read) every OTHER poll of the consumer is a re-poll inside
   block_on, which happens only after the consumer's own waker was called: the model must then be at CPend with `cwoken`
   (the waker of the latest Pending poll was called) - this is what checks the fact f_poll_next_replaces_waker.
   Additional checks: the log itself must be well-formed for the pipe's mutexes (every `cs` closes the `acq` of the same
   task, no acquisition while another task is inside); after a poll_next that is Ready in the model the harness marker
   (CONSUMED v with the model's value / CONSUMEDEND) must come before the consumer's next section, and no such marker may
   come otherwise; a task that took a PipeWaker must call it (cs pwaker j) before its next own action.
   Known blind spot (tamper.py): a poll_next of the consumer that returns Pending leaves no trace but its section, and the
   model lets the consumer poll at any time, so deleting the whole section (acq+cs) of a first poll that returned Pending
   is absorbed (the re-poll after the wake then plays the announced first poll): 7 of 552 whole-section tamperings (276 deletions, 276 duplications); every
   other tampering (single lines, markers, duplicated sections) is rejected.
   Not replayed: events after `api END` (the harness's teardown); D/S/T operations on the object (invisible in the pipe's
   lock classes).  Unsupported (SKIP): several pipes, pipe_in, items produced after the close, two producer threads with
   wakes in flight at the same time (the model has one environment thread).
   Usage: replay_pipe [--unrepaired|--repaired] [--trace] file.log ...
   (default facts: Pipemodel.replay_facts; --unrepaired replays against the model of the code before the repair of the
   Pending arm: logs in which the drop lands between the `closed` test and the Pending arm then diverge) *)
open Pipemodel

let rec nat_of_int n = if n <= 0 then O else S (nat_of_int (n - 1))
let rec int_of_nat = function O -> 0 | S n -> 1 + int_of_nat n
let i = int_of_nat
let f_out (x : nat) : nat = nat_of_int (10 * int_of_nat x + 7)       (* the harness's processing function, interp.rs Op::Pipe *)

type ev = { task : int; kind : string; cls : string; id : int; snap : string }

exception Diverge of string
exception Unsupported of string

let facts = ref replay_facts
let trace = ref false

(* ---------- program text: the one pipe, its stream, object, depth, is the release awaited ---------- *)
type pinfo = { obj : int; stream : int; pdepth : int; has_z : bool; slow_items : int list option (* None: read off the log *) }

let parse_prog (text : string) : pinfo =
  let parts = String.split_on_char '|' text in
  let toks = List.concat_map (fun p -> List.filter (fun x -> x <> "") (String.split_on_char ' ' p)) (List.tl parts) in
  let num s from = let n = String.length s in let j = ref from in
    while !j < n && s.[!j] >= '0' && s.[!j] <= '9' do incr j done;
    (int_of_string (String.sub s from (!j - from)), !j) in
  let pipes = List.filter (fun t -> t.[0] = 'J') toks in
  if List.exists (fun t -> t.[0] = 'I') toks then raise (Unsupported "pipe_in (I) in the program");
  (match pipes with [_] -> () | [] -> raise (Unsupported "no pipe in the program") | _ -> raise (Unsupported "more than one pipe"));
  let t = List.hd pipes in
  let (q, j) = num t 1 in
  let (k, j) = num t (j + 1) in
  let (d, _) = num t (j + 1) in
  let has_z = List.exists (fun t -> t.[0] = 'Z' && fst (num t 1) = k) toks in
  (* which items are SLOW (g<k>n<n>): items are numbered in the order of the PRODUCE events; known from the text when one
     caller produces them all *)
  let per_caller = List.map (fun part ->
      List.filter_map (fun t -> if (t.[0] = 'G' || t.[0] = 'g') && fst (num t 1) = k then Some (t.[0] = 'g', fst (num t (snd (num t 1) + 1))) else None)
        (List.filter (fun x -> x <> "") (String.split_on_char ' ' part))) (List.tl parts) in
  let slow_items = match List.filter (fun l -> l <> []) per_caller with
    | [] -> Some []
    | [ops] -> let next = ref 0 in
      Some (List.concat_map (fun (slow, cnt) -> let l = List.init cnt (fun j -> !next + j) in next := !next + cnt; if slow then l else []) ops)
    | _ -> None in
  { obj = q; stream = k; pdepth = d; has_z; slow_items }

(* ---------- printing the model state for messages ---------- *)
let show_pc = function
  | JStart -> "JStart" | JFull -> "JFull" | JClosedTake -> "JClosedTake" | JLoop -> "JLoop" | JInput -> "JInput"
  | JPendStore -> "JPendStore" | JEndClose -> "JEndClose" | JProc x -> Printf.sprintf "JProc %d" (i x)
  | JSusp x -> Printf.sprintf "JSusp %d" (i x)
  | JPush v -> Printf.sprintf "JPush %d" (i v)
  | JWake (w, k) -> Printf.sprintf "JWake %s %s" (match w with Some w -> string_of_int (i w) | None -> "none") (match k with KLoop -> "KLoop" | KRet -> "KRet")
  | JClear -> "JClear"
let show_wk = function WIdle -> "WIdle" | WCall k -> Printf.sprintf "WCall %d" (i k) | WCtx -> "WCtx" | WEnq -> "WEnq"
                       | WTakeFn -> "WTakeFn" | WSync -> "WSync"
let show_ch = function ChIdle -> "idle" | ChQueued -> "queued" | ChSync -> "sync"
let show_cst = function CIdle -> "CIdle" | CRun b -> Printf.sprintf "CRun %b" b | CPend -> "CPend" | CDone -> "CDone"
                        | CDrop1 -> "CDrop1" | CDrop2 -> "CDrop2" | CGone -> "CGone"
let show_label = function LPollFn -> "pollfn" | LStream -> "pstream" | LInput -> "input" | LProcess -> "process"
                          | LPipeWaker -> "pwaker" | LNone -> "silent"
let show_opt = function Some k -> string_of_int (i k) | None -> "none"
let show_actor = function
  | AProd -> "AProd" | ACPoll -> "ACPoll" | ACProbe -> "ACProbe" | ACons -> "ACons" | ACDrop -> "ACDrop" | ACSetDepth d -> Printf.sprintf "ACSetDepth %d" (i d)
  | AItem -> "AItem" | AEnd -> "AEnd" | AEnv -> "AEnv" | ADispose -> "ADispose" | AExtDrop -> "AExtDrop"
  | AExtSync -> "AExtSync"
let show_state (s : state) =
  Printf.sprintf "job %s, queue [%s]; consumer %s latest=%d woken=%b cwk=%s; core pending=%d depth=%d closed=%b notify=%s nsc=%s bp=%s; input rest=%d avail=%d ended=%b waker=%s ewk=%s; poll_fn=%b strong=%b ext=%b chute=%s xsync=%b freed=%d"
    (match s.running with None -> "none" | Some (j, pc) -> Printf.sprintf "%d at %s" (i j) (show_pc pc))
    (String.concat ";" (List.map (fun j -> string_of_int (i j)) s.jobq))
    (show_cst s.cst) (i s.clatest) s.cwoken (show_wk s.cwk) (List.length s.pending) (i s.depth) s.closed (show_opt s.notify) (show_opt s.nsc) (show_opt s.bp)
    (List.length s.inp_rest) (i s.inp_avail) s.inp_ended (show_opt s.inp_waker) (show_wk s.ewk) s.poll_fn s.strong_held s.ext_owner (show_ch s.chute) s.xsync (i s.freed)

(* ---------- statistics ---------- *)
type stats = { mutable steps : int; mutable labelled : int }
let cov : (string, int) Hashtbl.t = Hashtbl.create 32
let hit name = Hashtbl.replace cov name (1 + (match Hashtbl.find_opt cov name with Some n -> n | None -> 0))

(* ---------- replay ---------- *)
type slot = SCons | SEnv
type upgrade = UOk | UFail

let replay (p : pinfo) (evs : ev array) : stats =
  let n = Array.length evs in
  let nitems = ref 0 and closed_seen = ref false in
  Array.iter (fun e -> if e.kind = "api" && e.id = p.stream then begin
      if e.cls = "CLOSE" then closed_seen := true;
      if e.cls = "PRODUCE" then (if !closed_seen then raise (Unsupported "PRODUCE after CLOSE (the model's input ends after its last item)"); incr nitems) end) evs;
  (* slow items: from the program text, else from the log (item number j is slow iff api COOPYIELD follows its processing section) *)
  let slow_list = match p.slow_items with
    | Some l -> l
    | None ->
      let pobjs = ref [] and idx = ref 0 and acc = ref [] in
      Array.iteri (fun k0 e ->
          if e.kind = "new" && e.cls = "pipeobj" then pobjs := !pobjs @ [e.id];
          if e.kind = "cs" && e.cls = "pipeobj" && (match !pobjs with [_; pid] -> e.id = pid | _ -> false) then begin
            let rec nxt j = if j >= n then false else let e' = evs.(j) in
                if e'.task <> e.task then nxt (j + 1)
                else if e'.kind = "api" && e'.cls = "COOPYIELD" then true
                else if e'.cls = "pstream" || e'.cls = "pipeobj" || e'.cls = "pollfn" then false else nxt (j + 1) in
            if nxt (k0 + 1) then acc := !idx :: !acc; incr idx end) evs;
      !acc in
  let s = ref (init_slow !facts (List.init !nitems nat_of_int) (List.map nat_of_int slow_list) true) in
  let st = { steps = 0; labelled = 0 } in
  let cur = ref 0 in
  let div fmt = Printf.ksprintf (fun m -> raise (Diverge (Printf.sprintf "event %d: %s" !cur m))) fmt in
  let do_step (a : actor) (l : label) (why : string) =
    (match step_label !facts f_out !s a with
     | Some l' when l' = l -> ()
     | Some l' -> div "%s: model actor %s is at a %s step, the implementation performed a %s section (model: %s)" why (show_actor a) (show_label l') (show_label l) (show_state !s)
     | None -> div "%s: model actor %s is not enabled, the implementation performed a %s section (model: %s)" why (show_actor a) (show_label l) (show_state !s));
    if !trace then Printf.printf "  [event %d] %s (%s): %s\n" !cur (show_actor a) (show_label l) why;
    match step !facts f_out !s a with
    | Some s' -> s := s'; st.steps <- st.steps + 1; if l <> LNone then st.labelled <- st.labelled + 1
    | None -> div "%s: step_label defined but step undefined for %s" why (show_actor a) in
  let silent a why = do_step a LNone why in
  let slot_wk = function SCons -> !s.cwk | SEnv -> !s.ewk in
  let slot_actor = function SCons -> ACons | SEnv -> AEnv in
  let slot_name = function SCons -> "consumer" | SEnv -> "producer" in
  (* identities and obligations learnt from the log *)
  let pipeobjs = ref [] and created = ref false and consumer = ref (-1) and runner = ref (-1) in
  let exp_call : (int, slot) Hashtbl.t = Hashtbl.create 4 in      (* task -> it took a waker and must call it next *)
  let pend_take : (int, slot) Hashtbl.t = Hashtbl.create 4 in     (* task -> its upgrade failed, it must take poll_fn next *)
  let setdepth = ref None and drop_pending = ref false and in_drop = ref false and drop_marker = ref false and dropobj_seen = ref false in
  (* the implementation's observable state, from markers and the raw log only *)
  let impl_delivered = ref [] and impl_end = ref false and impl_pollfn = ref true and job_pollfn = ref 0 in
  let held : (string * int, int) Hashtbl.t = Hashtbl.create 8 in  (* well-formedness of the log: pipe mutex -> task inside its section *)
  let exp_result : [ `Item of int | `End ] option ref = ref None in (* the consumer's last poll was Ready: the harness marker must follow *)
  (* the harness announces the first poll of a read (api PROBE: with a throw-away waker; api CONSUME: block_on starts);
     every other poll of the consumer is a re-poll inside block_on, which happens only after ITS waker was called *)
  let has_read_markers = Array.exists (fun e -> e.kind = "api" && e.cls = "CONSUME") evs in
  let free_poll = ref false in
  let in_consume = ref false in                  (* the consumer thread is inside a read (between PROBE / CONSUME and CONSUMED[END]) *)
  let coop_yielded = ref false in                (* api COOPYIELD seen: the poll job is suspended in the middle of a slow item *)
  let is_runner t = t = !runner && !s.running <> None in
  let settle_jwake () =
    while (match !s.running with Some (_, JWake (_, _)) -> true | _ -> false) do
      (match !s.running with
       | Some (_, JWake (Some w, _)) -> hit (if w = !s.clatest then "consumer_latest_waker_called" else "consumer_stale_waker_called")
       | _ -> ());
      silent AProd "notify.map(wake) of the poll job" done in
  let settle_cons_return () = match !s.cst, !s.cwk with CRun _, WIdle -> silent ACons "return from poll_next" | _ -> () in
  let pend_sync : (int, slot) Hashtbl.t = Hashtbl.create 4 in     (* task -> it dropped the last Arc<Desync>: it is inside Desync::drop *)
  let settle_sync t what =
    match Hashtbl.find_opt pend_sync t with
    | Some sl ->
      (match step_label !facts f_out !s (slot_actor sl) with
       | Some LNone -> Hashtbl.remove pend_sync t; silent (slot_actor sl) "Desync::drop: the final sync completes, the object is freed"
       | _ -> div "task %d performs %s, but in the model it is still inside Desync::drop waiting for the poll jobs (model: %s)" t what (show_state !s))
    | None -> () in
  let no_obligation t what =
    settle_sync t what;
    (match Hashtbl.find_opt exp_call t with
     | Some sl -> div "task %d performs %s, but the model expects it to call the PipeWaker it took first (%s slot at %s)" t what (slot_name sl) (show_wk (slot_wk sl))
     | None -> ());
    (match Hashtbl.find_opt pend_take t with
     | Some sl -> div "task %d performs %s, but the model expects it to take poll_fn first (its upgrade of the Desync failed; %s slot)" t what (slot_name sl)
     | None -> ()) in
  let after_take_waker t sl = match slot_wk sl with
    | WCall _ -> Hashtbl.replace exp_call t sl
    | _ -> () in
  (* did the upgrade of the Weak<Desync> in the PipeContext::poll that task t has just started succeed? *)
  let lookahead_upgrade t =
    let rec go j =
      if j >= n then UOk else
        let e = evs.(j) in
        if e.task <> t then go (j + 1)
        else if (e.kind = "cs" || e.kind = "acq") && e.cls = "pollfn" then UFail
        else if e.cls = "pwaker" || e.cls = "pstream" || e.cls = "pipeobj" || e.kind = "api" then UOk
        else go (j + 1) in
    go (!cur + 1) in
  (* the class of the runner's next pipe section inside its current job *)
  let lookahead_jstart t =
    let rec go j =
      if j >= n then `Other else
        let e = evs.(j) in
        if e.kind = "new" && e.cls = "pwaker" then `Other
        else if e.task <> t then go (j + 1)
        else if e.cls = "pollfn" then `Pollfn
        else if e.cls = "pstream" || e.cls = "pipeobj" then `Pstream
        else go (j + 1) in
    go (!cur + 1) in
  let make_dead t =
    (* the implementation's upgrade failed: no strong reference is left; the model's silent releases must have been possible *)
    if !s.strong_held then begin
      if !s.chute = ChQueued then (silent ADispose "on_drop runs on the disposal queue"; hit "dispose_forced_by_failed_upgrade")
      else div "task %d: the upgrade of the Weak<Desync> failed in the implementation, but in the model the pipe still holds its strong reference (stream %s)" t (show_cst !s.cst) end;
    if !s.ext_owner then begin
      if !dropobj_seen then silent AExtDrop "last external owner drops"
      else div "task %d: the upgrade of the Weak<Desync> failed in the implementation, but the program never dropped its handle of the object" t end in
  let after_call t sl =
    (match slot_wk sl with
     | WCtx ->
       (match lookahead_upgrade t with
        | UOk ->
          if not (desync_alive !s) then div "task %d scheduled a poll job after its wake (no poll_fn take follows), but in the model no strong reference to the Desync is left" t;
          hit (if !s.running <> None then "enqueue_while_job_running" else "enqueue");
          silent (slot_actor sl) "target.upgrade() succeeds";
          silent (slot_actor sl) "future_desync enqueues a poll job; the temporary Arc is dropped";
          (match slot_wk sl with
           | WSync -> hit "wake_thread_drops_last_arc"; Hashtbl.replace pend_sync t sl
           | _ -> ())
        | UFail ->
          make_dead t; hit "upgrade_failed"; silent (slot_actor sl) "failed upgrade"; Hashtbl.replace pend_take t sl)
     | WIdle -> hit "dead_waker_called"
     | w -> div "%s slot is at %s after its PipeWaker call" (slot_name sl) (show_wk w));
    if sl = SCons then settle_cons_return () in
  let input_event t (a : actor) (name : string) =
    no_obligation t name;
    (match step !facts f_out !s a with
     | Some _ -> ()
     | None ->
       if not (wk_idle !s.ewk) then raise (Unsupported "two producer threads with wakes in flight (the model has one environment thread)")
       else div "%s: the model's environment cannot do this (model: %s)" name (show_state !s));
    (if !s.inp_waker = None then hit "input_event_without_waker" else hit "input_event_takes_waker");
    silent a name; after_take_waker t SEnv in
  for k = 0 to n - 1 do
    cur := k;
    let e = evs.(k) in
    let t = e.task in
    if e.cls = "pstream" || e.cls = "pollfn" || e.cls = "pipeobj" || e.cls = "pwaker" then begin
      if e.kind = "acq" then begin
        (match Hashtbl.find_opt held (e.cls, e.id) with
         | Some t' -> div "malformed log: task %d acquires %s %d while task %d is inside its section" t e.cls e.id t'
         | None -> ());
        Hashtbl.replace held (e.cls, e.id) t end
      else if e.kind = "cs" then begin
        (match Hashtbl.find_opt held (e.cls, e.id) with
         | Some t' when t' = t -> ()
         | _ -> div "malformed log: task %d ends a section on %s %d that it has not acquired" t e.cls e.id);
        Hashtbl.remove held (e.cls, e.id) end end;
    match e.kind, e.cls with
    | "new", "pipeobj" -> pipeobjs := !pipeobjs @ [ e.id ]
    | "new", "pstream" -> if !consumer >= 0 then raise (Unsupported "a second PipeStream"); consumer := t
    | "new", "pollfn" -> if !created then raise (Unsupported "a second PipeContext"); created := true
    | "api", "PRODUCE" when e.id = p.stream -> input_event t AItem "PRODUCE"
    | "api", "CLOSE" when e.id = p.stream -> input_event t AEnd "CLOSE"
    | "api", ("PROBE" | "CONSUME" | "CONSUMED" | "CONSUMEDEND" | "DROPSTREAM") when !free_poll ->
      div "the harness announced a poll of the output stream (PROBE / CONSUME) but no PipeStreamCore section of the consumer followed before %s" e.cls
    | "api", ("PROBE" | "CONSUME") -> no_obligation t e.cls; free_poll := true; in_consume := true
    | "api", "COOPYIELD" ->
      (match !s.running with
       | Some (_, JSusp _) when t = !runner ->
         if !coop_yielded then div "a second api COOPYIELD for the same item (the processing future yields once)";
         hit "item_suspended"; coop_yielded := true
       | _ -> if is_runner t || !s.running = None && !created then
           div "the processing future of an item yielded (api COOPYIELD by task %d), the model's poll job is not suspended in a slow item (model: %s)" t (show_state !s))
    | "api", "SETDEPTH" -> no_obligation t "SETDEPTH"; setdepth := Some e.id
    | "api", "DROPSTREAM" ->
      no_obligation t "DROPSTREAM";
      if t = !consumer && not (dropped !s) then begin drop_pending := true; drop_marker := true end
    | "api", "CONSUMED" ->
      (match !exp_result with
       | Some (`Item v) when v = e.id -> exp_result := None
       | Some (`Item v) -> div "the consumer received %d, the model's poll_next returned %d" e.id v
       | Some `End -> div "the consumer received %d, the model's poll_next returned end-of-stream" e.id
       | None -> div "the consumer received %d, but the model's last poll_next was not Ready (consumer %s)" e.id (show_cst !s.cst));
      impl_delivered := e.id :: !impl_delivered; in_consume := false
    | "api", "CONSUMEDEND" ->
      (match !exp_result with
       | Some `End -> exp_result := None
       | Some (`Item v) -> div "the consumer saw the end of the stream, the model's poll_next returned %d" v
       | None -> div "the consumer saw the end of the stream, but the model's last poll_next was not Ready(None) (consumer %s)" (show_cst !s.cst));
      impl_end := true; in_consume := false
    | "api", "DROPOBJ" when e.id = p.obj -> dropobj_seen := true
    | "acq", "pstream" when t = !consumer && !drop_pending ->
      (* Drop for PipeStream: the section opens here and stays open until its `cs` *)
      no_obligation t "Drop::drop";
      (match !s.nsc with Some j -> hit (if is_live !s j then "drop_takes_live_waker" else "drop_takes_dead_waker") | None -> hit "drop_finds_no_waker");
      (match !s.running with
       | Some (_, (JLoop | JInput | JProc _ | JPush _ | JWake (_, KLoop))) -> hit "drop_mid_loop"
       | Some (_, JSusp _) -> hit "drop_while_item_suspended"
       | Some (_, JPendStore) -> hit "drop_before_pending_arm_store"
       | Some (_, (JStart | JFull)) -> hit "drop_before_closed_test"
       | Some _ -> hit "drop_while_job_finishing"
       | None -> if !s.bp <> None then hit "drop_while_throttled" else hit "drop_while_idle");
      do_step ACDrop LStream "Drop::drop (start of its section)";
      drop_pending := false; in_drop := true; after_take_waker t SCons
    | "cs", "pstream" ->
      (* the consumer thread is in its consumer role only inside a harness operation on the output stream *)
      let consumer_role = t = !consumer && (!in_consume || !setdepth <> None || !in_drop) in
      (* a suspended poll job is re-polled by whichever thread runs the queue next: its first section is the push *)
      (match !s.running with
       | Some (_, JSusp _) when not consumer_role ->
         if not !coop_yielded then div "task %d continues the poll job after a slow item, but the implementation did not report the yield (api COOPYIELD)" t;
         coop_yielded := false; (if t <> !runner then hit "resumed_on_another_thread" else hit "resumed_on_same_thread");
         runner := t; silent AProd "the suspended poll job is re-polled: the item's processing completes"
       | _ -> ());
      if is_runner t && not consumer_role then begin
        (match !s.running with
         | Some (_, JFull) -> if i !s.depth <= List.length !s.pending then hit "job_throttled" else if !s.closed then hit "job_sees_closed" else ()
         | Some (_, JPendStore) -> if !s.closed then hit "pending_arm_sees_closed" else hit "pending_arm_stores_waker"
         | Some (_, JEndClose) -> hit "input_end_closes"
         | Some (_, JPush _) -> hit "push"
         | _ -> ());
        do_step AProd LStream "core section of the poll job"; settle_jwake () end
      else if t = !consumer then begin
        if !in_drop then begin
          no_obligation t "end of Drop::drop";
          (match !s.cst, !s.cwk with
           | CDrop1, WIdle -> ()
           | c, w -> div "end of Drop::drop: the model's consumer is at %s with wake slot %s" (show_cst c) (show_wk w));
          silent ACons "end of Drop::drop: on_drop handed to the disposal queue, core lock released"; in_drop := false end
        else begin
          no_obligation t "a PipeStream section";
          match !setdepth with
          | Some d -> setdepth := None; hit "set_depth"; do_step (ACSetDepth (nat_of_int d)) LStream "set_backpressure_depth"
          | None ->
            (match !exp_result with
             | Some _ -> div "the consumer polls again, but the model's previous poll_next was Ready and the harness has not reported the value"
             | None -> ());
            (match !s.pending, !s.closed with
             | v :: _, _ -> hit "poll_ready_item"; exp_result := Some (`Item (i v))
             | [], true -> hit "poll_ready_end"; exp_result := Some `End
             | [], false -> hit "poll_pending");
            (match !s.bp with Some j -> hit (if is_live !s j then "poll_takes_live_bp_waker" else "poll_takes_dead_bp_waker") | None -> ());
            (* a poll the consumer owes (idle, or its latest waker was called), or a spurious one while it is waiting *)
            if has_read_markers && not !free_poll then begin
              (* a re-poll inside block_on: the implementation's consumer was woken through the waker of its latest poll *)
              (match !s.cst with
               | CPend when !s.cwoken -> hit "repoll_after_wake"
               | _ -> div "the consumer polls again inside the same read, i.e. its waker was called; in the model the waker of its latest Pending poll has not been called (model: %s)" (show_state !s)) end;
            free_poll := false;
            if pollable !s then do_step ACPoll LStream "PipeStream::poll_next"
            else begin
              hit (match !s.pending, !s.closed with [], false -> "spurious_poll_pending" | _ -> "spurious_poll_ready");
              do_step ACProbe LStream "PipeStream::poll_next (spurious: the consumer's latest waker has not been called)" end;
            after_take_waker t SCons; settle_cons_return ()
        end end
      else div "task %d performs a PipeStreamCore section but is neither the consumer (task %d) nor running a poll job (task %d; model: %s)" t !consumer !runner (show_state !s)
    | "cs", "pipeobj" ->
      if not (is_runner t) then div "task %d locks pipeobj %d but is not running a poll job (model: %s)" t e.id (show_state !s);
      (match !pipeobjs with
       | [ sid; pid ] ->
         if e.id = sid then begin
           (match !s.inp_rest, !s.inp_avail with
            | _ :: _, S _ -> hit "input_item" | _ -> if !s.inp_ended then hit "input_none" else hit "input_pending");
           do_step AProd LInput "poll_next of the input" end
         else if e.id = pid then do_step AProd LProcess "processing closure"
         else div "unknown pipeobj mutex %d" e.id
       | _ -> div "pipeobj section before both mutexes of pipe were created")
    | "cs", "pollfn" ->
      (match Hashtbl.find_opt pend_take t with
       | Some sl ->
         Hashtbl.remove pend_take t; impl_pollfn := false; hit "poll_fn_taken_after_failed_upgrade";
         do_step (slot_actor sl) LPollFn "poll_fn.take() after a failed upgrade"; if sl = SCons then settle_cons_return ()
       | None ->
         if not (is_runner t) then div "task %d locks poll_fn but is neither running a poll job (task %d) nor a thread whose upgrade failed (model: %s)" t !runner (show_state !s);
         incr job_pollfn; if !job_pollfn >= 2 then impl_pollfn := false;
         (match !s.running with
          | Some (_, JStart) when !s.poll_fn ->
            (match !s.cst, lookahead_jstart t with
             | CDrop2, `Pollfn -> silent ACons "the PipeStream's Arc<core> is dropped"; hit "core_upgrade_failed"
             | CGone, `Pollfn -> hit "core_upgrade_failed"
             | CGone, `Pstream -> div "the poll job upgraded the core (its next section is a core section), but in the model the core is gone"
             | (CIdle | CRun _ | CPend | CDone | CDrop1), `Pollfn -> div "the poll job's upgrade of the core failed (its next section is poll_fn), but in the model the stream has not been dropped (consumer %s)" (show_cst !s.cst)
             | CDrop2, `Pstream -> hit "core_upgraded_between_unlock_and_arc_drop"
             | _ -> ())
          | Some (_, JStart) -> hit "job_finds_poll_fn_none"
          | Some (_, JClear) -> hit "poll_fn_cleared"
          | _ -> ());
         do_step AProd LPollFn "poll_fn section of the poll job")
    | "new", "pwaker" ->
      no_obligation t "the start of a poll job";
      (match !s.running, !s.jobq with
       | None, j :: _ when i j = e.id -> ()
       | _ -> div "task %d starts poll job %d (creates its PipeWaker), model: %s" t e.id (show_state !s));
      hit "poll_jobs"; silent AProd "poll job dequeued"; runner := t; job_pollfn := 0
    | "cs", "pwaker" ->
      (match Hashtbl.find_opt exp_call t with
       | None -> div "task %d calls PipeWaker %d, but in the model it took no waker (model: %s)" t e.id (show_state !s)
       | Some sl ->
         (match slot_wk sl with
          | WCall j when i j = e.id -> ()
          | w -> div "task %d calls PipeWaker %d, the model's %s slot is at %s" t e.id (slot_name sl) (show_wk w));
         Hashtbl.remove exp_call t;
         do_step (slot_actor sl) LPipeWaker "PipeWaker::wake"; after_call t sl)
    | _ -> ()
  done;
  cur := n;
  (* ---------- the end of the log (api END): every caller has finished its script ---------- *)
  Hashtbl.iter (fun t sl -> div "at END: task %d still has to call the PipeWaker it took (%s slot at %s)" t (slot_name sl) (show_wk (slot_wk sl))) exp_call;
  Hashtbl.iter (fun t sl -> div "at END: task %d still has to take poll_fn (%s slot)" t (slot_name sl)) pend_take;
  if !in_drop then div "at END: Drop::drop has not finished";
  (match !exp_result with Some _ -> div "at END: the model's last poll_next was Ready, the harness reported no value" | None -> ());
  Hashtbl.iter (fun (c, id) t -> div "at END: task %d is still inside a section on %s %d" t c id) held;
  if !drop_pending then div "at END: the program dropped the output stream but no PipeStreamCore section of the consumer followed";
  settle_cons_return ();
  (match !s.cst with CDrop2 -> silent ACons "the PipeStream's Arc<core> is dropped" | _ -> ());
  (* every caller has finished: the program's handle is gone if it dropped it (X), and so are the temporary clones *)
  if !dropobj_seen && !s.ext_owner then silent AExtDrop "the program's handle of the object was dropped (X)";
  if !s.chute = ChQueued then silent ADispose "on_drop runs on the disposal queue";
  (* whoever dropped the last Arc<Desync> completes Desync::drop as soon as the queue has drained *)
  let flush_syncs () =
    Hashtbl.iter (fun t sl -> if step_label !facts f_out !s (slot_actor sl) = Some LNone then silent (slot_actor sl) "Desync::drop completes") pend_sync;
    if !s.chute = ChSync && drained !s then (hit "object_freed_on_the_chute"; silent ADispose "Desync::drop on the disposal queue completes: the object is freed");
    if !s.xsync && drained !s then silent AExtSync "Desync::drop of the external owner completes" in
  flush_syncs ();
  if i !s.freed > 1 then div "at END: the model freed the object %d times" (i !s.freed);
  (* the harness waits (after END) until the object has been freed: with the stream dropped, the program's handle dropped and the
     queue drained the model must have freed it, exactly once *)
  if !drop_marker && !dropobj_seen && drained !s && i !s.freed <> 1 then
    div "at END: stream dropped, object handle dropped, no poll job left, but the model has not freed the object (%s)" (show_state !s);
  (if i !s.freed = 1 then hit "object_freed");
  let model_delivered = List.map i !s.delivered and impl_del = List.rev !impl_delivered in
  if model_delivered <> impl_del then
    div "at END: the consumer received [%s] in the implementation and [%s] in the model"
      (String.concat ";" (List.map string_of_int impl_del)) (String.concat ";" (List.map string_of_int model_delivered));
  if !s.got_end <> !impl_end then div "at END: end of stream seen by the consumer: implementation %b, model %b" !impl_end !s.got_end;
  if !created && !s.poll_fn <> !impl_pollfn then div "at END: poll_fn is %s in the implementation and %s in the model" (if !impl_pollfn then "present" else "None") (if !s.poll_fn then "present" else "None");
  if !created && p.has_z && not (released !s) then div "at END: the implementation has released input stream and closure (Z returned), the model has not (%s)" (show_state !s);
  if !drop_marker then begin
    if !s.cst <> CGone then div "at END: the output stream was dropped, the model's consumer is at %s" (show_cst !s.cst);
    if !s.strong_held then div "at END: the output stream was dropped (the harness saw the object freed), the model still holds the strong reference" end;
  (if !s.jobq <> [] then hit "jobs_still_queued_at_END");
  st

let () =
  let args = Array.to_list (Array.sub Sys.argv 1 (Array.length Sys.argv - 1)) in
  let files = List.filter (fun a -> match a with
      | "--unrepaired" -> facts := facts_unrepaired; false
      | "--repaired" -> facts := facts_repaired; false
      | "--stale-waker" -> facts := facts_stale_waker; false
      | "--trace" -> trace := true; false
      | _ -> true) args in
  let ok = ref 0 and bad = ref 0 and skipped = ref 0 and steps = ref 0 and labelled = ref 0 and events = ref 0 in
  List.iter (fun file ->
      let ic = open_in file in
      let prog = ref "" and status = ref "" and evs = ref [] and ended = ref false in
      (try while true do
           let l = input_line ic in
           if String.length l > 7 && String.sub l 0 7 = "# prog " then prog := String.sub l 7 (String.length l - 7)
           else if String.length l > 9 && String.sub l 0 9 = "# status " then status := String.sub l 9 (String.length l - 9)
           else if String.length l > 0 && l.[0] = '#' then ()
           else match String.split_on_char '\t' l with
             | [t; kind; cls; id; snap] ->
               if kind = "api" && cls = "END" then (ended := true; raise End_of_file);
               evs := { task = int_of_string t; kind; cls; id = int_of_string id; snap } :: !evs
             | _ -> ()
         done with End_of_file -> close_in ic);
      let evs = Array.of_list (List.rev !evs) in
      if String.length !status < 2 || String.sub !status 0 2 <> "ok" then begin incr skipped; Printf.printf "SKIP\t%s\tstatus %s\n" file !status end
      else if not !ended then begin incr skipped; Printf.printf "SKIP\t%s\tno api END in the log\n" file end
      else
        (try
           let p = parse_prog !prog in
           let st = replay p evs in
           incr ok; steps := !steps + st.steps; labelled := !labelled + st.labelled; events := !events + Array.length evs;
           Printf.printf "OK\t%s\t%d\n" file st.steps
         with
         | Diverge msg -> incr bad; Printf.printf "DIVERGE\t%s\t%s\t%s\n" file !prog msg
         | Unsupported why -> incr skipped; Printf.printf "SKIP\t%s\t%s\n" file why)) files;
  let names = List.sort compare (Hashtbl.fold (fun k _ acc -> k :: acc) cov []) in
  Printf.printf "COVER\t%s\n" (String.concat "\t" (List.map (fun k -> Printf.sprintf "%s=%d" k (Hashtbl.find cov k)) names));
  Printf.printf "FACTS\tpending_recheck=%b\tdefault_depth=%d\tpoll_next_replaces_waker=%b\n" !facts.f_pending_recheck (i !facts.f_default_depth) !facts.f_poll_next_replaces_waker;
  Printf.printf "SUMMARY\tok=%d\tdiverged=%d\tskipped=%d\tmodel_steps=%d\tlabelled_steps=%d\tevents=%d\n" !ok !bad !skipped !steps !labelled !events
