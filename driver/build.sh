#!/bin/sh
# Extracts the L1 / L1n model (with the tables generated from the current /repo source) and builds the replay driver.
set -e
cd "$(dirname "$0")"
mkdir -p _build && cd _build
# (ExtractL1n.v: the nested model L1n, which contains the unmodified L1 model; needs L1/*.vo, L1h/Hist.vo, L1n/Model.vo)
C=../../coq
coqc -Q $C/theories/L0 L0 -Q $C/theories/L1 L1 -Q $C/gen Gen -Q $C/theories/L1h L1h -Q $C/theories/L1n L1n $C/theories/Extract/ExtractL1n.v > extract.log 2>&1
rm -f $C/theories/Extract/ExtractL1n.vo $C/theories/Extract/ExtractL1n.vos $C/theories/Extract/ExtractL1n.vok $C/theories/Extract/ExtractL1n.glob $C/theories/Extract/.ExtractL1n.aux
cp ../replay.ml .
ocamlfind ocamlopt -O2 -w -a -package str l1nmodel.mli l1nmodel.ml replay.ml -linkpkg -o replay 2>/dev/null || ocamlfind ocamlopt -w -a -package str l1nmodel.mli l1nmodel.ml replay.ml -linkpkg -o replay
