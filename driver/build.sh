#!/bin/sh
# Extracts the L1 model (with the tables generated from the current /repo source) and builds the replay driver.
set -e
cd "$(dirname "$0")"
mkdir -p _build && cd _build
coqc -Q ../../coq/theories/L0 L0 -Q ../../coq/theories/L1 L1 -Q ../../coq/gen Gen ../../coq/theories/Extract/ExtractL1.v > extract.log 2>&1
cp ../replay.ml .
ocamlfind ocamlopt -O2 -w -a -package str l1model.mli l1model.ml replay.ml -linkpkg -o replay 2>/dev/null || ocamlfind ocamlopt -w -a -package str l1model.mli l1model.ml replay.ml -linkpkg -o replay
