#!/usr/bin/env python3
"""Tampering experiment for the replay of nested programs: for each given log and each `cs` line of class core / sched / busy /
threads / ready that is performed while a body of the same task is open (between `sf OSTART` and
the matching `sf OEND`: the sections of a nested operation), write copies with the line deleted, duplicated and with its snapshot changed; replay all copies and report
how many the driver rejects.  usage: tamper_nested.py <outdir> log..."""
import sys, os, subprocess, collections, re
out = sys.argv[1]; os.makedirs(out, exist_ok=True)
here = os.path.dirname(os.path.abspath(__file__))
def other(cls, snap):
    if cls == 'core':
        p = snap.split('/')
        return ['/'.join([('Idle' if p[0] != 'Idle' else 'Running')] + p[1:]), '/'.join([p[0], str(int(p[1]) + 1)] + p[2:])]
    if cls == 'sched': return ['[]' if snap != '[]' else '[0]']
    if cls in ('busy', 'ready'): return ['false' if snap == 'true' else 'true']
    if cls == 'threads': return [str(int(snap) + 1)]
    return []
files = []
for f in sys.argv[2:]:
    lines = open(f).read().split('\n')
    end = next((i for i, l in enumerate(lines) if '\tapi\tEND\t' in l), len(lines))
    depth = collections.Counter()
    base = os.path.basename(os.path.dirname(f)) + '_' + os.path.basename(f)[:-4]
    for i, l in enumerate(lines[:end]):
        c = l.split('\t')
        if len(c) != 5: continue
        if c[1] == 'sf' and c[2] == 'OSTART': depth[c[0]] += 1; continue
        if c[1] == 'sf' and c[2] == 'OEND': depth[c[0]] -= 1; continue
        if not (c[1] == 'cs' and c[2] in ('core', 'sched', 'busy', 'threads', 'ready') and depth[c[0]] >= 1): continue
        variants = [('del', lines[:i] + lines[i+1:]), ('dup', lines[:i+1] + [l] + lines[i+1:])]
        for k, sn in enumerate(other(c[2], c[4])): variants.append(('snap%d' % k, lines[:i] + ['\t'.join(c[:4] + [sn])] + lines[i+1:]))
        for kind, new in variants:
            name = '%s/%s_%s_%d_%s.log' % (out, base, kind, i, c[2])
            open(name, 'w').write('\n'.join(new)); files.append((name, kind, c[2]))
res = {}
for k in range(0, len(files), 400):
    o = subprocess.run([here + '/_build/replay'] + [f[0] for f in files[k:k+400]], capture_output=True, text=True).stdout
    for l in o.split('\n'):
        c = l.split('\t')
        if c[0] in ('OK', 'DIVERGE'): res[c[1]] = c[0]
tab = collections.Counter()
for name, kind, what in files: tab[(kind, what, res.get(name, 'SKIP'))] += 1
for k in sorted(tab): print('%s\t%s\t%s\t%d' % (k + (tab[k],)))
tot = collections.Counter(res.get(n, 'SKIP') for n, _, _ in files)
print('TOTAL\ttampered=%d\trejected=%d\taccepted=%d\tskipped=%d' % (len(files), tot['DIVERGE'], tot['OK'], tot['SKIP']))
