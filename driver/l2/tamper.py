#!/usr/bin/env python3
"""Tampering experiment for the L2 replay driver.  For each given log (that replays OK) and each position, before `api QUIET`
(`api END` for pool 0), of a replayed section (cs core/sched/fres/dwaker/dblwaker), of a harness marker or of `new fres`:
  del     the line is deleted                      dup     the line is duplicated
  delsec  acq + cs lines deleted                   dupsec  acq + cs lines duplicated (the log stays well-formed)
  snap    the snapshot of a core/sched/dwaker section is changed (other state / length + 1 / other waker state)
  res     the result of a oneshot poll (os poll) is changed (pending <-> value); os lines and the future_sync markers sf OSTART / OEND /
          DROPFUT are deleted / duplicated like the others
  swap    the cs line is exchanged with the next replayed line of ANOTHER task (order of two actors' steps)
All copies are replayed; the table says how many the driver rejects.  `swap` of two independent steps and dup/del of a
read-only section (debug assertions, probes) are legitimately acceptable, the table lists them separately (column ro=1: the
section is followed or preceded by a section of the same task and class with the same snapshot).
usage: tamper.py <outdir> log..."""
import sys, os, subprocess, collections, re
out = sys.argv[1]; os.makedirs(out, exist_ok=True)
here = os.path.dirname(os.path.abspath(__file__))
CS = ('core', 'sched', 'fres', 'dwaker', 'dblwaker')
MK = ('FIRE', 'AWAITREG', 'AWAITREADY', 'TWAKE', 'UNPARKED', 'RESUME')
def cols(l): return l.split('\t')
SF = ('OSTART', 'OEND', 'DROPFUT')      # harness markers of future_sync (also logged for the bodies of other operations, where the driver ignores them)
def replayed(c): return len(c) == 5 and ((c[1] == 'cs' and c[2] in CS) or (c[1] == 'api' and c[2] in MK) or (c[1] == 'new' and c[2] in ('fres', 'oneshot')) or c[1] == 'os' or (c[1] == 'sf' and c[2] in SF))
def other_snap(cls, snap):
    if cls == 'core':
        p = snap.split('/')
        st = re.sub(r'\(.*\)', '', p[0])
        return ['/'.join([('Idle' if st != 'Idle' else 'Running')] + p[1:]), '/'.join([p[0], str(int(p[1]) + 1)] + p[2:])]
    if cls == 'sched': return ['[]' if snap != '[]' else '[0]']
    if cls == 'dwaker': return ['Woken' if snap != 'Woken' else 'NotWoken']
    return []
files = []
for f in sys.argv[2:]:
    lines = open(f).read().split('\n')
    pool0 = ' pool=0 ' in lines[0]
    stop = '\tapi\tEND\t' if pool0 else '\tapi\tQUIET\t'
    end = next((i for i, l in enumerate(lines) if stop in l), len(lines))
    base = os.path.basename(os.path.dirname(f)) + '_' + os.path.basename(f)[:-4]
    for i, l in enumerate(lines[:end]):
        c = cols(l)
        if not replayed(c): continue
        sec = c[1] == 'cs'
        what = c[2] if sec else c[1] + '-' + c[2]
        # read-only heuristic: neighbouring section of the same task/class/id with the same snapshot
        same = [j for j in range(max(0, i - 12), min(end, i + 12)) if j != i and cols(lines[j])[:1] == c[:1] and cols(lines[j])[1:] == c[1:]]
        ro = 1 if (sec and same) else 0
        variants = [('del', lines[:i] + lines[i+1:]), ('dup', lines[:i+1] + [l] + lines[i+1:])]
        if c[1] == 'os' and c[2] == 'poll':      # the result of a oneshot poll is changed
            variants.append(('res', lines[:i] + ['\t'.join(c[:4] + ['value' if c[4] == 'pending' else 'pending'])] + lines[i+1:]))
        if sec:
            a = next((j for j in range(i - 1, -1, -1) if cols(lines[j])[:1] == c[:1] and cols(lines[j])[1:4] == ['acq', c[2], c[3]]), None)
            if a is not None:
                variants += [('delsec', lines[:a] + lines[a+1:i] + lines[i+1:]), ('dupsec', lines[:i+1] + [lines[a], l] + lines[i+1:])]
            for k, sn in enumerate(other_snap(c[2], c[4])):
                variants.append(('snap%d' % k, lines[:i] + ['\t'.join(c[:4] + [sn])] + lines[i+1:]))
            j = next((j for j in range(i + 1, end) if replayed(cols(lines[j]))), None)
            if j is not None and cols(lines[j])[0] != c[0] and cols(lines[j])[1] == 'cs':
                variants.append(('swap', lines[:i] + [lines[j]] + lines[i+1:j] + [l] + lines[j+1:]))
        for kind, new in variants:
            name = '%s/%s_%s_%d_%s.log' % (out, base, kind, i, what)
            open(name, 'w').write('\n'.join(new)); files.append((name, kind, what, ro))
res = {}
for k in range(0, len(files), 400):
    o = subprocess.run([here + '/_build/replay_l2'] + [f[0] for f in files[k:k+400]], capture_output=True, text=True).stdout
    for l in o.split('\n'):
        c = l.split('\t')
        if c[0] in ('OK', 'DIVERGE', 'SKIP'): res[c[1]] = c[0]
tab = collections.Counter()
for name, kind, what, ro in files: tab[(kind, what, ro, res.get(name, '?'))] += 1
print('kind\twhat\tro\tresult\tcount')
for k in sorted(tab): print('%s\t%s\t%d\t%s\t%d' % (k + (tab[k],)))
tot = collections.Counter(res.values())
print('TOTAL\ttampered=%d\trejected=%d\taccepted=%d\tskipped=%d' % (len(files), tot['DIVERGE'], tot['OK'], tot['SKIP']))
if '--list' in os.environ.get('TAMPER_OPTS', ''):
    for name, kind, what, ro in files:
        if res.get(name) == 'OK': print('ACCEPTED\t' + name)
