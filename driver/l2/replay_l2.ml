(* Correspondence check, implementation -> model, for the futures layer (coq/theories/L2/Model.v: ONE queue with future-based
   operations, three runner contexts, wakers as nested in-flight calls).  Replays the critical-section log of one execution of
   the real crate on the model extracted by coq/theories/L2/ExtractL2.v (l2model.ml, tables = L2.GenTables.gen_ftables).

   Roles of implementation tasks
     caller c     the task that logged `api CALLER c`: model actor c (its script is the program text, see parse_prog)
     pool runner  any other task that performs sections of the modelled classes: model actors ncallers, ncallers+1, ... in order
                  of first appearance (a pool thread is whichever task runs next_to_run / drain)
     wakers       run as nested frames on the actor that fired the event / signalled the future, exactly as in the code
   Mapping of log events to model steps (a `cs` event is the END of a critical section)
     cs core                 LCore frames; the core section nested in `fres` of SchedulerFuture::poll (FSFpoll, no result yet) and
                             the core sections nested in `sched` of next_to_run (FPIdle, one schedule entry per step)
     cs sched                FD2, FRQ2 (push_back); the end of next_to_run is a read-only section (stutter)
     cs fres f               LFres frames; FSFpoll when the result is there; fres ids are creation ordinals = model future indices
                             (the caller's FTop step is taken at `new fres`)
     cs dwaker d / dblwaker  FWakeWith d _, FWake (WDrain d) / FWake (WDouble k)
     api FIRE e, api RESUME                FFire e         api AWAITREG e, os poll pending      FJob .. PAwait e (not fired)
     api AWAITREADY e, os poll value/canceled   FJob .. PAwait e (fired)
     api EITHERREG e / EITHERREADY e'      FJob .. PAwaitEither e e2 (neither fired: registered with both / e' = the first fired)
     api TWAKE t             FWake (WTask c) and the FUnpark c behind it        api UNPARKED        FPark
   Silent frames (LNone) are stepped lazily, just before the actor's next logged event.  FUnpark c frames are taken when c's
   next event needs the token.  Read-only sections the model does not have (debug_assert re-locks, the signaller's Drop, the
   end of next_to_run) are stutters: listed after the step they follow (post) or accepted when the snapshot agrees with the
   model's current view.  After every step that the log shows, the `core` snapshot (state name, queue length), the `sched`
   length and the `dwaker` state must agree with the model.
   Details that the log forces on the driver
     signaller     signal = [fres f: take the waker]; waker.wake(..) (model: FWake frames); Drop of the signaller = [fres f] again.
                   The second section is not in the model: it is `deferred` and may arrive any time after the wake frames.
     QueueResumer  the oneshot shim logs `os send` / `os txdrop` AFTER the channel operation and after the receiver's waker has
                   run, and `send` yields first: the harness marker `api RESUME` arms the fire, the FFire step is taken at the
                   firing actor's next event or at the first `os poll` that sees the value; os send/txdrop only check `fired`.
     sync job      the job of a sync_background caller c is an UnsafeJob with notification: `ready := true` + notify happen in its
                   Drop, after job.run returned (in run_one_job_now: after the debug_assert that follows it).  The model's single job
                   step (closure, sres := true) is taken at that section `cs ready <id> true` of the RUNNER (label SetReady c); the
                   closure's own sections before it (syncres; the take of SchedulerFuture::sync(): fres) and that debug_assert
                   (exactly one core section) are stutters.  Jobs of sync_drain (no `ready`) stay silent steps.
     waiter        `cs ready <id>` of the waiter at the head of its loop = FSBwait; reschedule_queue sets the `rescheduled` flags
                   one waiter after the other inside its core section: FRQ1 is taken at the first `kick`, the model's kickall is
                   undone and the flag of ONE waiter is set at each `kick ready <id>` (loop heads of other waiters may fall between
                   two kicks; they commute with them).
     V<e>          a caller's harness-level await (AWAITREG / AWAITREADY / TWAKE / UNPARKED between two operations) has no model step;
                   the silent FTop step of the caller's NEXT operation is not taken at these events.
     future_sync   Y<q>[body]a / k<n> / k<n>l<m> = OFutSync (body: t, w<e>, o<e>-<e2>; a body with c is skipped).  The two channels the
                   caller creates before `new fres` are queue_ready (cell r = the model's cell count at the FTop step) and done (r + 1).
                   Slot job: send(queue_ready) is a SILENT step (the shim logs `os send` AFTER the operation and after the receiver's waker
                   has run: the step is taken before the runner's next event, i.e. before the api TWAKE it causes, or pulled forward
                   when a poll of another task sees the value first - counted os_pull_forward); `os poll <done>` = PAwaitDone (pending /
                   value / canceled compared with the cell and with how it was resolved); cs fres = PSignal.  Owner: YPuse / YPloop / YPsfret
                   silent, SchedulerFuture::poll = the usual frames, `os poll <ready>` = YPrecv (result compared), api AWAITREG / AWAITREADY /
                   EITHER.. = the user future's awaits, sf OEND <oid> finished = the user future completes, task_finished.send and its drop
                   silent like the slot job's send, api UNPARKED = YPpark, sf DROPFUT = the decision to drop, `os rxdrop <ready>` /
                   sf OEND <oid> cancelled = drop of `state`.  Lines without a model step are obligations: sf OSTART <oid> and
                   `os rxdrop <ready>` before the user future's first step, `os rxdrop <done>` before the signal, the `os send` / `os txdrop`
                   line of a silent step before the frame below its waker calls moves; each os send / txdrop / rxdrop at most once.
                   A second pending poll of queue_ready replaces the owner's waker in the model as in the real oneshot (FY .. YPrecv).
                   At QUIET the slot jobs of dropped calls may still be queued (the harness counts a dropped call as finished).
                   sf POLL / YNEW / YDONE are not checked; markers of OTHER operations' bodies (sf OSTART / OEND) are ignored as before.
     end of log    the replay stops at `api QUIET` (pool >= 1; wait_all returned) or `api END` (pool 0: the harness then drains
                   the queues itself).  Every caller must have finished its script at END; at QUIET no job may be left
                   (programs without suspend: the harness counts a suspend as finished when its resumer is used); the pool
                   runners may still be inside drain / next_to_run, their last sections come after QUIET.
   Ignored classes: busy, threads, max (pool hand-over, abstracted), syncres, `ready` sections other than the two above, kind `sf`.
   SKIP (not expressible in the model): see parse_prog and Unsupported below.
   Usage: replay_l2 [--trace] file.log ... *)
open L2model

let rec nat_of_int n = if n <= 0 then O else S (nat_of_int (n - 1))
let rec int_of_nat = function O -> 0 | S n -> 1 + int_of_nat n
let i = int_of_nat
let tables = gen_ftables
let trace = ref false

type ev = { task : int; kind : string; cls : string; id : int; snap : string }
exception Diverge of string
exception Unsupported of string

type lab = Core | Sched | Fres of int | Dw of int | Dbl of int | Fire of int | Reg of int | Rdy of int | Twake of int | Unparked | NewF | SetReady of int
         | OsPoll of int | OsRx of int | Oend | OendC | DropFut      (* future_sync: oneshot cell polled / receiver dropped; user future ends / is destroyed; sf DROPFUT *)
let show_lab = function
  | Core -> "core" | Sched -> "sched" | Fres f -> Printf.sprintf "fres(%d)" f | Dw d -> Printf.sprintf "dwaker(%d)" d
  | Dbl k -> Printf.sprintf "dblwaker(%d)" k | Fire e -> Printf.sprintf "FIRE(%d)" e | Reg e -> Printf.sprintf "AWAITREG(%d)" e
  | Rdy e -> Printf.sprintf "AWAITREADY(%d)" e | Twake c -> Printf.sprintf "TWAKE(actor %d)" c | Unparked -> "UNPARKED" | NewF -> "new fres" | SetReady c -> Printf.sprintf "ready := true (job of waiter %d)" c
  | OsPoll c -> Printf.sprintf "os poll (cell %d)" c | OsRx c -> Printf.sprintf "os rxdrop (cell %d)" c | Oend -> "sf OEND finished" | OendC -> "sf OEND cancelled" | DropFut -> "sf DROPFUT"

let show_qs = function
  | Idle -> "Idle" | Pending -> "Pending" | Running -> "Running" | WaitingForWake -> "WaitingForWake"
  | WaitingForUnpark -> "WaitingForUnpark" | WaitingForPoll _ -> "WaitingForPoll" | AwokenWhileRunning -> "AwokenWhileRunning" | Panicked -> "Panicked"
let show_dw = function DWNotWoken -> "NotWoken" | DWWoken -> "Woken" | DWWillWake -> "WillWake"
let show_waker = function WQueue -> "WQueue" | WThread c -> Printf.sprintf "WThread %d" (i c) | WDrain d -> Printf.sprintf "WDrain %d" (i d)
                          | WTask c -> Printf.sprintf "WTask %d" (i c) | WDouble k -> Printf.sprintf "WDouble %d" (i k)
let show_job = function
  | JPlain o -> Printf.sprintf "JPlain %d" (i o)
  | JFut (o, st, sc) -> Printf.sprintf "JFut %d %s [%s]" (i o) (match st with NotCreated -> "new" | Waiting -> "run")
                          (String.concat ";" (List.map (function PAwait e -> Printf.sprintf "w%d" (i e) | PSignal f -> Printf.sprintf "sig%d" (i f) | PTouch -> "t"
                                                            | PAwaitEither (e, e2) -> Printf.sprintf "o%d-%d" (i e) (i e2)
                                                            | PSendReady r -> Printf.sprintf "sendready%d" (i r) | PAwaitDone d -> Printf.sprintf "awaitdone%d" (i d)) sc))
  | JSync (o, c, tk) -> Printf.sprintf "JSync %d c%d%s" (i o) (i c) (match tk with Some f -> Printf.sprintf " take%d" (i f) | None -> "")
let show_frame = function
  | FTop l -> Printf.sprintf "FTop(%d left)" (List.length l) | FD1 j -> "FD1 " ^ show_job j | FD2 -> "FD2"
  | FUse (f, _) -> Printf.sprintf "FUse %d" (i f) | FAwRet f -> Printf.sprintf "FAwRet %d" (i f) | FPark f -> Printf.sprintf "FPark %d" (i f)
  | FDropRet (f, k) -> Printf.sprintf "FDropRet %d %d" (i f) (i k) | FFS1 f -> Printf.sprintf "FFS1 %d" (i f) | FSFpoll f -> Printf.sprintf "FSFpoll %d" (i f)
  | FDQtake f -> Printf.sprintf "FDQtake %d" (i f) | FDQdeq f -> Printf.sprintf "FDQdeq %d" (i f) | FDQrequeue (f, d, _) -> Printf.sprintf "FDQrequeue %d %d" (i f) (i d)
  | FDQtake2 (f, d) -> Printf.sprintf "FDQtake2 %d %d" (i f) (i d) | FDQwfw (f, d) -> Printf.sprintf "FDQwfw %d %d" (i f) (i d)
  | FDQstore (f, d) -> Printf.sprintf "FDQstore %d %d" (i f) (i d) | FDQwfp (f, d) -> Printf.sprintf "FDQwfp %d %d" (i f) (i d)
  | FDQempty1 f -> Printf.sprintf "FDQempty1 %d" (i f) | FDQempty2 f -> Printf.sprintf "FDQempty2 %d" (i f) | FDQidle f -> Printf.sprintf "FDQidle %d" (i f)
  | FWakeWith (d, w) -> Printf.sprintf "FWakeWith %d %s" (i d) (show_waker w)
  | FS1 (o, _) -> Printf.sprintf "FS1 %d" (i o) | FClosure (o, _) -> Printf.sprintf "FClosure %d" (i o) | FSIidle -> "FSIidle"
  | FSDpush _ -> "FSDpush" | FSDloop -> "FSDloop" | FSDidle -> "FSDidle" | FSBreg _ -> "FSBreg" | FSBpush _ -> "FSBpush" | FSBwait -> "FSBwait" | FSBdone -> "FSBdone" | FSBclaim -> "FSBclaim"
  | FROdeq -> "FROdeq" | FROpend _ -> "FROpend" | FROcheck _ -> "FROcheck" | FROpark _ -> "FROpark" | FRQ1 -> "FRQ1" | FRQ2 -> "FRQ2"
  | FFire e -> Printf.sprintf "FFire %d" (i e) | FPIdle -> "FPIdle" | FDRdeq -> "FDRdeq" | FDRrequeue _ -> "FDRrequeue" | FDRpend -> "FDRpend" | FDRfin -> "FDRfin"
  | FJob (j, w, k) -> Printf.sprintf "FJob(%s, %s, %s)" (show_job j) (show_waker w) (match k with KDrain -> "drain" | KRoj -> "roj" | KDq (f, d) -> Printf.sprintf "dq %d %d" (i f) (i d))
  | FWake w -> "FWake " ^ show_waker w | FUnpark c -> Printf.sprintf "FUnpark %d" (i c)
  | FY (pc, y, st, _) -> Printf.sprintf "FY %s op%d f%d r%d %s"
                           (match pc with YPuse -> "use" | YPpark -> "park" | YPloop -> "loop" | YPsfret -> "sfret" | YPrecv -> "recv" | YPuser -> "user" | YPfin -> "fin"
                                        | YPpend -> "pend" | YPdrop1 -> "drop1" | YPdrop2 -> "drop2")
                           (i y.y_op) (i y.y_f) (i y.y_r) (match st with YQueue _ -> "WaitingForQueue" | YFuture b -> Printf.sprintf "WaitingForFuture(%d left)" (List.length b))
  | _ -> "(frame)"

(* ---------- program text -> model scripts ----------
   D<q>[t..] ODesync      S<q>[t..] OSync      F<q>[body]<mode> OFuture      A<q>e<e><mode> = OFuture [await e; touch]
   Y<q>[body]a|k<n>[l<m>] OFutSync
   U<q> OSuspend (a fresh event per suspend; R and r are the fire of that event)     E<e> OFire     V<e> nothing (the caller
   only waits).  Body: t PTouch, w<e> PAwait, a<e>-<e2> PAwait e (e2 is fired by the harness from inside the poll once the waker
   is registered: allowed only when nothing of the model awaits e2).  Everything else, and programs on several objects: SKIP. *)
type pinfo = { pool : int; scripts : cop list list; nev : int; harness_evs : int list; susp_ev : int list }

let parse_prog (text : string) : pinfo =
  let parts = String.split_on_char '|' text in
  let head = List.hd parts in
  let kv = List.filter (fun x -> x <> "") (String.split_on_char ' ' head) in
  let get k d = List.fold_left (fun acc x -> match String.split_on_char '=' x with [a; b] when a = k -> int_of_string b | _ -> acc) d kv in
  let pool = get "pool" 0 and nev0 = get "ev" 0 in
  let nev = ref nev0 and objs = ref [] and hev = ref [] and awaited = ref [] and susp = ref [] in
  let num s from = let n = String.length s in let j = ref from in
    while !j < n && s.[!j] >= '0' && s.[!j] <= '9' do incr j done;
    if !j = from then raise (Unsupported ("malformed token " ^ s));
    (int_of_string (String.sub s from (!j - from)), !j) in
  let parse_body tok s =      (* s = the text between [ and ] *)
    let n = String.length s in
    let rec go j acc = if j >= n then List.rev acc else
        match s.[j] with
        | 't' -> go (j + 1) (PTouch :: acc)
        | 'w' -> let (e, j') = num s (j + 1) in awaited := e :: !awaited; go j' (PAwait (nat_of_int e) :: acc)
        | 'a' -> let (e, j') = num s (j + 1) in
          if j' >= n || s.[j'] <> '-' then raise (Unsupported ("malformed body in " ^ tok));
          let (e2, j'') = num s (j' + 1) in awaited := e :: !awaited; hev := e2 :: !hev; go j'' (PAwait (nat_of_int e) :: acc)
        | 'o' -> let (e, j') = num s (j + 1) in          (* select-style await: registered with both events *)
          if j' >= n || s.[j'] <> '-' then raise (Unsupported ("malformed body in " ^ tok));
          let (e2, j'') = num s (j' + 1) in awaited := e :: e2 :: !awaited; go j'' (PAwaitEither (nat_of_int e, nat_of_int e2) :: acc)
        | 'g' -> raise (Unsupported "gate in a body (blocking closure)")
        | 'p' -> raise (Unsupported "panic in a body")
        | 's' -> raise (Unsupported "event fired from inside a body")
        | '(' -> raise (Unsupported "nested operation")
        | _ -> raise (Unsupported ("body of " ^ tok)) in
    go 0 [] in
  let body_of tok from =      (* returns (body text, index after ']') *)
    if from >= String.length tok || tok.[from] <> '[' then raise (Unsupported ("malformed token " ^ tok));
    match String.rindex_opt tok ']' with
    | Some r -> (String.sub tok (from + 1) (r - from - 1), r + 1)
    | None -> raise (Unsupported ("malformed token " ^ tok)) in
  let mode_of tok from =
    if from >= String.length tok then raise (Unsupported ("missing mode in " ^ tok));
    match tok.[from] with
    | 'd' -> UDetach | 'a' -> UAwait | 's' -> USync
    | 'k' -> let (n, _) = num tok (from + 1) in UDropAfter (nat_of_int n)
    | _ -> raise (Unsupported ("mode of " ^ tok)) in
  let only_touch tok b = List.iter (function PTouch -> () | _ -> raise (Unsupported ("await in a closure body: " ^ tok))) b in
  let scripts = List.map (fun p ->
      let last_susp = ref None in
      List.concat_map (fun tok ->
          let obj q = if not (List.mem q !objs) then objs := q :: !objs in
          match tok.[0] with
          | 'D' -> let (q, j) = num tok 1 in obj q; let (b, _) = body_of tok j in only_touch tok (parse_body tok b); [ODesync]
          | 'S' -> let (q, j) = num tok 1 in obj q; let (b, _) = body_of tok j in only_touch tok (parse_body tok b); [OSync]
          | 'F' -> let (q, j) = num tok 1 in obj q; let (b, j') = body_of tok j in [OFuture (parse_body tok b, mode_of tok j')]
          | 'A' -> let (q, j) = num tok 1 in obj q;
            if j >= String.length tok || tok.[j] <> 'e' then raise (Unsupported ("malformed token " ^ tok));
            let (e, j') = num tok (j + 1) in awaited := e :: !awaited;
            let u = (match mode_of tok j' with USync -> UAwait | u -> u) in      (* .sync() does not exist on the boxed future of after: the harness awaits *)
            [OFuture ([PAwait (nat_of_int e); PTouch], u)]
          | 'U' -> let (q, _) = num tok 1 in obj q; let e = !nev in incr nev; susp := e :: !susp; last_susp := Some e; [OSuspend (nat_of_int e, UAwait)]
          | 'R' when String.length tok > 1 -> raise (Unsupported "a resumer handed to another caller (R<q>)")
          | 'R' | 'r' -> (match !last_susp with Some e -> last_susp := None; [OFire (nat_of_int e)] | None -> [])
          | 'E' -> let (e, _) = num tok 1 in [OFire (nat_of_int e)]
          | 'V' -> []
          | 'L' -> []                                   (* the caller yields: no model step *)
          | 'T' -> raise (Unsupported "try_sync (T)")
          | 'Y' -> let (q, j) = num tok 1 in obj q; let (b, j') = body_of tok j in
            let u = (match mode_of tok j' with UAwait -> UAwait | UDropAfter n -> UDropAfter n | _ -> raise (Unsupported ("mode of " ^ tok))) in
            [OFutSync (parse_body tok b, u)]
          | 'I' | 'J' | 'G' | 'H' | 'N' | 'K' | 'Z' -> raise (Unsupported "pipes")
          | 'X' -> raise (Unsupported "drop of the object (X)")
          | 'P' | 'W' -> raise (Unsupported "panic programs")
          | 'O' -> raise (Unsupported "gates")
          | 'Q' -> raise (Unsupported "stale unpark (Q)")
          | _ -> raise (Unsupported ("operation " ^ tok)))
        (List.filter (fun x -> x <> "") (String.split_on_char ' ' p))) (List.tl parts) in
  if List.length !objs > 1 then raise (Unsupported "several objects");
  List.iter (fun e2 -> if List.mem e2 !awaited then raise (Unsupported "an event fired from inside a poll (a<e>-<e2>) is awaited by a job")) !hev;
  { pool; scripts; nev = !nev; harness_evs = !hev; susp_ev = List.rev !susp }

(* ---------- what a frame's step looks like in the log ---------- *)
let getf (s : state) f = match List.nth_opt s.futs f with Some c -> c | None -> { res = FNone; fwaker = None }
let getev (s : state) e = match List.nth_opt s.evs e with Some c -> c | None -> { fired = true; wakers = [] }
let top_of (s : state) a = match List.nth_opt s.actors a with Some ac -> (match ac.stack with f :: _ -> Some f | [] -> None) | None -> None

(* caller c is inside sync_background (its job is an UnsafeJob with notification): FSBwait / FSBclaim, or FSBdone below the frames
   of the queue it took over *)
let is_bg_waiter (s : state) (c : int) : bool =
  match List.nth_opt s.actors c with
  | Some ac -> List.exists (function FSBwait | FSBclaim | FSBdone -> true | _ -> false) ac.stack
  | None -> false

(* the log event at which the step of frame fr is taken; None = silent frame *)
let at_of (s : state) (fr : frame) : lab option =
  match fr with
  | FSFpoll f -> (match (getf s (i f)).res with FSome _ | FReturned -> Some (Fres (i f)) | FNone -> Some Core)   (* no result yet: the core section nested in fres *)
  | FPIdle -> Some Core                                  (* the core section nested in the schedule section of next_to_run *)
  (* the job of a sync_background caller c: the waiter reads `ready`, which is set (and the condvar notified) by the Drop of the
     UnsafeJob - AFTER job.run returned and, in run_one_job_now, after the debug_assert that follows it; the model's single job
     step (closure, sres := true) is taken at that section `cs ready <id> true` of the runner *)
  | FJob (JSync (_, c, _), _, _) when is_bg_waiter s (i c) -> Some (SetReady (i c))
  | FSBclaim -> Some Core                                (* claim_pending_queue of a sync_background waiter: core nested in the schedule section *)
  | FJob (JFut (_, Waiting, PAwait e :: _), _, _) -> if (getev s (i e)).fired then Some (Rdy (i e)) else Some (Reg (i e))
  | FJob (JFut (_, Waiting, PAwaitEither (e, e2) :: _), _, _) ->      (* api EITHERREADY <first fired> / EITHERREG <e> *)
    if (getev s (i e)).fired then Some (Rdy (i e)) else if (getev s (i e2)).fired then Some (Rdy (i e2)) else Some (Reg (i e))
  | FFire e -> Some (Fire (i e))
  | FWake (WTask c) -> Some (Twake (i c))
  | FPark _ -> Some Unparked
  | FTop ((OFuture _ | OSuspend _ | OFutSync _) :: _) -> Some NewF     (* the creation of the SchedulerFuture: future indices follow the log *)
  (* future_sync.  The slot job: send(queue_ready) is SILENT (the shim logs `os send` after the operation and after the receiver's
     waker has run: the step is taken lazily before the runner's next event - the waker call - or pulled forward by a poll that
     sees the value); one poll of done_recv = `os poll`; the signal = fres (generic case below) *)
  | FJob (JFut (_, Waiting, PAwaitDone d :: _), _, _) -> Some (OsPoll (i d))
  (* the owner's SyncFuture *)
  | FY (pc, y, st, u) ->
    let polls = (match u with UAwait | UDropAfter (S _) -> true | _ -> false) in
    (match pc, st with
     | (YPuse | YPpend), _ -> if polls then None else Some DropFut            (* sf DROPFUT: the executor gives up and drops the future *)
     | YPpark, _ -> Some Unparked
     | YPrecv, YQueue _ -> Some (OsPoll (i y.y_r))
     | YPuser, YFuture [] -> Some Oend                                        (* sf OEND <oid> finished *)
     | YPuser, YFuture (PAwait e :: _) -> if (getev s (i e)).fired then Some (Rdy (i e)) else Some (Reg (i e))
     | YPuser, YFuture (PAwaitEither (e, e2) :: _) ->
       if (getev s (i e)).fired then Some (Rdy (i e)) else if (getev s (i e2)).fired then Some (Rdy (i e2)) else Some (Reg (i e))
     | YPdrop1, YQueue _ -> Some (OsRx (i y.y_r))                              (* the receiver of queue_ready is dropped *)
     | YPdrop1, YFuture _ -> Some OendC                                       (* sf OEND <oid> cancelled: the user future is destroyed *)
     | _ -> None)      (* YPfin / YPdrop2 (task_finished.send / its drop) are silent for the same reason as the slot job's send *)
  | _ -> (match frame_label fr with
      | (LCore, _) -> Some Core | (LSched, _) -> Some Sched | (LFres, f) -> Some (Fres (i f)) | (LDw, d) -> Some (Dw (i d))
      | (LDbl, k) -> Some (Dbl (i k)) | (LEv, _) | (LNone, _) -> None)

(* read-only sections of the code that follow the step of fr (s0 -> s1) on the same task and have no model step *)
let post_of (s0 : state) (a : int) (fr : frame) (s1 : state) : lab list =
  let t1 = top_of s1 a in
  match fr with
  | FSFpoll f when (getf s0 (i f)).res = FNone ->
    Fres (i f) :: (match t1 with Some (FDQtake _) -> [Core] | _ -> [])             (* end of the result section; drain_queue asserts is_running *)
  | FPIdle -> (match t1 with Some FDRdeq -> [Sched; Core] | _ -> [])               (* end of next_to_run; drain asserts is_running *)
  | FSBclaim -> [Sched]                                                            (* end of claim_pending_queue *)
  | FDRdeq | FROdeq | FDQdeq _ -> (match t1 with Some (FJob _) -> [Core] | _ -> []) (* debug_assert after a successful dequeue *)
  | FS1 _ -> (match t1 with Some (FClosure _) | Some (FSDpush _) -> [Core] | _ -> []) (* sync_immediate / sync_drain assert is_running *)
  | FJob (JFut (_, Waiting, PSignal f :: _), _, _) -> [Fres (i f)]                 (* Drop of the signaller re-locks the result *)
  | FJob (JSync (_, c, _), _, KRoj) when is_bg_waiter s0 (i c) -> []                (* the Drop of the job comes after that debug_assert *)
  | FJob (_, _, KRoj) -> (match t1 with Some FSDloop -> [Core] | _ -> [])          (* run_one_job_now asserts is_running after the job *)
  | _ -> []

let core_snap (s : state) = Printf.sprintf "%s/%d" (show_qs s.qs) (List.length s.jobs)
let norm_core (snap : string) =       (* "State(..)/len/waiters" -> "State/len" *)
  match String.split_on_char '/' snap with
  | st :: len :: _ -> let st = (match String.index_opt st '(' with Some p -> String.sub st 0 p | None -> st) in st ^ "/" ^ len
  | _ -> snap
let sched_len (snap : string) = if snap = "[]" || snap = "" then 0 else List.length (String.split_on_char ',' snap)
(* does the logged snapshot agree with the model's view of the protected data? *)
let agrees (s : state) (l : lab) (snap : string) : bool =
  if snap = "" then true else
    match l with
    | Core -> norm_core snap = core_snap s
    | Sched -> sched_len snap = i s.insched
    | Dw d -> (match List.nth_opt s.dws d with Some (st, _) -> show_dw st = snap | None -> false)
    | _ -> true
let model_view (s : state) (l : lab) = match l with
  | Core -> core_snap s | Sched -> Printf.sprintf "%d entries" (i s.insched)
  | Dw d -> (match List.nth_opt s.dws d with Some (st, _) -> show_dw st | None -> "none") | _ -> "-"

(* the harness's event cell calls the registered wakers oldest first, the model newest first ([w :: wakers], wake_frames):
   after a fire the driver reverses the run of wake frames the step pushed *)
let reverse_wakes (s : state) (a : int) (n : int) : state =
  if n < 2 then s else
    { s with actors = List.mapi (fun k (ac : arec) -> if k <> a then ac else
        let rec split m l acc = if m = 0 then (acc, l) else (match l with x :: r -> split (m - 1) r (x :: acc) | [] -> (acc, [])) in
        let (revd, rest) = split n ac.stack [] in { ac with stack = revd @ rest }) s.actors }

(* ---------- replay ---------- *)
type stats = { mutable steps : int; mutable labelled : int; mutable stutters : int; mutable reorders : int; mutable rereg : int; mutable pulls : int; mutable ycalls : int }

let replay (p : pinfo) (evs : ev array) : stats =
  let ncallers = List.length p.scripts in
  let s = ref (init p.scripts (nat_of_int p.pool) (nat_of_int p.nev)) in
  let st = { steps = 0; labelled = 0; stutters = 0; reorders = 0; rereg = 0; pulls = 0; ycalls = 0 } in
  let cur = ref 0 in
  let div fmt = Printf.ksprintf (fun m -> raise (Diverge (Printf.sprintf "event %d: %s" !cur m))) fmt in
  let actor_of : (int, int) Hashtbl.t = Hashtbl.create 8 in
  let npool_seen = ref 0 in
  let os_ev : (int, int) Hashtbl.t = Hashtbl.create 8 in
  (* future_sync: the two channels a caller created just before `new fres` (queue_ready, done), channel id -> model cell, the
     harness operation id of the call a caller is in (sf YNEW), and how a done cell was resolved (true = sent, false = sender dropped) *)
  let ypend : (int, int list) Hashtbl.t = Hashtbl.create 4 in
  let ychan : (int, int) Hashtbl.t = Hashtbl.create 8 in
  let yoid : (int, int) Hashtbl.t = Hashtbl.create 4 in
  let cell_sent : (int, bool) Hashtbl.t = Hashtbl.create 8 in
  let os_seen : (int * string, unit) Hashtbl.t = Hashtbl.create 8 in
  (* log lines that have no model step of their own but must come before the actor goes on: after queue_ready resolved for the owner
     `sf OSTART` and `os rxdrop ready` precede the user future's first step; after done_recv resolved `os rxdrop fin` precedes the
     signal; after a silent send / sender drop its `os send` / `os txdrop` line precedes the step of the frame below the waker calls *)
  let need_ostart : (int, unit) Hashtbl.t = Hashtbl.create 4 in
  let need_rx : (int, int) Hashtbl.t = Hashtbl.create 4 in                    (* actor -> cell *)
  let need_tx : (int, int * int) Hashtbl.t = Hashtbl.create 4 in              (* actor -> cell, stack depth of the continuation *)
  let tx_seen : (int, unit) Hashtbl.t = Hashtbl.create 8 in                   (* cell *)
  let pend : (int, lab list) Hashtbl.t = Hashtbl.create 8 in
  let getp a = match Hashtbl.find_opt pend a with Some l -> l | None -> [] in
  (* read-only fres sections that come after whatever the woken waker does: signal = [fres: take waker]; waker.wake(); Drop of the signaller = [fres] *)
  let deferred : (int, lab list) Hashtbl.t = Hashtbl.create 8 in
  let getd a = match Hashtbl.find_opt deferred a with Some l -> l | None -> [] in
  (* run_one_job_now: the debug_assert between job.run and the Drop of a sync_background caller's job (exactly one core section) *)
  let pre_assert : (int, int) Hashtbl.t = Hashtbl.create 4 in
  let get_pa a = match Hashtbl.find_opt pre_assert a with Some n -> n | None -> 0 in
  let take_deferred a lab = let l = getd a in
    if List.mem lab l then begin
      let rec rm = function [] -> [] | x :: r -> if x = lab then r else x :: rm r in
      Hashtbl.replace deferred a (rm l); true end else false in
  let arec a = List.nth !s.actors a in
  let show_top a = match top_of !s a with Some f -> show_frame f | None -> "(empty stack)" in
  let raw_step a why =
    let fr = (match top_of !s a with Some f -> f | None -> div "%s: actor %d has an empty stack" why a) in
    (match fr with
     | FY (YPuser, _, _, _) | FJob (JFut (_, _, PSignal _ :: _), _, _) ->
       if Hashtbl.mem need_ostart a then div "actor %d polls the user future of its future_sync, the marker sf OSTART has not come" a;
       (match Hashtbl.find_opt need_rx a with Some c -> div "actor %d goes on although the receiver of cell %d has not been dropped (os rxdrop)" a c | None -> ())
     | _ -> ());
    (match Hashtbl.find_opt need_tx a with
     | Some (c, depth) when List.length (arec a).stack <= depth ->
       if not (Hashtbl.mem tx_seen c) then div "actor %d goes on after resolving cell %d, its os send / os txdrop line has not come" a c;
       Hashtbl.remove need_tx a
     | _ -> ());
    match step tables !s (nat_of_int a) with
    | None -> None
    | Some s1 ->
      let s1 = (match fr with
          (* FFire: the model calls the wakers oldest registration first, like the harness's event cell (no reordering needed any more) *)
          (* a suspend's resume channel is a futures oneshot: a second poll REPLACES the registered waker, the model's event cell
             (Model.v FJob .. PAwait: wakers := w :: wakers) keeps both and would wake twice at the fire: keep the newest only *)
          | FJob (JFut (_, _, PAwait e :: _), _, _) when List.mem (i e) p.susp_ev && List.length (getev s1 (i e)).wakers >= 2 ->
            st.rereg <- st.rereg + 1;
            { s1 with evs = List.mapi (fun k (c : evcell) -> if k = i e then { c with wakers = [List.hd c.wakers] } else c) s1.evs }
          | _ -> s1) in
      let wakes_above (st : frame list) = let rec go n = function FWake _ :: r -> go (n + 1) r | _ -> n in go 0 st in
      let tx c = (match List.nth_opt s1.actors a with
          | Some ac -> Hashtbl.replace need_tx a (c, List.length ac.stack - wakes_above ac.stack)
          | None -> ()) in
      (match fr with
       | FY (YPfin, y, _, _) -> Hashtbl.replace cell_sent (i y.y_r + 1) true; tx (i y.y_r + 1)
       | FY (YPdrop2, y, _, _) -> Hashtbl.replace cell_sent (i y.y_r + 1) false; tx (i y.y_r + 1)
       | FJob (JFut (_, Waiting, PSendReady r :: _), _, _) -> tx (i r)
       | FY (YPrecv, y, YQueue _, _) when (getev !s (i y.y_r)).fired -> Hashtbl.replace need_ostart a (); Hashtbl.replace need_rx a (i y.y_r)
       | FJob (JFut (_, Waiting, PAwaitDone d :: _), _, _) when (getev !s (i d)).fired -> Hashtbl.replace need_rx a (i d)
       | _ -> ());
      let post = post_of !s a fr s1 in
      if !trace then Printf.printf "  [event %d] actor %d steps %s (%s) -> %s/%d\n" !cur a (show_frame fr) why (show_qs s1.qs) (List.length s1.jobs);
      s := s1; st.steps <- st.steps + 1;
      Hashtbl.replace pend a (getp a @ post);
      Some fr in
  (* an actor that needs its park token: take the FUnpark frames that are waiting on top of other actors' stacks *)
  let give_token a =
    List.iteri (fun b (ac : arec) -> match ac.stack with
        | FUnpark c :: _ when i c = a && b <> a -> ignore (raw_step b (Printf.sprintf "unpark of actor %d" a))
        | _ -> ()) !s.actors in
  (* sync_background waits for its job (ready/syncres are not replayed): the runner's silent FJob (JSync) step may be outstanding *)
  let give_sres a =
    List.iteri (fun b (ac : arec) -> match ac.stack with
        | FJob (JSync (_, c, None), _, _) :: _ when i c = a && b <> a && getp b = [] -> ignore (raw_step b (Printf.sprintf "sync job of actor %d" a))
        | _ -> ()) !s.actors in
  (* silent frames of actor a, until a frame that shows in the log (returned), a blocked frame or post-sections to wait for *)
  let rec settle a guard : lab option =
    if guard = 0 then div "actor %d: too many silent steps" a;
    if getp a <> [] then None else
      match top_of !s a with
      | None -> None
      | Some fr ->
        (match at_of !s fr with
         | Some l -> Some l
         | None ->
           (match fr with FROpark _ when not (arec a).token -> give_token a | FSBwait when not (arec a).sres -> give_sres a | _ -> ());
           (match raw_step a "silent" with
            | Some _ -> settle a (guard - 1)
            | None -> None)) in
  (* the silent frames that finish caller a's previous operation; true when the caller is then between two operations (FTop): the
     harness-level await V<e> of a caller logs AWAITREG / AWAITREADY there, and the FTop step of the NEXT operation (silent for desync /
     sync) must not be taken yet *)
  let rec between_ops a guard : bool =
    if guard = 0 || getp a <> [] then false else
      match top_of !s a with
      | Some (FTop _) -> true
      | Some (FSBwait | FROpark _ | FPark _) | None -> false
      | Some fr ->
        (match at_of !s fr with
         | Some _ -> false
         | None -> (match raw_step a "silent" with Some _ -> between_ops a (guard - 1) | None -> false)) in
  let stutter a lab snap why =
    match lab with
    | Core | Sched | Dw _ ->
      if agrees !s lab snap then begin
        (* thread::park may return without an unpark (shuttle models such wake-ups); the loop of run_one_job_now then re-reads the
           state: harmless while it is WaitingForUnpark, but after a STALE WakeThread waker (of a finished sync caller, left
           registered by a select-style await) has written Running the caller leaves the loop although nobody unparked it: the
           model's FROpark needs the token *)
        (match lab, top_of !s a with
         | Core, Some (FROpark _) when not (arec a).token && (match !s.qs with Running | AwokenWhileRunning -> true | _ -> false) ->
           raise (Unsupported "spurious wake-up of thread::park in run_one_job_now after a stale WakeThread wake (the model's FROpark needs the unpark token)")
         | _ -> ());
        (match lab, top_of !s a with
         | Core, Some (FJob (JSync (_, c, _), _, KRoj)) when is_bg_waiter !s (i c) ->
           if get_pa a >= 1 then div "actor %d: a second core section between the run of the job of waiter %d and its Drop" a (i c);
           Hashtbl.replace pre_assert a (get_pa a + 1)
         | _ -> ());
        st.stutters <- st.stutters + 1 end
      else begin
        (match top_of !s a, lab with
         | Some FSBwait, (Core | Sched) -> raise (Unsupported "an unexpected section at the head of a sync waiter's loop (the waiter's claim is modelled and normally replayed; kept as a skip, not seen in the campaigns)")
         | _ -> ());
        div "actor %d performed a %s section with snapshot %s; the model's view is %s (%s; model frame %s)" a (show_lab lab) snap (model_view !s lab) why (show_top a)
      end
    | Fres f when (match top_of !s a with Some (FJob (JSync (_, c, Some f'), _, _)) -> i f' = f && is_bg_waiter !s (i c) | _ -> false) ->
      st.stutters <- st.stutters + 1        (* the closure of SchedulerFuture::sync() takes the result; the model's step comes at the job's Drop *)
    | Twake _ | Unparked -> ()                                                  (* harness executor: V<e>, poll-and-drop loops *)
    | Reg _ | Rdy _ when (match top_of !s a with Some (FTop _) -> true | _ -> false) -> ()   (* the caller's V<e> *)
    | _ -> div "actor %d performed %s, which the model does not expect (%s; model frame %s)" a (show_lab lab) why (show_top a) in
  (* a logged event with label lab by model actor a *)
  let rec handle a lab snap =
    match getp a with
    | l :: r when l = lab ->
      Hashtbl.replace pend a r;
      if not (agrees !s lab snap) then div "actor %d: %s inside a model step: impl=%s model=%s" a (show_lab lab) snap (model_view !s lab);
      st.stutters <- st.stutters + 1
    | (_ :: _ as l) when List.for_all (function Fres _ -> true | _ -> false) l ->
      Hashtbl.replace deferred a (getd a @ l); Hashtbl.replace pend a []; handle a lab snap
    | _ :: _ when take_deferred a lab -> st.stutters <- st.stutters + 1
    | _ :: _ -> stutter a lab snap "while read-only sections of the previous step are outstanding"
    | [] when (match lab with Reg _ | Rdy _ | Twake _ | Unparked -> a < ncallers && between_ops a 200 | _ -> false) -> ()   (* a caller's V<e> (await, wake, unpark), before its next operation *)
    | [] ->
      (match settle a 200 with
       | None when getp a <> [] -> handle a lab snap
       | None when take_deferred a lab -> st.stutters <- st.stutters + 1
       | None -> stutter a lab snap "model actor is blocked or finished"
       | Some at when at = lab ->
         let before = !s and pbefore = getp a in
         (match top_of !s a with Some (FPark _ | FY (YPpark, _, _, _)) when not (arec a).token -> give_token a | _ -> ());
         (match raw_step a (show_lab lab) with
          | None -> div "model actor %d cannot move at %s%s but the implementation performed %s" a (show_top a)
                      (if would_panic tables !s (nat_of_int a) then " (the model would panic here)" else "") (show_lab lab)
          | Some fr ->
            st.labelled <- st.labelled + 1;
            (match fr with FWake (WTask _) -> ignore (raw_step a "unpark") | _ -> ());
            if not (agrees !s lab snap) then begin
              if agrees before lab snap && (lab = Core || lab = Sched) then begin
                s := before; Hashtbl.replace pend a pbefore; st.steps <- st.steps - 1; st.labelled <- st.labelled - 1; st.stutters <- st.stutters + 1 end
              else div "after the model step of actor %d at %s: %s impl=%s model=%s" a (show_frame fr) (show_lab lab) snap (model_view !s lab)
            end)
       | Some at when take_deferred a lab -> st.stutters <- st.stutters + 1
       | Some at ->
         (match lab with
          | Twake _ | Unparked -> ()                                             (* harness executor: V<e>, poll-and-drop loops *)
          | Reg _ | Rdy _ when (match top_of !s a with Some (FTop _) -> true | _ -> false) -> ()   (* the caller's V<e> *)
          | _ -> stutter a lab snap (Printf.sprintf "the model expects %s" (show_lab at)))) in
  let n = Array.length evs in
  let ended = ref false in
  (* QueueResumer: api RESUME is logged before the shim's yield and the channel operation, os send/txdrop after the receiver's
     waker has already run: the fire step is taken at the firing actor's next event or at the first poll that sees the value *)
  let pfire : (int, int) Hashtbl.t = Hashtbl.create 4 in
  let seen_fres : (int, unit) Hashtbl.t = Hashtbl.create 8 in
  let ready_owner : (int, int) Hashtbl.t = Hashtbl.create 8 in      (* `ready` mutex id -> the sync_background caller that created it *)
  let held_sched : (int, unit) Hashtbl.t = Hashtbl.create 4 in
  let in_sbwait a = (match top_of !s a with Some FSBwait | Some FSBdone -> true | _ -> false) in
  let flush_fire a = match Hashtbl.find_opt pfire a with
    | Some x -> Hashtbl.remove pfire a; handle a (Fire x) ""
    | None -> () in
  let flush_fire_ev x = Hashtbl.iter (fun a y -> if y = x then (Hashtbl.remove pfire a; handle a (Fire x) "")) (Hashtbl.copy pfire) in
  (* future_sync: the step that resolves oneshot cell c (send of queue_ready by the slot job; task_finished.send / its drop by the
     owner) is silent and normally taken before the resolving task's next event.  A poll by ANOTHER task may be logged before that:
     the step is then taken at once (the shim logs `os send` / `os txdrop` after the operation, like replay_syncfut's pull-forward) *)
  let pull_cell c =
    if not (getev !s c).fired then begin
      List.iteri (fun b (_ : arec) ->
          let rec go guard =
            if guard > 0 && not (getev !s c).fired && getp b = [] then
              match top_of !s b with
              | Some (FJob (JFut (_, _, PSendReady r :: _), _, _)) when i r = c -> ignore (raw_step b "oneshot send seen by a poll"); go (guard - 1)
              | Some (FY ((YPfin | YPdrop2), y, _, _)) when i y.y_r + 1 = c -> ignore (raw_step b "oneshot send/drop seen by a poll"); go (guard - 1)
              | _ -> () in
          go 3) !s.actors;
      if (getev !s c).fired then st.pulls <- st.pulls + 1
    end in
  let has_fy a = List.exists (function FY _ -> true | _ -> false) (arec a).stack in
  (* at END every caller has finished its script in the implementation: the model's callers must get there by silent steps *)
  let at_end () =
    Hashtbl.iter (fun a x -> Hashtbl.remove pfire a; handle a (Fire x) "") (Hashtbl.copy pfire);
    for a = 0 to ncallers - 1 do
      (match settle a 200 with _ -> ());
      (match top_of !s a with
       | Some (FTop []) -> ()
       | _ -> div "at END caller %d is at %s in the model%s" a (show_top a) (if getp a <> [] then " (read-only sections outstanding)" else ""))
    done in
  let relevant (e : ev) = match e.kind, e.cls with
    | "cs", ("core" | "sched" | "fres" | "dwaker" | "dblwaker") -> true
    | "new", ("fres" | "dwaker" | "dblwaker" | "oneshot") -> true
    | "os", _ -> true
    | "api", ("RESUME" | "FIRE" | "AWAITREG" | "AWAITREADY" | "EITHERREG" | "EITHERREADY" | "TWAKE" | "UNPARKED") -> true
    | _ -> false in
  let is_hev e = List.mem e p.harness_evs in
  for k = 0 to n - 1 do
    cur := k;
    let e = evs.(k) in
    if e.kind = "acq" && e.cls = "sched" then Hashtbl.replace held_sched e.task ();
    if e.kind = "new" && e.cls = "ready" then (match Hashtbl.find_opt actor_of e.task with Some a -> Hashtbl.replace ready_owner e.id a | None -> ());
    if e.kind = "api" && e.cls = "CALLER" then Hashtbl.replace actor_of e.task e.id
    else if e.kind = "api" && e.cls = "END" then begin
      at_end (); ended := true
    end
    else if !ended && p.pool = 0 then ()        (* without a pool the harness drains the queues itself after END (extra sync calls) *)
    else if e.kind = "kick" then begin
      (* reschedule_queue sets the waiters' `rescheduled` flags INSIDE its core section, one waiter after the other; a waiter (its loop
         head is not under the core lock) may see its flag before the section is logged as ended, and the head of ANOTHER waiter's loop
         may fall between two kicks.  The FRQ1 step (state, schedule decision; nothing else can touch the core data until the section
         ends) is taken at the first kick, but the model's [kickall] sets every flag at once: the driver keeps the flags as they were
         and sets the flag of one waiter at each `kick ready <id>` (a loop head touches only the waiter's own flag, so it commutes with
         the kicks of the other waiters: the log order is one of the orders the model allows).  The section's own `cs core` event then
         only checks the snapshot *)
      (match Hashtbl.find_opt actor_of e.task with
       | Some b ->
         (match settle b 200 with
          | Some Core when (match top_of !s b with Some FRQ1 -> true | _ -> false) ->
            let flags = List.map (fun (ac : arec) -> ac.kicked) !s.actors in
            (match raw_step b "kick (reschedule_queue)" with
             | Some _ -> st.labelled <- st.labelled + 1; Hashtbl.replace pend b (Core :: getp b);
               s := { !s with actors = List.mapi (fun k (ac : arec) -> { ac with kicked = List.nth flags k }) !s.actors }
             | None -> ())
          | _ -> ());
         (match Hashtbl.find_opt ready_owner e.id with
          | Some w -> s := { !s with actors = List.mapi (fun k (ac : arec) -> if k = w then { ac with kicked = true } else ac) !s.actors }
          | None -> ())      (* the waiter has already returned (its `ready` is gone): nobody reads the flag *)
       | None -> ())
    end
    else if e.kind = "cs" && e.cls = "ready" then begin
      (* the head of the loop of a sync_background waiter, under its `ready` mutex (model frame FSBwait, no model lock): the section
         ends when the waiter leaves to claim the queue (ready = false, its `rescheduled` flag was set: FSBwait -> FSBclaim) or when
         it finds its job done (ready = true: FSBwait -> FSBdone).  Sections on `ready` by other tasks (the job wrapper, the
         pass-through of reschedule_queue) and by the waiter while it runs the queue itself are not model steps *)
      (match Hashtbl.find_opt actor_of e.task with
       | Some a when getp a = [] && (match top_of !s a with Some FSBwait -> true | _ -> false) ->
         if e.snap = "true" && not (arec a).sres then give_sres a;
         if e.snap = "false" && (arec a).sres then div "waiter %d found its job not yet run, in the model it has been run" a;
         (match raw_step a "head of the waiter's loop" with
          | Some _ -> ()
          | None -> div "waiter %d leaves the head of its loop (ready = %s), in the model it is blocked (job not run, not kicked)" a e.snap)
       | Some b when e.snap = "true" && (match top_of !s b with Some (FJob (JSync (_, c, _), _, _)) -> is_bg_waiter !s (i c) | _ -> false) ->
         (* the Drop of the UnsafeJob of a sync_background caller, on the task that ran it: ready := true, notify.  This is the model's
            job step (closure + sres := true); `ready` ids are numbered like the waiters' creation order, checked through the owner *)
         (match getp b with
          | [] -> ()
          | l when List.for_all (function Fres _ -> true | _ -> false) l -> Hashtbl.replace deferred b (getd b @ l); Hashtbl.replace pend b []
          | l -> div "actor %d drops the job of a sync_background caller while read-only sections (%s) are outstanding" b (show_lab (List.hd l)));
         (match top_of !s b with
          | Some (FJob (JSync (_, c, _), _, k)) ->
            (match k with
             | KRoj -> if get_pa b <> 1 then div "actor %d drops the job of waiter %d without the assertion section of run_one_job_now before it" b (i c);
               Hashtbl.replace pre_assert b 0
             | _ -> ());
            (match Hashtbl.find_opt ready_owner e.id with
             | Some a when a <> i c -> div "actor %d sets `ready` %d (waiter %d), in the model it runs the job of waiter %d" b e.id a (i c)
             | _ -> ());
            (match raw_step b (Printf.sprintf "job of waiter %d: ready := true" (i c)) with
             | Some _ -> st.labelled <- st.labelled + 1
             | None -> div "actor %d cannot run the job of waiter %d in the model%s" b (i c) (if would_panic tables !s (nat_of_int b) then " (the model would panic here)" else ""))
          | _ -> ())
       | _ -> ())
    end
    else if e.kind = "sf" && (match Hashtbl.find_opt actor_of e.task with Some a -> a < ncallers && has_fy a | None -> false) then begin
      (* harness markers of a caller that holds a SyncFuture *)
      let a = Hashtbl.find actor_of e.task in
      (match e.cls with
       | "YNEW" -> Hashtbl.replace yoid a e.id; st.ycalls <- st.ycalls + 1
       | "OSTART" when Hashtbl.find_opt yoid a = Some e.id ->
         (match top_of !s a with
          | Some (FY (YPuser, _, YFuture _, _)) when getp a = [] && Hashtbl.mem need_ostart a -> Hashtbl.remove need_ostart a
          | _ -> div "caller %d creates the user future of its future_sync, model frame %s" a (show_top a))
       | "OEND" when Hashtbl.find_opt yoid a = Some e.id -> handle a (if e.snap = "finished" then Oend else OendC) ""
       | "DROPFUT" -> handle a DropFut ""
       | _ -> ())
    end
    else if relevant e then begin
      let a = (match Hashtbl.find_opt actor_of e.task with
          | Some a -> a
          | None ->
            if !npool_seen >= p.pool then div "task %d is neither a caller nor one of the %d pool runners (%s %s)" e.task p.pool e.kind e.cls;
            let a = ncallers + !npool_seen in incr npool_seen; Hashtbl.replace actor_of e.task a; a) in
      if not (e.kind = "api" && e.cls = "RESUME") then flush_fire a;
      match e.kind, e.cls with
      | "new", "fres" ->
        (* the caller creates a SchedulerFuture: its FTop step allocates the model's future cell(s) *)
        if Hashtbl.mem seen_fres e.id then div "future result %d created twice" e.id;
        Hashtbl.replace seen_fres e.id ();
        if e.id >= List.length !s.futs then begin
          let ncell = List.length !s.evs in
          handle a NewF "";
          if e.id >= List.length !s.futs then div "future result %d created, the model has %d futures" e.id (List.length !s.futs);
          (match Hashtbl.find_opt ypend a with
           | Some [c1; c0] when List.length !s.evs = ncell + 2 -> Hashtbl.replace ychan c0 ncell; Hashtbl.replace ychan c1 (ncell + 1); Hashtbl.remove ypend a
           | Some _ -> div "caller %d created oneshot channels but its next operation in the model is not a future_sync (%s)" a (show_top a)
           | None -> if List.length !s.evs <> ncell then div "the model's future_sync of caller %d has no oneshot channels in the log" a)
        end
      | "new", "dwaker" -> if e.id <> List.length !s.dws - 1 then div "DrainWaker %d created, the model's latest is %d (actor %d at %s)" e.id (List.length !s.dws - 1) a (show_top a)
      | "new", "dblwaker" -> ()       (* created before the state is set to WaitingForPoll? no: after; checked at its use *)
      | "new", "oneshot" ->
        (match settle a 200 with _ -> ());
        (match top_of !s a with
         | Some (FJob (JFut (_, _, PSignal _ :: PAwait ev :: _), _, _)) -> Hashtbl.replace os_ev e.id (i ev)
         | Some (FTop (OFutSync _ :: _)) ->                 (* future_sync: queue_ready first, then done *)
           let l = (match Hashtbl.find_opt ypend a with Some l -> l | None -> []) in
           if List.length l >= 2 then div "caller %d creates a third oneshot channel before its future_sync" a;
           Hashtbl.replace ypend a (e.id :: l)
         | _ -> raise (Unsupported "a oneshot channel that is not the resume channel of a suspend"))
      | "os", c when Hashtbl.mem ychan e.id ->
        let cell = Hashtbl.find ychan e.id in
        let once k = if Hashtbl.mem os_seen (e.id, k) then div "oneshot %d (model cell %d): second %s" e.id cell k; Hashtbl.replace os_seen (e.id, k) () in
        (match c with
         | "send" | "txdrop" ->
           once "send / sender drop";
           Hashtbl.replace tx_seen cell ();
           (match settle a 200 with _ -> ());
           if not (getev !s cell).fired then div "oneshot %d (model cell %d): %s logged, in the model actor %d has not resolved the cell (%s)" e.id cell c a (show_top a);
           (match Hashtbl.find_opt cell_sent cell with
            | Some sent -> if sent <> (c = "send") then div "oneshot %d (model cell %d): %s, in the model the cell was %s" e.id cell c (if sent then "sent" else "dropped")
            | None -> if c <> "send" then div "oneshot %d (model cell %d, queue_ready): the sender was dropped" e.id cell)
         | "poll" ->
           if e.snap <> "pending" then pull_cell cell;
           (match settle a 200 with _ -> ());
           let fired = (getev !s cell).fired in
           if (e.snap = "pending") = fired then div "oneshot %d (model cell %d) polled by actor %d: impl=%s, in the model the cell is %s" e.id cell a e.snap (if fired then "resolved" else "empty");
           (match e.snap, Hashtbl.find_opt cell_sent cell with
            | "value", Some false -> div "oneshot %d (model cell %d): poll returned a value, in the model the sender was dropped" e.id cell
            | "canceled", (Some true | None) -> div "oneshot %d (model cell %d): poll returned Canceled, in the model the value was sent" e.id cell
            | _ -> ());
           handle a (OsPoll cell) ""
         | "rxdrop" ->
           once "receiver drop";
           if Hashtbl.find_opt need_rx a = Some cell then Hashtbl.remove need_rx a      (* after the channel resolved: no model step *)
           else begin
             (match settle a 200 with _ -> ());
             (match top_of !s a with
              | Some (FY (YPdrop1, y, YQueue _, _)) when i y.y_r = cell -> handle a (OsRx cell) ""
              | _ -> div "oneshot %d (model cell %d): receiver dropped by actor %d, model frame %s" e.id cell a (show_top a))
           end
         | _ -> ())
      | "os", c ->
        (match Hashtbl.find_opt os_ev e.id with
         | None -> raise (Unsupported "a oneshot channel that is not the resume channel of a suspend")
         | Some ev ->
           (match c, e.snap with
            | ("send" | "txdrop"), _ ->
              (* logged by the shim AFTER the channel operation (which already called the receiver's waker): the model step was
                 taken at the harness marker api RESUME, here only the agreement is checked *)
              if not (getev !s ev).fired then div "oneshot %d (model event %d) was sent/dropped but the model's event has not fired" e.id ev
            | "poll", "pending" -> handle a (Reg ev) ""
            | "poll", _ -> flush_fire_ev ev; handle a (Rdy ev) ""
            | _ -> ()))
      | "api", "FIRE" -> if not (is_hev e.id) || (match top_of !s a with Some (FTop (OFire x :: _)) -> i x = e.id | Some (FFire x) -> i x = e.id | _ -> false) then handle a (Fire e.id) ""
      | "api", "RESUME" ->
        (match settle a 200 with _ -> ());
        (match top_of !s a with
         | Some (FTop (OFire x :: _)) | Some (FFire x) -> if Hashtbl.mem pfire a then div "actor %d: two RESUME markers without a channel operation" a; Hashtbl.replace pfire a (i x)
         | _ -> div "actor %d resumes/drops a QueueResumer, the model is at %s" a (show_top a))
      | "api", "AWAITREG" -> if not (is_hev e.id) then handle a (Reg e.id) ""
      | "api", "AWAITREADY" -> if not (is_hev e.id) then handle a (Rdy e.id) ""
      | "api", "EITHERREG" -> handle a (Reg e.id) ""
      | "api", "EITHERREADY" -> handle a (Rdy e.id) ""
      | "api", "TWAKE" -> (match Hashtbl.find_opt actor_of e.id with Some c -> handle a (Twake c) "" | None -> ())
      | "api", "UNPARKED" -> handle a Unparked ""
      | "cs", "core" -> handle a Core e.snap
      | "cs", "sched" -> Hashtbl.remove held_sched e.task; handle a Sched e.snap
      | "cs", "fres" -> handle a (Fres e.id) ""
      | "cs", "dwaker" -> handle a (Dw e.id) e.snap
      | "cs", "dblwaker" -> handle a (Dbl e.id) ""
      | _ -> ()
    end
  done;
  cur := n;
  if not !ended then at_end ();
  (* at QUIET (pool >= 1) every operation has finished: no job is left (the runner may still be on its way out of drain) *)
  Hashtbl.iter (fun a l -> if l <> [] && p.pool = 0 then div "actor %d: the signaller's Drop section (%s) never came" a (show_lab (List.hd l))) deferred;
  (* ... except the slot jobs of future_sync calls whose future was dropped: the harness counts such a call as finished at the drop *)
  let left = List.filter (function JFut (_, _, sc) -> not (List.exists (function PSendReady _ | PAwaitDone _ -> true | _ -> false) sc) | _ -> true) !s.jobs in
  if p.pool >= 1 && p.susp_ev = [] && left <> [] then div "at QUIET the model's queue still holds %d job(s) (%s)" (List.length !s.jobs) (core_snap !s);
  st

(* ---------- main ---------- *)
let () =
  let args = List.tl (Array.to_list Sys.argv) in
  let files = List.filter (fun a -> if a = "--trace" then (trace := true; false) else true) args in
  let ok = ref 0 and bad = ref 0 and skipped = ref 0 and steps = ref 0 and labelled = ref 0 and stutters = ref 0 and events = ref 0 and reorders = ref 0 and rereg = ref 0 and ycalls = ref 0 and pulls = ref 0 in
  let skips : (string, int) Hashtbl.t = Hashtbl.create 16 in
  let skip file why = incr skipped; Hashtbl.replace skips why (1 + (match Hashtbl.find_opt skips why with Some n -> n | None -> 0)); Printf.printf "SKIP\t%s\t%s\n" file why in
  List.iter (fun file ->
      let ic = open_in file in
      let prog = ref "" and status = ref "" and evs = ref [] in
      (try while true do
           let l = input_line ic in
           if String.length l > 7 && String.sub l 0 7 = "# prog " then prog := String.sub l 7 (String.length l - 7)
           else if String.length l > 9 && String.sub l 0 9 = "# status " then status := String.sub l 9 (String.length l - 9)
           else if String.length l > 0 && l.[0] = '#' then ()
           else match String.split_on_char '\t' l with
             | [t; kind; cls; id; snap] ->
               if kind = "api" && cls = "QUIET" then raise End_of_file;
               evs := { task = int_of_string t; kind; cls; id = (try int_of_string id with _ -> -1); snap } :: !evs
             | _ -> ()
         done with End_of_file -> close_in ic);
      let evs = Array.of_list (List.rev !evs) in
      if String.length !status < 2 || String.sub !status 0 2 <> "ok" then skip file ("run status: " ^ !status)
      else
        (try
           let p = parse_prog !prog in
           let st = replay p evs in
           incr ok; steps := !steps + st.steps; labelled := !labelled + st.labelled; stutters := !stutters + st.stutters; reorders := !reorders + st.reorders; rereg := !rereg + st.rereg; ycalls := !ycalls + st.ycalls; pulls := !pulls + st.pulls;
           events := !events + Array.length evs;
           Printf.printf "OK\t%s\t%d\t%d\n" file st.steps st.labelled
         with
         | Diverge msg -> incr bad; Printf.printf "DIVERGE\t%s\t%s\t%s\n" file !prog msg
         | Unsupported why -> skip file why)) files;
  Hashtbl.iter (fun why n -> Printf.printf "SKIPS\t%d\t%s\n" n why) skips;
  Printf.printf "SUMMARY\tok=%d\tdiverged=%d\tskipped=%d\tmodel_steps=%d\tlabelled_steps=%d\tstutters=%d\twake_reorders=%d\toneshot_rereg=%d\tevents=%d\tfutsync_calls=%d\tos_pull_forward=%d\n" !ok !bad !skipped !steps !labelled !stutters !reorders !rereg !events !ycalls !pulls
