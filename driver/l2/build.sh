#!/bin/sh
# Extracts the L2 model (coq/theories/L2/Model.v with the tables of L2.GenTables.gen_ftables, i.e. gen/Tables.v generated from
# the current /repo source) and builds the replay driver.  L2/Model.vo, L2/GenTables.vo and gen/Tables.vo must exist.
# Typical use:
#   cd /verif/harness && ./target/release/runner run --profile fut --count 40 --scheds 5 --seed 3 --logdir /tmp/l2l --no-touch-yield --max-pool 1
#   /verif/driver/l2/_build/replay_l2 /tmp/l2l/*.log        # lines OK / DIVERGE / SKIP, then SKIPS, SUMMARY
set -e
cd "$(dirname "$0")"
mkdir -p _build && cd _build
C=../../../coq
coqc -Q $C/theories/L0 L0 -Q $C/gen Gen -Q $C/theories/L2 L2 $C/theories/L2/ExtractL2.v > extract.log 2>&1
rm -f $C/theories/L2/ExtractL2.vo $C/theories/L2/ExtractL2.vos $C/theories/L2/ExtractL2.vok $C/theories/L2/ExtractL2.glob $C/theories/L2/.ExtractL2.aux
cp ../replay_l2.ml .
ocamlfind ocamlopt -O2 -w -a -package str l2model.mli l2model.ml replay_l2.ml -linkpkg -o replay_l2 2>/dev/null || ocamlfind ocamlopt -w -a -package str l2model.mli l2model.ml replay_l2.ml -linkpkg -o replay_l2
