theories/L0/Types.vo theories/L0/Types.glob theories/L0/Types.v.beautified theories/L0/Types.required_vo: theories/L0/Types.v 
theories/L0/Types.vio: theories/L0/Types.v 
theories/L0/Types.vos theories/L0/Types.vok theories/L0/Types.required_vos: theories/L0/Types.v 
gen/Tables.vo gen/Tables.glob gen/Tables.v.beautified gen/Tables.required_vo: gen/Tables.v theories/L0/Types.vo
gen/Tables.vio: gen/Tables.v theories/L0/Types.vio
gen/Tables.vos gen/Tables.vok gen/Tables.required_vos: gen/Tables.v theories/L0/Types.vos
theories/L2/Model.vo theories/L2/Model.glob theories/L2/Model.v.beautified theories/L2/Model.required_vo: theories/L2/Model.v theories/L0/Types.vo
theories/L2/Model.vio: theories/L2/Model.v theories/L0/Types.vio
theories/L2/Model.vos theories/L2/Model.vok theories/L2/Model.required_vos: theories/L2/Model.v theories/L0/Types.vos
theories/L2/Inst.vo theories/L2/Inst.glob theories/L2/Inst.v.beautified theories/L2/Inst.required_vo: theories/L2/Inst.v theories/L2/Model.vo gen/Tables.vo
theories/L2/Inst.vio: theories/L2/Inst.v theories/L2/Model.vio gen/Tables.vio
theories/L2/Inst.vos theories/L2/Inst.vok theories/L2/Inst.required_vos: theories/L2/Inst.v theories/L2/Model.vos gen/Tables.vos
theories/L2/Sim.vo theories/L2/Sim.glob theories/L2/Sim.v.beautified theories/L2/Sim.required_vo: theories/L2/Sim.v theories/L2/Model.vo theories/L2/Inst.vo
theories/L2/Sim.vio: theories/L2/Sim.v theories/L2/Model.vio theories/L2/Inst.vio
theories/L2/Sim.vos theories/L2/Sim.vok theories/L2/Sim.required_vos: theories/L2/Sim.v theories/L2/Model.vos theories/L2/Inst.vos
theories/L2/Base.vo theories/L2/Base.glob theories/L2/Base.v.beautified theories/L2/Base.required_vo: theories/L2/Base.v theories/L2/Model.vo
theories/L2/Base.vio: theories/L2/Base.v theories/L2/Model.vio
theories/L2/Base.vos theories/L2/Base.vok theories/L2/Base.required_vos: theories/L2/Base.v theories/L2/Model.vos
theories/L2/Own.vo theories/L2/Own.glob theories/L2/Own.v.beautified theories/L2/Own.required_vo: theories/L2/Own.v theories/L2/Model.vo theories/L2/Base.vo
theories/L2/Own.vio: theories/L2/Own.v theories/L2/Model.vio theories/L2/Base.vio
theories/L2/Own.vos theories/L2/Own.vok theories/L2/Own.required_vos: theories/L2/Own.v theories/L2/Model.vos theories/L2/Base.vos
theories/L2/InstOwn.vo theories/L2/InstOwn.glob theories/L2/InstOwn.v.beautified theories/L2/InstOwn.required_vo: theories/L2/InstOwn.v theories/L2/Model.vo theories/L2/Base.vo theories/L2/Own.vo theories/L2/Inst.vo gen/Tables.vo theories/L2/Jobs.vo
theories/L2/InstOwn.vio: theories/L2/InstOwn.v theories/L2/Model.vio theories/L2/Base.vio theories/L2/Own.vio theories/L2/Inst.vio gen/Tables.vio theories/L2/Jobs.vio
theories/L2/InstOwn.vos theories/L2/InstOwn.vok theories/L2/InstOwn.required_vos: theories/L2/InstOwn.v theories/L2/Model.vos theories/L2/Base.vos theories/L2/Own.vos theories/L2/Inst.vos gen/Tables.vos theories/L2/Jobs.vos
theories/L2/Jobs.vo theories/L2/Jobs.glob theories/L2/Jobs.v.beautified theories/L2/Jobs.required_vo: theories/L2/Jobs.v theories/L2/Model.vo theories/L2/Base.vo theories/L2/Own.vo
theories/L2/Jobs.vio: theories/L2/Jobs.v theories/L2/Model.vio theories/L2/Base.vio theories/L2/Own.vio
theories/L2/Jobs.vos theories/L2/Jobs.vok theories/L2/Jobs.required_vos: theories/L2/Jobs.v theories/L2/Model.vos theories/L2/Base.vos theories/L2/Own.vos
theories/L2/DwInv.vo theories/L2/DwInv.glob theories/L2/DwInv.v.beautified theories/L2/DwInv.required_vo: theories/L2/DwInv.v theories/L2/Model.vo theories/L2/Base.vo theories/L2/Own.vo
theories/L2/DwInv.vio: theories/L2/DwInv.v theories/L2/Model.vio theories/L2/Base.vio theories/L2/Own.vio
theories/L2/DwInv.vos theories/L2/DwInv.vok theories/L2/DwInv.required_vos: theories/L2/DwInv.v theories/L2/Model.vos theories/L2/Base.vos theories/L2/Own.vos
theories/L2/Wake.vo theories/L2/Wake.glob theories/L2/Wake.v.beautified theories/L2/Wake.required_vo: theories/L2/Wake.v theories/L2/Model.vo theories/L2/Base.vo theories/L2/Own.vo theories/L2/Jobs.vo
theories/L2/Wake.vio: theories/L2/Wake.v theories/L2/Model.vio theories/L2/Base.vio theories/L2/Own.vio theories/L2/Jobs.vio
theories/L2/Wake.vos theories/L2/Wake.vok theories/L2/Wake.required_vos: theories/L2/Wake.v theories/L2/Model.vos theories/L2/Base.vos theories/L2/Own.vos theories/L2/Jobs.vos
theories/L2/WakeInv.vo theories/L2/WakeInv.glob theories/L2/WakeInv.v.beautified theories/L2/WakeInv.required_vo: theories/L2/WakeInv.v theories/L2/Model.vo theories/L2/Base.vo theories/L2/Own.vo theories/L2/Jobs.vo theories/L2/Wake.vo
theories/L2/WakeInv.vio: theories/L2/WakeInv.v theories/L2/Model.vio theories/L2/Base.vio theories/L2/Own.vio theories/L2/Jobs.vio theories/L2/Wake.vio
theories/L2/WakeInv.vos theories/L2/WakeInv.vok theories/L2/WakeInv.required_vos: theories/L2/WakeInv.v theories/L2/Model.vos theories/L2/Base.vos theories/L2/Own.vos theories/L2/Jobs.vos theories/L2/Wake.vos
theories/L2/InstWake.vo theories/L2/InstWake.glob theories/L2/InstWake.v.beautified theories/L2/InstWake.required_vo: theories/L2/InstWake.v theories/L2/Model.vo theories/L2/Base.vo theories/L2/Own.vo theories/L2/Jobs.vo theories/L2/Wake.vo theories/L2/WakeInv.vo theories/L2/Inst.vo gen/Tables.vo
theories/L2/InstWake.vio: theories/L2/InstWake.v theories/L2/Model.vio theories/L2/Base.vio theories/L2/Own.vio theories/L2/Jobs.vio theories/L2/Wake.vio theories/L2/WakeInv.vio theories/L2/Inst.vio gen/Tables.vio
theories/L2/InstWake.vos theories/L2/InstWake.vok theories/L2/InstWake.required_vos: theories/L2/InstWake.v theories/L2/Model.vos theories/L2/Base.vos theories/L2/Own.vos theories/L2/Jobs.vos theories/L2/Wake.vos theories/L2/WakeInv.vos theories/L2/Inst.vos gen/Tables.vos
theories/L2/WakeLem.vo theories/L2/WakeLem.glob theories/L2/WakeLem.v.beautified theories/L2/WakeLem.required_vo: theories/L2/WakeLem.v theories/L2/Model.vo theories/L2/Base.vo theories/L2/Own.vo theories/L2/Jobs.vo theories/L2/DwInv.vo theories/L2/Wake.vo theories/L2/WakeInv.vo
theories/L2/WakeLem.vio: theories/L2/WakeLem.v theories/L2/Model.vio theories/L2/Base.vio theories/L2/Own.vio theories/L2/Jobs.vio theories/L2/DwInv.vio theories/L2/Wake.vio theories/L2/WakeInv.vio
theories/L2/WakeLem.vos theories/L2/WakeLem.vok theories/L2/WakeLem.required_vos: theories/L2/WakeLem.v theories/L2/Model.vos theories/L2/Base.vos theories/L2/Own.vos theories/L2/Jobs.vos theories/L2/DwInv.vos theories/L2/Wake.vos theories/L2/WakeInv.vos
theories/L2/Shape.vo theories/L2/Shape.glob theories/L2/Shape.v.beautified theories/L2/Shape.required_vo: theories/L2/Shape.v theories/L2/Model.vo theories/L2/Base.vo theories/L2/Own.vo
theories/L2/Shape.vio: theories/L2/Shape.v theories/L2/Model.vio theories/L2/Base.vio theories/L2/Own.vio
theories/L2/Shape.vos theories/L2/Shape.vok theories/L2/Shape.required_vos: theories/L2/Shape.v theories/L2/Model.vos theories/L2/Base.vos theories/L2/Own.vos
theories/L2/WakeStep1.vo theories/L2/WakeStep1.glob theories/L2/WakeStep1.v.beautified theories/L2/WakeStep1.required_vo: theories/L2/WakeStep1.v theories/L2/Model.vo theories/L2/Base.vo theories/L2/Own.vo theories/L2/Jobs.vo theories/L2/Shape.vo theories/L2/Wake.vo theories/L2/WakeInv.vo theories/L2/WakeLem.vo
theories/L2/WakeStep1.vio: theories/L2/WakeStep1.v theories/L2/Model.vio theories/L2/Base.vio theories/L2/Own.vio theories/L2/Jobs.vio theories/L2/Shape.vio theories/L2/Wake.vio theories/L2/WakeInv.vio theories/L2/WakeLem.vio
theories/L2/WakeStep1.vos theories/L2/WakeStep1.vok theories/L2/WakeStep1.required_vos: theories/L2/WakeStep1.v theories/L2/Model.vos theories/L2/Base.vos theories/L2/Own.vos theories/L2/Jobs.vos theories/L2/Shape.vos theories/L2/Wake.vos theories/L2/WakeInv.vos theories/L2/WakeLem.vos
theories/L2/WakeStep2.vo theories/L2/WakeStep2.glob theories/L2/WakeStep2.v.beautified theories/L2/WakeStep2.required_vo: theories/L2/WakeStep2.v theories/L2/Model.vo theories/L2/Base.vo theories/L2/Own.vo theories/L2/Jobs.vo theories/L2/Shape.vo theories/L2/DwInv.vo theories/L2/Wake.vo theories/L2/WakeInv.vo theories/L2/WakeLem.vo theories/L2/WakeStep1.vo
theories/L2/WakeStep2.vio: theories/L2/WakeStep2.v theories/L2/Model.vio theories/L2/Base.vio theories/L2/Own.vio theories/L2/Jobs.vio theories/L2/Shape.vio theories/L2/DwInv.vio theories/L2/Wake.vio theories/L2/WakeInv.vio theories/L2/WakeLem.vio theories/L2/WakeStep1.vio
theories/L2/WakeStep2.vos theories/L2/WakeStep2.vok theories/L2/WakeStep2.required_vos: theories/L2/WakeStep2.v theories/L2/Model.vos theories/L2/Base.vos theories/L2/Own.vos theories/L2/Jobs.vos theories/L2/Shape.vos theories/L2/DwInv.vos theories/L2/Wake.vos theories/L2/WakeInv.vos theories/L2/WakeLem.vos theories/L2/WakeStep1.vos
theories/L2/WakeStep3.vo theories/L2/WakeStep3.glob theories/L2/WakeStep3.v.beautified theories/L2/WakeStep3.required_vo: theories/L2/WakeStep3.v theories/L2/Model.vo theories/L2/Base.vo theories/L2/Own.vo theories/L2/Jobs.vo theories/L2/Shape.vo theories/L2/DwInv.vo theories/L2/Wake.vo theories/L2/WakeInv.vo theories/L2/WakeLem.vo theories/L2/WakeStep1.vo theories/L2/WakeStep2.vo
theories/L2/WakeStep3.vio: theories/L2/WakeStep3.v theories/L2/Model.vio theories/L2/Base.vio theories/L2/Own.vio theories/L2/Jobs.vio theories/L2/Shape.vio theories/L2/DwInv.vio theories/L2/Wake.vio theories/L2/WakeInv.vio theories/L2/WakeLem.vio theories/L2/WakeStep1.vio theories/L2/WakeStep2.vio
theories/L2/WakeStep3.vos theories/L2/WakeStep3.vok theories/L2/WakeStep3.required_vos: theories/L2/WakeStep3.v theories/L2/Model.vos theories/L2/Base.vos theories/L2/Own.vos theories/L2/Jobs.vos theories/L2/Shape.vos theories/L2/DwInv.vos theories/L2/Wake.vos theories/L2/WakeInv.vos theories/L2/WakeLem.vos theories/L2/WakeStep1.vos theories/L2/WakeStep2.vos
