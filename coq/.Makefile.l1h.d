theories/L0/Types.vo theories/L0/Types.glob theories/L0/Types.v.beautified theories/L0/Types.required_vo: theories/L0/Types.v 
theories/L0/Types.vio: theories/L0/Types.v 
theories/L0/Types.vos theories/L0/Types.vok theories/L0/Types.required_vos: theories/L0/Types.v 
gen/Tables.vo gen/Tables.glob gen/Tables.v.beautified gen/Tables.required_vo: gen/Tables.v theories/L0/Types.vo
gen/Tables.vio: gen/Tables.v theories/L0/Types.vio
gen/Tables.vos gen/Tables.vok gen/Tables.required_vos: gen/Tables.v theories/L0/Types.vos
theories/L1/Model.vo theories/L1/Model.glob theories/L1/Model.v.beautified theories/L1/Model.required_vo: theories/L1/Model.v theories/L0/Types.vo
theories/L1/Model.vio: theories/L1/Model.v theories/L0/Types.vio
theories/L1/Model.vos theories/L1/Model.vok theories/L1/Model.required_vos: theories/L1/Model.v theories/L0/Types.vos
theories/L1/Own.vo theories/L1/Own.glob theories/L1/Own.v.beautified theories/L1/Own.required_vo: theories/L1/Own.v theories/L1/Model.vo
theories/L1/Own.vio: theories/L1/Own.v theories/L1/Model.vio
theories/L1/Own.vos theories/L1/Own.vok theories/L1/Own.required_vos: theories/L1/Own.v theories/L1/Model.vos
theories/L1/Shape.vo theories/L1/Shape.glob theories/L1/Shape.v.beautified theories/L1/Shape.required_vo: theories/L1/Shape.v theories/L1/Model.vo
theories/L1/Shape.vio: theories/L1/Shape.v theories/L1/Model.vio
theories/L1/Shape.vos theories/L1/Shape.vok theories/L1/Shape.required_vos: theories/L1/Shape.v theories/L1/Model.vos
theories/L1/Stuck.vo theories/L1/Stuck.glob theories/L1/Stuck.v.beautified theories/L1/Stuck.required_vo: theories/L1/Stuck.v theories/L1/Model.vo theories/L1/Shape.vo
theories/L1/Stuck.vio: theories/L1/Stuck.v theories/L1/Model.vio theories/L1/Shape.vio
theories/L1/Stuck.vos theories/L1/Stuck.vok theories/L1/Stuck.required_vos: theories/L1/Stuck.v theories/L1/Model.vos theories/L1/Shape.vos
theories/L1/Live.vo theories/L1/Live.glob theories/L1/Live.v.beautified theories/L1/Live.required_vo: theories/L1/Live.v theories/L1/Model.vo theories/L1/Own.vo theories/L1/Shape.vo theories/L1/Stuck.vo
theories/L1/Live.vio: theories/L1/Live.v theories/L1/Model.vio theories/L1/Own.vio theories/L1/Shape.vio theories/L1/Stuck.vio
theories/L1/Live.vos theories/L1/Live.vok theories/L1/Live.required_vos: theories/L1/Live.v theories/L1/Model.vos theories/L1/Own.vos theories/L1/Shape.vos theories/L1/Stuck.vos
theories/L1/Wait.vo theories/L1/Wait.glob theories/L1/Wait.v.beautified theories/L1/Wait.required_vo: theories/L1/Wait.v theories/L1/Model.vo theories/L1/Own.vo theories/L1/Shape.vo theories/L1/Stuck.vo theories/L1/Live.vo
theories/L1/Wait.vio: theories/L1/Wait.v theories/L1/Model.vio theories/L1/Own.vio theories/L1/Shape.vio theories/L1/Stuck.vio theories/L1/Live.vio
theories/L1/Wait.vos theories/L1/Wait.vok theories/L1/Wait.required_vos: theories/L1/Wait.v theories/L1/Model.vos theories/L1/Own.vos theories/L1/Shape.vos theories/L1/Stuck.vos theories/L1/Live.vos
theories/L1/Help.vo theories/L1/Help.glob theories/L1/Help.v.beautified theories/L1/Help.required_vo: theories/L1/Help.v theories/L1/Model.vo theories/L1/Own.vo theories/L1/Shape.vo theories/L1/Stuck.vo theories/L1/Live.vo theories/L1/Wait.vo
theories/L1/Help.vio: theories/L1/Help.v theories/L1/Model.vio theories/L1/Own.vio theories/L1/Shape.vio theories/L1/Stuck.vio theories/L1/Live.vio theories/L1/Wait.vio
theories/L1/Help.vos theories/L1/Help.vok theories/L1/Help.required_vos: theories/L1/Help.v theories/L1/Model.vos theories/L1/Own.vos theories/L1/Shape.vos theories/L1/Stuck.vos theories/L1/Live.vos theories/L1/Wait.vos
theories/L1/Final.vo theories/L1/Final.glob theories/L1/Final.v.beautified theories/L1/Final.required_vo: theories/L1/Final.v theories/L1/Model.vo theories/L1/Own.vo theories/L1/Shape.vo theories/L1/Stuck.vo theories/L1/Live.vo theories/L1/Wait.vo theories/L1/Help.vo
theories/L1/Final.vio: theories/L1/Final.v theories/L1/Model.vio theories/L1/Own.vio theories/L1/Shape.vio theories/L1/Stuck.vio theories/L1/Live.vio theories/L1/Wait.vio theories/L1/Help.vio
theories/L1/Final.vos theories/L1/Final.vok theories/L1/Final.required_vos: theories/L1/Final.v theories/L1/Model.vos theories/L1/Own.vos theories/L1/Shape.vos theories/L1/Stuck.vos theories/L1/Live.vos theories/L1/Wait.vos theories/L1/Help.vos
theories/L1h/Hist.vo theories/L1h/Hist.glob theories/L1h/Hist.v.beautified theories/L1h/Hist.required_vo: theories/L1h/Hist.v theories/L1/Model.vo theories/L1/Stuck.vo
theories/L1h/Hist.vio: theories/L1h/Hist.v theories/L1/Model.vio theories/L1/Stuck.vio
theories/L1h/Hist.vos theories/L1h/Hist.vok theories/L1h/Hist.required_vos: theories/L1h/Hist.v theories/L1/Model.vos theories/L1/Stuck.vos
theories/L1h/Abs.vo theories/L1h/Abs.glob theories/L1h/Abs.v.beautified theories/L1h/Abs.required_vo: theories/L1h/Abs.v theories/L1/Model.vo theories/L1/Shape.vo theories/L1/Stuck.vo theories/L1h/Hist.vo
theories/L1h/Abs.vio: theories/L1h/Abs.v theories/L1/Model.vio theories/L1/Shape.vio theories/L1/Stuck.vio theories/L1h/Hist.vio
theories/L1h/Abs.vos theories/L1h/Abs.vok theories/L1h/Abs.required_vos: theories/L1h/Abs.v theories/L1/Model.vos theories/L1/Shape.vos theories/L1/Stuck.vos theories/L1h/Hist.vos
theories/L1h/SimBase.vo theories/L1h/SimBase.glob theories/L1h/SimBase.v.beautified theories/L1h/SimBase.required_vo: theories/L1h/SimBase.v theories/L1/Model.vo theories/L1/Own.vo theories/L1/Shape.vo theories/L1/Stuck.vo theories/L1h/Hist.vo theories/L1h/Abs.vo
theories/L1h/SimBase.vio: theories/L1h/SimBase.v theories/L1/Model.vio theories/L1/Own.vio theories/L1/Shape.vio theories/L1/Stuck.vio theories/L1h/Hist.vio theories/L1h/Abs.vio
theories/L1h/SimBase.vos theories/L1h/SimBase.vok theories/L1h/SimBase.required_vos: theories/L1h/SimBase.v theories/L1/Model.vos theories/L1/Own.vos theories/L1/Shape.vos theories/L1/Stuck.vos theories/L1h/Hist.vos theories/L1h/Abs.vos
theories/L1h/Sim.vo theories/L1h/Sim.glob theories/L1h/Sim.v.beautified theories/L1h/Sim.required_vo: theories/L1h/Sim.v theories/L1/Model.vo theories/L1/Own.vo theories/L1/Shape.vo theories/L1/Stuck.vo theories/L1h/Hist.vo theories/L1h/Abs.vo theories/L1h/SimBase.vo
theories/L1h/Sim.vio: theories/L1h/Sim.v theories/L1/Model.vio theories/L1/Own.vio theories/L1/Shape.vio theories/L1/Stuck.vio theories/L1h/Hist.vio theories/L1h/Abs.vio theories/L1h/SimBase.vio
theories/L1h/Sim.vos theories/L1h/Sim.vok theories/L1h/Sim.required_vos: theories/L1h/Sim.v theories/L1/Model.vos theories/L1/Own.vos theories/L1/Shape.vos theories/L1/Stuck.vos theories/L1h/Hist.vos theories/L1h/Abs.vos theories/L1h/SimBase.vos
theories/L1h/HistFacts.vo theories/L1h/HistFacts.glob theories/L1h/HistFacts.v.beautified theories/L1h/HistFacts.required_vo: theories/L1h/HistFacts.v theories/L1/Model.vo theories/L1h/Hist.vo
theories/L1h/HistFacts.vio: theories/L1h/HistFacts.v theories/L1/Model.vio theories/L1h/Hist.vio
theories/L1h/HistFacts.vos theories/L1h/HistFacts.vok theories/L1h/HistFacts.required_vos: theories/L1h/HistFacts.v theories/L1/Model.vos theories/L1h/Hist.vos
theories/L1h/AInv.vo theories/L1h/AInv.glob theories/L1h/AInv.v.beautified theories/L1h/AInv.required_vo: theories/L1h/AInv.v theories/L1/Model.vo theories/L1h/Hist.vo theories/L1h/Abs.vo theories/L1h/HistFacts.vo
theories/L1h/AInv.vio: theories/L1h/AInv.v theories/L1/Model.vio theories/L1h/Hist.vio theories/L1h/Abs.vio theories/L1h/HistFacts.vio
theories/L1h/AInv.vos theories/L1h/AInv.vok theories/L1h/AInv.required_vos: theories/L1h/AInv.v theories/L1/Model.vos theories/L1h/Hist.vos theories/L1h/Abs.vos theories/L1h/HistFacts.vos
