theories/SyncFut/Model.vo theories/SyncFut/Model.glob theories/SyncFut/Model.v.beautified theories/SyncFut/Model.required_vo: theories/SyncFut/Model.v 
theories/SyncFut/Model.vio: theories/SyncFut/Model.v 
theories/SyncFut/Model.vos theories/SyncFut/Model.vok theories/SyncFut/Model.required_vos: theories/SyncFut/Model.v 
theories/SyncFut/Spec.vo theories/SyncFut/Spec.glob theories/SyncFut/Spec.v.beautified theories/SyncFut/Spec.required_vo: theories/SyncFut/Spec.v theories/SyncFut/Model.vo
theories/SyncFut/Spec.vio: theories/SyncFut/Spec.v theories/SyncFut/Model.vio
theories/SyncFut/Spec.vos theories/SyncFut/Spec.vok theories/SyncFut/Spec.required_vos: theories/SyncFut/Spec.v theories/SyncFut/Model.vos
theories/SyncFut/Inv.vo theories/SyncFut/Inv.glob theories/SyncFut/Inv.v.beautified theories/SyncFut/Inv.required_vo: theories/SyncFut/Inv.v theories/SyncFut/Model.vo theories/SyncFut/Spec.vo
theories/SyncFut/Inv.vio: theories/SyncFut/Inv.v theories/SyncFut/Model.vio theories/SyncFut/Spec.vio
theories/SyncFut/Inv.vos theories/SyncFut/Inv.vok theories/SyncFut/Inv.required_vos: theories/SyncFut/Inv.v theories/SyncFut/Model.vos theories/SyncFut/Spec.vos
theories/SyncFut/QueueStep.vo theories/SyncFut/QueueStep.glob theories/SyncFut/QueueStep.v.beautified theories/SyncFut/QueueStep.required_vo: theories/SyncFut/QueueStep.v theories/SyncFut/Model.vo theories/SyncFut/Spec.vo theories/SyncFut/Inv.vo
theories/SyncFut/QueueStep.vio: theories/SyncFut/QueueStep.v theories/SyncFut/Model.vio theories/SyncFut/Spec.vio theories/SyncFut/Inv.vio
theories/SyncFut/QueueStep.vos theories/SyncFut/QueueStep.vok theories/SyncFut/QueueStep.required_vos: theories/SyncFut/QueueStep.v theories/SyncFut/Model.vos theories/SyncFut/Spec.vos theories/SyncFut/Inv.vos
theories/SyncFut/TaskStep.vo theories/SyncFut/TaskStep.glob theories/SyncFut/TaskStep.v.beautified theories/SyncFut/TaskStep.required_vo: theories/SyncFut/TaskStep.v theories/SyncFut/Model.vo theories/SyncFut/Spec.vo theories/SyncFut/Inv.vo theories/SyncFut/QueueStep.vo
theories/SyncFut/TaskStep.vio: theories/SyncFut/TaskStep.v theories/SyncFut/Model.vio theories/SyncFut/Spec.vio theories/SyncFut/Inv.vio theories/SyncFut/QueueStep.vio
theories/SyncFut/TaskStep.vos theories/SyncFut/TaskStep.vok theories/SyncFut/TaskStep.required_vos: theories/SyncFut/TaskStep.v theories/SyncFut/Model.vos theories/SyncFut/Spec.vos theories/SyncFut/Inv.vos theories/SyncFut/QueueStep.vos
theories/SyncFut/Frame.vo theories/SyncFut/Frame.glob theories/SyncFut/Frame.v.beautified theories/SyncFut/Frame.required_vo: theories/SyncFut/Frame.v theories/SyncFut/Model.vo theories/SyncFut/Spec.vo theories/SyncFut/Inv.vo theories/SyncFut/QueueStep.vo theories/SyncFut/TaskStep.vo
theories/SyncFut/Frame.vio: theories/SyncFut/Frame.v theories/SyncFut/Model.vio theories/SyncFut/Spec.vio theories/SyncFut/Inv.vio theories/SyncFut/QueueStep.vio theories/SyncFut/TaskStep.vio
theories/SyncFut/Frame.vos theories/SyncFut/Frame.vok theories/SyncFut/Frame.required_vos: theories/SyncFut/Frame.v theories/SyncFut/Model.vos theories/SyncFut/Spec.vos theories/SyncFut/Inv.vos theories/SyncFut/QueueStep.vos theories/SyncFut/TaskStep.vos
