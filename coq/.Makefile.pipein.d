theories/PipeIn/Model.vo theories/PipeIn/Model.glob theories/PipeIn/Model.v.beautified theories/PipeIn/Model.required_vo: theories/PipeIn/Model.v 
theories/PipeIn/Model.vio: theories/PipeIn/Model.v 
theories/PipeIn/Model.vos theories/PipeIn/Model.vok theories/PipeIn/Model.required_vos: theories/PipeIn/Model.v 
theories/PipeIn/Sim.vo theories/PipeIn/Sim.glob theories/PipeIn/Sim.v.beautified theories/PipeIn/Sim.required_vo: theories/PipeIn/Sim.v theories/PipeIn/Model.vo
theories/PipeIn/Sim.vio: theories/PipeIn/Sim.v theories/PipeIn/Model.vio
theories/PipeIn/Sim.vos theories/PipeIn/Sim.vok theories/PipeIn/Sim.required_vos: theories/PipeIn/Sim.v theories/PipeIn/Model.vos
theories/PipeIn/Inv.vo theories/PipeIn/Inv.glob theories/PipeIn/Inv.v.beautified theories/PipeIn/Inv.required_vo: theories/PipeIn/Inv.v theories/PipeIn/Model.vo
theories/PipeIn/Inv.vio: theories/PipeIn/Inv.v theories/PipeIn/Model.vio
theories/PipeIn/Inv.vos theories/PipeIn/Inv.vok theories/PipeIn/Inv.required_vos: theories/PipeIn/Inv.v theories/PipeIn/Model.vos
theories/PipeIn/Thm.vo theories/PipeIn/Thm.glob theories/PipeIn/Thm.v.beautified theories/PipeIn/Thm.required_vo: theories/PipeIn/Thm.v theories/PipeIn/Model.vo theories/PipeIn/Inv.vo
theories/PipeIn/Thm.vio: theories/PipeIn/Thm.v theories/PipeIn/Model.vio theories/PipeIn/Inv.vio
theories/PipeIn/Thm.vos theories/PipeIn/Thm.vok theories/PipeIn/Thm.required_vos: theories/PipeIn/Thm.v theories/PipeIn/Model.vos theories/PipeIn/Inv.vos
theories/PipeIn/Term.vo theories/PipeIn/Term.glob theories/PipeIn/Term.v.beautified theories/PipeIn/Term.required_vo: theories/PipeIn/Term.v theories/PipeIn/Model.vo theories/PipeIn/Inv.vo theories/PipeIn/Thm.vo
theories/PipeIn/Term.vio: theories/PipeIn/Term.v theories/PipeIn/Model.vio theories/PipeIn/Inv.vio theories/PipeIn/Thm.vio
theories/PipeIn/Term.vos theories/PipeIn/Term.vok theories/PipeIn/Term.required_vos: theories/PipeIn/Term.v theories/PipeIn/Model.vos theories/PipeIn/Inv.vos theories/PipeIn/Thm.vos
theories/PipeIn/OneShot.vo theories/PipeIn/OneShot.glob theories/PipeIn/OneShot.v.beautified theories/PipeIn/OneShot.required_vo: theories/PipeIn/OneShot.v theories/PipeIn/Model.vo theories/PipeIn/Inv.vo theories/PipeIn/Term.vo
theories/PipeIn/OneShot.vio: theories/PipeIn/OneShot.v theories/PipeIn/Model.vio theories/PipeIn/Inv.vio theories/PipeIn/Term.vio
theories/PipeIn/OneShot.vos theories/PipeIn/OneShot.vok theories/PipeIn/OneShot.required_vos: theories/PipeIn/OneShot.v theories/PipeIn/Model.vos theories/PipeIn/Inv.vos theories/PipeIn/Term.vos
theories/PipeIn/PropsC11.vo theories/PipeIn/PropsC11.glob theories/PipeIn/PropsC11.v.beautified theories/PipeIn/PropsC11.required_vo: theories/PipeIn/PropsC11.v theories/PipeIn/Model.vo theories/PipeIn/Inv.vo theories/PipeIn/Thm.vo theories/PipeIn/Term.vo theories/PipeIn/OneShot.vo
theories/PipeIn/PropsC11.vio: theories/PipeIn/PropsC11.v theories/PipeIn/Model.vio theories/PipeIn/Inv.vio theories/PipeIn/Thm.vio theories/PipeIn/Term.vio theories/PipeIn/OneShot.vio
theories/PipeIn/PropsC11.vos theories/PipeIn/PropsC11.vok theories/PipeIn/PropsC11.required_vos: theories/PipeIn/PropsC11.v theories/PipeIn/Model.vos theories/PipeIn/Inv.vos theories/PipeIn/Thm.vos theories/PipeIn/Term.vos theories/PipeIn/OneShot.vos
theories/PipeIn/PropsC11_examples.vo theories/PipeIn/PropsC11_examples.glob theories/PipeIn/PropsC11_examples.v.beautified theories/PipeIn/PropsC11_examples.required_vo: theories/PipeIn/PropsC11_examples.v theories/PipeIn/Model.vo theories/PipeIn/Sim.vo theories/PipeIn/Inv.vo theories/PipeIn/Thm.vo
theories/PipeIn/PropsC11_examples.vio: theories/PipeIn/PropsC11_examples.v theories/PipeIn/Model.vio theories/PipeIn/Sim.vio theories/PipeIn/Inv.vio theories/PipeIn/Thm.vio
theories/PipeIn/PropsC11_examples.vos theories/PipeIn/PropsC11_examples.vok theories/PipeIn/PropsC11_examples.required_vos: theories/PipeIn/PropsC11_examples.v theories/PipeIn/Model.vos theories/PipeIn/Sim.vos theories/PipeIn/Inv.vos theories/PipeIn/Thm.vos
