theories/PipeIn/Model.vo theories/PipeIn/Model.glob theories/PipeIn/Model.v.beautified theories/PipeIn/Model.required_vo: theories/PipeIn/Model.v 
theories/PipeIn/Model.vio: theories/PipeIn/Model.v 
theories/PipeIn/Model.vos theories/PipeIn/Model.vok theories/PipeIn/Model.required_vos: theories/PipeIn/Model.v 
theories/PipeIn/Inv.vo theories/PipeIn/Inv.glob theories/PipeIn/Inv.v.beautified theories/PipeIn/Inv.required_vo: theories/PipeIn/Inv.v theories/PipeIn/Model.vo
theories/PipeIn/Inv.vio: theories/PipeIn/Inv.v theories/PipeIn/Model.vio
theories/PipeIn/Inv.vos theories/PipeIn/Inv.vok theories/PipeIn/Inv.required_vos: theories/PipeIn/Inv.v theories/PipeIn/Model.vos
