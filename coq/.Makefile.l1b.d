theories/L1b/Measure.vo theories/L1b/Measure.glob theories/L1b/Measure.v.beautified theories/L1b/Measure.required_vo: theories/L1b/Measure.v theories/L1/Model.vo
theories/L1b/Measure.vio: theories/L1b/Measure.v theories/L1/Model.vio
theories/L1b/Measure.vos theories/L1b/Measure.vok theories/L1b/Measure.required_vos: theories/L1b/Measure.v theories/L1/Model.vos
