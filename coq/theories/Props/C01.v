(* C01 - operations on one object never overlap.  Layer L1 (desync / sync / try_sync, pool, stealing waiters):
   in every reachable state of every program, under every schedule, at most one actor holds runner frames for an object. *)
From stdpp Require Import list numbers option.
From L1 Require Import Model Own Shape Stuck.

Theorem C01_one_runner_per_object_L1 :
  forall (T : tables) (F : facts), own_conditions T ->
  forall nq mx scripts tr s a b q na nb qq,
    run T F (init nq mx scripts) tr = Some s -> s.(queues) !! q = Some qq ->
    stack_cnt s a q = Some (S na) -> stack_cnt s b q = Some (S nb) -> a = b.
Proof. exact exclusive. Qed.

(* a runner exists exactly while the object's state is Running, and it is the recorded owner *)
Theorem C01_ownership_invariant_L1 :
  forall (T : tables) (F : facts), own_conditions T ->
  forall nq mx scripts tr s, run T F (init nq mx scripts) tr = Some s -> Inv s.
Proof. exact reachable_inv. Qed.

Check C01_one_runner_per_object_L1 :
  forall (T : tables) (F : facts), own_conditions T ->
  forall nq mx scripts tr s a b q na nb qq,
    run T F (init nq mx scripts) tr = Some s -> s.(queues) !! q = Some qq ->
    stack_cnt s a q = Some (S na) -> stack_cnt s b q = Some (S nb) -> a = b.
Print Assumptions C01_one_runner_per_object_L1.
Print Assumptions C01_ownership_invariant_L1.
