(* C17 - the pool never exceeds its configured maximum (layer L1, arbitrary tables and facts). *)
From stdpp Require Import list numbers option.
From L1 Require Import Model Own Shape Stuck Pool.

Theorem C17_pool_bounded :
  forall (T : tables) (F : facts) nq mx scripts tr s,
    run T F (init nq mx scripts) tr = Some s ->
    length s.(threads) <= mx /\ s.(maxt) = mx /\ length s.(actors) = length scripts + length s.(threads).
Proof. exact reachable_pool_bounded. Qed.

Theorem C17_no_pool_thread_with_maximum_zero :
  forall (T : tables) (F : facts) nq scripts tr s,
    run T F (init nq 0 scripts) tr = Some s -> s.(threads) = [] /\ length s.(actors) = length scripts.
Proof. exact no_pool_without_maximum. Qed.

Check C17_pool_bounded :
  forall (T : tables) (F : facts) nq mx scripts tr s,
    run T F (init nq mx scripts) tr = Some s ->
    length s.(threads) <= mx /\ s.(maxt) = mx /\ length s.(actors) = length scripts + length s.(threads).
Print Assumptions C17_pool_bounded.
Print Assumptions C17_no_pool_thread_with_maximum_zero.
