(* C03 - nothing lost or stranded.  Layer L1: with at least one pool thread allowed, every reachable state in which no
   thread can move is complete: every script finished, every queue Idle and empty, no pool thread marked busy. *)
From stdpp Require Import list numbers option.
From L1 Require Import Model Own Shape Stuck Live Wait Help Final.

Theorem C03_quiescent_is_complete_L1 :
  forall (T : tables) (F : facts), core_tables T -> own_conditions T -> F.(f_dormant_blocks) = true ->
  forall nq mx scripts tr s,
    wf_scripts nq scripts -> 1 <= mx -> run T F (init nq mx scripts) tr = Some s -> terminal T F s -> complete s = true.
Proof. exact L_quiet. Qed.

(* the only places where a thread can be stuck at all *)
Theorem C03_only_three_ways_to_be_stuck_L1 :
  forall (T : tables) (F : facts) nq mx scripts tr s,
    wf_scripts nq scripts -> run T F (init nq mx scripts) tr = Some s -> terminal T F s ->
    forall a ac, s.(actors) !! a = Some ac -> stuck_ok s ac.(stack).
Proof. exact only_three_ways_to_be_stuck. Qed.

Check C03_quiescent_is_complete_L1 :
  forall (T : tables) (F : facts), core_tables T -> own_conditions T -> F.(f_dormant_blocks) = true ->
  forall nq mx scripts tr s,
    wf_scripts nq scripts -> 1 <= mx -> run T F (init nq mx scripts) tr = Some s -> terminal T F s -> complete s = true.
Print Assumptions C03_quiescent_is_complete_L1.
Print Assumptions C03_only_three_ways_to_be_stuck_L1.
