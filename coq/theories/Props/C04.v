(* C04 - sync always returns (liveness part, layer L1, pool maximum >= 1): in every reachable state in which no thread can move,
   every caller has finished its script, i.e. every sync call has returned.  The functional part (closure ran exactly once,
   strictly between call and return, own result) is in L1h/PropsC04.v.
   PARTIAL: the pool-of-zero case of the property (callers carry all the work) is not covered by this theorem; it is
   exercised by the controlled-runtime profiles with pool 0. *)
From stdpp Require Import list numbers option.
From L1 Require Import Model Own Shape Stuck Live Wait Help Final.

Definition C04_full : Prop :=
  forall (T : tables) (F : facts), core_tables T -> own_conditions T -> F.(f_dormant_blocks) = true -> F.(f_sticky_notify) = true ->
  forall nq mx scripts tr s, wf_scripts nq scripts -> run T F (init nq mx scripts) tr = Some s -> terminal T F s ->
    forall a ac, a < length scripts -> s.(actors) !! a = Some ac -> ac.(stack) = [FTop []].

Theorem C04_sync_returns_pool_partial :
  forall (T : tables) (F : facts), core_tables T -> own_conditions T -> F.(f_dormant_blocks) = true ->
  forall nq mx scripts tr s, wf_scripts nq scripts -> 1 <= mx -> run T F (init nq mx scripts) tr = Some s -> terminal T F s ->
    forallb actor_done s.(actors) = true.
Proof.
  intros T F HK HT HF nq mx scripts tr s Hw Hm Hr Ht.
  pose proof (L_quiet T F HK HT HF nq mx scripts tr s Hw Hm Hr Ht) as Hc.
  unfold complete in Hc. apply andb_true_iff in Hc as [Hc _]. apply andb_true_iff in Hc as [Hc _]. exact Hc.
Qed.
Print Assumptions C04_sync_returns_pool_partial.
