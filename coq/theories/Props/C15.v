(* C15 - a panicking operation is contained to its own object: the queue-state part. *)
From stdpp Require Import list numbers option.
From L0 Require Import Types.
From Panic Require Import Absorb.

Theorem C15_panicked_is_absorbing :
  forall T, panic_conditions T -> forall evs : list qev, foldl (apply T) Panicked evs = Panicked.
Proof. exact panicked_absorbing. Qed.

Theorem C15_panicked_object_refuses_everything :
  forall T, panic_conditions T ->
    snd (T.(q_desync) Panicked) = DAPanic /\ (forall e, snd (T.(q_sync) Panicked e) = SAPanic) /\
    (forall e, snd (T.(q_trysync) Panicked e) = TAPanic) /\ (forall me, snd (T.(q_poll) me Panicked) = PAPanic) /\
    T.(q_next) Panicked = None /\ T.(q_claim) Panicked = None /\ (forall ne, snd (T.(q_resched) Panicked ne) = false).
Proof. exact panicked_refuses. Qed.

Theorem C15_other_objects_never_become_panicked :
  forall T, panic_conditions T -> forall st (evs : list qev), st <> Panicked -> foldl (apply T) st evs <> Panicked.
Proof. exact healthy_stays_healthy. Qed.

Print Assumptions C15_panicked_is_absorbing.
Print Assumptions C15_panicked_object_refuses_everything.
Print Assumptions C15_other_objects_never_become_panicked.
