(* C09 - try_sync never blocks, never half-runs and never disturbs the queue (layer L1). *)
From stdpp Require Import list numbers option.
From RecordUpdate Require Import RecordUpdate.
From L1 Require Import Model Own Shape Stuck Live TrySync.

(* the call's decision step is always enabled *)
Theorem C09_try_sync_never_waits :
  forall (T : tables) (F : facts) s a ac q rest qq,
    s.(actors) !! a = Some ac -> ac.(stack) = FTS1 q :: rest -> s.(queues) !! q = Some qq -> is_Some (step T F s a).
Proof. exact trysync_enabled. Qed.

(* Ok only on an idle, empty object (the caller becomes the exclusive owner); otherwise nothing but the caller's stack changes *)
Theorem C09_try_sync_all_or_nothing :
  forall (T : tables) (F : facts), trysync_conditions T ->
  forall s a ac q rest qq s',
    s.(actors) !! a = Some ac -> ac.(stack) = FTS1 q :: rest -> s.(queues) !! q = Some qq -> step T F s a = Some s' ->
    (qq.(qs) = Idle /\ qq.(jobs) = [] /\
       s' = setstack (updq (updq s q (fun x => x <| qs := Running |>)) q (fun x => x <| owner := Some a |>)) a (FSIrun q :: rest))
    \/ ((qq.(qs) <> Idle \/ qq.(jobs) <> []) /\ s' = setstack s a rest).
Proof. exact trysync_decision. Qed.

(* an object with nothing queued and nothing in progress is Idle in every reachable state, and try_sync on it succeeds *)
Theorem C09_quiescent_object_is_idle :
  forall (T : tables) (F : facts), core_tables T -> own_conditions T ->
  forall nq mx scripts tr s q qq,
    run T F (init nq mx scripts) tr = Some s -> s.(queues) !! q = Some qq -> qq.(jobs) = [] -> qq.(owner) = None -> qq.(qs) = Idle.
Proof. exact quiescent_object_is_idle. Qed.

Theorem C09_try_sync_succeeds_when_idle :
  forall (T : tables) (F : facts), trysync_conditions T ->
  forall s a ac q rest qq,
    s.(actors) !! a = Some ac -> ac.(stack) = FTS1 q :: rest -> s.(queues) !! q = Some qq -> qq.(qs) = Idle -> qq.(jobs) = [] ->
    exists s', step T F s a = Some s' /\ (stack <$> (s'.(actors) !! a)) = Some (FSIrun q :: rest).
Proof. exact trysync_succeeds_when_idle. Qed.

Print Assumptions C09_try_sync_never_waits.
Print Assumptions C09_try_sync_all_or_nothing.
Print Assumptions C09_quiescent_object_is_idle.
Print Assumptions C09_try_sync_succeeds_when_idle.
