(* C14 - memory safety of the safe API: the LIFETIME PROTOCOL the crate's unsafe sites rely on (layer L1).
   PARTIAL BY NATURE: that the Rust code has no undefined behaviour outside this protocol (aliasing, transmute validity,
   allocator behaviour) is not expressible over the executable model; what is proved here is what the four unsafe sites
   assume of the scheduler:
   (1) a lifetime-erased sync job (UnsafeJob: JSyncDrain / JSyncBg) that is still queued or in a runner's hand belongs to a
       caller that is still INSIDE that sync call (so the closure and its borrowed captures are alive when dereferenced) and it
       has not run yet; a closure is never run twice and a Busy try_sync never runs at all;
   (2) the protected value: the drop's free closure runs after every operation whose call had returned, and nothing on the
       object runs after it (no access after free, freed by exactly one operation);
   (3) job storage: every job is taken from the queue at most once (NoDup ran) and only after it was pushed. *)
From stdpp Require Import list numbers option.
From L1 Require Import Model Own Shape Stuck.
From L1h Require Import Hist Abs Sim Main PropsC03once PropsC04 PropsC05.

Theorem C14_erased_job_owner_still_in_call_partial :
  forall (T : tables) (F : facts), own_conditions T -> imm_conditions T ->
  forall nq mx scripts tr s, run T F (init nq mx scripts) tr = Some s ->
    forall q j o c, j ∈ pend s q -> (j = JSyncDrain o c \/ j = JSyncBg o c) ->
      exists ac q', s.(actors) !! c = Some ac /\ ac.(opctr) = o /\ aph ac.(stack) = PWait q' /\ o ∉ ran s.
Proof. intros T F H1 H2 nq mx scripts tr s Hr. exact (proj2 (C04_result_flag_is_own_L1 T F H1 H2 nq mx scripts tr s Hr)). Qed.

Theorem C14_closures_run_at_most_once_partial :
  forall (T : tables) (F : facts), own_conditions T -> imm_conditions T ->
  forall nq mx scripts tr s, run T F (init nq mx scripts) tr = Some s ->
    let h := hist T F (init nq mx scripts) tr in
    NoDup (ran s) /\ NoDup (pushed_all h) /\ (forall i, i ∈ ran s -> exists q, before (Push i q) (Run i q) h).
Proof. exact C03_exactly_once_L1. Qed.

Theorem C14_no_access_after_free_partial :
  forall (T : tables) (F : facts), own_conditions T -> imm_conditions T ->
  forall nq mx scripts tr s D q h1 h2,
    run T F (init nq mx scripts) tr = Some s ->
    let h := hist T F (init nq mx scripts) tr in
    h = h1 ++ Call D q KSync :: h2 -> (forall B k, B <> D -> Call B q k ∈ h -> finished B h1) ->
    forall h3 h4, h = h3 ++ Run D q :: h4 -> (forall B, B <> D -> Push B q ∈ h -> Run B q ∈ h3) /\ (forall B, Run B q ∉ h4).
Proof. exact C05_drop_runs_last_L1. Qed.

Print Assumptions C14_erased_job_owner_still_in_call_partial.
Print Assumptions C14_closures_run_at_most_once_partial.
Print Assumptions C14_no_access_after_free_partial.
