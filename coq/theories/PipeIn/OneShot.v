(* PipeWakers are one-shot: a waker's context goes Fresh -> Live -> Taken and never back, and every poll job ever
   scheduled (except the initial one) is paid for by exactly one consumed waker:
       #jobs scheduled + #threads between take and enqueue <= 1 + #wakers consumed. *)
From stdpp Require Import list numbers option.
From RecordUpdate Require Import RecordUpdate.
From PipeIn Require Import Model Inv Term.

Definition inv_fresh (s : state) : Prop :=
  (forall k, OPoll k ∈ s.(opq) -> s.(wctx) !! k = Some WkFresh) /\
  NoDup (omap poll_id s.(opq)) /\
  (forall k pc, s.(running) = Some (OPoll k, pc) -> OPoll k ∉ s.(opq) /\ k < length s.(wctx) /\ (pc = JNew -> s.(wctx) !! k = Some WkFresh)).

Lemma elem_of_omap_poll k (l : list op) : k ∈ omap poll_id l <-> OPoll k ∈ l.
Proof.
  rewrite elem_of_list_omap. split.
  - intros (o & Ho & Hk). destruct o; cbn in Hk; try done. by injection Hk as ->.
  - intros H. exists (OPoll k). done.
Qed.
Lemma step_fresh s a s' : inv_fresh s -> step s a = Some s' -> inv_fresh s'.
Proof.
  unfold inv_fresh. intros (F1 & F2 & F3) H. step_cases s H.
  all: try (split; [exact F1|split; [exact F2|first [exact F3|done]]]).
  (* the running job moves on *)
  all: try (split; [exact F1|split; [exact F2|]]; intros k0 pc0 [= <- <-]; destruct (F3 _ _ eq_refl) as (A & B & C);
            split; [done|split; [done|intros; discriminate]]).
  (* non-poll operations are queued *)
  all: try (lazymatch goal with |- context [?q ++ [OFree]] => idtac | |- context [?q ++ [OOther _]] => idtac end;
            split; [intros k0 [Hk|Hk%elem_of_list_singleton]%elem_of_app; [by apply F1|done]|];
            split; [rewrite omap_app; cbn; by rewrite app_nil_r|];
            intros k0 pc0 Hr; destruct (F3 _ _ Hr) as (A & B & C); split; [|done];
            intros [Hk|Hk%elem_of_list_singleton]%elem_of_app; done).
  - (* JNew *)
    destruct (F3 _ _ eq_refl) as (A & B & C). split; [|split; [done|]].
    + intros k0 Hk. rewrite list_lookup_insert_ne; [by apply F1|]. intros ->. done.
    + intros k0 pc0 [= <- <-]. rewrite insert_length. split; [done|split; [done|intros; discriminate]].
  - (* start *)
    split; [intros k0 Hk; apply F1; by right|]. destruct o as [k| |]; cbn in F2.
    + apply stdpp.list.NoDup_cons in F2 as [F2a F2b]. split; [done|]. intros k0 pc0 [= <- <-].
      split; [by rewrite <- elem_of_omap_poll|]. assert (Hf : wctx !! k = Some WkFresh) by (apply F1; by left).
      split; [by apply lookup_lt_Some in Hf|done].
    + split; [done|]. intros k0 pc0 [=].
    + split; [done|]. intros k0 pc0 [=].
  - (* a waker is taken *)
    split; [|split; [done|]].
    + intros k0 Hk. rewrite list_lookup_insert_ne; [by apply F1|]. intros ->. specialize (F1 _ Hk). congruence.
    + intros k0 pc0 Hr. destruct (F3 _ _ Hr) as (A & B & C). rewrite insert_length. split; [done|split; [done|]].
      intros Hpc. specialize (C Hpc). rewrite list_lookup_insert_ne; [done|]. intros ->. congruence.
  - (* a poll job is queued *)
    split; [|split].
    + intros k0 [Hk|Hk%elem_of_list_singleton]%elem_of_app.
      * specialize (F1 _ Hk). rewrite lookup_app_l; [done|]. by apply lookup_lt_Some in F1.
      * injection Hk as ->. by rewrite lookup_app_r, Nat.sub_diag.
    + rewrite omap_app. cbn. apply NoDup_app. split; [done|]. split; [|apply NoDup_singleton].
      intros k0 Hk%elem_of_omap_poll ->%elem_of_list_singleton. specialize (F1 _ Hk). apply lookup_lt_Some in F1. lia.
    + intros k0 pc0 Hr. destruct (F3 _ _ Hr) as (A & B & C). rewrite app_length. cbn. split; [|split; [lia|]].
      * intros [Hk|Hk%elem_of_list_singleton]%elem_of_app; [done|]. injection Hk as ->. lia.
      * intros Hpc. rewrite lookup_app_l; [by apply C|done].
Qed.

Definition inv_oneshot (s : state) : Prop := length s.(wctx) + npend s.(wakes) <= 1 + ntaken s.(wctx).
Definition pendw (w : wpc) : nat := match w with WUpgrade | WEnq => 1 | _ => 0 end.
Definition takenw (x : wk) : nat := match x with WkTaken => 1 | _ => 0 end.
Lemma npend_insert ws i w w' : ws !! i = Some w -> npend (<[i:=w']> ws) + pendw w = npend ws + pendw w'.
Proof. apply (lsum_insert pendw). Qed.
Lemma ntaken_insert c k x x' : c !! k = Some x -> ntaken (<[k:=x']> c) + takenw x = ntaken c + takenw x'.
Proof. apply (lsum_insert takenw). Qed.
Lemma npend_app ws w : npend (ws ++ [w]) = npend ws + pendw w.
Proof. apply (lsum_app pendw). Qed.
Lemma ntaken_app c x : ntaken (c ++ [x]) = ntaken c + takenw x.
Proof. apply (lsum_app takenw). Qed.
Arguments npend : simpl never.
Arguments ntaken : simpl never.
Lemma step_oneshot s a s' : inv_fresh s -> inv_oneshot s -> step s a = Some s' -> inv_oneshot s'.
Proof.
  unfold inv_fresh, inv_oneshot. intros (F1 & F2 & F3) HI H. step_cases s H.
  all: rewrite ?npend_app, ?ntaken_app, ?app_length, ?insert_length; cbn [length pendw takenw].
  all: try (match goal with Ew : _ !! _ = Some ?w |- context [npend (<[_:=?w']> _)] =>
      pose proof (npend_insert _ _ _ w' Ew) as Hn; cbn in Hn end).
  all: try (match goal with Ew : _ !! _ = Some ?w |- context [ntaken (<[_:=?w']> _)] =>
      pose proof (ntaken_insert _ _ _ w' Ew) as Hm; cbn in Hm end).
  all: try lia.
  destruct (F3 _ _ eq_refl) as (_ & _ & C). pose proof (ntaken_insert _ _ _ WkLive (C eq_refl)) as Hm. cbn in Hm. lia.
Qed.

Definition wk_rank (x : wk) : nat := match x with WkFresh => 0 | WkLive => 1 | WkTaken => 2 end.
Lemma step_wctx_mono s a s' : inv_fresh s -> step s a = Some s' ->
  forall k x, s.(wctx) !! k = Some x -> exists y, s'.(wctx) !! k = Some y /\ wk_rank x <= wk_rank y.
Proof.
  unfold inv_fresh. intros (F1 & F2 & F3) H. step_cases s H.
  all: intros k' x0 Hx.
  all: try (exists x0; split; [exact Hx|lia]).
  - destruct (F3 _ _ eq_refl) as (_ & B & C). destruct (decide (k' = k)) as [->|Hne].
    + rewrite (C eq_refl) in Hx. injection Hx as <-. exists WkLive. rewrite list_lookup_insert by done. split; [done|cbn; lia].
    + exists x0. rewrite list_lookup_insert_ne by done. split; [done|lia].
  - destruct (decide (k' = k)) as [->|Hne].
    + exists WkTaken. rewrite list_lookup_insert by (by apply lookup_lt_Some in Hx). split; [done|destruct x0; cbn; lia].
    + exists x0. rewrite list_lookup_insert_ne by done. split; [done|lia].
  - exists x0. rewrite lookup_app_l by (by apply lookup_lt_Some in Hx). done.
Qed.

Lemma fresh_oneshot_reach items tr s : run (init items) tr = Some s -> inv_fresh s /\ inv_oneshot s.
Proof.
  apply (run_ind (fun s => inv_fresh s /\ inv_oneshot s)).
  - split.
    + split; [intros k Hk; by apply elem_of_nil in Hk|]. split; [constructor|]. intros k pc [=].
    + unfold inv_oneshot. vm_compute. lia.
  - intros s0 a s1 [Hf Ho] Hs. split; [by eapply step_fresh|by eapply step_oneshot].
Qed.

Theorem one_shot items s : reachable items s -> length s.(wctx) + npend s.(wakes) <= 1 + ntaken s.(wctx).
Proof. intros [tr H]. apply (fresh_oneshot_reach _ _ _ H). Qed.

Theorem waker_monotone items s a s' : reachable items s -> step s a = Some s' ->
  forall k x, s.(wctx) !! k = Some x -> exists y, s'.(wctx) !! k = Some y /\ wk_rank x <= wk_rank y.
Proof. intros [tr H]. apply step_wctx_mono. apply (fresh_oneshot_reach _ _ _ H). Qed.
