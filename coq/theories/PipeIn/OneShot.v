(* PipeWakers are one-shot: a waker's context goes Fresh -> Live -> Taken and never back, and every poll job ever
   scheduled (except the initial one) is paid for by exactly one consumed waker:
       #jobs scheduled + #threads between take and enqueue <= 1 + #wakers consumed. *)
From stdpp Require Import list numbers option.
From RecordUpdate Require Import RecordUpdate.
From PipeIn Require Import Model Inv Term.

Definition inv_fresh (s : state) : Prop :=
  (forall k, OPoll k ∈ s.(opq) -> s.(wctx) !! k = Some WkFresh) /\
  NoDup (omap poll_id s.(opq)) /\
  (forall k pc, s.(running) = Some (OPoll k, pc) -> OPoll k ∉ s.(opq) /\ k < length s.(wctx) /\ (pc = JNew -> s.(wctx) !! k = Some WkFresh)).

Lemma elem_of_omap_poll k l : k ∈ omap poll_id l <-> OPoll k ∈ l.
Proof.
  rewrite elem_of_list_omap. split.
  - intros (o & Ho & Hk). destruct o; cbn in Hk; try done. by injection Hk as ->.
  - intros H. exists (OPoll k). done.
Qed.
