(* Non-vacuity of the hypotheses of the C11 theorems: concrete reachable states (runs of Sim.v) that satisfy them. *)
From stdpp Require Import list numbers option.
From PipeIn Require Import Model Sim Inv Thm.

Ltac by_run tr := exists tr; vm_compute; reflexivity.

(* theorem 4: quiescent + environment finished + object alive is reachable (ready-immediately, during/after, burst,
   duplicate wake) *)
Example ex_terminal_a : exists s, reachable (P [10;11;12]) s /\ quiescent s /\ env_finished s /\ s.(ext) = true /\ processed s.(log) = (P [10;11;12]).
Proof.
  destruct (run (init (P [10;11;12])) tr_a) as [s|] eqn:E; [|by vm_compute in E].
  exists s. split; [by exists tr_a|]. vm_compute in E. injection E as <-.
  split; [by apply all_done_quiescent|]. done.
Qed.
Example ex_terminal_b : exists s, reachable (P [10;11;12]) s /\ quiescent s /\ env_finished s /\ s.(ext) = true.
Proof.
  destruct (run (init (P [10;11;12])) tr_b) as [s|] eqn:E; [|by vm_compute in E].
  exists s. split; [by exists tr_b|]. vm_compute in E. injection E as <-.
  split; [by apply all_done_quiescent|]. done.
Qed.
Example ex_terminal_c : exists s, reachable (P [10;11;12]) s /\ quiescent s /\ env_finished s /\ s.(ext) = true.
Proof.
  destruct (run (init (P [10;11;12])) tr_c) as [s|] eqn:E; [|by vm_compute in E].
  exists s. split; [by exists tr_c|]. vm_compute in E. injection E as <-.
  split; [by apply all_done_quiescent|]. done.
Qed.
Example ex_terminal_d : exists s, reachable (P [10;11]) s /\ quiescent s /\ env_finished s /\ s.(ext) = true.
Proof.
  destruct (run (init (P [10;11])) tr_d) as [s|] eqn:E; [|by vm_compute in E].
  exists s. split; [by exists tr_d|]. vm_compute in E. injection E as <-.
  split; [by apply all_done_quiescent|]. done.
Qed.

(* theorem 3: a reachable state in which ONLY clause (iv) holds (asleep with a live registered waker), and one in
   which ONLY clause (ii) holds (job 0 went Pending with a waker already consumed by a duplicate wake) *)
Example ex_asleep : exists s, reachable (P [10;11]) s /\ s.(pollfn) = true /\ wake_pending s = false /\ job_queued s = false
  /\ poll_running s = false /\ waker_armed s = true.
Proof.
  destruct (run (init (P [10;11])) (take 11 tr_e)) as [s|] eqn:E; [|by vm_compute in E].
  exists s. split; [by exists (take 11 tr_e)|]. vm_compute in E. injection E as <-. done.
Qed.
Example ex_dead_waker_registered : exists s, reachable (P [10;11]) s /\ s.(pollfn) = true /\ wake_pending s = false
  /\ job_queued s = true /\ poll_running s = false /\ waker_armed s = false /\ s.(reg) = Some 0.
Proof.
  destruct (run (init (P [10;11])) (take 20 tr_d)) as [s|] eqn:E; [|by vm_compute in E].
  exists s. split; [by exists (take 20 tr_d)|]. vm_compute in E. injection E as <-. done.
Qed.

(* theorem 5b: the object is gone, then an item event, then a run to a quiescent state *)
Example ex_shutdown : exists s s1 s2 tr, reachable (P [10;11]) s /\ s.(freed) = true /\ s.(pollfn) = true /\
  step s AEnvAvail = Some s1 /\ run s1 tr = Some s2 /\ quiescent s2 /\ processed s2.(log) = (P [10]).
Proof.
  destruct (run (init (P [10;11])) (take 14 tr_e)) as [s|] eqn:E; [|by vm_compute in E].
  destruct (step s AEnvAvail) as [s1|] eqn:E1; [|vm_compute in E; injection E as <-; by vm_compute in E1].
  destruct (run s1 (W 1 3 ++ [AChute])) as [s2|] eqn:E2;
    [|vm_compute in E; injection E as <-; vm_compute in E1; injection E1 as <-; by vm_compute in E2].
  exists s, s1, s2, (W 1 3 ++ [AChute]). split; [by exists (take 14 tr_e)|].
  vm_compute in E; injection E as <-. vm_compute in E1; injection E1 as <-. vm_compute in E2; injection E2 as <-.
  split; [done|]. split; [done|]. split; [done|]. split; [done|]. split; [by apply all_done_quiescent|done].
Qed.

(* theorem 5a: a reachable state in which the pipe transiently holds a strong reference although the external
   owners are gone (inside PipeContext::poll), and the object is still alive because of it *)
Example ex_transient_strong : exists s, reachable (P [10;11]) s /\ s.(ext) = false /\ s.(strong) = 1 /\ nstrong s.(wakes) = 1 /\ s.(freed) = false.
Proof.
  destruct (run (init (P [10;11])) (take 3 tr_f)) as [s|] eqn:E; [|by vm_compute in E].
  exists s. split; [by exists (take 3 tr_f)|]. vm_compute in E. injection E as <-. done.
Qed.

(* slow items: a reachable state with an item suspended (the poll job is the open operation, other work queued behind),
   and the terminal state of the same run; the object dropped while an item is suspended, then gone, then an event *)
Example ex_suspended : exists s k, reachable items_h s /\ s.(running) = Some (OPoll k, JSusp (11,true)) /\ s.(opq) = [OOther 0; OPoll 1]
  /\ excl s.(log) = Some (Some (OPoll k)).
Proof.
  destruct (run (init items_h) (take 19 tr_h)) as [s|] eqn:E; [|by vm_compute in E].
  exists s, 0. split; [by exists (take 19 tr_h)|]. vm_compute in E. injection E as <-. done.
Qed.
Example ex_terminal_h : exists s, reachable items_h s /\ quiescent s /\ env_finished s /\ s.(ext) = true /\ processed s.(log) = items_h.
Proof.
  destruct (run (init items_h) tr_h) as [s|] eqn:E; [|by vm_compute in E].
  exists s. split; [by exists tr_h|]. vm_compute in E. injection E as <-.
  split; [by apply all_done_quiescent|]. done.
Qed.
Example ex_drop_while_suspended : exists s s2 tr, reachable items_i s /\ s.(running) = Some (OPoll 0, JSusp (10,true)) /\ s.(strong) = 0 /\
  run s tr = Some s2 /\ s2.(freed) = true /\ quiescent s2 /\ s2.(pollfn) = false /\ s2.(released) = true /\ processed s2.(log) = [(10,true)].
Proof.
  destruct (run (init items_i) (take 10 tr_i)) as [s|] eqn:E; [|by vm_compute in E].
  destruct (run s (drop 10 tr_i)) as [s2|] eqn:E2; [|vm_compute in E; injection E as <-; by vm_compute in E2].
  exists s, s2, (drop 10 tr_i). split; [by exists (take 10 tr_i)|].
  vm_compute in E; injection E as <-. vm_compute in E2; injection E2 as <-.
  repeat (split; [done|]). split; [by apply all_done_quiescent|]. done.
Qed.
