(* C11 - "pipe_in processes every stream item once, in order, exclusively" (layer L4 over ObjExec; model: PipeIn/Model.v).

   reachable items s := exists tr, run (init items) tr = Some s        (tr : list actor, any length, any interleaving of
   the object's runner, the wake threads, the chute and the environment: items becoming available, end of input,
   duplicate wakes, other operations on the object, the last external owner dropping the object).

   The no-lost-item invariant (theorem 3), in words: as long as poll_fn is present, the pipe is never "asleep without
   an alarm clock": at least one of
     (i)   a wake is in flight that WILL schedule a poll job / take poll_fn (a thread about to call `wake` on a
           PipeWaker whose context is still Some, or already inside PipeContext::poll before its enqueue / take),
     (ii)  a poll job is queued on the object,
     (iii) a poll job is running and its OWN PipeWaker is still live (so the Pending poll_next that ends it leaves
           a live waker with the input), or it has not yet created its waker, or it is about to clear poll_fn,
     (iv)  no poll job is in its body (none running, or it has returned and only waits to be finished), the waker
           registered with the input is a live PipeWaker, and the input had
           nothing to report since it was registered (no item available, not ended).
   (iv) is exactly the state "the last job saw Pending"; any availability event in that state TAKES the live waker and
   puts a wake in flight = (i); the wake takes the context = still (i); it enqueues = (ii); the job starts = (iii).
   A running job whose waker has been consumed by a duplicate wake is covered by the (i)/(ii) that wake produced:
   the new job cannot start before the running one ends (exclusivity), so it will poll the input again afterwards.
   In a quiescent state (i)-(iii) are false, so (iv) holds: nothing available, not ended - this is theorem 4. *)
From stdpp Require Import list numbers option.
From RecordUpdate Require Import RecordUpdate.
From PipeIn Require Import Model Inv Thm Term OneShot.

(* 1. order, exactly once: the Process events are, in order, exactly the items taken from the input so far
      (the item in the hands of the running job - possibly suspended in the middle of its processing - excepted);
      what is left is still in the input, in order.  An item is a pair (number, slow). *)
Theorem C11_order_exactly_once :
  forall items s, reachable items s ->
    processed s.(log) ++ inhand s ++ s.(ready) ++ s.(future) = items.
Proof. exact order_exactly_once. Qed.

(* 2. exclusive: the log is well bracketed - an operation starts only when none is open, finishes only if it is the
      open one, and a Process event only occurs while a poll job is the open operation; and the open operation is the
      running one. *)
Theorem C11_exclusive :
  forall items s, reachable items s -> excl s.(log) = Some (fst <$> s.(running)).
Proof. exact exclusive. Qed.

Theorem C11_process_inside_poll_job :
  forall items s l1 x l2, reachable items s -> s.(log) = l1 ++ EProcess x :: l2 ->
    exists k l0 l', l1 = l0 ++ EStart (OPoll k) :: l' /\ excl l0 = Some None /\ forallb is_process l' = true.
Proof. exact process_inside_poll_job. Qed.

(* 2'. slow items: the processing of an item may suspend once in the middle (Begin ... Process).  The poll job stays the
       object's open operation across the suspension: the Begin lies inside a poll job and the NEXT event of the whole
       log is the Process of the same item - no operation starts or finishes and nothing else is processed in between;
       as long as there is no such next event the poll job is the running operation, suspended on that item.
       ASSUMPTION about the self-wake: the model lets the runner re-poll a suspended job at any time
       (C11_suspended_resumes), i.e. it assumes that the wake-up the processing future sends to its own task waker is
       delivered; that is property C06 of the scheduler layers.  Hence a state with a suspended item is never quiescent. *)
Theorem C11_suspension_atomic :
  forall items s, reachable items s -> susp_ok s.(log) = Some (susp_item s).
Proof. exact suspension_atomic. Qed.

Theorem C11_begin_then_process :
  forall items s l1 x l2, reachable items s -> s.(log) = l1 ++ EBegin x :: l2 ->
    is_slow x = true /\
    (exists k l0 l', l1 = l0 ++ EStart (OPoll k) :: l' /\ excl l0 = Some None /\ forallb is_process l' = true) /\
    ((l2 = [] /\ exists k, s.(running) = Some (OPoll k, JSusp x)) \/ exists l2', l2 = EProcess x :: l2').
Proof. exact begin_then_process. Qed.

Theorem C11_suspended_resumes :
  forall s k x, s.(running) = Some (OPoll k, JSusp x) ->
    step s ARun = Some (s <| log := s.(log) ++ [EProcess x] |> <| running := Some (OPoll k, JPoll) |>).
Proof. exact suspended_resumes. Qed.

Theorem C11_suspended_not_quiescent :
  forall s k x, s.(running) = Some (OPoll k, JSusp x) -> ~ quiescent s.
Proof. exact suspended_not_quiescent. Qed.

Theorem C11_start_when_nothing_open :
  forall items s l1 o l2, reachable items s -> s.(log) = l1 ++ EStart o :: l2 -> excl l1 = Some None.
Proof. exact start_when_nothing_open. Qed.

(* 3. no lost item *)
Theorem C11_no_lost_item_invariant :
  forall items s, reachable items s ->
    s.(pollfn) = true -> wake_pending s || job_queued s || running_or_armed s = true.
Proof. exact no_lost_item_inv. Qed.

Theorem C11_no_lost_item :
  forall items s, reachable items s ->
    s.(pollfn) = true -> wake_pending s = false -> job_queued s = false -> poll_running s = false ->
    exists k, s.(reg) = Some k /\ is_live s.(wctx) k = true /\ s.(ready) = [] /\ s.(ended) = false.
Proof. exact no_lost_item. Qed.

(* 4. terminal completeness *)
Theorem C11_terminal_complete :
  forall items s, reachable items s -> quiescent s -> env_finished s -> s.(ext) = true ->
    processed s.(log) = items /\ s.(pollfn) = false /\ s.(released) = true.
Proof. exact terminal_complete. Qed.

(* 5a. weak reference: the strong count is the external owners' unit plus the wake threads between the successful
       upgrade and the drop of the temporary Arc, all of which are inside PipeContext::poll *)
Theorem C11_weak_reference :
  forall items s, reachable items s ->
    s.(strong) = Nat.b2n s.(ext) + nstrong s.(wakes) /\
    (forall w, holds_strong w = true -> inside_poll w = true).
Proof. exact weak_reference. Qed.

Theorem C11_never_keeps_alive :
  forall items s, reachable items s ->
    (forall i w, s.(wakes) !! i = Some w -> inside_poll w = false) ->
    s.(strong) = Nat.b2n s.(ext) /\
    (s.(ext) = false -> s.(freed) = true \/ run_free s.(running) = true \/ last_free s.(opq) = true).
Proof. exact never_keeps_alive. Qed.

(* 5b. shutdown.  "Gone" = freed (the final operation of Desync::drop has run).  If the last owner drops the object while an
       item is suspended, Desync::drop waits behind the suspended poll job (FIFO, one operation at a time): the item is
       finished first (example ex_drop_while_suspended); the statement covers every reachable state, suspended or not. *)
Theorem C11_shutdown :
  forall items s e s1 tr s2, reachable items s -> s.(freed) = true ->
    (e = AEnvAvail \/ e = AEnvEnd) -> step s e = Some s1 -> run s1 tr = Some s2 -> quiescent s2 ->
    s2.(pollfn) = false /\ s2.(released) = true.
Proof. exact shutdown. Qed.

Theorem C11_no_process_after_gone :
  forall items s tr s', reachable items s -> s.(freed) = true -> run s tr = Some s' ->
    s'.(log) = s.(log) /\ s'.(freed) = true.
Proof. exact no_process_after_gone. Qed.

(* 4'. the quiescent states of theorems 4 and 5b are always reached: every pipe-side step decreases [measure], and
       after the environment has finished every pipe-side schedule that runs to rest has processed everything *)
Theorem C11_pipe_side_terminates :
  forall s a s', is_env a = false -> step s a = Some s' -> measure s' < measure s.
Proof. exact step_measure. Qed.

Theorem C11_reaches_quiescent :
  forall s, exists tr s', Forall (fun a => is_env a = false) tr /\ run s tr = Some s' /\
    all_done s' = true /\ length tr <= measure s.
Proof. exact reaches_quiescent. Qed.

Theorem C11_eventually_complete :
  forall items s, reachable items s -> env_finished s -> s.(ext) = true ->
    (forall tr s', Forall (fun a => is_env a = false) tr -> run s tr = Some s' -> quiescent s' ->
       processed s'.(log) = items /\ s'.(pollfn) = false /\ s'.(released) = true) /\
    (exists tr s', Forall (fun a => is_env a = false) tr /\ run s tr = Some s' /\ quiescent s' /\ length tr <= measure s).
Proof. exact eventually_complete. Qed.

(* the mechanism "the waker is one-shot": contexts only move Fresh -> Live -> Taken, and every scheduled poll job
   (wctx has one entry per poll job ever queued) beyond the initial one is paid for by one consumed waker *)
Theorem C11_one_shot :
  forall items s, reachable items s -> length s.(wctx) + npend s.(wakes) <= 1 + ntaken s.(wctx).
Proof. exact one_shot. Qed.

Theorem C11_waker_monotone :
  forall items s a s', reachable items s -> step s a = Some s' ->
    forall k x, s.(wctx) !! k = Some x -> exists y, s'.(wctx) !! k = Some y /\ wk_rank x <= wk_rank y.
Proof. exact waker_monotone. Qed.

(* bookkeeping *)
Theorem C11_labels_defined_iff_enabled : forall s a, step_label s a = None <-> step s a = None.
Proof. exact step_label_enabled. Qed.
Theorem C11_all_done_quiescent : forall s, all_done s = true -> quiescent s.
Proof. exact all_done_quiescent. Qed.

Print Assumptions C11_order_exactly_once.
Print Assumptions C11_exclusive.
Print Assumptions C11_process_inside_poll_job.
Print Assumptions C11_start_when_nothing_open.
Print Assumptions C11_suspension_atomic.
Print Assumptions C11_begin_then_process.
Print Assumptions C11_suspended_resumes.
Print Assumptions C11_suspended_not_quiescent.
Print Assumptions C11_no_lost_item_invariant.
Print Assumptions C11_no_lost_item.
Print Assumptions C11_terminal_complete.
Print Assumptions C11_weak_reference.
Print Assumptions C11_never_keeps_alive.
Print Assumptions C11_shutdown.
Print Assumptions C11_no_process_after_gone.
Print Assumptions C11_pipe_side_terminates.
Print Assumptions C11_reaches_quiescent.
Print Assumptions C11_eventually_complete.
Print Assumptions C11_one_shot.
Print Assumptions C11_waker_monotone.
Print Assumptions C11_labels_defined_iff_enabled.
Print Assumptions C11_all_done_quiescent.
