(* Invariants of the pipe_in model (all proved; no admits). *)
From stdpp Require Import list numbers option.
From RecordUpdate Require Import RecordUpdate.
From PipeIn Require Import Model.

(* generic case split of one step: every match in the definition of [step] is destructed *)
Ltac step_cases s H :=
  unfold step in H;
  match type of H with context [match ?a with ARun => _ | _ => _ end] => destruct a end;
  try (match type of H with context [wakes ?s !! ?i] =>
         let E := fresh "Ew" in let w := fresh "w" in
         destruct (wakes s !! i) as [w|] eqn:E; cbn in H; [destruct w|discriminate] end);
  unfold fire, drop_strong, upd_rel, finish, setw, holders in H;
  destruct s; cbn in *;
  repeat (match type of H with
          | context [match ?x with _ => _ end] =>
              first [ is_var x; destruct x | let E := fresh "E" in destruct x eqn:E ]; cbn in *; try discriminate
          end);
  try discriminate;
  injection H as <-; cbn in *.

Arguments processed : simpl never.
Lemma run_snoc s tr a : run s (tr ++ [a]) = (o ← run s tr; step o a).
Proof. unfold run. by rewrite foldl_app. Qed.

Lemma run_ind (P : state -> Prop) s0 :
  P s0 -> (forall s a s', P s -> step s a = Some s' -> P s') ->
  forall tr s, run s0 tr = Some s -> P s.
Proof.
  intros H0 Hs tr. induction tr as [|a tr IH] using rev_ind; intros s.
  - cbn. by intros [= <-].
  - rewrite run_snoc. destruct (run s0 tr) as [s1|] eqn:E; cbn; [|done].
    intros Hst. eapply Hs; [by apply IH|done].
Qed.

Lemma processed_snoc l e : processed (l ++ [e]) = processed l ++ match e with EProcess x => [x] | _ => [] end.
Proof. unfold processed. rewrite omap_app. by destruct e. Qed.

(* ---------- I1: the items ---------- *)
Definition inv_items (items : list item) (s : state) : Prop :=
  processed s.(log) ++ inhand s ++ s.(ready) ++ s.(future) = items.

Lemma step_items items s a s' : inv_items items s -> step s a = Some s' -> inv_items items s'.
Proof.
  unfold inv_items, inhand. intros HI H. step_cases s H.
  all: rewrite ?processed_snoc, ?app_nil_r.
  all: try exact HI.
  all: try (by destruct o).
  all: subst items; by rewrite <- ?app_assoc.
Qed.

(* ---------- I2: exclusivity ---------- *)
Arguments excl : simpl never.
Lemma excl_snoc l e : excl (l ++ [e]) = excl_step (excl l) e.
Proof. unfold excl. by rewrite foldl_app. Qed.
Lemma op_eqb_refl o : op_eqb o o = true.
Proof. destruct o; cbn; by rewrite ?Nat.eqb_refl. Qed.

Definition inv_excl (s : state) : Prop := excl s.(log) = Some (fst <$> s.(running)).
Lemma step_excl s a s' : inv_excl s -> step s a = Some s' -> inv_excl s'.
Proof.
  unfold inv_excl. intros HI H. step_cases s H.
  all: rewrite ?excl_snoc, ?HI; cbn; rewrite ?Nat.eqb_refl.
  all: done.
Qed.

(* ---------- I3: the strong count ---------- *)
Lemma nstrong_app ws w : nstrong (ws ++ [w]) = nstrong ws + Nat.b2n (holds_strong w).
Proof. induction ws as [|x ws IH]; cbn; lia. Qed.
Lemma nstrong_insert ws i w w' : ws !! i = Some w ->
  nstrong (<[i:=w']> ws) + Nat.b2n (holds_strong w) = nstrong ws + Nat.b2n (holds_strong w').
Proof.
  revert i; induction ws as [|x ws IH]; intros [|i]; simpl; try done.
  - intros [= ->]. lia.
  - intros H. specialize (IH _ H). lia.
Qed.
Lemma nstrong_pos ws i w : ws !! i = Some w -> holds_strong w = true -> 0 < nstrong ws.
Proof.
  revert i; induction ws as [|x ws IH]; intros [|i]; cbn; try done.
  - intros [= ->] ->. cbn. lia.
  - intros H1 H2. specialize (IH _ H1 H2). lia.
Qed.

Arguments nstrong : simpl never.
Definition inv_strong (s : state) : Prop := s.(strong) = Nat.b2n s.(ext) + nstrong s.(wakes).
Lemma step_strong s a s' : inv_strong s -> step s a = Some s' -> inv_strong s'.
Proof.
  unfold inv_strong. intros HI H. step_cases s H.
  all: rewrite ?nstrong_app; cbn.
  all: try lia.
  all: try (match goal with Ew : _ !! _ = Some ?w |- context [<[_:=?w']> _] => pose proof (nstrong_insert _ _ _ w' Ew) as Hn; cbn in Hn end; lia).
Qed.

(* ---------- I4: Desync::drop happens once, OFree is the last operation ---------- *)
Definition inv_free (s : state) : Prop :=
  match s.(strong) with
  | S _ => s.(freed) = false /\ no_free s.(opq) = true /\ run_free s.(running) = false
  | 0 => (s.(freed) = false /\ last_free s.(opq) = true /\ run_free s.(running) = false)
         \/ (s.(freed) = false /\ s.(opq) = [] /\ run_free s.(running) = true)
         \/ (s.(freed) = true /\ s.(opq) = [] /\ s.(running) = None)
  end.

Lemma no_free_app l o : no_free (l ++ [o]) = no_free l && negb (is_free o).
Proof. unfold no_free. rewrite forallb_app. cbn. by rewrite andb_true_r. Qed.
Lemma last_free_snoc l : no_free l = true -> last_free (l ++ [OFree]) = true.
Proof.
  induction l as [|o l IH]; cbn; [done|]. intros [H1 H2]%andb_true_iff. rewrite (IH H2), H1.
  by destruct l.
Qed.
Lemma last_free_cons o l : last_free (o :: l) = true ->
  (o = OFree /\ l = []) \/ (is_free o = false /\ last_free l = true).
Proof.
  cbn. destruct l as [|o' l'].
  - destruct o; try done. by left.
  - intros [H1 H2]%andb_true_iff. right. split; [by destruct (is_free o)|done].
Qed.
Lemma no_free_cons o l : no_free (o :: l) = true -> is_free o = false /\ no_free l = true.
Proof. cbn. intros [H1 H2]%andb_true_iff. split; [by destruct (is_free o)|done]. Qed.
Arguments no_free : simpl never.
Arguments last_free : simpl never.
Lemma step_free s a s' : inv_strong s -> inv_free s -> step s a = Some s' -> inv_free s'.
Proof.
  unfold inv_strong, inv_free. intros HS HI H. step_cases s H.
  all: try exact HI.
  all: try (match type of HI with match ?x with _ => _ end => destruct x end).
  all: repeat match goal with H : _ \/ _ |- _ => destruct H | H : _ /\ _ |- _ => destruct H end.
  all: simplify_eq.
  all: try (cbn; auto 7; fail).
  all: try (match goal with Ew : _ !! _ = Some WEnq |- _ => pose proof (nstrong_pos _ _ _ Ew eq_refl); lia end).
  all: rewrite ?no_free_app, ?last_free_snoc by done.
  all: try (cbn; auto 7; fail).
  all: try (match goal with H : no_free (_ :: _) = true |- _ => apply no_free_cons in H as [? ?] end).
  all: try (match goal with H : last_free (_ :: _) = true |- _ => apply last_free_cons in H as [[-> ->]|[? ?]] end).
  all: try (cbn; auto 7; fail).
  all: try (destruct o; cbn in *; auto 7; fail).
  all: rewrite H0; cbn; auto.
Qed.

(* ---------- I5: released <-> nobody holds the stream and the closure ---------- *)
Definition inv_rel (s : state) : Prop := s.(released) = negb (holders s).
Lemma step_rel s a s' : inv_rel s -> step s a = Some s' -> inv_rel s'.
Proof.
  unfold inv_rel, holders. intros HI H. step_cases s H.
  all: try exact HI.
  all: try (destruct pollfn, chute; cbn in *; done).
  all: try (destruct o; exact HI).
  all: destruct pollfn, (in_loop running); cbn in *; done.
Qed.

(* ---------- I6: job ids are waker ids ---------- *)
Definition inv_ids (s : state) : Prop :=
  forallb (id_ok s.(wctx)) s.(opq) = true /\ match s.(running) with Some (o, _) => id_ok s.(wctx) o = true | None => True end.

Lemma id_ok_insert c k x o : id_ok (<[k:=x]> c) o = id_ok c o.
Proof. destruct o; cbn; [|done..]. by rewrite insert_length. Qed.
Lemma id_ok_app c x o : id_ok c o = true -> id_ok (c ++ [x]) o = true.
Proof. destruct o; cbn; [|done..]. rewrite app_length. cbn. intros ?%bool_decide_eq_true. apply bool_decide_eq_true. lia. Qed.
Lemma forallb_id_ok_app c x l : forallb (id_ok c) l = true -> forallb (id_ok (c ++ [x])) l = true.
Proof. induction l as [|o l IH]; cbn; [done|]. intros [H1 H2]%andb_true_iff. by rewrite id_ok_app, IH. Qed.
Lemma forallb_id_ok_insert c k x l : forallb (id_ok (<[k:=x]> c)) l = forallb (id_ok c) l.
Proof. induction l as [|o l IH]; cbn; [done|]. by rewrite id_ok_insert, IH. Qed.
Arguments id_ok : simpl never.
Lemma step_ids s a s' : inv_ids s -> step s a = Some s' -> inv_ids s'.
Proof.
  unfold inv_ids. intros [HI1 HI2] H. step_cases s H.
  all: rewrite ?forallb_id_ok_insert, ?id_ok_insert, ?forallb_app; cbn.
  all: try (split; [exact HI1|done]).
  all: try (apply andb_true_iff in HI1 as [? ?]; done).
  all: try (destruct running as [[? ?]|]; rewrite ?id_ok_insert; done).
  all: rewrite ?HI1; try (split; [done|exact HI2]).
  split.
  - rewrite forallb_id_ok_app by done. unfold id_ok. rewrite app_length; cbn. rewrite bool_decide_eq_true_2 by lia. done.
  - destruct running as [[? ?]|]; [|done]. by apply id_ok_app.
Qed.

(* ---------- I7: no lost wake-up (theorem 3) ----------
   While poll_fn is present one of these holds (definitions in Model.v):
     wake_pending      a wake thread will certainly enqueue a poll job or take poll_fn (it is about to call a LIVE
                       PipeWaker, or is inside PipeContext::poll before its enqueue / take);
     job_queued        a poll job is in the object's queue;
     running_or_armed  a poll job is in its body and its OWN PipeWaker is live (or not created yet, or it is about to
                       clear poll_fn) - or no poll job is in its body and the input's registered waker is a live
                       PipeWaker and the input has had nothing to report since (ready = [], not ended).
   The last clause may only be used when no job is in its body because a Pending poll_next REPLACES the registered
   waker by the job's own; hence for a job in its body what matters is its own waker: if a duplicate wake consumed
   it, that wake is/was a potent wake thread and has left (or will leave) a queued job, which cannot start before
   the running one has finished.  Every availability event in the "armed" state takes the live waker and creates a
   potent wake thread.  Quiescent + poll_fn present therefore means "armed": nothing available and not ended. *)
Definition inv_A (s : state) : Prop :=
  s.(pollfn) = true -> wake_pending s || job_queued s || running_or_armed s = true.

Lemma existsb_insert {A} (f : A -> bool) l i y x : l !! i = Some y ->
  existsb f (<[i:=x]> l) || f y = existsb f l || f x.
Proof.
  revert i; induction l as [|z l IH]; intros [|i]; simpl; try done.
  - intros [= ->]. destruct (f x), (f y), (existsb f l); done.
  - intros H. specialize (IH _ H). destruct (f z); [done|]. exact IH.
Qed.
Lemma existsb_insert_true {A} (f : A -> bool) l i y x : l !! i = Some y -> f x = true -> existsb f (<[i:=x]> l) = true.
Proof. intros H Hx. pose proof (existsb_insert f l i y x H) as He. rewrite Hx, orb_true_r in He. apply orb_true_iff in He as [He|He]; [done|]. clear -H He Hx. revert i H; induction l as [|z l IH]; intros [|i]; simpl; try done. - intros _. by rewrite Hx. - intros H. rewrite (IH _ H). apply orb_true_r. Qed.
Lemma existsb_insert_keep {A} (f : A -> bool) l i y x : l !! i = Some y -> f y = false -> existsb f l = true -> existsb f (<[i:=x]> l) = true.
Proof. intros H Hy Ht. pose proof (existsb_insert f l i y x H) as He. rewrite Hy, Ht in He. by rewrite orb_false_r in He. Qed.
Lemma is_live_insert_eq c k x : k < length c -> is_live (<[k:=x]> c) k = match x with WkLive => true | _ => false end.
Proof. intros H. unfold is_live. by rewrite list_lookup_insert. Qed.
Ltac babs := repeat (match goal with
   | |- context [existsb ?f ?l] => let b := fresh "b" in set (b := existsb f l) in *; clearbody b
   | |- context [is_live ?c ?k] => let b := fresh "b" in set (b := is_live c k) in *; clearbody b
   end).
Ltac bfin := repeat (cbn; try done; match goal with b : bool |- _ => lazymatch goal with |- context [b] => destruct b end end).
Lemma step_A s a s' : inv_ids s -> inv_A s -> step s a = Some s' -> inv_A s'.
Proof.
  unfold inv_ids, inv_A, wake_pending, job_queued, running_or_armed, waker_armed. intros [HD1 HD2] HI H. step_cases s H.
  all: intros Hp; try discriminate Hp; try specialize (HI Hp).
  all: try exact HI.
  all: try (unfold id_ok in HD2; apply bool_decide_eq_true in HD2; rewrite is_live_insert_eq by done; rewrite ?orb_true_r; done).
  all: rewrite ?existsb_app; cbn [existsb].
  all: try (revert HI; repeat (match goal with |- context [match ?x with _ => _ end] => is_var x; destruct x end); babs; bfin; fail).
  all: try (match goal with Ew : _ !! _ = Some _ |- context [<[_:=?w']> _] => rewrite (existsb_insert_true _ _ _ _ w' Ew eq_refl) end; done).
  all: try (rewrite !orb_true_r; done).
  all: try (match goal with Ew : ?ws !! ?i = Some ?w |- context [existsb (potent ?c) (<[?i:=?w']> ?ws)] =>
     pose proof (existsb_insert (potent c) ws i w w' Ew) as He; cbn in He; unfold is_live in He;
     try (match goal with E : c !! _ = _ |- _ => rewrite E in He end) end;
     revert HI He; match goal with |- context [_ || _ || ?R = true] => generalize R; intro end; babs; bfin; fail).
  all: subst; cbn [potent].
  all: try (revert HI; repeat (match goal with |- context [match ?x with _ => _ end] => is_var x; destruct x end); babs; bfin; fail).
Qed.

(* ---------- I8: poll_fn is only cleared at end of stream, or taken when the object is gone ---------- *)
Definition is_take (w : wpc) : bool := match w with WTake => true | _ => false end.
Definition inv_B (s : state) : Prop :=
  (existsb is_take s.(wakes) = true -> s.(strong) = 0) /\
  (s.(pollfn) = false -> s.(strong) = 0 \/ (s.(ended) = true /\ s.(ready) = [])) /\
  (match s.(running) with Some (OPoll _, JClear) => s.(ended) = true /\ s.(ready) = [] | _ => True end).
Lemma existsb_insert_mono {A} (f : A -> bool) l i y x : l !! i = Some y -> f x = false ->
  existsb f (<[i:=x]> l) = true -> existsb f l = true.
Proof. intros H Hx Ht. pose proof (existsb_insert f l i y x H) as He. rewrite Hx, Ht in He. cbn in He. by rewrite orb_false_r in He. Qed.
Lemma existsb_lookup {A} (f : A -> bool) l i y : l !! i = Some y -> f y = true -> existsb f l = true.
Proof. revert i; induction l as [|z l IH]; intros [|i]; simpl; try done. - intros [= ->] ->. done. - intros H1 H2. rewrite (IH _ H1 H2). apply orb_true_r. Qed.
Lemma step_B s a s' : inv_B s -> step s a = Some s' -> inv_B s'.
Proof.
  unfold inv_B. intros (HB1 & HB2 & HB3) H. step_cases s H.
  all: rewrite ?existsb_app; cbn [existsb is_take]; rewrite ?orb_false_r.
  all: try (split; [exact HB1|split; [exact HB2|first [exact HB3|done]]]).
  all: try (match goal with Ew : ?ws !! ?i = Some ?w |- context [existsb is_take (<[?i:=?w']> ?ws)] =>
              pose proof (existsb_insert_mono is_take ws i w w' Ew) as Hm; cbn in Hm end).
  all: try (timeout 10 naive_solver lia).
  all: try (destruct o; timeout 10 naive_solver).
  all: try (match goal with Ew : _ !! _ = Some WTake |- _ => pose proof (existsb_lookup is_take _ _ _ Ew eq_refl) end; timeout 10 naive_solver).
  all: try (destruct running as [[[?| |] []]|]; timeout 10 naive_solver).
Qed.

(* ---------- I9: after a stream event that found the object gone the input holds no waker any more ---------- *)
Definition inv_G (s : state) : Prop := s.(evt_gone) = true -> s.(freed) = true /\ s.(reg) = None.
Lemma step_G s a s' : inv_free s -> inv_G s -> step s a = Some s' -> inv_G s'.
Proof.
  unfold inv_free, inv_G. intros HF HI H. step_cases s H.
  all: try exact HI.
  all: try (timeout 10 naive_solver).
  all: destruct strong; timeout 10 naive_solver.
Qed.

(* ---------- I10: suspension: a Begin is immediately followed by the Process of the same (slow) item ---------- *)
Arguments susp_ok : simpl never.
Lemma susp_snoc l e : susp_ok (l ++ [e]) = susp_step (susp_ok l) e.
Proof. unfold susp_ok. by rewrite foldl_app. Qed.
Lemma item_eqb_refl x : item_eqb x x = true.
Proof. destruct x as [n b]. unfold item_eqb; cbn. rewrite Nat.eqb_refl. by destruct b. Qed.
Definition inv_susp (s : state) : Prop := susp_ok s.(log) = Some (susp_item s).

Lemma step_susp s a s' : inv_susp s -> step s a = Some s' -> inv_susp s'.
Proof.
  unfold inv_susp, susp_item. intros HI H. step_cases s H.
  all: rewrite ?susp_snoc, ?HI; cbn; rewrite ?item_eqb_refl.
  all: try done.
  all: try (destruct o; done).
  all: try (match goal with E : is_slow _ = true |- _ => rewrite E end; done).
Qed.

(* ---------- all invariants hold in every reachable state ---------- *)
Record Inv (items : list item) (s : state) : Prop := {
  i_items : inv_items items s; i_excl : inv_excl s; i_strong : inv_strong s; i_free : inv_free s;
  i_rel : inv_rel s; i_ids : inv_ids s; i_A : inv_A s; i_B : inv_B s; i_G : inv_G s; i_susp : inv_susp s }.

Lemma Inv_init items : Inv items (init items).
Proof.
  split.
  - unfold inv_items, inhand; cbn. done.
  - done.
  - done.
  - unfold inv_free; cbn. done.
  - done.
  - done.
  - intros _. done.
  - unfold inv_B; cbn. split; [done|]. split; [done|done].
  - intros H. discriminate H.
  - done.
Qed.

Lemma Inv_step items s a s' : Inv items s -> step s a = Some s' -> Inv items s'.
Proof.
  intros [] H. split.
  - by eapply step_items.
  - by eapply step_excl.
  - by eapply step_strong.
  - by eapply step_free.
  - by eapply step_rel.
  - by eapply step_ids.
  - by eapply step_A.
  - by eapply step_B.
  - by eapply step_G.
  - by eapply step_susp.
Qed.

Lemma Inv_reach items tr s : run (init items) tr = Some s -> Inv items s.
Proof. apply run_ind; [apply Inv_init|apply Inv_step]. Qed.
