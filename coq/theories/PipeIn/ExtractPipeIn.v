(* Extraction of the executable pipe_in model for the implementation -> model correspondence check
   (/verif/driver/pipein/replay_pipein.ml).  ExtrOcamlBasic only: nat stays a datatype. *)
From PipeIn Require Import Model.
Require Import ExtrOcamlBasic.
Extraction Language OCaml.
Extraction "pipeinmodel.ml" step step_label init run processed holders is_live potent all_done.
