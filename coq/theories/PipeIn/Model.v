(* L4 (pipe_in) - executable model of `pipe_in` / `PipeContext` / `PipeWaker` / REFERENCE_CHUTE of /repo/src/pipe.rs
   over the specification object "ObjExec" (a FIFO of operations executed one at a time).

   One model step = one critical section of pipe.rs on ONE mutex (plus the lock-free code attached to it).
   This file contains definitions and `vm_compute` examples only; proofs are in Inv.v / Thm.v.

   ---------------------------------------------------------------------------------------------------------
   Correspondence with pipe.rs (line numbers of /repo/src/pipe.rs)

   shared state                        model field
   ---------------------------------   -------------------------------------------------------------------
   Desync job queue + running job      opq, running                (ObjExec: FIFO, one operation at a time)
   Arc<Desync> strong count            strong  (ext = "external owners still exist", counted as ONE unit)
   Desync value freed by Desync::drop  freed
   PipeContext.poll_fn slot (l.93)     pollfn  (true = Some(PollFn); the PollFn owns stream + process closure)
   PipeWaker k .context  (l.77)        wctx !! k  (WkFresh = not created yet, WkLive = Some(ctx), WkTaken = None)
   the input stream (environment)      ready (items available, not yet yielded), future (items not yet available),
                                       ended, reg (the ONE waker stored by the last Pending poll_next; a PipeWaker id)
   threads executing a wake            wakes !! i   (a thread that calls `wake` on a PipeWaker; the FIRST entry is the
                                       thread inside pipe_in executing the initial `PipeContext::poll(context)`, l.231)
   REFERENCE_CHUTE (l.63,156)          chute   (a disposal job that owns the taken PollFn is queued on the chute)
   ghost                               log, released, evt_gone, nextother

   actor / pc                          code                                                       label
   ---------------------------------   --------------------------------------------------------   ----------
   AWake i @ WCall k                   PipeWaker::wake_by_ref l.170: context.lock().take()        LPipeWaker
                                       None -> return; Some(ctx) -> PipeContext::poll(ctx)
   AWake i @ WUpgrade                  PipeContext::poll l.123: target.upgrade()   ([rc] step)    LNone
   AWake i @ WEnq                      l.128-152 target.future_desync(..).detach(): the new       LNone
                                       poll job J_k is appended to the object's queue
   AWake i @ WDropRc                   l.153 end of `if let`: the temporary Arc is dropped; if    LNone
                                       it was the last strong reference Desync::drop runs here
                                       (= a final synchronous operation OFree is queued)
   AWake i @ WTake                     l.155 poll_fn.lock().take() and l.156 hand-over to the     LPollFn
                                       chute
   AChute                              l.156-159 the chute job drops old_poll_fn                  LNone
   ARun, nothing running               ObjExec dequeues the head operation (Start)                LNone
   ARun @ (OPoll k, JNew)              l.131-133 PipeWaker k created with context = Some(ctx)     LNone
   ARun @ (OPoll k, JLockPf)           l.137-141 maybe_poll_fn.lock(); None -> job ends;          LPollFn
                                       Some -> poll_fn(core, waker) called (creates the loop future)
   ARun @ (OPoll k, JPoll)             l.208-211 stream.lock().poll_next_unpin(waker k)           LStream
                                       Pending -> return true (job ends) | Ready(None) -> return
                                       false | Ready(Some x) -> go on to process x
   ARun @ (OPoll k, JProc x)           l.222-223 process.lock(); call closure (creates the         LProcess
                                       processing future); first poll of `process_future.await`:
                                       an ordinary item is processed (EProcess); a SLOW item begins
                                       (EBegin), its future wakes its own waker and returns Pending:
                                       the poll job is suspended with the item in hand (JSusp x) and
                                       remains the object's open operation
   ARun @ (OPoll k, JSusp x)           the self-wake is delivered and the suspended poll job is    LNone
                                       re-polled (by whichever thread): the item is finished
                                       (EProcess) and the loop goes on with poll_next
   ARun @ (OPoll k, JClear)            l.148 poll_fn.lock() := None                               LPollFn
   ARun @ (OPoll k, JEnd)              the job's future has returned; ObjExec finishes the        LNone
                                       operation (Finish).  Between the Pending poll_next and
                                       this step the job is "still finishing" while a wake for
                                       the waker it just registered may already be under way
   ARun @ (OOther n, _) / (OFree, _)   an opaque operation of another user / the final            LNone
                                       operation of Desync::drop runs (one step) and finishes
   AEnvAvail / AEnvEnd                 the producer makes an item available / closes the input;   LNone
                                       it TAKES the registered waker and calls it afterwards
                                       (a new wake thread at WCall k)
   AEnvSpur k                          anybody holding a clone of PipeWaker k calls it (again)    LNone
   AEnvOp                              another owner of the Arc<Desync> schedules an operation    LNone
                                       (this also covers the `desync.sync(|_| {})` of l.234)
   AEnvDrop                            the last external owner drops its Arc<Desync>              LNone

   Deviations / merges (all on lock-free code or on locks of lower layers):
   * the `[rc]` steps (upgrade, drop of the temporary Arc) and the enqueue inside future_desync are steps of lower
     layers (atomic counter / queue core mutex); they are separate steps here, labelled LNone.
   * Desync::drop = `sync(free)`: the decrement to zero and the enqueue of OFree are ONE step (nobody can enqueue in
     between: that needs a strong reference).  The wait of the dropping thread for OFree is not modelled (it only
     affects the progress of that thread).
   * the hand-over of old_poll_fn to the chute (an enqueue on the chute's own queue) is merged into the WTake step;
     chute jobs that carry `None` are not represented.
   * a processing future suspends at most once (slow items), by waking ITS OWN task waker (the waker of the poll job's
     scheduler future, not a PipeWaker) before it returns Pending.  The model ASSUMES this self-wake is delivered, i.e.
     that the scheduler re-polls the suspended job: ARun is enabled at JSusp.  That a wake-up for a suspended future
     operation is never lost is property C06 of the scheduler layers, not of the pipe.  Delivery of the wake and the
     re-poll are one step; nothing of the pipe's state is touched in between.
   * finishing an operation (EFinish) and dequeuing the next one (EStart) are separate ARun steps.
   * the input's own internal lock is taken inside the `stream` mutex section; both are the one LStream step; the
     environment's updates of the input are atomic steps (LNone).
   * AEnvDrop is enabled at any time (also before the initial poll finished, which pipe_in itself excludes because it
     holds its `desync` argument until it returns): an over-approximation. *)
From stdpp Require Import list numbers option.
From RecordUpdate Require Import RecordUpdate.

Inductive label := LPollFn | LStream | LProcess | LPipeWaker | LNone.

(* an item is its number plus the script of its processing: a SLOW item's processing future suspends once in the middle
   (it wakes its own waker and returns Pending, holding the object's exclusive access), an ordinary one completes at once *)
Definition item := (nat * bool)%type.
Definition is_slow (x : item) : bool := snd x.

(* operations of the object *)
Inductive op := OPoll (k : nat) | OOther (n : nat) | OFree.
Definition op_eqb (a b : op) : bool :=
  match a, b with
  | OPoll k, OPoll k' => Nat.eqb k k'
  | OOther n, OOther n' => Nat.eqb n n'
  | OFree, OFree => true
  | _, _ => false
  end.
Definition is_poll (o : op) : bool := match o with OPoll _ => true | _ => false end.
Definition is_free (o : op) : bool := match o with OFree => true | _ => false end.

(* program counter of the running operation *)
Inductive jpc := JNew | JLockPf | JPoll | JProc (x : item) | JSusp (x : item) | JClear | JEnd.

(* ghost log *)
Inductive event := EStart (o : op) | EFinish (o : op) | EBegin (x : item) | EProcess (x : item).

(* PipeWaker.context *)
Inductive wk := WkFresh | WkLive | WkTaken.

(* a thread executing PipeWaker::wake / PipeContext::poll *)
Inductive wpc := WCall (k : nat) | WUpgrade | WEnq | WDropRc | WTake | WDone.

Record state := {
  opq : list op; running : option (op * jpc); log : list event;
  ready : list item; future : list item; ended : bool; reg : option nat;
  wctx : list wk; wakes : list wpc;
  pollfn : bool; chute : bool; released : bool;
  strong : nat; ext : bool; freed : bool; evt_gone : bool;
  nextother : nat }.
#[export] Instance eta_state : Settable _ :=
  settable! Build_state <opq; running; log; ready; future; ended; reg; wctx; wakes; pollfn; chute; released;
                         strong; ext; freed; evt_gone; nextother>.

Inductive actor := ARun | AWake (i : nat) | AChute
                 | AEnvAvail | AEnvEnd | AEnvSpur (k : nat) | AEnvOp | AEnvDrop.
Definition is_env (a : actor) : bool :=
  match a with AEnvAvail | AEnvEnd | AEnvSpur _ | AEnvOp | AEnvDrop => true | _ => false end.

(* who keeps the stream and the processing closure alive: the poll_fn slot, the chute job, the loop future of a
   running poll job *)
Definition in_loop (r : option (op * jpc)) : bool :=
  match r with Some (OPoll _, JPoll) | Some (OPoll _, JProc _) | Some (OPoll _, JSusp _) => true | _ => false end.
Definition holders (s : state) : bool := s.(pollfn) || s.(chute) || in_loop s.(running).
Definition upd_rel (s : state) : state := if holders s then s else s <| released := true |>.

Definition finish (s : state) (o : op) : state := s <| running := None |> <| log := s.(log) ++ [EFinish o] |>.

(* an input event takes the registered waker; the wake itself is a separate thread *)
Definition fire (s : state) : state :=
  let s := if s.(freed) then s <| evt_gone := true |> else s in
  match s.(reg) with
  | Some k => s <| reg := None |> <| wakes := s.(wakes) ++ [WCall k] |>
  | None => s
  end.

(* a strong reference is dropped; the last one runs Desync::drop *)
Definition drop_strong (s : state) : state :=
  match s.(strong) with
  | 0 => s
  | 1 => s <| strong := 0 |> <| opq := s.(opq) ++ [OFree] |>
  | S n => s <| strong := n |>
  end.

Definition setw (s : state) (i : nat) (w : wpc) : state := s <| wakes := <[i := w]> s.(wakes) |>.

Definition step (s : state) (a : actor) : option state :=
  match a with
  | ARun =>
      match s.(running) with
      | None =>
          match s.(opq) with
          | [] => None
          | o :: rest => Some (s <| opq := rest |> <| running := Some (o, JNew) |> <| log := s.(log) ++ [EStart o] |>)
          end
      | Some (OPoll k, JNew) => Some (s <| wctx := <[k := WkLive]> s.(wctx) |> <| running := Some (OPoll k, JLockPf) |>)
      | Some (OPoll k, JLockPf) =>
          if s.(pollfn) then Some (s <| running := Some (OPoll k, JPoll) |>) else Some (s <| running := Some (OPoll k, JEnd) |>)
      | Some (OPoll k, JPoll) =>
          match s.(ready) with
          | x :: r => Some (s <| ready := r |> <| running := Some (OPoll k, JProc x) |>)
          | [] => if s.(ended) then Some (upd_rel (s <| running := Some (OPoll k, JClear) |>))
                  else Some (upd_rel (s <| reg := Some k |> <| running := Some (OPoll k, JEnd) |>))
          end
      | Some (OPoll k, JProc x) =>
          if is_slow x then Some (s <| log := s.(log) ++ [EBegin x] |> <| running := Some (OPoll k, JSusp x) |>)
          else Some (s <| log := s.(log) ++ [EProcess x] |> <| running := Some (OPoll k, JPoll) |>)
      | Some (OPoll k, JSusp x) => Some (s <| log := s.(log) ++ [EProcess x] |> <| running := Some (OPoll k, JPoll) |>)
      | Some (OPoll k, JClear) => Some (upd_rel (s <| pollfn := false |> <| running := Some (OPoll k, JEnd) |>))
      | Some (OPoll k, JEnd) => Some (finish s (OPoll k))
      | Some (OOther n, _) => Some (finish s (OOther n))
      | Some (OFree, _) => Some (finish (s <| freed := true |>) OFree)
      end
  | AWake i =>
      w ← s.(wakes) !! i;
      match w with
      | WCall k =>
          match s.(wctx) !! k with
          | Some WkLive => Some (setw (s <| wctx := <[k := WkTaken]> s.(wctx) |>) i WUpgrade)
          | _ => Some (setw s i WDone)
          end
      | WUpgrade =>
          match s.(strong) with
          | 0 => Some (setw s i WTake)
          | S n => Some (setw (s <| strong := S (S n) |>) i WEnq)
          end
      | WEnq => Some (setw (s <| opq := s.(opq) ++ [OPoll (length s.(wctx))] |> <| wctx := s.(wctx) ++ [WkFresh] |>) i WDropRc)
      | WDropRc => Some (setw (drop_strong s) i WDone)
      | WTake => if s.(pollfn) then Some (setw (s <| pollfn := false |> <| chute := true |>) i WDone)
                 else Some (setw s i WDone)
      | WDone => None
      end
  | AChute => if s.(chute) then Some (upd_rel (s <| chute := false |>)) else None
  | AEnvAvail =>
      if s.(ended) then None else
      match s.(future) with
      | [] => None
      | x :: f => Some (fire (s <| ready := s.(ready) ++ [x] |> <| future := f |>))
      end
  | AEnvEnd => if s.(ended) then None else Some (fire (s <| ended := true |>))
  | AEnvSpur k =>
      match s.(wctx) !! k with
      | Some WkLive | Some WkTaken => Some (s <| wakes := s.(wakes) ++ [WCall k] |>)
      | _ => None
      end
  | AEnvOp => if s.(ext) then Some (s <| opq := s.(opq) ++ [OOther s.(nextother)] |> <| nextother := S s.(nextother) |>) else None
  | AEnvDrop => if s.(ext) then Some (drop_strong (s <| ext := false |>)) else None
  end.

(* the mutex class of the critical section a step corresponds to; defined exactly for the enabled actors *)
Definition step_label (s : state) (a : actor) : option label :=
  match a with
  | ARun =>
      match s.(running) with
      | None => match s.(opq) with [] => None | _ => Some LNone end
      | Some (OPoll _, JNew) => Some LNone
      | Some (OPoll _, JLockPf) => Some LPollFn
      | Some (OPoll _, JPoll) => Some LStream
      | Some (OPoll _, JProc _) => Some LProcess
      | Some (OPoll _, JSusp _) => Some LNone
      | Some (OPoll _, JClear) => Some LPollFn
      | Some (OPoll _, JEnd) => Some LNone
      | Some (_, _) => Some LNone
      end
  | AWake i =>
      w ← s.(wakes) !! i;
      match w with
      | WCall _ => Some LPipeWaker
      | WTake => Some LPollFn
      | WDone => None
      | _ => Some LNone
      end
  | _ => if step s a then Some LNone else None
  end.

(* pipe_in(desync, stream, process) has just created the context (l.201-228): one thread is about to execute the
   initial PipeContext::poll; the caller's Arc<Desync> is the external owner *)
Definition init (items : list item) : state :=
  {| opq := []; running := None; log := [];
     ready := []; future := items; ended := false; reg := None;
     wctx := []; wakes := [WUpgrade];
     pollfn := true; chute := false; released := false;
     strong := 1; ext := true; freed := false; evt_gone := false; nextother := 0 |}.

Definition run (s : state) (tr : list actor) : option state := foldl (fun os a => o ← os; step o a) (Some s) tr.

(* ---------- observations used by the theorems ---------- *)
Definition processed (l : list event) : list item := omap (fun e => match e with EProcess x => Some x | _ => None end) l.
Definition inhand (s : state) : list item := match s.(running) with Some (OPoll _, JProc x) | Some (OPoll _, JSusp x) => [x] | _ => [] end.

(* exclusivity checker: reads the log from the oldest event; state = the operation currently open *)
Definition excl_step (st : option (option op)) (e : event) : option (option op) :=
  cur ← st;
  match e, cur with
  | EStart o, None => Some (Some o)
  | EFinish o, Some o' => if op_eqb o o' then Some None else None
  | EProcess _, Some (OPoll k) | EBegin _, Some (OPoll k) => Some (Some (OPoll k))
  | _, _ => None
  end.
Definition excl (l : list event) : option (option op) := foldl excl_step (Some None) l.

(* suspension checker: a Begin event is IMMEDIATELY followed by the Process event of the same item (nothing at all is
   logged for the object while an item is suspended) or is the last event; state = the item currently suspended *)
Definition item_eqb (a b : item) : bool := Nat.eqb (fst a) (fst b) && Bool.eqb (snd a) (snd b).
Definition susp_step (st : option (option item)) (e : event) : option (option item) :=
  cur ← st;
  match cur, e with
  | None, EBegin x => if is_slow x then Some (Some x) else None
  | None, _ => Some None
  | Some x, EProcess y => if item_eqb x y then Some None else None
  | Some _, _ => None
  end.
Definition susp_ok (l : list event) : option (option item) := foldl susp_step (Some None) l.
Definition susp_item (s : state) : option item := match s.(running) with Some (OPoll _, JSusp x) => Some x | _ => None end.

(* a wake thread holds a strong reference / is inside PipeContext::poll *)
Definition holds_strong (w : wpc) : bool := match w with WEnq | WDropRc => true | _ => false end.
Definition inside_poll (w : wpc) : bool := match w with WUpgrade | WEnq | WDropRc | WTake => true | _ => false end.

(* PipeWaker k still holds its context (it has been created and not been woken yet) *)
Definition is_live (c : list wk) (k : nat) : bool := match c !! k with Some WkLive => true | _ => false end.

(* a wake thread that will certainly schedule a poll job or take poll_fn *)
Definition potent (c : list wk) (w : wpc) : bool :=
  match w with
  | WCall k => is_live c k
  | WUpgrade | WEnq | WTake => true
  | WDropRc | WDone => false
  end.

(* the four ways in which the pipe is "not asleep without an alarm clock" (theorem 3):
   - a wake is in flight that will schedule a poll job (or take poll_fn if the object is gone),
   - a poll job is queued on the object,
   - a poll job is running and its own PipeWaker is still live (or it is about to create it / to clear poll_fn),
   - no poll job is running, the input holds a LIVE PipeWaker and has nothing to report (no item available, not ended). *)
Definition wake_pending (s : state) : bool := existsb (potent s.(wctx)) s.(wakes).
Definition job_queued (s : state) : bool := existsb is_poll s.(opq).
Definition waker_armed (s : state) : bool :=
  match s.(reg) with
  | Some k => is_live s.(wctx) k && match s.(ready) with [] => true | _ => false end && negb s.(ended)
  | None => false
  end.
(* while a poll job runs, the waker that counts is its own (a Pending poll_next will REPLACE the registered one) *)
Definition running_or_armed (s : state) : bool :=
  match s.(running) with
  | Some (OPoll k, JNew) | Some (OPoll k, JClear) => true
  | Some (OPoll k, JEnd) => waker_armed s
  | Some (OPoll k, _) => is_live s.(wctx) k
  | _ => waker_armed s
  end.
(* a poll job is running and has not yet returned from its body *)
Definition poll_running (s : state) : bool :=
  match s.(running) with Some (OPoll _, JEnd) => false | Some (OPoll _, _) => true | _ => false end.

(* poll job ids are waker ids *)
Definition id_ok (c : list wk) (o : op) : bool := match o with OPoll k => bool_decide (k < length c) | _ => true end.

(* no actor of the pipe / the object / the chute can move (the environment is not asked) *)
Definition quiescent (s : state) : Prop := forall a, is_env a = false -> step s a = None.
Definition all_done (s : state) : bool :=
  forallb (fun w => match w with WDone => true | _ => false end) s.(wakes)
  && negb s.(chute) && match s.(running), s.(opq) with None, [] => true | _, _ => false end.
Definition env_finished (s : state) : Prop := s.(future) = [] /\ s.(ended) = true.

(* number of strong references to the Desync held by wake threads (= by the pipe) *)
Fixpoint nstrong (ws : list wpc) : nat := match ws with [] => 0 | w :: ws' => Nat.b2n (holds_strong w) + nstrong ws' end.

(* Desync::drop bookkeeping: OFree is queued at most once and is the last operation ever queued *)
Fixpoint last_free (l : list op) : bool :=
  match l with
  | [] => false
  | o :: l' => match l' with [] => is_free o | _ => negb (is_free o) && last_free l' end
  end.
Definition no_free (l : list op) : bool := forallb (fun o => negb (is_free o)) l.
Definition run_free (r : option (op * jpc)) : bool := match r with Some (OFree, _) => true | _ => false end.

Definition reachable (items : list item) (s : state) : Prop := exists tr, run (init items) tr = Some s.
Definition is_process (e : event) : bool := match e with EProcess _ | EBegin _ => true | _ => false end.
(* items whose processing has begun and suspended (slow items only) *)
Definition begun (l : list event) : list item := omap (fun e => match e with EBegin x => Some x | _ => None end) l.
Definition suspended (s : state) : list item := match s.(running) with Some (OPoll _, JSusp x) => [x] | _ => [] end.

(* ---------- a bound on the number of steps the pipe, the object and the chute can take without the environment ---------- *)
Fixpoint lsum {A} (f : A -> nat) (l : list A) : nat := match l with [] => 0 | x :: l' => f x + lsum f l' end.
Definition wcost (w : wpc) : nat :=
  match w with WCall _ => 16 | WUpgrade => 15 | WEnq => 14 | WDropRc => 7 | WTake => 2 | WDone => 0 end.
Definition rcost (r : option (op * jpc)) : nat :=
  match r with
  | None => 0
  | Some (OPoll _, JNew) => 5 | Some (OPoll _, JLockPf) => 4 | Some (OPoll _, JPoll) => 3
  | Some (OPoll _, JProc _) => 5 | Some (OPoll _, JSusp _) => 4 | Some (OPoll _, JClear) => 2 | Some (OPoll _, JEnd) => 1
  | Some (_, _) => 1
  end.
Definition measure (s : state) : nat :=
  lsum wcost s.(wakes) + 6 * length s.(opq) + rcost s.(running) + 3 * length s.(ready) + Nat.b2n s.(chute).

(* ---------- one-shot wakers ---------- *)
Definition poll_id (o : op) : option nat := match o with OPoll k => Some k | _ => None end.
Definition ntaken (c : list wk) : nat := lsum (fun x => match x with WkTaken => 1 | _ => 0 end) c.
(* wake threads that have consumed a waker (or are the initial poll) and have not yet scheduled / given up *)
Definition npend (ws : list wpc) : nat := lsum (fun w => match w with WUpgrade | WEnq => 1 | _ => 0 end) ws.
