(* Without environment steps the system comes to rest: every non-environment step decreases [measure]. So from every
   state a quiescent state is reached by ANY schedule of the pipe-side actors in at most [measure s] steps: the
   quiescent states theorems 4 and 5b talk about are always reached (no livelock hides a lost item). *)
From stdpp Require Import list numbers option.
From RecordUpdate Require Import RecordUpdate.
From PipeIn Require Import Model Inv.

Lemma lsum_app {A} (f : A -> nat) l x : lsum f (l ++ [x]) = lsum f l + f x.
Proof. induction l as [|y l IH]; simpl; lia. Qed.
Lemma lsum_insert {A} (f : A -> nat) l i y x : l !! i = Some y -> lsum f (<[i:=x]> l) + f y = lsum f l + f x.
Proof.
  revert i; induction l as [|z l IH]; intros [|i]; simpl; try done.
  - intros [= ->]. lia.
  - intros H. specialize (IH _ H). lia.
Qed.

Arguments lsum : simpl never.
Lemma step_measure s a s' : is_env a = false -> step s a = Some s' -> measure s' < measure s.
Proof.
  unfold measure. intros Ha H. step_cases s H; try discriminate Ha.
  all: rewrite ?app_length; cbn [length rcost Nat.b2n wcost].
  all: try (match goal with Ew : _ !! _ = Some ?w |- context [<[_:=?w']> _] => pose proof (lsum_insert wcost _ _ _ w' Ew) as Hn; cbn in Hn end).
  all: try lia.
  all: try (destruct o; lia).
Qed.

Lemma run_measure s tr s' : Forall (fun a => is_env a = false) tr -> run s tr = Some s' -> measure s' + length tr <= measure s.
Proof.
  revert s'. induction tr as [|a tr IH] using rev_ind; intros s' Hf.
  - cbn. intros [= <-]. lia.
  - apply Forall_app in Hf as [Hf Ha]. inversion Ha as [|? ? Ha' _]; subst. clear Ha; rename Ha' into Ha.
    rewrite run_snoc. destruct (run s tr) as [s1|] eqn:E; cbn; [|done]. intros Hs.
    specialize (IH s1 Hf eq_refl). pose proof (step_measure _ _ _ Ha Hs). rewrite app_length. cbn. lia.
Qed.

(* either nothing on the pipe side can move, or some pipe-side actor can *)
Lemma quiescent_or_enabled s : all_done s = true \/ exists a s', is_env a = false /\ step s a = Some s'.
Proof.
  unfold all_done.
  destruct s.(running) as [r|] eqn:Er.
  { right. exists ARun. destruct (step s ARun) as [s'|] eqn:E; [by exists s'|]. exfalso.
    cbn in E. rewrite Er in E. destruct r as [[k| |] pc]; try done. destruct pc; try done.
    - by destruct s.(pollfn).
    - destruct s.(ready); [by destruct s.(ended)|done].
    - by destruct (is_slow x). }
  destruct s.(opq) as [|o q] eqn:Eo.
  2:{ right. exists ARun. cbn. rewrite Er, Eo. eexists. done. }
  destruct s.(chute) eqn:Ec.
  { right. exists AChute. cbn. rewrite Ec. eexists. done. }
  destruct (forallb (fun w => match w with WDone => true | _ => false end) s.(wakes)) eqn:Ew; [by left|].
  right. apply not_true_iff_false in Ew. rewrite forallb_forall in Ew.
  assert (Hex : exists i w, s.(wakes) !! i = Some w /\ w <> WDone).
  { clear -Ew. induction s.(wakes) as [|w ws IH].
    - exfalso. apply Ew. intros ? [].
    - destruct w; try (exists 0; eexists; split; [done|done]).
      destruct IH as (i & w & Hi & Hw).
      + intros Hall. apply Ew. intros x [<-|Hx]; [done|by apply Hall].
      + exists (S i), w. done. }
  destruct Hex as (i & w & Hi & Hw). exists (AWake i). cbn. rewrite Hi. cbn.
  destruct w; try done.
  - destruct (s.(wctx) !! k) as [[]|]; eexists; done.
  - destruct s.(strong); eexists; done.
  - eexists; done.
  - eexists; done.
  - destruct s.(pollfn); eexists; done.
Qed.

(* from every state, some schedule of pipe-side actors of length <= measure s reaches a quiescent state *)
Theorem reaches_quiescent s : exists tr s', Forall (fun a => is_env a = false) tr /\ run s tr = Some s' /\
  all_done s' = true /\ length tr <= measure s.
Proof.
  remember (measure s) as n eqn:Hn. revert s Hn. induction n as [n IH] using lt_wf_ind. intros s ->.
  destruct (quiescent_or_enabled s) as [Hd|(a & s1 & Ha & Hs)].
  - exists [], s. split; [constructor|]. split; [done|]. split; [done|cbn; lia].
  - pose proof (step_measure _ _ _ Ha Hs) as Hlt.
    destruct (IH _ Hlt s1 eq_refl) as (tr & s' & Hf & Hr & Hd & Hl).
    exists (a :: tr), s'. split; [by constructor|]. split.
    + unfold run in *. cbn. rewrite Hs. exact Hr.
    + split; [done|cbn; lia].
Qed.

(* the environment's part of the state is not touched by pipe-side steps *)
Lemma step_env_stable s a s' : is_env a = false -> step s a = Some s' ->
  s'.(future) = s.(future) /\ s'.(ended) = s.(ended) /\ s'.(ext) = s.(ext).
Proof. intros Ha H. step_cases s H; try discriminate Ha; done. Qed.
Lemma run_env_stable s tr s' : Forall (fun a => is_env a = false) tr -> run s tr = Some s' ->
  s'.(future) = s.(future) /\ s'.(ended) = s.(ended) /\ s'.(ext) = s.(ext).
Proof.
  revert s'. induction tr as [|a tr IH] using rev_ind; intros s' Hf.
  - cbn. by intros [= <-].
  - apply Forall_app in Hf as [Hf Ha]. inversion Ha as [|? ? Ha' _]; subst.
    rewrite run_snoc. destruct (run s tr) as [s1|] eqn:E; cbn; [|done]. intros Hs.
    destruct (IH s1 Hf eq_refl) as (?&?&?). destruct (step_env_stable _ _ _ Ha' Hs) as (?&?&?).
    split; [congruence|split; congruence].
Qed.

From PipeIn Require Import Thm.

(* once the environment has finished (object alive), EVERY pipe-side schedule that runs to rest ends with all items
   processed and poll_fn released, and such schedules exist and are bounded *)
Theorem eventually_complete items s : reachable items s -> env_finished s -> s.(ext) = true ->
  (forall tr s', Forall (fun a => is_env a = false) tr -> run s tr = Some s' -> quiescent s' ->
     processed s'.(log) = items /\ s'.(pollfn) = false /\ s'.(released) = true) /\
  (exists tr s', Forall (fun a => is_env a = false) tr /\ run s tr = Some s' /\ quiescent s' /\ length tr <= measure s).
Proof.
  intros H [Hf He] Hx. split.
  - intros tr s' Hne Hr Hq. destruct (run_env_stable _ _ _ Hne Hr) as (H1 & H2 & H3).
    apply terminal_complete; [by eapply reachable_run|done|split; congruence|congruence].
  - destruct (reaches_quiescent s) as (tr & s' & Hne & Hr & Hd & Hl).
    exists tr, s'. split; [done|]. split; [done|]. split; [by apply all_done_quiescent|done].
Qed.
