(* Concrete runs of the pipe_in model (non-vacuity of the theorems' hypotheses); everything by [vm_compute]. *)
From stdpp Require Import list numbers option.
From PipeIn Require Import Model.

(* what we look at: processed items, ready, future, poll_fn present, released, strong count, freed, registered waker,
   all_done (decides quiescence), environment finished *)
Definition obs (os : option state) :=
  s ← os; Some (processed s.(log), s.(ready), s.(future), s.(pollfn), s.(released), s.(strong), s.(freed), s.(reg),
                all_done s, bool_decide (s.(future) = []) && s.(ended), s.(ext)).
(* ordinary (not slow) items *)
Definition P (l : list nat) : list item := (fun n => (n, false)) <$> l.
Definition R n := replicate n ARun.
Definition W i n := replicate n (AWake i).

(* (a) three items ready before the initial poll job runs; a concurrent sync (opaque operation) behind it;
       then the input ends: everything processed in order, poll_fn released *)
Definition tr_a := [AEnvAvail; AEnvAvail; AEnvAvail] ++ W 0 3 ++ [AEnvOp] ++ R 13 ++ [AEnvEnd] ++ W 1 4 ++ R 6.
Example run_a : obs (run (init (P [10;11;12])) tr_a) = Some ((P [10;11;12]), [], [], false, true, 1, false, None, true, true, true).
Proof. vm_compute. reflexivity. Qed.
Example log_a : (s ← run (init (P [10;11;12])) tr_a; Some s.(log)) =
  Some [EStart (OPoll 0); EProcess (10, false); EProcess (11, false); EProcess (12, false); EFinish (OPoll 0);
        EStart (OOther 0); EFinish (OOther 0); EStart (OPoll 1); EFinish (OPoll 1)].
Proof. vm_compute. reflexivity. Qed.

(* (b) one item before the poll, one arriving DURING the processing of the first (no waker registered: no wake),
       one arriving AFTER the job returned Pending (takes PipeWaker 0, wake, poll job 1) *)
Definition tr_b := [AEnvAvail] ++ W 0 3 ++ R 4 ++ [AEnvAvail] ++ R 5 ++ [AEnvAvail] ++ W 1 4 ++ R 7
                   ++ [AEnvEnd] ++ W 2 4 ++ R 6.
Example run_b : obs (run (init (P [10;11;12])) tr_b) = Some ((P [10;11;12]), [], [], false, true, 1, false, None, true, true, true).
Proof. vm_compute. reflexivity. Qed.

(* (c) a burst of three items after the job went to sleep: the first event takes the waker, the other two find none;
       ONE wake, ONE poll job processes all three *)
Definition tr_c := W 0 3 ++ R 5 ++ [AEnvAvail; AEnvAvail; AEnvAvail] ++ W 1 4 ++ R 11 ++ [AEnvEnd] ++ W 2 4 ++ R 6.
Example run_c : obs (run (init (P [10;11;12])) tr_c) = Some ((P [10;11;12]), [], [], false, true, 1, false, None, true, true, true).
Proof. vm_compute. reflexivity. Qed.

(* (d) a duplicate wake of PipeWaker 0 while poll job 0 is still running: job 1 is queued behind it, job 0 then
       registers its (already taken) waker and goes Pending; job 1 re-registers a live one; a sync in between *)
Definition tr_d := [AEnvAvail] ++ W 0 3 ++ R 3 ++ [AEnvSpur 0] ++ W 1 4 ++ [AEnvOp; AEnvAvail] ++ R 6
                   ++ R 5 ++ R 2 ++ [AEnvEnd] ++ W 2 4 ++ R 6.
Example run_d : obs (run (init (P [10;11])) tr_d) = Some ((P [10;11]), [], [], false, true, 1, false, None, true, true, true).
Proof. vm_compute. reflexivity. Qed.
(* the state in which job 0 has gone Pending with a dead waker: job 1 is queued (theorem 3, second disjunct) *)
Example mid_d : (s ← run (init (P [10;11])) (take 20 tr_d); Some (s.(reg), is_live s.(wctx) 0, s.(opq), s.(running))) =
  Some (Some 0, false, [OPoll 1; OOther 0], None).
Proof. vm_compute. reflexivity. Qed.

(* (e) the object is dropped mid-stream (after the first item); the next item event finds it gone: poll_fn is taken,
       handed to the chute and released; the second item is NOT processed *)
Definition tr_e := [AEnvAvail] ++ W 0 3 ++ R 7 ++ [AEnvDrop] ++ R 2 ++ [AEnvAvail] ++ W 1 3 ++ [AChute].
Example run_e : obs (run (init (P [10;11])) tr_e) = Some ((P [10]), (P [11]), [], false, true, 0, true, None, true, false, false).
Proof. vm_compute. reflexivity. Qed.
(* ... and without a stream event after the drop the pipe keeps poll_fn (that is what the property says) *)
Example run_e_silent : obs (run (init (P [10;11])) (take 14 tr_e)) = Some ((P [10]), [], (P [11]), true, false, 0, true, Some 0, true, false, false).
Proof. vm_compute. reflexivity. Qed.

(* (f) the last external owner drops the object while the initial PipeContext::poll holds the upgraded Arc: the poll
       job is still queued, the temporary Arc is the last reference, Desync::drop runs behind the poll job *)
Definition tr_f := [AEnvAvail] ++ W 0 1 ++ [AEnvDrop] ++ W 0 2 ++ R 9.
Example run_f : (s ← run (init (P [10;11])) tr_f; Some (s.(log), s.(strong), s.(freed))) =
  Some ([EStart (OPoll 0); EProcess (10, false); EFinish (OPoll 0); EStart OFree; EFinish OFree], 0, true).
Proof. vm_compute. reflexivity. Qed.

(* (g) the race the property mentions: the item's wake-up fires while the previous poll job is still finishing
       (it has registered its waker and returned Pending but the operation has not finished yet): the new poll job is
       queued behind the finishing one and processes the item *)
Definition tr_g := W 0 3 ++ R 4 ++ [AEnvAvail] ++ W 1 4 ++ R 1 ++ R 7 ++ [AEnvEnd] ++ W 2 4 ++ R 6.
Example mid_g : (s ← run (init (P [10])) (take 12 tr_g); Some (s.(running), s.(opq), s.(ready), s.(reg))) =
  Some (Some (OPoll 0, JEnd), [OPoll 1], (P [10]), None).
Proof. vm_compute. reflexivity. Qed.
Example run_g : obs (run (init (P [10])) tr_g) = Some ((P [10]), [], [], false, true, 1, false, None, true, true, true).
Proof. vm_compute. reflexivity. Qed.

(* (h) a SLOW item (11): its processing begins, the poll job is suspended with the item in hand and stays the object's
       open operation while another operation is queued, a further item arrives and a duplicate wake queues poll job 1;
       the re-poll finishes item 11 (Begin immediately followed by Process in the log) and the loop goes on *)
Definition items_h : list item := [(10,false); (11,true); (12,false)].
Definition tr_h := [AEnvAvail; AEnvAvail] ++ W 0 3 ++ R 7 ++ [AEnvOp; AEnvAvail; AEnvSpur 0] ++ W 1 4
                   ++ R 4 ++ R 1 ++ R 5 ++ R 2 ++ [AEnvEnd] ++ W 2 4 ++ R 6.
Example mid_h : (s ← run (init items_h) (take 19 tr_h); Some (s.(running), s.(opq), s.(ready))) =
  Some (Some (OPoll 0, JSusp (11,true)), [OOther 0; OPoll 1], [(12,false)]).
Proof. vm_compute. reflexivity. Qed.
Example run_h : obs (run (init items_h) tr_h) = Some (items_h, [], [], false, true, 1, false, None, true, true, true).
Proof. vm_compute. reflexivity. Qed.
Example log_h : (s ← run (init items_h) tr_h; Some s.(log)) =
  Some [EStart (OPoll 0); EProcess (10,false); EBegin (11,true); EProcess (11,true); EProcess (12,false); EFinish (OPoll 0);
        EStart (OOther 0); EFinish (OOther 0); EStart (OPoll 1); EFinish (OPoll 1); EStart (OPoll 2); EFinish (OPoll 2)].
Proof. vm_compute. reflexivity. Qed.

(* (i) the last owner drops the object WHILE an item is suspended: Desync::drop (OFree) waits behind the suspended poll
       job, the item is finished, the job goes Pending, OFree runs; the next item event finds the object gone: poll_fn is
       taken and released, the second item is not processed *)
Definition items_i : list item := [(10,true); (11,false)].
Definition tr_i := [AEnvAvail] ++ W 0 3 ++ R 5 ++ [AEnvDrop] ++ R 3 ++ R 2 ++ [AEnvAvail] ++ W 1 3 ++ [AChute].
Example mid_i : (s ← run (init items_i) (take 10 tr_i); Some (s.(running), s.(opq), s.(strong))) =
  Some (Some (OPoll 0, JSusp (10,true)), [OFree], 0).
Proof. vm_compute. reflexivity. Qed.
Example run_i : obs (run (init items_i) tr_i) = Some ([(10,true)], [(11,false)], [], false, true, 0, true, None, true, false, false).
Proof. vm_compute. reflexivity. Qed.
Example log_i : (s ← run (init items_i) tr_i; Some s.(log)) =
  Some [EStart (OPoll 0); EBegin (10,true); EProcess (10,true); EFinish (OPoll 0); EStart OFree; EFinish OFree].
Proof. vm_compute. reflexivity. Qed.

(* labels of the steps of run (a), as the implementation's lock log would show them (LNone steps are silent) *)
Fixpoint labels (s : state) (tr : list actor) : list label :=
  match tr with
  | [] => []
  | a :: tr' => match step_label s a, step s a with
                | Some l, Some s' => match l with LNone => labels s' tr' | _ => l :: labels s' tr' end
                | _, _ => []
                end
  end.
Example labels_a : labels (init (P [10;11;12])) tr_a =
  [LPollFn; LStream; LProcess; LStream; LProcess; LStream; LProcess; LStream; LPipeWaker; LPollFn; LStream; LPollFn].
Proof. vm_compute. reflexivity. Qed.
