(* Theorems of C11 (pipe_in) over the model in Model.v; all proved from the invariants of Inv.v. *)
From stdpp Require Import list numbers option.
From RecordUpdate Require Import RecordUpdate.
From PipeIn Require Import Model Inv.

Lemma reach_inv items s : reachable items s -> Inv items s.
Proof. intros [tr H]. by eapply Inv_reach. Qed.

(* ---------- 1. order, exactly once ---------- *)
Theorem order_exactly_once items s : reachable items s ->
  processed s.(log) ++ inhand s ++ s.(ready) ++ s.(future) = items.
Proof. intros H. apply (i_items _ _ (reach_inv _ _ H)). Qed.

Corollary processed_prefix items s : reachable items s -> processed s.(log) `prefix_of` items.
Proof. intros H. exists (inhand s ++ s.(ready) ++ s.(future)). symmetry. by apply order_exactly_once. Qed.

(* ---------- 2. exclusive ---------- *)
Theorem exclusive items s : reachable items s -> excl s.(log) = Some (fst <$> s.(running)).
Proof. intros H. apply (i_excl _ _ (reach_inv _ _ H)). Qed.

(* what the checker [excl] says, in terms of positions in the log *)
Lemma foldl_excl_none l : foldl excl_step None l = None.
Proof. induction l; cbn; done. Qed.
Lemma excl_app l1 l2 : excl (l1 ++ l2) = foldl excl_step (excl l1) l2.
Proof. unfold excl. by rewrite foldl_app. Qed.
Lemma excl_prefix l1 l2 r : excl (l1 ++ l2) = Some r -> exists r1, excl l1 = Some r1.
Proof. rewrite excl_app. destruct (excl l1) as [r1|]; [by exists r1|]. by rewrite foldl_excl_none. Qed.
Lemma excl_at_start l1 o l2 r : excl (l1 ++ EStart o :: l2) = Some r -> excl l1 = Some None.
Proof.
  rewrite excl_app. cbn. destruct (excl l1) as [[o'|]|]; cbn; [|done|]; rewrite foldl_excl_none; done.
Qed.
Lemma excl_at_process l1 x l2 r : excl (l1 ++ EProcess x :: l2) = Some r -> exists k, excl l1 = Some (Some (OPoll k)).
Proof.
  rewrite excl_app. cbn. destruct (excl l1) as [[[k| |]|]|]; cbn; rewrite ?foldl_excl_none; try done. by exists k.
Qed.
Lemma excl_at_finish l1 o l2 r : excl (l1 ++ EFinish o :: l2) = Some r -> excl l1 = Some (Some o).
Proof.
  rewrite excl_app. cbn. destruct (excl l1) as [[o'|]|]; cbn; rewrite ?foldl_excl_none; try done.
  destruct (op_eqb o o') eqn:E; rewrite ?foldl_excl_none; [|done]. intros _.
  destruct o, o'; cbn in E; try done; apply Nat.eqb_eq in E; by subst.
Qed.
(* "operation o is open" means: o was started, has not finished, and only Process events followed its start *)
Lemma excl_open l o : excl l = Some (Some o) ->
  exists l0 l', l = l0 ++ EStart o :: l' /\ excl l0 = Some None /\ forallb is_process l' = true.
Proof.
  induction l as [|e l IH] using rev_ind; [done|].
  rewrite excl_snoc. destruct (excl l) as [[o'|]|] eqn:E; cbn; [| |done].
  - destruct e as [| |x|x]; [done| | |].
    + by destruct (op_eqb o0 o').
    + destruct o' as [k| |]; [|done..]. intros [= <-]. destruct (IH eq_refl) as (l0 & l' & -> & H0 & Hp).
      exists l0, (l' ++ [EBegin x]). split; [by rewrite <- app_assoc|]. split; [done|].
      rewrite forallb_app, Hp. done.
    + destruct o' as [k| |]; [|done..]. intros [= <-]. destruct (IH eq_refl) as (l0 & l' & -> & H0 & Hp).
      exists l0, (l' ++ [EProcess x]). split; [by rewrite <- app_assoc|]. split; [done|].
      rewrite forallb_app, Hp. done.
  - destruct e as [o1| | |]; [|done..]. intros [= <-]. exists l, []. done.
Qed.
Lemma excl_at_begin l1 x l2 r : excl (l1 ++ EBegin x :: l2) = Some r -> exists k, excl l1 = Some (Some (OPoll k)).
Proof.
  rewrite excl_app. cbn. destruct (excl l1) as [[[k| |]|]|]; cbn; rewrite ?foldl_excl_none; try done. by exists k.
Qed.

(* what the checker [susp_ok] says: a Begin event is for a slow item, happens when nothing is suspended, and is either
   the last event of the log or immediately followed by the Process event of the same item *)
Lemma foldl_susp_none l : foldl susp_step None l = None.
Proof. induction l; cbn; done. Qed.
Lemma item_eqb_eq x y : item_eqb x y = true -> x = y.
Proof.
  destruct x as [n b], y as [m c]. unfold item_eqb; cbn. intros [H1 H2]%andb_true_iff.
  apply Nat.eqb_eq in H1. apply Bool.eqb_prop in H2. by subst.
Qed.
Lemma susp_at_begin l1 x l2 r : susp_ok (l1 ++ EBegin x :: l2) = Some r ->
  is_slow x = true /\ susp_ok l1 = Some None /\ (l2 = [] \/ exists l2', l2 = EProcess x :: l2').
Proof.
  unfold susp_ok. rewrite foldl_app. cbn. fold (susp_ok l1).
  destruct (susp_ok l1) as [[y|]|]; cbn; rewrite ?foldl_susp_none; try done.
  destruct (is_slow x) eqn:Es; rewrite ?foldl_susp_none; [|done].
  destruct l2 as [|e l2]; [by auto|]. cbn.
  destruct e as [| | |y]; rewrite ?foldl_susp_none; try done.
  destruct (item_eqb x y) eqn:E; rewrite ?foldl_susp_none; [|done].
  apply item_eqb_eq in E as <-. intros _. split; [done|]. split; [done|]. right. by eexists.
Qed.

Corollary process_inside_poll_job items s l1 x l2 : reachable items s -> s.(log) = l1 ++ EProcess x :: l2 ->
  exists k l0 l', l1 = l0 ++ EStart (OPoll k) :: l' /\ excl l0 = Some None /\ forallb is_process l' = true.
Proof.
  intros H Hl. pose proof (exclusive _ _ H) as He. rewrite Hl in He.
  apply excl_at_process in He as [k Hk]. exists k. by apply excl_open.
Qed.
(* the open operation spans the suspension of an item: the Begin of a (slow) item lies inside a poll job, and the next
   event of the whole log, if any, is the Process of the same item - no operation starts or finishes, nothing else is
   processed in between; while the item is suspended the poll job is the running operation *)
Theorem suspension_atomic items s : reachable items s -> susp_ok s.(log) = Some (susp_item s).
Proof. intros H. apply (i_susp _ _ (reach_inv _ _ H)). Qed.
Corollary begin_then_process items s l1 x l2 : reachable items s -> s.(log) = l1 ++ EBegin x :: l2 ->
  is_slow x = true /\
  (exists k l0 l', l1 = l0 ++ EStart (OPoll k) :: l' /\ excl l0 = Some None /\ forallb is_process l' = true) /\
  ((l2 = [] /\ exists k, s.(running) = Some (OPoll k, JSusp x)) \/ exists l2', l2 = EProcess x :: l2').
Proof.
  intros H Hl. pose proof (suspension_atomic _ _ H) as Hs. pose proof (exclusive _ _ H) as He. rewrite Hl in Hs, He.
  destruct (susp_at_begin _ _ _ _ Hs) as (H1 & H2 & H3). split; [done|]. split.
  - apply excl_at_begin in He as [k Hk]. exists k. by apply excl_open.
  - destruct H3 as [->|H3]; [left|by right]. split; [done|].
    unfold susp_ok in Hs. rewrite foldl_app in Hs. cbn in Hs. fold (susp_ok l1) in Hs. rewrite H2 in Hs. cbn in Hs. rewrite H1 in Hs.
    injection Hs as Hs. unfold susp_item in Hs. destruct s.(running) as [[[k| |] []]|]; try done. injection Hs as ->. by exists k.
Qed.
Corollary start_when_nothing_open items s l1 o l2 : reachable items s -> s.(log) = l1 ++ EStart o :: l2 -> excl l1 = Some None.
Proof. intros H Hl. pose proof (exclusive _ _ H) as He. rewrite Hl in He. by eapply excl_at_start. Qed.

(* ---------- 3. no lost item ---------- *)
Theorem no_lost_item_inv items s : reachable items s ->
  s.(pollfn) = true -> wake_pending s || job_queued s || running_or_armed s = true.
Proof. intros H. apply (i_A _ _ (reach_inv _ _ H)). Qed.

Corollary no_lost_item items s : reachable items s ->
  s.(pollfn) = true -> wake_pending s = false -> job_queued s = false -> poll_running s = false ->
  exists k, s.(reg) = Some k /\ is_live s.(wctx) k = true /\ s.(ready) = [] /\ s.(ended) = false.
Proof.
  intros H Hp H1 H2 H3. pose proof (no_lost_item_inv _ _ H Hp) as HA. rewrite H1, H2 in HA. cbn in HA.
  unfold running_or_armed, poll_running, waker_armed in *.
  assert (Hw : match s.(reg) with
     | Some k => is_live s.(wctx) k && match s.(ready) with [] => true | _ => false end && negb s.(ended)
     | None => false end = true).
  { destruct s.(running) as [[[k| |] pc]|]; try done. destruct pc; done. }
  destruct s.(reg) as [k|]; [|done]. exists k. split; [done|].
  apply andb_true_iff in Hw as [[Ha Hb]%andb_true_iff Hc]. split; [done|].
  split; [by destruct s.(ready)|by destruct s.(ended)].
Qed.

(* ---------- quiescent states ---------- *)
Lemma existsb_all_false {A} (f : A -> bool) l : (forall i w, l !! i = Some w -> f w = false) -> existsb f l = false.
Proof.
  induction l as [|x l IH]; [done|]. intros H. cbn. rewrite (H 0 x eq_refl). cbn. apply IH. intros i w Hi. by apply (H (S i)).
Qed.

Lemma quiescent_facts s : quiescent s ->
  (forall i w, s.(wakes) !! i = Some w -> w = WDone) /\ s.(chute) = false /\ s.(running) = None /\ s.(opq) = [].
Proof.
  intros Hq. split; [|split; [|split]].
  - intros i w Hi. specialize (Hq (AWake i) eq_refl). unfold step in Hq. rewrite Hi in Hq. cbn in Hq.
    destruct w; try done.
    + by destruct (s.(wctx) !! k) as [[]|].
    + by destruct s.(strong).
    + by destruct s.(pollfn).
  - specialize (Hq AChute eq_refl). cbn in Hq. by destruct s.(chute).
  - specialize (Hq ARun eq_refl). cbn in Hq. destruct s.(running) as [[[k| |] pc]|]; try done.
    destruct pc; try done.
    all: repeat (match type of Hq with context [match ?x with _ => _ end] => destruct x end); done.
  - specialize (Hq ARun eq_refl). cbn in Hq. destruct s.(running) as [[[k| |] pc]|] eqn:E.
    + destruct pc; try done.
      all: repeat (match type of Hq with context [match ?x with _ => _ end] => destruct x end); done.
    + done.
    + done.
    + by destruct s.(opq).
Qed.

(* the model's assumption about the self-wake of a suspended item, made explicit: a state with a suspended item is never
   quiescent - the runner can always re-poll the job (delivery of that wake is C06's business, not the pipe's) *)
Lemma suspended_not_quiescent s k x : s.(running) = Some (OPoll k, JSusp x) -> ~ quiescent s.
Proof. intros Hr Hq. destruct (quiescent_facts _ Hq) as (_ & _ & Hn & _). congruence. Qed.
Lemma suspended_resumes s k x : s.(running) = Some (OPoll k, JSusp x) ->
  step s ARun = Some (s <| log := s.(log) ++ [EProcess x] |> <| running := Some (OPoll k, JPoll) |>).
Proof. intros Hr. cbn. by rewrite Hr. Qed.

Lemma quiescent_asleep items s : reachable items s -> quiescent s -> s.(pollfn) = true -> waker_armed s = true.
Proof.
  intros H Hq Hp. destruct (quiescent_facts _ Hq) as (Hw & Hc & Hr & Ho).
  pose proof (no_lost_item_inv _ _ H Hp) as HA.
  unfold wake_pending, job_queued, running_or_armed in HA. rewrite Hr, Ho in HA. cbn in HA.
  rewrite existsb_all_false in HA; [done|]. intros i w Hi. by rewrite (Hw _ _ Hi).
Qed.

Lemma quiescent_released items s : reachable items s -> quiescent s -> s.(pollfn) = false -> s.(released) = true.
Proof.
  intros H Hq Hp. destruct (quiescent_facts _ Hq) as (Hw & Hc & Hr & Ho).
  rewrite (i_rel _ _ (reach_inv _ _ H)). unfold holders. by rewrite Hp, Hc, Hr.
Qed.

(* ---------- 4. terminal completeness ---------- *)
Theorem terminal_complete items s : reachable items s -> quiescent s -> env_finished s -> s.(ext) = true ->
  processed s.(log) = items /\ s.(pollfn) = false /\ s.(released) = true.
Proof.
  intros H Hq [Hf He] Hx. pose proof (reach_inv _ _ H) as I.
  assert (Hp : s.(pollfn) = false).
  { destruct s.(pollfn) eqn:Hp; [|done]. pose proof (quiescent_asleep _ _ H Hq Hp) as Ha.
    unfold waker_armed in Ha. rewrite He in Ha. destruct s.(reg); [|done]. by rewrite andb_false_r in Ha. }
  split; [|split; [done|by eapply quiescent_released]].
  destruct (quiescent_facts _ Hq) as (Hw & Hc & Hr & Ho).
  destruct (i_B _ _ I) as (_ & HB & _). destruct (HB Hp) as [H0|[_ Hrd]].
  - pose proof (i_strong _ _ I) as HS. unfold inv_strong in HS. rewrite Hx in HS. cbn in HS. lia.
  - pose proof (i_items _ _ I) as HI. unfold inv_items, inhand in HI. rewrite Hr, Hrd, Hf in HI. by rewrite !app_nil_r in HI.
Qed.

(* ---------- 5a. weak reference ---------- *)
Theorem weak_reference items s : reachable items s ->
  s.(strong) = Nat.b2n s.(ext) + nstrong s.(wakes) /\
  (forall w, holds_strong w = true -> inside_poll w = true).
Proof. intros H. split; [apply (i_strong _ _ (reach_inv _ _ H))|]. by intros []. Qed.

Lemma nstrong_zero ws : (forall i w, ws !! i = Some w -> holds_strong w = false) -> nstrong ws = 0.
Proof.
  induction ws as [|x ws IH]; [done|]. intros H. change (nstrong (x :: ws)) with (Nat.b2n (holds_strong x) + nstrong ws).
  rewrite (H 0 x eq_refl). cbn. apply IH. intros i w Hi. by apply (H (S i)).
Qed.

Corollary never_keeps_alive items s : reachable items s ->
  (forall i w, s.(wakes) !! i = Some w -> inside_poll w = false) ->
  s.(strong) = Nat.b2n s.(ext) /\
  (s.(ext) = false -> s.(freed) = true \/ run_free s.(running) = true \/ last_free s.(opq) = true).
Proof.
  intros H Hn. pose proof (reach_inv _ _ H) as I. pose proof (i_strong _ _ I) as HS. unfold inv_strong in HS.
  rewrite nstrong_zero in HS.
  2:{ intros i w Hi. specialize (Hn _ _ Hi). by destruct w. }
  split; [lia|]. intros Hx. rewrite Hx in HS. cbn in HS. pose proof (i_free _ _ I) as HF. unfold inv_free in HF.
  rewrite HS in HF. destruct HF as [(?&?&?)|[(?&?&?)|(?&?&?)]]; auto.
Qed.

(* ---------- 5b. shutdown ---------- *)
Theorem shutdown_flag items s : reachable items s -> s.(evt_gone) = true -> quiescent s ->
  s.(pollfn) = false /\ s.(released) = true.
Proof.
  intros H Hg Hq. pose proof (reach_inv _ _ H) as I.
  assert (Hp : s.(pollfn) = false).
  { destruct s.(pollfn) eqn:Hp; [|done]. pose proof (quiescent_asleep _ _ H Hq Hp) as Ha.
    unfold waker_armed in Ha. destruct (i_G _ _ I Hg) as [_ Hr]. by rewrite Hr in Ha. }
  split; [done|by eapply quiescent_released].
Qed.

Lemma reachable_step items s a s' : reachable items s -> step s a = Some s' -> reachable items s'.
Proof. intros [tr H] Hs. exists (tr ++ [a]). rewrite run_snoc, H. done. Qed.
Lemma run_cons s a tr : run s (a :: tr) = (s1 ← step s a; run s1 tr).
Proof.
  unfold run. cbn. destruct (step s a) as [s1|]; cbn; [done|].
  induction tr as [|b tr IH]; cbn; [done|]. exact IH.
Qed.
Lemma reachable_run items s tr s' : reachable items s -> run s tr = Some s' -> reachable items s'.
Proof.
  revert s. induction tr as [|a tr IH]; intros s H.
  - cbn. by intros [= <-].
  - rewrite run_cons. destruct (step s a) as [s1|] eqn:E; cbn; [|done]. apply IH. by eapply reachable_step.
Qed.

Lemma step_not_run_log s a s' : a <> ARun -> step s a = Some s' ->
  s'.(log) = s.(log) /\ s'.(freed) = s.(freed).
Proof. intros Ha Hs. step_cases s Hs; done. Qed.
Lemma step_freed_frozen items s a s' : reachable items s -> s.(freed) = true -> step s a = Some s' ->
  s'.(log) = s.(log) /\ s'.(freed) = true.
Proof.
  intros H Hf Hs. pose proof (i_free _ _ (reach_inv _ _ H)) as HF. unfold inv_free in HF.
  assert (Hro : s.(running) = None /\ s.(opq) = []).
  { destruct s.(strong); [|destruct HF as (?&_); congruence].
    destruct HF as [(?&?&?)|[(?&?&?)|(?&?&?)]]; [congruence..|done]. }
  destruct Hro as [Hr Ho].
  assert (Hn : a = ARun \/ a <> ARun) by (destruct a; auto). destruct Hn as [->|Hn].
  - cbn in Hs. by rewrite Hr, Ho in Hs.
  - destruct (step_not_run_log _ _ _ Hn Hs) as [? ?]. split; congruence.
Qed.

Lemma step_evt_gone_stable s a s' : s.(evt_gone) = true -> step s a = Some s' -> s'.(evt_gone) = true.
Proof. intros Hg Hs. step_cases s Hs; done. Qed.
Lemma run_evt_gone_stable s tr s' : s.(evt_gone) = true -> run s tr = Some s' -> s'.(evt_gone) = true.
Proof.
  revert s. induction tr as [|a tr IH]; intros s Hg.
  - cbn. by intros [= <-].
  - rewrite run_cons. destruct (step s a) as [s1|] eqn:E; cbn; [|done]. apply IH. by eapply step_evt_gone_stable.
Qed.
Lemma step_event_sets_flag s a s' : s.(freed) = true -> (a = AEnvAvail \/ a = AEnvEnd) -> step s a = Some s' -> s'.(evt_gone) = true.
Proof.
  intros Hf [->| ->] Hs; cbn in Hs.
  - destruct s.(ended); [done|]. destruct s.(future); [done|]. injection Hs as <-.
    unfold fire; cbn. rewrite Hf; cbn. by destruct s.(reg).
  - destruct s.(ended); [done|]. injection Hs as <-.
    unfold fire; cbn. rewrite Hf; cbn. by destruct s.(reg).
Qed.

(* once the object is gone (freed), the FIRST stream event e leads, whatever happens afterwards, to the release of
   poll_fn (stream + closure) in every quiescent state *)
Theorem shutdown items s e s1 tr s2 : reachable items s -> s.(freed) = true ->
  (e = AEnvAvail \/ e = AEnvEnd) -> step s e = Some s1 -> run s1 tr = Some s2 -> quiescent s2 ->
  s2.(pollfn) = false /\ s2.(released) = true.
Proof.
  intros H Hf He Hs Hr Hq. apply (shutdown_flag items); [|by eapply run_evt_gone_stable, Hr; eapply step_event_sets_flag|done].
  eapply reachable_run; [|exact Hr]. by eapply reachable_step.
Qed.

(* nothing is processed (no operation runs at all) once the object is gone *)
Theorem no_process_after_gone items s tr s' : reachable items s -> s.(freed) = true -> run s tr = Some s' ->
  s'.(log) = s.(log) /\ s'.(freed) = true.
Proof.
  revert s. induction tr as [|a tr IH]; intros s H Hf.
  - cbn. by intros [= <-].
  - rewrite run_cons. destruct (step s a) as [s1|] eqn:E; cbn; [|done]. intros Hr.
    destruct (step_freed_frozen _ _ _ _ H Hf E) as [Hl Hf1].
    destruct (IH s1 (reachable_step _ _ _ _ H E) Hf1 Hr) as [Hl2 Hf2]. split; [congruence|done].
Qed.

(* ---------- bookkeeping: labels are defined exactly for enabled actors; [all_done] decides quiescence ---------- *)
Lemma step_label_enabled s a : step_label s a = None <-> step s a = None.
Proof.
  destruct a; cbn.
  - destruct s.(running) as [[[k| |] pc]|].
    + destruct pc; try done.
      * by destruct s.(pollfn).
      * destruct s.(ready); [by destruct s.(ended)|done].
      * by destruct (is_slow x).
    + done.
    + done.
    + by destruct s.(opq).
  - destruct (s.(wakes) !! i) as [w|]; cbn; [|done]. destruct w; try done.
    + by destruct (s.(wctx) !! k) as [[]|].
    + by destruct s.(strong).
    + by destruct s.(pollfn).
  - by destruct s.(chute).
  - destruct s.(ended); [done|]. by destruct s.(future).
  - by destruct s.(ended).
  - by destruct (s.(wctx) !! k) as [[]|].
  - by destruct s.(ext).
  - by destruct s.(ext).
Qed.

Lemma all_done_quiescent s : all_done s = true -> quiescent s.
Proof.
  unfold all_done. intros [[Hw Hc%negb_true_iff]%andb_true_iff Hr]%andb_true_iff a Ha.
  destruct a; try done; cbn.
  - destruct s.(running); [done|]. by destruct s.(opq).
  - destruct (s.(wakes) !! i) as [w|] eqn:Hi; cbn; [|done].
    rewrite forallb_forall in Hw. specialize (Hw w). rewrite <- elem_of_list_In in Hw.
    specialize (Hw (elem_of_list_lookup_2 _ _ _ Hi)). by destruct w.
  - by rewrite Hc.
Qed.
