(* SyncFut: safety theorems of C08 - (1) runs only when awaited, (2) only inside its exclusive slot, (3) result, (4) clean cancellation. *)
From stdpp Require Import list numbers option sets.
From RecordUpdate Require Import RecordUpdate.
From SyncFut Require Import Model Spec Inv QueueStep TaskStep Frame.

(* ---------- helpers about logs ---------- *)
Lemma log_ok_elem P l e : log_ok P l -> e ∈ l -> exists l1 l2, l = l1 ++ e :: l2 /\ P l1 e.
Proof. intros H He. apply elem_of_list_split in He as (l1 & l2 & ->). exists l1, l2. split; [done|]. by eapply H. Qed.

Lemma snoc_eq_inv {A} (l : list A) e e' : l ++ [e] = l ++ [e'] -> e = e'.
Proof. intros H. by apply app_inj_tail in H as [_ ?]. Qed.
Lemma snoc_neq {A} (l : list A) e : l <> l ++ [e].
Proof. intros H. apply (f_equal length) in H. rewrite app_length in H. cbn in H. lia. Qed.

(* ---------- (1) the user future is created and run only by the owner task, inside a poll ---------- *)
Lemma qs_log_shape r s s' : queue_step r s = Some s' ->
  s'.(log) = s.(log) \/ exists e, s'.(log) = s.(log) ++ [e] /\ is_queue_ev e = true.
Proof.
  intros Hs. destruct_state s. qs_cases Hs.
  all: try (destruct rwk as [[]|]); try (destruct swk as [[]|]); cbn.
  all: first [by left|right; eexists; split; [reflexivity|done]].
Qed.

Lemma task_log_shape F d s s' : task_step F d s = Some s' ->
  s'.(log) = s.(log) \/
  exists e, s'.(log) = s.(log) ++ [e] /\
    (is_user_ev e = true -> in_poll s.(pc) = true /\ s.(pc) <> PDrainJob /\ (e = UStart -> s.(pc) = PCreate)).
Proof.
  intros Hs. unfold task_step in Hs.
  destruct (pc s) eqn:Epc.
  4: { destruct (queue_step RTask s) as [s1|] eqn:Hq.
       - injection Hs as <-. destruct (qs_log_shape _ _ _ Hq) as [?|(e & ? & He)]; [by left|].
         right. exists e. split; [done|]. by destruct e.
       - injection Hs as <-. by left. }
  all: unfold sf_take, sf_return, sf_set_waker, os_poll, os_send, os_droptx, os_droprx, after_drop_state, after_drop_fin in Hs.
  all: destruct_state s; cbn in *.
  all: step_cases Hs.
  all: try (injection Hs as <-).
  all: try (destruct fwk as [[]|]; cbn).
  all: first [by left|right; eexists; split; [reflexivity|done]].
Qed.

Theorem user_events_in_poll F s a s' e :
  step F s a = Some s' -> s'.(log) = s.(log) ++ [e] -> is_user_ev e = true ->
  a = ATask /\ in_poll s.(pc) = true /\ s.(pc) <> PDrainJob /\ (e = UStart -> s.(pc) = PCreate).
Proof.
  intros Hs Hl He. destruct a; cbn in Hs.
  - destruct (pool s && negb (in_drain (pc s)) && negb (parked s)); [|done].
    destruct (qs_log_shape _ _ _ Hs) as [E|(e' & E & He')]; rewrite E in Hl.
    + by destruct (snoc_neq _ _ Hl).
    + apply snoc_eq_inv in Hl as ->. by destruct e.
  - destruct (task_log_shape _ _ _ _ Hs) as [E|(e' & E & He')]; rewrite E in Hl.
    + by destruct (snoc_neq _ _ Hl).
    + apply snoc_eq_inv in Hl as ->. split; [done|]. by apply He'.
  - destruct (is_sf_poll s) eqn:Esf; [|done].
    destruct (task_log_shape _ _ _ _ Hs) as [E|(e' & E & He')]; rewrite E in Hl.
    + by destruct (snoc_neq _ _ Hl).
    + apply snoc_eq_inv in Hl as ->. exfalso. unfold task_step, is_sf_poll in *.
      destruct (pc s); try done. unfold sf_take, sf_return, sf_set_waker in Hs.
      destruct_state s; cbn in *. step_cases Hs. all: injection Hs as <-; cbn in E.
      all: first [by destruct (snoc_neq _ _ E)|apply snoc_eq_inv in E as <-; done].
  - unfold fire in Hs. destruct (evs s !! e0) as [c|]; cbn in Hs; [|done]. destruct (fired c); [done|]. injection Hs as <-.
    exfalso. revert Hl. generalize (regs c). intros l.
    assert (H : forall s0, log (foldr wake s0 l) = log s0) by (induction l as [|[] l IH]; intros s0; cbn; auto).
    rewrite H. cbn. apply snoc_neq.
  - exfalso. destruct (pc s); try done; injection Hs as <-; cbn in Hl; apply snoc_eq_inv in Hl as <-; done.
  - injection Hs as <-. cbn in Hl. by destruct (snoc_neq _ _ Hl).
  - exfalso. destruct (is_other (cur s)); [|done]. destruct (pc s); repeat case_match; try done; injection Hs as <-; cbn in Hl; by destruct (snoc_neq _ _ Hl).
  - exfalso. repeat case_match; try done; injection Hs as <-. destruct w; cbn in Hl; by destruct (snoc_neq _ _ Hl).
  - exfalso. repeat case_match; try done; injection Hs as <-. cbn in Hl. by destruct (snoc_neq _ _ Hl).
Qed.

(* ---------- (2)(3)(4) safety: every event of every reachable log satisfies its condition ---------- *)
Section Safety.
  Context (F : sfacts) (pl : bool) (nb na : nat) (scr : list uprim) (v nev : nat).
  Notation s0 := (init pl nb na scr v nev).

  Theorem reachable_log_ok tr s : run F s0 tr = Some s -> log_ok (P_all F nb) s.(log).
  Proof. intros Hr. exact (i_l _ _ _ _ (reachable_inv _ _ _ _ _ _ _ _ _ Hr)). Qed.

  (* (2) *)
  Theorem slot_exclusive tr s l1 e l2 :
    run F s0 tr = Some s -> s.(log) = l1 ++ e :: l2 ->
    (is_user_ev e = true -> SlotStart ∈ l1 /\ SlotEnd ∉ l1) /\
    (is_other_ev e = true -> ~ (SlotStart ∈ l1 /\ SlotEnd ∉ l1)) /\
    (e = SlotStart -> SlotStart ∉ l1 /\ forall k, k < nb -> OFinish k ∈ l1) /\
    (e = SlotEnd -> SlotStart ∈ l1 /\ SlotEnd ∉ l1) /\
    (forall k, e = OStart k -> OStart k ∉ l1 /\ (forall j, j < k -> OFinish j ∈ l1) /\ (nb <= k -> SlotEnd ∈ l1)) /\
    (forall k, e = OFinish k -> OStart k ∈ l1 /\ OFinish k ∉ l1 /\ (k < nb -> SlotStart ∉ l1)).
  Proof.
    intros Hr Hl. destruct (reachable_log_ok _ _ Hr _ _ _ Hl) as (H1 & H2 & _ & _).
    split_and!.
    - intros He. by destruct e.
    - intros He. by destruct e.
    - intros ->. done.
    - intros ->. done.
    - intros k ->. done.
    - intros k ->. done.
  Qed.

  (* (3) *)
  Theorem result_ok tr s l1 e l2 :
    run F s0 tr = Some s -> s.(log) = l1 ++ e :: l2 ->
    (forall x, e = Ret x -> x = v /\ UFinish v ∈ l1 /\ SlotEnd ∈ l1 /\ (forall y, Ret y ∉ l1) /\ Dropped ∉ l1) /\
    e <> RetErr /\
    (forall x, e = UFinish x -> x = v /\ (forall y, UFinish y ∉ l1) /\ UStart ∈ l1 /\ UCancel ∉ l1) /\
    (e = UStart -> UStart ∉ l1).
  Proof.
    intros Hr Hl. destruct (reachable_log_ok _ _ Hr _ _ _ Hl) as (_ & _ & H3 & _).
    destruct (run_frame _ _ _ _ _ _ _ _ _ Hr) as (_ & _ & _ & Hv).
    split_and!.
    - intros x ->. cbn in H3. destruct H3 as (Hf & ?). assert (x = v) as ->; [|done].
      apply Hv. rewrite Hl. apply elem_of_app. by left.
    - intros ->. done.
    - intros x ->. cbn in H3. split; [|done]. apply Hv. rewrite Hl. apply elem_of_app. right. by left.
    - intros ->. done.
  Qed.

  (* a dead user future, positively *)
  Lemma not_alive_pos l : ~ user_alive l -> UStart ∈ l -> UCancel ∈ l \/ exists x, UFinish x ∈ l.
  Proof.
    intros Hn Hs. destruct (decide (UCancel ∈ l)) as [?|Hc]; [by left|]. right.
    destruct (decide (Exists (fun e => (match e with UFinish _ => true | _ => false end) = true) l)) as [He|He].
    { apply Exists_exists in He as (e & He & Hx). destruct e; try done. by eexists. }
    exfalso. apply Hn. split_and!; try done. intros x Hx. apply He. apply Exists_exists. by exists (UFinish x).
  Qed.

  (* (4) *)
  Theorem cancel_ok tr s l1 e l2 :
    run F s0 tr = Some s -> s.(log) = l1 ++ e :: l2 ->
    (is_user_ev e = true -> Dropped ∉ l1) /\
    (e = UCancel -> Dropped ∈ l1 /\ UStart ∈ l1 /\ UCancel ∉ l1 /\ (forall x, UFinish x ∉ l1) /\
                    (F.(f_state_dropped_first) = true -> SlotStart ∈ l1 /\ SlotEnd ∉ l1)) /\
    (e = Dropped -> Dropped ∉ l1) /\
    (F.(f_state_dropped_first) = true -> e = SlotEnd \/ (exists k, e = OStart k) ->
       UStart ∈ l1 -> UCancel ∈ l1 \/ exists x, UFinish x ∈ l1).
  Proof.
    intros Hr Hl. destruct (reachable_log_ok _ _ Hr _ _ _ Hl) as (_ & _ & _ & H4).
    split_and!.
    - intros He. by destruct e.
    - intros ->. cbn in H4. destruct H4 as (? & (? & ? & ?) & ?). done.
    - intros ->. done.
    - intros HF He. apply not_alive_pos. destruct He as [->|[k ->]]; by apply H4.
  Qed.
End Safety.

(* (4) for the field order of the code *)
Theorem cancel_ok_code pl nb na scr v nev tr s l1 e l2 :
  run code_facts (init pl nb na scr v nev) tr = Some s -> s.(log) = l1 ++ e :: l2 ->
  (is_user_ev e = true -> Dropped ∉ l1) /\
  (e = UCancel -> Dropped ∈ l1 /\ UStart ∈ l1 /\ UCancel ∉ l1 /\ (forall x, UFinish x ∉ l1) /\ SlotStart ∈ l1 /\ SlotEnd ∉ l1) /\
  (e = Dropped -> Dropped ∉ l1) /\
  (e = SlotEnd \/ (exists k, e = OStart k) -> UStart ∈ l1 -> UCancel ∈ l1 \/ exists x, UFinish x ∈ l1).
Proof.
  intros Hr Hl. destruct (cancel_ok _ _ _ _ _ _ _ _ _ _ _ _ Hr Hl) as (H1 & H2 & H3 & H4).
  split_and!; try done.
  - intros E. destruct (H2 E) as (?&?&?&?&H5). destruct (H5 eq_refl). done.
  - by apply H4.
Qed.

(* dropping never blocks: from any state in which the owner is between polls the three steps of the drop are enabled *)
Theorem drop_never_blocks F s :
  s.(pc) = PIdle \/ s.(pc) = PDone -> exists s', run F s [ADrop; ATask; ATask] = Some s' /\ s'.(pc) = PGone.
Proof.
  intros Hpc. destruct F as [fo]. destruct_state s. cbn in Hpc.
  destruct Hpc as [-> | ->], fo; vm_compute; repeat case_match; eexists; (split; [reflexivity|done]).
Qed.
