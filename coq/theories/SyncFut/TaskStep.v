(* SyncFut: preservation of the invariant by the steps of the owner task and of the environment; every reachable state satisfies it. *)
From stdpp Require Import list numbers option sets.
From RecordUpdate Require Import RecordUpdate.
From SyncFut Require Import Model Spec Inv QueueStep.

(* ---------- helpers ---------- *)
Lemma held_phase s : cells_ok s -> s.(txheld) = true -> phase s <= 2.
Proof.
  intros Hc Ht. destruct (decide (3 <= phase s)) as [H3|H3]; [|lia].
  pose proof (cells_fin_done _ Hc H3) as Hd. rewrite (c_tx _ Hc), Hd in Ht. done.
Qed.

Lemma held_sf_none s : cells_ok s -> s.(txheld) = true -> s.(sf).(sf_res) = SfNone.
Proof. intros Hc Ht. apply cells_sf_none; [done|]. pose proof (held_phase _ Hc Ht). lia. Qed.

(* the user future exists (or is being created) and the completion sender is still held: the slot job sits in S2 *)
Lemma user_in_slot nb na s :
  qshape nb na s -> cells_ok s -> s.(ready).(o_sent) = true -> s.(txheld) = true ->
  s.(cur) = CSlot QS2 /\ phase s = 2 /\ in_slot s.(log).
Proof.
  intros Hq Hc Hr Ht. pose proof (held_phase _ Hc Ht) as H2.
  assert (2 <= phase s) as H2'.
  { destruct (decide (phase s <= 1)) as [H1|H1]; [|lia]. pose proof (cells_unsent _ Hc H1). congruence. }
  destruct (qshape_phase _ _ _ Hq) as [(?&?)|[(p & Hp1 & Hp2 & Hp3 & Hp4)|(?&?)]]; [lia| |lia].
  destruct p; try lia. done.
Qed.

Lemma sf_some_end nb na s :
  qshape nb na s -> cells_ok s -> s.(sf).(sf_res) <> SfNone -> phase s = 4 /\ SlotEnd ∈ s.(log).
Proof.
  intros Hq Hc Hr. pose proof (phase_le4 s).
  destruct (decide (phase s <= 3)) as [H3|H3]; [by pose proof (cells_sf_none _ Hc H3)|].
  destruct (qshape_phase _ _ _ Hq) as [(?&?)|[(p & Hp1 & Hp2 & Hp3 & Hp4)|(?&?&?)]]; [lia|destruct p; lia|]. split; [lia|done].
Qed.

Lemma sf_not_err s : cells_ok s -> s.(sf).(sf_res) <> SfErr.
Proof.
  intros Hc E. pose proof (phase_le4 s).
  destruct (decide (phase s <= 3)) as [H3|H3]; [pose proof (cells_sf_none _ Hc H3); congruence|].
  destruct (cells_sf_some s Hc); [lia|congruence|congruence].
Qed.

Lemma log_emit_task e s s' :
  is_queue_ev e = false -> s'.(log) = s.(log) ++ [e] ->
  forall e', is_queue_ev e' = true -> (e' ∈ s'.(log) <-> e' ∈ s.(log)).
Proof. intros He -> e' He'. rewrite elem_snoc. split; [intros [?| ->]; [done|congruence]|by left]. Qed.

Lemma qshape_same nb na s s' :
  s'.(opq) = s.(opq) -> s'.(cur) = s.(cur) -> s'.(log) = s.(log) -> qshape nb na s -> qshape nb na s'.
Proof. intros E1 E2 E3. apply qshape_view; [done|done|]. intros e _. by rewrite E3. Qed.
Lemma qshape_emit nb na e s s' :
  s'.(opq) = s.(opq) -> s'.(cur) = s.(cur) -> s'.(log) = s.(log) ++ [e] -> is_queue_ev e = false ->
  qshape nb na s -> qshape nb na s'.
Proof. intros E1 E2 E3 He. apply qshape_view; [done|done|]. by eapply log_emit_task. Qed.

Lemma cells_ok_view2 s s' :
  s'.(opq) = s.(opq) -> s'.(cur) = s.(cur) -> s'.(parked) = s.(parked) ->
  s'.(ready).(o_sent) = s.(ready).(o_sent) -> (s.(ready).(o_rxdrop) = true -> s'.(ready).(o_rxdrop) = true) ->
  s'.(ready).(o_txdrop) = s.(ready).(o_txdrop) -> task_waker_only s'.(ready).(o_waker) ->
  s'.(fin) = s.(fin) -> s'.(sf).(sf_res) = s.(sf).(sf_res) -> task_waker_only s'.(sf).(sf_waker) ->
  s'.(evs) = s.(evs) -> s'.(txheld) = s.(txheld) -> s'.(owk) = s.(owk) ->
  cells_ok s -> cells_ok s'.
Proof.
  intros E1 E2 E3 E4 E5 E6 E7 E8 E9 E10 E11 E12 E13 [H1 H2 H3 H4 H5 H6 H7 H8].
  split; unfold phase, fin_done in *; rewrite ?E1, ?E2, ?E3, ?E6, ?E8, ?E11, ?E12, ?E13; try done.
  eapply cells_at_view; [..|exact H1]; unfold fin_done; by rewrite ?E2, ?E3, ?E4, ?E8, ?E9.
Qed.

Lemma notin_snoc {A} (x e : A) l : x ∉ l -> x <> e -> x ∉ l ++ [e].
Proof. rewrite elem_snoc. tauto. Qed.

(* ---------- PIdle: a poll begins ---------- *)
Lemma idle_inv F nb na d s s' :
  Inv F nb na s -> s.(pc) = PIdle -> task_step F d s = Some s' -> Inv F nb na s'.
Proof.
  intros HI Epc Hs. pose proof HI as [Hq Hc Hss Hp Hu Hw Hl].
  unfold task_step in Hs. rewrite Epc in Hs. destruct (pollable s); [|done]. injection Hs as <-.
  split.
  - eapply qshape_same; [..|exact Hq]; done.
  - eapply cells_ok_view; [..|exact Hc]; done.
  - eapply sst_ok_view; [..|exact Hss]; try done. cbn. by rewrite Epc.
  - unfold pc_ok in *. cbn. by rewrite Epc in Hp.
  - eapply ulog_ok_view; [..|exact Hu]; try done; cbn; by rewrite Epc.
  - eapply wait_ok_view; [..|exact Hw]; try done.
  - done.
Qed.

Ltac pciff := let E := fresh "E" in split; intros E; first [done | by rewrite E in *].

(* ---------- a move between program points inside a poll that changes nothing else ---------- *)
Definition neutral (p : tpc) : bool :=
  match p with PLoop | PDrainLoop | PDrainJob | PDrainPend | PDrainWaker | PReadyPoll | PCreate | PUser => true | _ => false end.

Lemma goto_inv F nb na s p' :
  Inv F nb na s -> neutral s.(pc) = true -> neutral p' = true -> pc_ok F (s <| pc := p' |>) ->
  Inv F nb na (s <| pc := p' |>).
Proof.
  intros [Hq Hc Hss Hp Hu Hw Hl] Hn Hn' Hp'. split; try done.
  - eapply qshape_same; [..|exact Hq]; done.
  - eapply cells_ok_view; [..|exact Hc]; done.
  - eapply sst_ok_view; [..|exact Hss]; try done. cbn. pciff.
  - eapply ulog_ok_view; [..|exact Hu]; try done; cbn.
    + by destruct p', (pc s).
    + pciff.
    + pciff.
  - eapply wait_ok_view; [..|exact Hw]; try done. cbn. intros E; rewrite E in *; done.
Qed.

(* ---------- the scheduler future's result is taken ---------- *)
Lemma sf_take_cases F s k :
  cells_ok s -> sst_ok F s -> sf_state s.(sst) = true -> s.(pc) <> PDropState ->
  (s.(sf).(sf_res) = SfNone /\ sf_take s k = k s) \/
  (s.(sf).(sf_res) = SfOk /\ exists v, s.(sst) = SWaitSched v /\
   sf_take s k = emit (Ret v) (s <| sf := s.(sf) <| sf_res := SfReturned |> |> <| sst := SCompleted |> <| pc := PDone |>)).
Proof.
  intros Hc Hss Hsf Hpc. unfold sf_take, sf_return. pose proof (sf_not_err _ Hc) as Herr.
  unfold sst_ok in Hss. destruct (sf_res (sf s)) eqn:Er; try done.
  - by left.
  - right. split; [done|]. destruct (sst s) eqn:Est; try done.
    + destruct Hss as (_ & [Ht|[? ?]] & _); [|done]. pose proof (held_sf_none _ Hc Ht). congruence.
    + exists v. cbn. by rewrite Est.
  - destruct (sst s); try done; naive_solver.
Qed.

(* the SyncFuture resolves *)
Lemma ret_inv F nb na s v :
  Inv F nb na s -> s.(sst) = SWaitSched v -> s.(sf).(sf_res) = SfOk -> in_poll s.(pc) = true ->
  Inv F nb na (emit (Ret v) (s <| sf := s.(sf) <| sf_res := SfReturned |> |> <| sst := SCompleted |> <| pc := PDone |>)).
Proof.
  intros [Hq Hc Hss Hp Hu Hw Hl] Est Er Hpoll.
  assert (Hnd : dropped (pc s) = false) by (by destruct (pc s)).
  destruct (sf_some_end _ _ _ Hq Hc) as [Hph Hend]; [congruence|].
  unfold sst_ok in Hss. rewrite Est in Hss. destruct Hss as (-> & Hrs & Htx & _).
  destruct Hu as (Hu1 & Hu2 & Hu3). rewrite Est in Hu3. destruct Hu3 as (Hu3 & Hu4 & Hu5 & Hu6).
  split.
  - eapply qshape_emit; [..|exact Hq]; done.
  - destruct Hc as [H1 H2 H3 H4 H5 H6 H7]. split; try done.
    unfold phase in *; cbn. rewrite Hph in *. cbn in *. unfold ready_done in *. cbn. naive_solver.
  - unfold sst_ok; cbn. done.
  - unfold pc_ok; cbn. done.
  - unfold ulog_ok; cbn. rewrite !elem_snoc. split_and!.
    + rewrite Hu1, Hnd. naive_solver.
    + naive_solver.
    + naive_solver.
    + intros _. by right.
  - unfold wait_ok in *; cbn. done.
  - cbn. apply log_ok_snoc; [done|]. split_and!; try done. cbn. split_and!; try done.
    rewrite Hu1, Hnd. done.
Qed.

(* the scheduler future is pending: its waker is set (same critical section) and SyncFuture::poll goes on *)
Lemma pending_inv F nb na s :
  Inv F nb na s -> neutral s.(pc) = true -> sf_state s.(sst) = true ->
  (s.(sst) = SWaitQueue -> s.(pool) = false -> 2 <= phase s \/ s.(pollable) = true \/ (s.(parked) = true /\ is_other s.(cur) = true /\ s.(owk) = Some WBoth)) ->
  (forall v, s.(sst) = SWaitSched v -> s.(pool) = true /\ s.(sf).(sf_res) = SfNone) ->
  Inv F nb na (sf_return RPending (sf_set_waker s)).
Proof.
  intros [Hq Hc Hss Hp Hu Hw Hl] Hn Hsf H1 H2.
  unfold sf_return, sf_set_waker. cbn. destruct (sst s) eqn:Est; try done.
  - (* WaitingForQueue: go on to poll the receiver *)
    split; cbn.
    + eapply qshape_same; [..|exact Hq]; done.
    + destruct Hc as [C1 C2 C3 C4 C5 C6 C7 C8]. split; try done. by right.
    + eapply sst_ok_view; [..|exact Hss]; try done. cbn. pciff.
    + unfold pc_ok; cbn. rewrite Est. split; [done|]. by apply H1.
    + eapply ulog_ok_view; [..|exact Hu]; try done; cbn.
      * by destruct (pc s).
      * pciff.
      * pciff.
    + unfold wait_ok in *; cbn. done.
    + done.
  - (* WaitingForScheduler: the poll returns Pending *)
    destruct (H2 _ eq_refl) as [Hpool Hres].
    split; cbn.
    + eapply qshape_same; [..|exact Hq]; done.
    + destruct Hc as [C1 C2 C3 C4 C5 C6 C7 C8]. split; try done. by right.
    + eapply sst_ok_view; [..|exact Hss]; try done. cbn. pciff.
    + unfold pc_ok; cbn. by rewrite Est.
    + eapply ulog_ok_view; [..|exact Hu]; try done; cbn.
      * by destruct (pc s).
      * pciff.
      * pciff.
    + unfold wait_ok in *; cbn. rewrite Est. intros _. right. done.
    + done.
Qed.

Lemma in_poll_neutral p : neutral p = true -> in_poll p = true.
Proof. by destruct p. Qed.

(* ---------- PLoop in WaitingForQueue / WaitingForScheduler: SchedulerFuture::poll ---------- *)
Lemma loop_sf_inv F nb na d s s' :
  Inv F nb na s -> s.(pc) = PLoop -> sf_state s.(sst) = true -> (d = false -> s.(pool) = true) ->
  task_step F d s = Some s' -> Inv F nb na s'.
Proof.
  intros HI Epc Hsf Hd Hs. pose proof HI as [Hq Hc Hss Hp Hu Hw Hl].
  unfold task_step in Hs. rewrite Epc in Hs.
  assert (Some s' = Some (sf_take s (fun s => if d then s <| pc := PDrainLoop |> else sf_return RPending (sf_set_waker s)))) as Hs'.
  { destruct (sst s); try done. }
  clear Hs. injection Hs' as ->.
  destruct (sf_take_cases F s (fun s => if d then s <| pc := PDrainLoop |> else sf_return RPending (sf_set_waker s)) Hc Hss Hsf)
    as [[Hn ->]|(Hok & v & Est & ->)]; [by rewrite Epc| |].
  - destruct d.
    + apply goto_inv; [done|by rewrite Epc|done|]. unfold pc_ok. cbn. done.
    + apply pending_inv; [done|by rewrite Epc|done| |].
      * intros _ E. rewrite Hd in E; done.
      * intros v _. split; [by apply Hd|done].
  - apply ret_inv; [done|done|done|by rewrite Epc].
Qed.

Lemma drainloop_inv F nb na d s s' :
  Inv F nb na s -> s.(pc) = PDrainLoop -> task_step F d s = Some s' -> Inv F nb na s'.
Proof.
  intros HI Epc Hs. pose proof HI as [Hq Hc Hss Hp Hu Hw Hl].
  unfold task_step in Hs. rewrite Epc in Hs. injection Hs as <-.
  unfold pc_ok in Hp. rewrite Epc in Hp.
  destruct (sf_take_cases F s (fun s => s <| pc := PDrainJob |>) Hc Hss Hp)
    as [[Hn ->]|(Hok & v & Est & ->)]; [by rewrite Epc| |].
  - apply goto_inv; [done|by rewrite Epc|done|]. unfold pc_ok. cbn. split; [done|].
    pose proof (phase_le4 s). destruct (decide (phase s <= 3)); [done|].
    destruct (cells_sf_some s Hc); [lia|congruence|congruence].
  - apply ret_inv; [done|done|done|by rewrite Epc].
Qed.

Lemma drainpend_inv F nb na d s s' :
  Inv F nb na s -> s.(pc) = PDrainPend -> task_step F d s = Some s' -> Inv F nb na s'.
Proof.
  intros HI Epc Hs. pose proof HI as [Hq Hc Hss Hp Hu Hw Hl].
  unfold task_step in Hs. rewrite Epc in Hs. injection Hs as <-.
  unfold pc_ok in Hp. rewrite Epc in Hp. destruct Hp as (Hsf & Hpk & Hph & Hcur).
  destruct (sf_take_cases F s (fun s => s <| pc := PDrainWaker |>) Hc Hss Hsf)
    as [[Hn ->]|(Hok & v & Est & ->)]; [by rewrite Epc| |].
  - apply goto_inv; [done|by rewrite Epc|done|]. unfold pc_ok. cbn. done.
  - assert (sf_res (sf s) = SfNone) by (by apply cells_sf_none). congruence.
Qed.

(* a waiting-for-scheduler future means the slot was reached: its task is not parked on an earlier operation *)
Lemma sched_not_before nb na s v :
  qshape nb na s -> cells_ok s -> s.(sst) = SWaitSched v -> s.(ready).(o_sent) = true -> phase s <= 3 -> is_other s.(cur) = false.
Proof.
  intros Hq Hc Est Hrs Hph.
  assert (2 <= phase s) as H2.
  { destruct (decide (phase s <= 1)) as [H1|H1]; [|lia]. pose proof (cells_unsent _ Hc H1). congruence. }
  destruct (qshape_phase _ _ _ Hq) as [(?&?)|[(p & Hp1 & _)|(?&?)]]; [lia| |lia]. by rewrite Hp1.
Qed.

Lemma drainwaker_inv F nb na d s s' :
  Inv F nb na s -> s.(pc) = PDrainWaker -> task_step F d s = Some s' -> Inv F nb na s'.
Proof.
  intros HI Epc Hs. pose proof HI as [Hq Hc Hss Hp Hu Hw Hl].
  unfold task_step in Hs. rewrite Epc in Hs. injection Hs as <-.
  unfold pc_ok in Hp. rewrite Epc in Hp. destruct Hp as (Hsf & Hpk & Hph & Hcur).
  apply pending_inv; [done|by rewrite Epc|done| |].
  - intros _ _. destruct Hcur as [Hcur|[Ho Hw']].
    + left. destruct (qshape_phase _ _ _ Hq) as [(?&?&Hn)|[(p & Hp1 & Hp2 & _)|(?&?&?&Hn)]]; [by destruct (Hn QS2)| |by destruct (Hn QS2)].
      rewrite Hcur in Hp1. injection Hp1 as <-. lia.
    + right; right. done.
  - intros v Est. exfalso. unfold sst_ok in Hss. rewrite Est in Hss. destruct Hss as (_ & Hrs & Htx & _).
    destruct Hcur as [Hcur|[Ho _]].
    + destruct (cells_parked _ Hc Hpk) as [Ho|(_ & Hfd & _)]; [by rewrite Hcur in Ho|].
      rewrite (c_tx _ Hc), Hfd in Htx. done.
    + rewrite (sched_not_before _ _ _ _ Hq Hc Est Hrs Hph) in Ho. done.
Qed.

(* ---------- PLoop in WaitingForFuture: the user future is polled ---------- *)
Lemma loop_user_inv F nb na d s s' :
  Inv F nb na s -> s.(pc) = PLoop -> s.(sst) = SWaitFuture -> task_step F d s = Some s' -> Inv F nb na s'.
Proof.
  intros HI Epc Est Hs. pose proof HI as [Hq Hc Hss Hp Hu Hw Hl].
  unfold task_step in Hs. rewrite Epc, Est in Hs. injection Hs as <-.
  unfold sst_ok in Hss. rewrite Est, Epc in Hss. destruct Hss as (Hrs & [Htx|[? _]] & Hnr); [|done].
  destruct (user_in_slot _ _ _ Hq Hc Hrs Htx) as (Hcur & Hph & Hslot).
  destruct Hu as (Hu1 & Hu2 & Hu3). rewrite Est, Epc in Hu3. destruct Hu3 as (Hu3 & Hu4 & Hu5 & Hu6).
  rewrite decide_False in Hu6 by done. rewrite Epc in Hu1.
  split.
  - eapply qshape_emit; [..|exact Hq]; done.
  - eapply cells_ok_view; [..|exact Hc]; done.
  - unfold sst_ok; cbn. rewrite Est. split_and!; try done. by left.
  - unfold pc_ok; cbn. done.
  - unfold ulog_ok, no_ret in *; cbn. rewrite Est. rewrite !elem_snoc. split_and!.
    + rewrite Hu1. naive_solver.
    + naive_solver.
    + by left.
    + naive_solver.
    + intros v. rewrite elem_snoc. naive_solver.
    + rewrite decide_False by done. intros v. rewrite elem_snoc. naive_solver.
  - unfold wait_ok in *; cbn. done.
  - cbn. apply log_ok_snoc; [done|]. split_and!; try done. cbn. by rewrite Hu1.
Qed.

(* ---------- PReadyPoll: recv.poll_unpin ---------- *)
Lemma readypoll_inv F nb na d s s' :
  Inv F nb na s -> s.(pc) = PReadyPoll -> task_step F d s = Some s' -> Inv F nb na s'.
Proof.
  intros HI Epc Hs. pose proof HI as [Hq Hc Hss Hp Hu Hw Hl].
  unfold task_step in Hs. rewrite Epc in Hs.
  unfold pc_ok in Hp. rewrite Epc in Hp. destruct Hp as [Est Hpool].
  unfold sst_ok in Hss. rewrite Est, Epc in Hss. destruct Hss as (Hrx & [Htx|[? _]] & Hnr); [|done].
  unfold os_poll in Hs. rewrite (c_ready_tx _ Hc) in Hs.
  destruct (o_sent (ready s)) eqn:Ers; injection Hs as <-.
  - apply goto_inv; [done|by rewrite Epc|done|]. unfold pc_ok; cbn. done.
  - assert (Hpl : pollable s = true \/ pool s = true \/ (parked s = true /\ is_other (cur s) = true /\ owk s = Some WBoth)).
    { destruct (pool s) eqn:E; [by right; left|]. destruct (Hpool eq_refl) as [H2|[H2|H2]]; [|by left|by right; right].
      destruct (cells_ready_done _ Hc H2); congruence. }
    split; cbn.
    + eapply qshape_same; [..|exact Hq]; done.
    + eapply cells_ok_view2; [..|exact Hc]; try done; [by right|apply Hc].
    + unfold sst_ok; cbn. rewrite Est. split_and!; try done. by left.
    + unfold pc_ok; cbn. by rewrite Est.
    + eapply ulog_ok_view; [..|exact Hu]; try done; cbn; rewrite Epc; done.
    + unfold wait_ok in *; cbn. rewrite Est. intros _. destruct Hpl as [?|Hpl]; [by left|right]. done.
    + done.
Qed.

(* ---------- PCreate: create_future() ---------- *)
Lemma create_inv F nb na d s s' :
  Inv F nb na s -> s.(pc) = PCreate -> task_step F d s = Some s' -> Inv F nb na s'.
Proof.
  intros HI Epc Hs. pose proof HI as [Hq Hc Hss Hp Hu Hw Hl].
  unfold task_step in Hs. rewrite Epc in Hs. injection Hs as <-.
  unfold pc_ok in Hp. rewrite Epc in Hp. destruct Hp as [Est Hrs].
  unfold sst_ok in Hss. rewrite Est, Epc in Hss. destruct Hss as (Hrx & [Htx|[? _]] & Hnr); [|done].
  destruct (user_in_slot _ _ _ Hq Hc Hrs Htx) as (Hcur & Hph & Hslot).
  destruct Hu as (Hu1 & Hu2 & Hu3). rewrite Est in Hu3. destruct Hu3 as (Hu3 & Hu4 & Hu5 & Hu6).
  rewrite Epc in Hu1.
  split.
  - eapply qshape_emit; [..|exact Hq]; done.
  - eapply cells_ok_view2; [..|exact Hc]; try done; [by left|apply Hc].
  - unfold sst_ok; cbn. split_and!; try done. by left.
  - unfold pc_ok; cbn. done.
  - unfold ulog_ok, no_ret in *; cbn. rewrite !elem_snoc. split_and!.
    + rewrite Hu1. naive_solver.
    + naive_solver.
    + by right.
    + naive_solver.
    + intros v. rewrite elem_snoc. naive_solver.
    + intros v. rewrite elem_snoc. naive_solver.
  - unfold wait_ok in *; cbn. done.
  - cbn. apply log_ok_snoc; [done|]. split_and!; try done. cbn. by rewrite Hu1.
Qed.

(* ---------- PUser: the user future runs ---------- *)
Lemma user_inv F nb na d s s' :
  Inv F nb na s -> s.(pc) = PUser -> task_step F d s = Some s' -> Inv F nb na s'.
Proof.
  intros HI Epc Hs. pose proof HI as [Hq Hc Hss Hp Hu Hw Hl].
  unfold task_step in Hs. rewrite Epc in Hs.
  unfold pc_ok in Hp. rewrite Epc in Hp. rename Hp into Est.
  unfold sst_ok in Hss. rewrite Est, Epc in Hss. destruct Hss as (Hrs & [Htx|[? _]] & Hnr); [|done].
  destruct (user_in_slot _ _ _ Hq Hc Hrs Htx) as (Hcur & Hph & Hslot).
  destruct Hu as (Hu1 & Hu2 & Hu3). rewrite Est, Epc in Hu3. destruct Hu3 as (Hu3 & Hu4 & Hu5 & Hu6).
  rewrite decide_False in Hu6 by done. rewrite Epc in Hu1.
  (* what all four outcomes share: an event of the user future is logged, nothing but uscr/evs/pc changes *)
  assert (Hgen : forall e p' scr' evs',
     (e = UStep \/ (e = UFinish (uval s) /\ p' = PFinSend)) -> (e = UStep -> p' = PUser \/ p' = PIdle) ->
     (forall x c w, evs' !! x = Some c -> w ∈ regs c -> w = WTask) ->
     (p' = PIdle -> exists x r, scr' = UAwait x :: r /\
        (evs' !! x = None \/ exists c, evs' !! x = Some c /\ fired c = false /\ WTask ∈ regs c)) ->
     Inv F nb na (emit e (s <| uscr := scr' |> <| evs := evs' |> <| pc := p' |>))).
  { intros e p' scr' evs' He Hp' Hregs Hidle.
    assert (Hqe : is_queue_ev e = false) by (destruct He as [->|[-> _]]; done).
    assert (Hp'' : p' = PUser \/ p' = PIdle \/ p' = PFinSend).
    { destruct He as [E|[_ E]]; [destruct (Hp' E); auto|auto]. }
    split.
    - eapply qshape_emit; [..|exact Hq]; done.
    - destruct Hc as [C1 C2 C3 C4 C5 C6 C7 C8]. split; try done.
    - unfold sst_ok; cbn. rewrite Est. split_and!; try done. by left.
    - unfold pc_ok; cbn. destruct Hp'' as [->|[->| ->]]; cbn; try done. by rewrite Est.
    - clear Hregs Hidle Hw Hl Hq Hc HI.
      unfold ulog_ok, no_ret in *; cbn. rewrite Est. rewrite !elem_snoc. split_and!.
      + rewrite Hu1. split; [intros [?|E]; [done|]|].
        * subst e. destruct He as [?|[? _]]; done.
        * intros E. exfalso. destruct Hp'' as [->|[->| ->]]; done.
      + intros [?|E]; [done|]. subst e. destruct He as [?|[? _]]; done.
      + by left.
      + intros [?|E]; [done|]. subst e. destruct He as [?|[? _]]; done.
      + intros v. rewrite elem_snoc. intros [E|E]; [by eapply Hu5|]. subst e. destruct He as [?|[? _]]; done.
      + destruct (decide (p' = PFinSend)) as [->|Hne].
        * destruct He as [->|[-> _]]; [by destruct (Hp' eq_refl)|]. rewrite elem_snoc. by right.
        * intros v. rewrite elem_snoc. intros [E|E]; [by eapply Hu6|]. subst e. destruct He as [?|[? ?]]; done.
    - unfold wait_ok; cbn. rewrite Est. intros E. right. by apply Hidle.
    - cbn. apply log_ok_snoc; [done|]. destruct He as [->|[-> _]]; split_and!; try done; cbn; rewrite ?Hu1; done. }
  destruct (uscr s) as [|[|x] r] eqn:Escr.
  - injection Hs as <-.
    replace (s <| pc := PFinSend |>) with (s <| uscr := uscr s |> <| evs := evs s |> <| pc := PFinSend |>) by (by destruct s).
    apply Hgen; [by right|intros [=]|apply Hc|intros [=]].
  - injection Hs as <-.
    replace (s <| uscr := r |>) with (s <| uscr := r |> <| evs := evs s |> <| pc := PUser |>) by (destruct s; cbn in *; by subst).
    apply Hgen; [by left|by left|apply Hc|done].
  - destruct (evs s !! x) as [c|] eqn:Ec.
    + destruct (fired c) eqn:Efc; injection Hs as <-.
      * replace (s <| uscr := r |>) with (s <| uscr := r |> <| evs := evs s |> <| pc := PUser |>) by (destruct s; cbn in *; by subst).
        apply Hgen; [by left|by left|apply Hc|done].
      * replace (s <| evs := _ |> <| pc := PIdle |>) with (s <| uscr := UAwait x :: r |> <| evs := <[x := c <| regs := WTask :: regs c |>]> (evs s) |> <| pc := PIdle |>) by (destruct s; cbn in *; by subst).
        assert (Hx : x < length (evs s)) by (by eapply lookup_lt_Some).
        apply Hgen.
        -- by left.
        -- by right.
        -- intros y c' w Hy Hw'. destruct (decide (y = x)) as [->|Hne].
           ++ rewrite list_lookup_insert in Hy by done. injection Hy as <-. cbn in Hw'.
              apply elem_of_cons in Hw' as [->|Hw']; [done|]. by eapply (c_w_ev _ Hc).
           ++ rewrite list_lookup_insert_ne in Hy by done. by eapply (c_w_ev _ Hc).
        -- intros _. exists x, r. split; [done|]. right. exists (c <| regs := WTask :: regs c |>). split_and!; try done.
           ++ by rewrite list_lookup_insert.
           ++ cbn. apply elem_of_list_here.
    + injection Hs as <-.
      replace (s <| pc := PIdle |>) with (s <| uscr := UAwait x :: r |> <| evs := evs s |> <| pc := PIdle |>) by (destruct s; cbn in *; by subst).
      apply Hgen; [by left|by right|apply Hc|].
      intros _. exists x, r. split; [done|]. by left.
Qed.

(* the completion sender is used up: by `send` or by being dropped *)
Lemma cells_close s c w :
  cells_ok s -> s.(txheld) = true -> ((c, w) = os_send s.(fin) \/ (c, w) = os_droptx s.(fin)) ->
  cells_ok (wake_opt w (s <| fin := c |> <| txheld := false |>)) /\
  (forall s0, wake_opt w s0 = s0 <| parked := if bool_decide (w = Some WQueue \/ w = Some WBoth) then false else s0.(parked) |>
                                  <| pollable := if bool_decide (w = Some WTask \/ w = Some WBoth) then true else s0.(pollable) |>).
Proof.
  intros Hc Ht Hcw. pose proof (held_phase _ Hc Ht) as Hph.
  split.
  2: { intros s0. destruct w as [[]|]; cbn; by destruct s0. }
  destruct Hc as [C1 C2 C3 C4 C5 C6 C7 C8]. unfold phase, fin_done, os_send, os_droptx in *.
  destruct_state s. cbn in *. subst txheld0 frx.
  destruct fsent, ftx; try done. cbn in *.
  assert (c = {| o_sent := o_sent c; o_txdrop := o_txdrop c; o_rxdrop := false; o_waker := None |} /\ w = fwk /\ o_sent c || o_txdrop c = true) as (Ec & -> & Ed).
  { destruct Hcw as [[= -> ->]|[= -> ->]]; done. }
  clear Hcw. rewrite Ec. clear Ec.
  unfold parked_other in *. cbn in *.
  destruct fwk as [[]|]; cbn.
  all: split; unfold phase, fin_done, parked_other; cbn; rewrite ?Ed; try done.
  all: try (match goal with |- _ <> Some WTask /\ _ => split; [apply C8|intros Hp' Ho'; first [done|by apply C8]] end).
  all: destruct (phase_of opq0 cur0) as [|[|[|?]]]; [| | |lia]; cbn in *; unfold ready_done, parked_other in *; cbn in *.
  all: try (split_and!; try apply C1; done).
  all: destruct parked0; [|split_and!; try apply C1; done].
  all: destruct C1 as (? & ? & C1); destruct (C1 eq_refl) as [_ [?|?]]; done.
Qed.

(* ---------- PFinSend: task_finished.take().map(send) ---------- *)
Lemma finsend_inv F nb na d s s' :
  Inv F nb na s -> s.(pc) = PFinSend -> task_step F d s = Some s' -> Inv F nb na s'.
Proof.
  intros HI Epc Hs. pose proof HI as [Hq Hc Hss Hp Hu Hw Hl].
  unfold task_step in Hs. rewrite Epc in Hs.
  unfold pc_ok in Hp. rewrite Epc in Hp. rename Hp into Est.
  unfold sst_ok in Hss. rewrite Est, Epc in Hss. destruct Hss as (Hrs & [Htx|[? _]] & Hnr); [|done].
  rewrite Htx in Hs. destruct (os_send (fin s)) as [c w] eqn:Ecw. injection Hs as <-.
  destruct (cells_close s c w Hc Htx) as [Hc' Hwk]; [by left|].
  rewrite Hwk in Hc' |- *. clear Hwk.
  destruct Hu as (Hu1 & Hu2 & Hu3). rewrite Est, Epc in Hu3. destruct Hu3 as (Hu3 & Hu4 & Hu5 & Hu6).
  rewrite decide_True in Hu6 by done. rewrite Epc in Hu1.
  split.
  - eapply qshape_same; [..|exact Hq]; done.
  - eapply cells_ok_view; [..|exact Hc']; done.
  - unfold sst_ok; cbn. done.
  - unfold pc_ok; cbn. done.
  - unfold ulog_ok; cbn. done.
  - unfold wait_ok in *; cbn. done.
  - done.
Qed.

(* ---------- PDropState: drop of the `state` field ---------- *)
Lemma dropstate_inv F nb na d s s' :
  Inv F nb na s -> s.(pc) = PDropState -> task_step F d s = Some s' -> Inv F nb na s'.
Proof.
  intros HI Epc Hs. pose proof HI as [Hq Hc Hss Hp Hu Hw Hl].
  unfold task_step in Hs. rewrite Epc in Hs. injection Hs as <-.
  unfold pc_ok in Hp. rewrite Epc in Hp.
  destruct Hu as (Hu1 & Hu2 & Hu3). rewrite Epc in Hu1. cbn in Hu1.
  assert (Hd : Dropped ∈ log s) by (by apply Hu1).
  assert (Hpc' : pc_ok F (s <| sst := SCompleted |> <| pc := after_drop_state F |>)).
  { unfold pc_ok, after_drop_state, fo in *; cbn. destruct (f_state_dropped_first F); cbn; [done|]. split; [done|by apply Hp]. }
  assert (Hdr : dropped (after_drop_state F) = true) by (unfold after_drop_state; by destruct (f_state_dropped_first F)).
  assert (Hnd : after_drop_state F <> PDone) by (unfold after_drop_state; by destruct (f_state_dropped_first F)).
  assert (Hni : after_drop_state F <> PIdle) by (unfold after_drop_state; by destruct (f_state_dropped_first F)).
  destruct (sst s) eqn:Est.
  - (* WaitingForQueue: the receiver of queue_ready is dropped *)
    split.
    + eapply qshape_same; [..|exact Hq]; done.
    + eapply cells_ok_view2; [..|exact Hc]; try done; [by left|apply Hc].
    + unfold sst_ok; cbn. done.
    + done.
    + unfold ulog_ok; cbn. rewrite Hdr. split; [done|]. split; [done|]. split; [|done].
      intros ?. by destruct Hu3.
    + unfold wait_ok in *; cbn. done.
    + done.
  - (* WaitingForFuture: the user future is destroyed *)
    unfold sst_ok in Hss. rewrite Est in Hss. destruct Hu3 as (Hu3 & Hu4 & Hu5 & Hu6).
    rewrite Epc in Hu6. rewrite decide_False in Hu6 by done.
    split.
    + eapply qshape_emit; [..|exact Hq]; done.
    + eapply cells_ok_view; [..|exact Hc]; done.
    + unfold sst_ok; cbn. done.
    + done.
    + unfold ulog_ok; cbn. rewrite Hdr. rewrite !elem_snoc. split; [|split; [|split]].
      * split; [done|]. intros _. by left.
      * intros [?|?]; done.
      * intros _. left. by right.
      * done.
    + unfold wait_ok in *; cbn. done.
    + cbn. apply log_ok_snoc; [done|]. split_and!; try done. cbn. split_and!; try done.
      intros HF. destruct Hss as (Hrs & [Htx|[_ ?]] & _); [|unfold fo in *; congruence].
      by destruct (user_in_slot _ _ _ Hq Hc Hrs Htx) as (_ & _ & ?).
  - split.
    + eapply qshape_same; [..|exact Hq]; done.
    + eapply cells_ok_view; [..|exact Hc]; done.
    + unfold sst_ok; cbn. done.
    + done.
    + unfold ulog_ok; cbn. rewrite Hdr. split; [done|]. split; [done|]. split; [|done].
      intros _. right. apply Hu3.
    + unfold wait_ok in *; cbn. done.
    + done.
  - split.
    + eapply qshape_same; [..|exact Hq]; done.
    + eapply cells_ok_view; [..|exact Hc]; done.
    + unfold sst_ok; cbn. done.
    + done.
    + unfold ulog_ok; cbn. rewrite Hdr. split; [done|]. split; [done|]. split; [|done].
      apply Hu3.
    + unfold wait_ok in *; cbn. done.
    + done.
Qed.

(* ---------- PDropFin: drop of the `task_finished` field ---------- *)
Lemma dropfin_inv F nb na d s s' :
  Inv F nb na s -> s.(pc) = PDropFin -> task_step F d s = Some s' -> Inv F nb na s'.
Proof.
  intros HI Epc Hs. pose proof HI as [Hq Hc Hss Hp Hu Hw Hl].
  unfold task_step in Hs. rewrite Epc in Hs.
  unfold pc_ok in Hp. rewrite Epc in Hp.
  destruct Hu as (Hu1 & Hu2 & Hu3). rewrite Epc in Hu1. cbn in Hu1.
  assert (Hdr : dropped (after_drop_fin F) = true) by (unfold after_drop_fin; by destruct (f_state_dropped_first F)).
  assert (Hnd : after_drop_fin F <> PDone) by (unfold after_drop_fin; by destruct (f_state_dropped_first F)).
  assert (Hni : after_drop_fin F <> PIdle) by (unfold after_drop_fin; by destruct (f_state_dropped_first F)).
  assert (Hnf : after_drop_fin F <> PFinSend) by (unfold after_drop_fin; by destruct (f_state_dropped_first F)).
  assert (Hgen : forall s1, cells_ok s1 -> txheld s1 = false ->
            opq s1 = opq s -> cur s1 = cur s -> log s1 = log s -> sst s1 = sst s -> uval s1 = uval s ->
            ready s1 = ready s -> uscr s1 = uscr s -> evs s1 = evs s -> sf s1 = sf s -> pc s1 = pc s ->
            Inv F nb na (s1 <| pc := after_drop_fin F |>)).
  { intros s1 Hc1 Htx1 E1 E2 E3 E4 E5 E6 E7 E8 E9 E10. split.
    - eapply qshape_same; [..|exact Hq]; done.
    - eapply cells_ok_view; [..|exact Hc1]; done.
    - unfold sst_ok, after_drop_fin, fo in *; cbn. rewrite E4, E5, E6, E9, Htx1.
      destruct (f_state_dropped_first F) eqn:EF.
      + rewrite (Hp eq_refl). done.
      + destruct (sst s); try done.
        * split; [apply Hss|]. split; [by right|apply Hss].
        * split; [apply Hss|]. split; [by right|apply Hss].
        * split_and!; try apply Hss. done.
    - unfold pc_ok, after_drop_fin, fo in *; cbn. destruct (f_state_dropped_first F); cbn; [|done].
      rewrite E4. split; [by apply Hp|done].
    - unfold ulog_ok; cbn. rewrite Hdr, E3, E4, E5. split; [done|]. split; [done|].
      destruct (sst s); try done.
      + rewrite decide_False by done. rewrite Epc in Hu3. rewrite decide_False in Hu3 by done. done.
      + split; [apply Hu3|done].
    - unfold wait_ok in *; cbn. done.
    - cbn. by rewrite E3. }
  destruct (txheld s) eqn:Htx.
  - destruct (os_droptx (fin s)) as [c w] eqn:Ecw. injection Hs as <-.
    destruct (cells_close s c w Hc Htx) as [Hc' Hwk]; [by right|].
    rewrite Hwk in Hc' |- *. clear Hwk. apply Hgen; done.
  - injection Hs as <-. apply Hgen; done.
Qed.

(* ---------- ADrop: the owner decides to drop the SyncFuture ---------- *)
Lemma adrop_inv F nb na s s' :
  Inv F nb na s -> step F s ADrop = Some s' -> Inv F nb na s'.
Proof.
  intros HI Hs. pose proof HI as [Hq Hc Hss Hp Hu Hw Hl]. cbn in Hs.
  assert (Hpc : s.(pc) = PIdle \/ s.(pc) = PDone) by (destruct (pc s); try done; auto).
  assert (s' = emit Dropped (s <| pc := if fo F then PDropState else PDropFin |>)) as ->.
  { destruct Hpc as [E|E]; rewrite E in Hs; by injection Hs as <-. }
  clear Hs. set (p' := if fo F then PDropState else PDropFin).
  assert (Hdr : dropped p' = true) by (subst p'; by destruct (fo F)).
  assert (Hnd : dropped (pc s) = false) by (destruct Hpc as [-> | ->]; done).
  destruct Hu as (Hu1 & Hu2 & Hu3). rewrite Hnd in Hu1.
  assert (Hnot : Dropped ∉ log s) by (intros H; by apply Hu1 in H).
  assert (Htx : sst s = SWaitQueue \/ sst s = SWaitFuture -> txheld s = true).
  { unfold sst_ok in Hss. intros [E|E]; rewrite E in Hss; destruct Hss as (_ & [?|[E' _]] & _); try done;
      rewrite E' in Hpc; by destruct Hpc. }
  split.
  - eapply qshape_emit; [..|exact Hq]; done.
  - eapply cells_ok_view; [..|exact Hc]; done.
  - unfold sst_ok in *; cbn. destruct (sst s) eqn:Est; try done.
    + split; [apply Hss|]. split; [left; apply Htx; auto|apply Hss].
    + split; [apply Hss|]. split; [left; apply Htx; auto|apply Hss].
  - unfold pc_ok; cbn. subst p'. destruct (fo F) eqn:EF; cbn; [done|]. done.
  - unfold ulog_ok, no_ret in *; cbn. rewrite Hdr. split; [|split].
    + split; [done|]. intros _. rewrite elem_snoc. by right.
    + by apply notin_snoc.
    + destruct (sst s) eqn:Est.
      * destruct Hu3 as (?&?&?&?). split_and!; try (by apply notin_snoc); intros v'; by apply notin_snoc.
      * destruct Hu3 as (?&?&?&H6). split_and!; try (by apply notin_snoc).
        -- rewrite elem_snoc. by left.
        -- intros v'; by apply notin_snoc.
        -- rewrite decide_False by (subst p'; by destruct (fo F)).
           rewrite decide_False in H6 by (destruct Hpc as [-> | ->]; done).
           intros v'; by apply notin_snoc.
      * destruct Hu3 as (?&?&?&?). split_and!; try (by apply notin_snoc); try (rewrite elem_snoc; by left).
        intros v'; by apply notin_snoc.
      * destruct Hu3 as [H5 H6]. split.
        -- rewrite !elem_snoc. intros [H|?]; [|done]. destruct (H5 H); [left|right]; by left.
        -- intros E. subst p'. by destruct (fo F).
  - unfold wait_ok in *; cbn. intros E. subst p'. by destruct (fo F).
  - cbn. apply log_ok_snoc; [done|]. split_and!; done.
Qed.

(* only the woken flag of the task changes, upwards *)
Lemma pc_ok_woken F s s' :
  s'.(pc) = s.(pc) -> s'.(sst) = s.(sst) -> s'.(opq) = s.(opq) -> s'.(cur) = s.(cur) -> s'.(parked) = s.(parked) ->
  s'.(owk) = s.(owk) -> s'.(pool) = s.(pool) -> s'.(ready) = s.(ready) -> s'.(txheld) = s.(txheld) ->
  (s.(pollable) = true -> s'.(pollable) = true) -> pc_ok F s -> pc_ok F s'.
Proof.
  unfold pc_ok, phase. intros -> -> -> -> -> -> -> -> -> Hpl. destruct (pc s); try done.
  intros [H1 H2]. split; [done|]. intros E. destruct (H2 E) as [?|[?|?]]; auto.
Qed.

(* ---------- AWake: spurious wake-up ---------- *)
Lemma awake_inv F nb na s s' :
  Inv F nb na s -> step F s AWake = Some s' -> Inv F nb na s'.
Proof.
  intros [Hq Hc Hss Hp Hu Hw Hl] Hs. cbn in Hs. injection Hs as <-.
  split; try done.
  - eapply qshape_same; [..|exact Hq]; done.
  - eapply cells_ok_view; [..|exact Hc]; done.
  - eapply pc_ok_woken; [..|exact Hp]; done.
  - unfold wait_ok in *; cbn. intros _. by left.
Qed.

(* ---------- AEvent: an external event fires ---------- *)
Lemma foldr_wake_task l s0 : (forall w, w ∈ l -> w = WTask) ->
  foldr wake s0 l = s0 <| pollable := match l with [] => pollable s0 | _ => true end |>.
Proof.
  induction l as [|w l IH]; intros Hl; cbn.
  - by destruct s0.
  - rewrite IH by (intros; apply Hl; by right). rewrite (Hl w) by (by left). cbn. by destruct l.
Qed.

Lemma aevent_inv F nb na e s s' :
  Inv F nb na s -> step F s (AEvent e) = Some s' -> Inv F nb na s'.
Proof.
  intros [Hq Hc Hss Hp Hu Hw Hl] Hs. cbn in Hs. unfold fire in Hs.
  destruct (evs s !! e) as [c|] eqn:Ec; cbn in Hs; [|done].
  destruct (fired c) eqn:Ef; [done|]. injection Hs as <-.
  rewrite foldr_wake_task by (intros w Hw'; by eapply (c_w_ev _ Hc)).
  split; try done.
  - eapply qshape_same; [..|exact Hq]; done.
  - destruct Hc as [C1 C2 C3 C4 C5 C6 C7 C8]. split; try done.
    cbn. intros x c' w Hx Hw'. destruct (decide (x = e)) as [->|Hne].
    + rewrite list_lookup_insert in Hx by (by eapply lookup_lt_Some). injection Hx as <-. cbn in Hw'. by apply elem_of_nil in Hw'.
    + rewrite list_lookup_insert_ne in Hx by done. by eapply C6.
  - eapply pc_ok_woken; [..|exact Hp]; try done. cbn. intros ->. by destruct (regs c).
  - unfold wait_ok in *; cbn.
    intros Epc. destruct (Hw Epc) as [Hpl|Hwait].
    + left. rewrite Hpl. by destruct (regs c).
    + destruct (sst s) eqn:Est; try (by right).
      destruct Hwait as (x & r & Hscr & Hx).
      destruct (decide (x = e)) as [->|Hne].
      * left. rewrite Ec in Hx. destruct Hx as [?|(c' & Hx & Hfc & Hreg)]; [done|]. injection Hx as <-.
        destruct (regs c); [by apply elem_of_nil in Hreg|done].
      * right. exists x, r. split; [done|]. rewrite list_lookup_insert_ne by done. done.
Qed.

(* ---------- another operation suspends / is resumed; a runner polls a parked queue again ---------- *)
Lemma other_phase s : is_other s.(cur) = true -> phase s = 0 \/ phase s = 4.
Proof. unfold phase, phase_of. destruct (existsb _ _); [by left|]. destruct (cur s); try done. by right. Qed.

Lemma cells_park s w p' : cells_ok s -> is_other s.(cur) = true -> w <> WTask ->
  cells_ok (s <| parked := true |> <| owk := Some w |> <| pc := p' |>).
Proof.
  intros [C1 C2 C3 C4 C5 C6 C7 C8] Ho Hw. split; try done.
  - change (phase (s <| parked := true |> <| owk := Some w |> <| pc := p' |>)) with (phase s).
    destruct (other_phase s Ho) as [E | E]; rewrite E in *; cbn in *; unfold ready_done, parked_other in *; cbn; split_and!; try apply C1; done.
  - cbn. split; [congruence|done].
Qed.
Lemma cells_unpark s o b : cells_ok s -> (o = s.(owk) \/ o = None) -> (s.(parked) = true -> is_other s.(cur) = true \/ phase s = 2) ->
  cells_ok (s <| owk := o |> <| parked := false |> <| pollable := b |>).
Proof.
  intros [C1 C2 C3 C4 C5 C6 C7 C8] Ho Hpk. split; try done.
  - change (phase (s <| owk := o |> <| parked := false |> <| pollable := b |>)) with (phase s).
    destruct (phase s) as [|[|[|[|?]]]] eqn:Eph; cbn in *; unfold ready_done, parked_other in *; cbn; split_and!; try apply C1; try done.
  - cbn. split; [destruct Ho as [-> | ->]; [apply C8|done]|done].
Qed.

Lemma aosusp_inv F nb na s s' : Inv F nb na s -> step F s AOSusp = Some s' -> Inv F nb na s'.
Proof.
  intros [Hq Hc Hss Hp Hu Hw Hl] Hs. cbn in Hs. destruct (is_other (cur s)) eqn:Ho; [|done].
  destruct (decide (pc s = PDrainJob)) as [Epc|Hne].
  - rewrite Epc in Hs. injection Hs as <-. unfold pc_ok in Hp. rewrite Epc in Hp. destruct Hp as [Hsf Hph].
    split.
    + eapply qshape_same; [..|exact Hq]; done.
    + by apply cells_park.
    + eapply sst_ok_view; [..|exact Hss]; try done. cbn. rewrite Epc. done.
    + unfold pc_ok; cbn. split_and!; try done. by right.
    + eapply ulog_ok_view; [..|exact Hu]; try done; cbn; rewrite Epc; done.
    + unfold wait_ok in *; cbn. done.
    + done.
  - assert (Hs' : (if pool s && negb (in_drain (pc s)) && negb (parked s) then Some (s <| parked := true |> <| owk := Some WQueue |>) else None) = Some s')
      by (destruct (pc s); done).
    destruct (pool s) eqn:Epool; [|done]. destruct (in_drain (pc s)) eqn:Ed; [done|]. destruct (parked s) eqn:Epk; [done|].
    cbn in Hs'. injection Hs' as <-.
    replace (s <| parked := true |> <| owk := Some WQueue |>) with (s <| parked := true |> <| owk := Some WQueue |> <| pc := pc s |>) by (by destruct s).
    split.
    + eapply qshape_same; [..|exact Hq]; done.
    + by apply cells_park.
    + eapply sst_ok_view; [..|exact Hss]; done.
    + unfold pc_ok in *; cbn. destruct (pc s); try done. split; [apply Hp|]. cbn. rewrite Epool. done.
    + eapply ulog_ok_view; [..|exact Hu]; done.
    + unfold wait_ok in *; cbn. intros E. destruct (Hw E) as [?|Hr]; [by left|right]. destruct (sst s); try done.
      destruct Hr as (? & ? & _). split_and!; try done. by left.
    + done.
Qed.

Lemma aowake_inv F nb na s s' : Inv F nb na s -> step F s AOWake = Some s' -> Inv F nb na s'.
Proof.
  intros [Hq Hc Hss Hp Hu Hw Hl] Hs. cbn in Hs. destruct (is_other (cur s)) eqn:Ho; [|done].
  destruct (parked s) eqn:Epk; [|done]. destruct (in_drain (pc s)) eqn:Ed; [done|]. cbn in Hs.
  destruct (owk s) as [w|] eqn:Ew; [|done]. injection Hs as <-.
  assert (Hw' : w = WQueue \/ w = WBoth) by (destruct w; auto; by destruct (proj1 (c_owk _ Hc))).
  assert (exists b, wake w (s <| owk := None |>) = s <| owk := None |> <| parked := false |> <| pollable := b |> /\
                    (pollable s = true -> b = true) /\ (w = WBoth -> b = true)) as (b & -> & Hb1 & Hb2).
  { destruct Hw' as [-> | ->]; cbn; [exists (pollable s)|exists true]; (split; [by destruct s|done]). }
  split.
  - eapply qshape_same; [..|exact Hq]; done.
  - apply cells_unpark; [done|by right|]. intros _. by left.
  - eapply sst_ok_view; [..|exact Hss]; done.
  - unfold pc_ok in *; cbn. destruct (pc s) eqn:Epc; try done.
    destruct Hp as [H1 H2]. split; [done|]. cbn. intros E. destruct (H2 E) as [?|[?|(_ & _ & ?)]]; [by left|right; left; auto|].
    right; left. apply Hb2. congruence.
  - eapply ulog_ok_view; [..|exact Hu]; done.
  - unfold wait_ok in *; cbn. intros E. destruct (Hw E) as [?|Hr]; [left; auto|]. destruct (sst s); try (by right).
    destruct Hr as (H1 & H2 & [H3|(_ & _ & H3)]); [right; split_and!; try done; by left|].
    left. apply Hb2. congruence.
  - done.
Qed.

Lemma awakeq_inv F nb na s s' : Inv F nb na s -> step F s AWakeQ = Some s' -> Inv F nb na s'.
Proof.
  intros [Hq Hc Hss Hp Hu Hw Hl] Hs. cbn in Hs. destruct (pool s) eqn:Epool; [|done].
  destruct (in_drain (pc s)) eqn:Ed; [done|]. destruct (parked s) eqn:Epk; [|done]. cbn in Hs. injection Hs as <-.
  replace (s <| parked := false |>) with (s <| owk := owk s |> <| parked := false |> <| pollable := pollable s |>) by (by destruct s).
  split.
  - eapply qshape_same; [..|exact Hq]; done.
  - apply cells_unpark; [done|by left|]. intros _. destruct (cells_parked _ Hc Epk) as [?|(? & _)]; auto.
  - eapply sst_ok_view; [..|exact Hss]; done.
  - unfold pc_ok in *; cbn. destruct (pc s) eqn:Epc; try done.
    destruct Hp as [H1 H2]. split; [done|]. cbn. rewrite Epool. done.
  - eapply ulog_ok_view; [..|exact Hu]; done.
  - unfold wait_ok in *; cbn. intros E. destruct (Hw E) as [?|Hr]; [by left|right]. destruct (sst s); try done.
    destruct Hr as (? & ? & _). split_and!; try done. by left.
  - done.
Qed.

(* ---------- all steps ---------- *)
Lemma task_inv F nb na d s s' :
  Inv F nb na s -> (d = false -> s.(pool) = true) -> task_step F d s = Some s' -> Inv F nb na s'.
Proof.
  intros HI Hd Hs. pose proof (i_p _ _ _ _ HI) as Hp. unfold pc_ok in Hp.
  destruct (pc s) eqn:Epc; try done.
  - by eapply idle_inv.
  - destruct (sst s) eqn:Est; try done.
    + eapply loop_sf_inv; try done. by rewrite Est.
    + by eapply loop_user_inv.
    + eapply loop_sf_inv; try done. by rewrite Est.
  - by eapply drainloop_inv.
  - by eapply drainjob_inv.
  - by eapply drainpend_inv.
  - by eapply drainwaker_inv.
  - by eapply readypoll_inv.
  - by eapply create_inv.
  - by eapply user_inv.
  - by eapply finsend_inv.
  - unfold task_step in Hs. by rewrite Epc in Hs.
  - by eapply dropstate_inv.
  - by eapply dropfin_inv.
  - unfold task_step in Hs. by rewrite Epc in Hs.
Qed.

Theorem step_inv F nb na s a s' : Inv F nb na s -> step F s a = Some s' -> Inv F nb na s'.
Proof.
  intros HI Hs. destruct a.
  - by eapply aqueue_inv.
  - cbn in Hs. eapply task_inv; [done| |done]. by destruct (pool s).
  - cbn in Hs. destruct (is_sf_poll s); [|done]. eapply task_inv; [done| |done]. done.
  - by eapply aevent_inv.
  - by eapply adrop_inv.
  - by eapply awake_inv.
  - by eapply aosusp_inv.
  - by eapply aowake_inv.
  - by eapply awakeq_inv.
Qed.

Lemma run_snoc F s tr a : run F s (tr ++ [a]) = s1 ← run F s tr; step F s1 a.
Proof. unfold run. by rewrite foldl_app. Qed.

Lemma run_inv F nb na s tr s' : Inv F nb na s -> run F s tr = Some s' -> Inv F nb na s'.
Proof.
  revert s'. induction tr as [|a tr IH] using rev_ind; intros s' HI Hr.
  - cbn in Hr. by injection Hr as <-.
  - rewrite run_snoc in Hr. destruct (run F s tr) as [s1|] eqn:E; [|done]. cbn in Hr.
    eapply step_inv; [|done]. by apply IH.
Qed.

Theorem reachable_inv F pl nb na scr v nev tr s :
  run F (init pl nb na scr v nev) tr = Some s -> Inv F nb na s.
Proof. intros Hr. eapply run_inv; [|done]. apply init_inv. Qed.
