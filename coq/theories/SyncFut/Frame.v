(* SyncFut: what no step changes (pool flag, user value, number of events, the script only shrinks). *)
From stdpp Require Import list numbers option sets.
From RecordUpdate Require Import RecordUpdate.
From SyncFut Require Import Model Spec Inv QueueStep TaskStep.

(* what no step ever changes, for arbitrary (not only reachable) states *)
Definition frame_ok (s s' : state) : Prop :=
  s'.(pool) = s.(pool) /\ s'.(uval) = s.(uval) /\ length s'.(evs) = length s.(evs) /\
  (forall e, UAwait e ∈ s'.(uscr) -> UAwait e ∈ s.(uscr)) /\
  (forall x, UFinish x ∈ s'.(log) -> UFinish x ∈ s.(log) \/ x = s.(uval)).

Ltac step_cases H :=
  repeat first
  [ match type of H with
    | context [match ?x with _ => _ end] => is_var x; destruct x; cbn in H
    end
  | match type of H with
    | context [match ?x with _ => _ end] => let E := fresh "E" in destruct x eqn:E; cbn in H
    end ];
  try discriminate H.

Lemma qs_frame_ok r s s' : queue_step r s = Some s' -> frame_ok s s'.
Proof.
  intros Hs. destruct (qs_frame _ _ _ Hs) as (E1 & E2 & E3 & E4 & E5 & E6 & E7 & E8 & E9 & E10 & E11).
  unfold frame_ok. rewrite E3, E4, E5, E6. split_and!; try done. intros x Hx. left. by apply E10.
Qed.

Lemma frame_ok_pc s s' p : frame_ok s s' -> frame_ok s (s' <| pc := p |>).
Proof. done. Qed.

Lemma task_frame_ok F d s s' : task_step F d s = Some s' -> frame_ok s s'.
Proof.
  intros Hs. unfold task_step in Hs.
  destruct (pc s) eqn:Epc.
  4: { destruct (queue_step RTask s) as [s1|] eqn:Hq.
       - injection Hs as <-. apply frame_ok_pc. by eapply qs_frame_ok.
       - injection Hs as <-. unfold frame_ok; cbn. split_and!; auto. }
  all: unfold sf_take, sf_return, sf_set_waker, os_poll, os_send, os_droptx, os_droprx, after_drop_state, after_drop_fin in Hs.
  all: destruct_state s; cbn in *.
  all: step_cases Hs.
  all: try (injection Hs as <-).
  all: unfold frame_ok; cbn.
  all: try (destruct fwk as [[]|]; cbn).
  all: split_and!; try done; auto.
  all: try (intros x; rewrite elem_snoc; intros [?|?]; [by left|try done]).
  all: try (subst; by right).
  all: try (intros ? ?; by apply elem_of_list_further).
  all: try (by rewrite insert_length).
  all: match goal with H : UFinish _ = UFinish _ |- _ => injection H as ->; by right end.
Qed.

Lemma fire_frame_ok e s s' : fire e s = Some s' -> frame_ok s s'.
Proof.
  unfold fire. destruct (evs s !! e) as [c|]; cbn; [|done]. destruct (fired c); [done|]. intros [= <-].
  generalize (regs c). intros l.
  assert (H : forall s0, frame_ok s s0 -> frame_ok s (foldr wake s0 l)).
  { induction l as [|w l IH]; intros s0 H0; cbn; [done|]. specialize (IH _ H0). by destruct w. }
  apply H. unfold frame_ok; cbn. rewrite insert_length. split_and!; auto.
Qed.

Lemma step_frame_ok F s a s' : step F s a = Some s' -> frame_ok s s'.
Proof.
  intros Hs. destruct a; cbn in Hs.
  - destruct (pool s && negb (in_drain (pc s)) && negb (parked s)); [|done]. by eapply qs_frame_ok.
  - by eapply task_frame_ok.
  - destruct (is_sf_poll s); [|done]. by eapply task_frame_ok.
  - by eapply fire_frame_ok.
  - assert (s' = emit Dropped (s <| pc := if f_state_dropped_first F then PDropState else PDropFin |>)) as ->
      by (destruct (pc s); try done; by injection Hs as <-).
    unfold frame_ok; cbn. split_and!; auto. intros x. rewrite elem_snoc. intros [?|?]; [by left|done].
  - injection Hs as <-. unfold frame_ok; cbn; split_and!; auto.
  - destruct (is_other (cur s)); [|done]. destruct (pc s); repeat case_match; try done; injection Hs as <-; unfold frame_ok; cbn; split_and!; auto.
  - repeat case_match; try done; injection Hs as <-. destruct w; unfold frame_ok; cbn; split_and!; auto.
  - repeat case_match; try done; injection Hs as <-. unfold frame_ok; cbn; split_and!; auto.
Qed.

Lemma frame_ok_refl s : frame_ok s s.
Proof. unfold frame_ok. split_and!; auto. Qed.
Lemma frame_ok_trans s1 s2 s3 :
  (forall x, UFinish x ∈ s1.(log) -> x = s1.(uval)) -> frame_ok s1 s2 -> frame_ok s2 s3 -> frame_ok s1 s3.
Proof.
  unfold frame_ok. intros H0 (A1 & A2 & A3 & A4 & A5) (B1 & B2 & B3 & B4 & B5).
  split_and!; try congruence; auto.
  intros x Hx. destruct (B5 _ Hx) as [H|H]; [by apply A5|right; congruence].
Qed.

(* on a run from an initial state: the pool flag and the user's value are those of the initial state,
   the events awaited by the rest of the script exist, and only the user's value is ever logged as its result *)
Lemma run_frame F pl nb na scr v nev tr s :
  run F (init pl nb na scr v nev) tr = Some s ->
  s.(pool) = pl /\ s.(uval) = v /\ (script_ok nev scr -> forall e, UAwait e ∈ s.(uscr) -> e < length s.(evs)) /\
  (forall x, UFinish x ∈ s.(log) -> x = v).
Proof.
  revert s. induction tr as [|a tr IH] using rev_ind; intros s Hr.
  - cbn in Hr. injection Hr as <-. cbn. split_and!; try done.
    + intros Hscr e He. rewrite replicate_length. by apply Hscr.
    + intros x Hx. by apply elem_of_nil in Hx.
  - rewrite run_snoc in Hr. destruct (run F _ tr) as [s1|] eqn:E; [|done]. cbn in Hr.
    destruct (IH _ eq_refl) as (I1 & I2 & I3 & I4).
    destruct (step_frame_ok _ _ _ _ Hr) as (A1 & A2 & A3 & A4 & A5).
    split_and!; try congruence.
    + intros Hscr e He. rewrite A3. apply I3; [done|]. by apply A4.
    + intros x Hx. destruct (A5 _ Hx) as [H|H]; [by apply I4|congruence].
Qed.

