(* SyncFut: the inductive invariant of the model and its preservation by every step. *)
From stdpp Require Import list numbers option sets.
From RecordUpdate Require Import RecordUpdate.
From SyncFut Require Import Model Spec.

(* ---------- small list / log facts ---------- *)
Lemma elem_snoc {A} (x e : A) (l : list A) : x ∈ l ++ [e] <-> x ∈ l \/ x = e.
Proof. rewrite elem_of_app, elem_of_list_singleton. done. Qed.

Lemma log_ok_nil P : log_ok P [].
Proof. intros l1 e l2 H. destruct l1; discriminate. Qed.

Lemma log_ok_snoc P l e : log_ok P l -> P l e -> log_ok P (l ++ [e]).
Proof.
  intros Hl He l1 e' l2 Heq.
  destruct l2 as [|x l2 _] using rev_ind.
  - apply app_inj_tail in Heq as [-> ->]. done.
  - rewrite app_comm_cons, app_assoc in Heq. apply app_inj_tail in Heq as [-> _]. by eapply Hl.
Qed.

Lemma log_ok_prefix P l l' : log_ok P (l ++ l') -> log_ok P l.
Proof. intros H l1 e l2 ->. eapply (H l1 e (l2 ++ l')). by rewrite <- app_assoc. Qed.

Lemma log_ok_and P Q l : log_ok P l -> log_ok Q l -> log_ok (fun l e => P l e /\ Q l e) l.
Proof. intros HP HQ l1 e l2 E. split; [by eapply HP|by eapply HQ]. Qed.

Lemma log_ok_impl (P Q : list ev -> ev -> Prop) l : (forall l e, P l e -> Q l e) -> log_ok P l -> log_ok Q l.
Proof. intros H HP l1 e l2 E. apply H. by eapply HP. Qed.

Lemma seq_head i n : 0 < n -> seq i n = i :: seq (S i) (n - 1).
Proof. destruct n; [lia|]. intros _. cbn. by rewrite Nat.sub_0_r. Qed.

(* ---------- the phase of the slot job ---------- *)
Definition is_slot (o : qop) : bool := match o with Slot => true | _ => false end.
Definition phase_of (q : list qop) (c : qcur) : nat :=
  if existsb is_slot q then 0 else
  match c with CSlot QS1 => 1 | CSlot QS2 => 2 | CSlot QS3 => 3 | _ => 4 end.
Definition phase (s : state) : nat := phase_of s.(opq) s.(cur).
Definition fin_done (s : state) : bool := s.(fin).(o_sent) || s.(fin).(o_txdrop).

Lemma existsb_slot_others l : existsb is_slot (Other <$> l) = false.
Proof. induction l; cbn; done. Qed.
Lemma existsb_slot_full l l' : existsb is_slot ((Other <$> l) ++ Slot :: l') = true.
Proof. induction l; cbn; done. Qed.

(* ---------- queue shape: FIFO position, operation in progress, queue events in the log ---------- *)
Inductive qshape (nb na : nat) (s : state) : Prop :=
| QA i : i <= nb ->
    s.(opq) = (Other <$> seq i (nb - i)) ++ Slot :: (Other <$> seq nb na) ->
    (s.(cur) = CNone \/ (exists i', i = S i' /\ s.(cur) = COther i')) ->
    (forall k, OStart k ∈ s.(log) <-> k < i) ->
    (forall k, OFinish k ∈ s.(log) <-> k < i /\ s.(cur) <> COther k) ->
    SlotStart ∉ s.(log) -> SlotEnd ∉ s.(log) -> qshape nb na s
| QB p : s.(opq) = Other <$> seq nb na -> s.(cur) = CSlot p ->
    (forall k, OStart k ∈ s.(log) <-> k < nb) ->
    (forall k, OFinish k ∈ s.(log) <-> k < nb) ->
    SlotStart ∈ s.(log) -> SlotEnd ∉ s.(log) -> qshape nb na s
| QC j : nb <= j <= nb + na ->
    s.(opq) = Other <$> seq j (nb + na - j) ->
    (s.(cur) = CNone \/ (exists j', j = S j' /\ nb <= j' /\ s.(cur) = COther j')) ->
    (forall k, OStart k ∈ s.(log) <-> k < j) ->
    (forall k, OFinish k ∈ s.(log) <-> k < j /\ s.(cur) <> COther k) ->
    SlotStart ∈ s.(log) -> SlotEnd ∈ s.(log) -> qshape nb na s.

Definition is_queue_ev (e : ev) : bool :=
  match e with OStart _ | OFinish _ | SlotStart | SlotEnd => true | _ => false end.

Lemma qshape_view nb na s s' :
  s'.(opq) = s.(opq) -> s'.(cur) = s.(cur) ->
  (forall e, is_queue_ev e = true -> (e ∈ s'.(log) <-> e ∈ s.(log))) ->
  qshape nb na s -> qshape nb na s'.
Proof.
  intros Eo Ec El [i Hi Ho Hc H1 H2 H3 H4|p Ho Hc H1 H2 H3 H4|j Hj Ho Hc H1 H2 H3 H4].
  - eapply (QA _ _ _ i); rewrite ?Eo, ?Ec; try done.
    + intros k. rewrite El; done.
    + intros k. rewrite El; done.
    + rewrite El; done.
    + rewrite El; done.
  - eapply (QB _ _ _ p); rewrite ?Eo, ?Ec; try done.
    + intros k. rewrite El; done.
    + intros k. rewrite El; done.
    + rewrite El; done.
    + rewrite El; done.
  - eapply (QC _ _ _ j); rewrite ?Eo, ?Ec; try done.
    + intros k. rewrite El; done.
    + intros k. rewrite El; done.
    + rewrite El; done.
    + rewrite El; done.
Qed.

Lemma qshape_phase nb na s : qshape nb na s ->
  (phase s = 0 /\ SlotStart ∉ s.(log) /\ forall p, s.(cur) <> CSlot p) \/
  (exists p, s.(cur) = CSlot p /\ phase s = match p with QS1 => 1 | QS2 => 2 | QS3 => 3 end /\ SlotStart ∈ s.(log) /\ SlotEnd ∉ s.(log)) \/
  (phase s = 4 /\ SlotEnd ∈ s.(log) /\ SlotStart ∈ s.(log) /\ forall p, s.(cur) <> CSlot p).
Proof.
  intros [i Hi Ho Hc H1 H2 H3 H4|p Ho Hc H1 H2 H3 H4|j Hj Ho Hc H1 H2 H3 H4]; unfold phase, phase_of.
  - left. rewrite Ho, existsb_slot_full. destruct Hc as [->|(j' & _ & ->)]; done.
  - right; left. exists p. rewrite Ho, existsb_slot_others, Hc. destruct p; done.
  - right; right. rewrite Ho, existsb_slot_others. destruct Hc as [->|(j' & _ & _ & ->)]; done.
Qed.
(* the slot job is in the FIFO at most once, and not while it runs *)
Lemma qshape_exists nb na s : qshape nb na s ->
  existsb is_slot s.(opq) = match s.(cur) with CSlot _ => false | _ => existsb is_slot s.(opq) end /\
  forall q, s.(opq) = Slot :: q -> existsb is_slot q = false.
Proof.
  intros [i Hi Ho Hc H1 H2 H3 H4|p Ho Hc H1 H2 H3 H4|j Hj Ho Hc H1 H2 H3 H4].
  - split; [destruct Hc as [->|(j' & _ & ->)]; done|]. intros q Hq. rewrite Ho in Hq.
    destruct (decide (i = nb)) as [->|]; [|rewrite (seq_head i) in Hq by lia; done].
    rewrite Nat.sub_diag in Hq. injection Hq as <-. apply existsb_slot_others.
  - rewrite Ho, Hc, existsb_slot_others. split; [done|]. intros q Hq. destruct na; done.
  - rewrite Ho, existsb_slot_others. split; [by destruct (cur s)|]. intros q Hq. destruct (nb + na - j); done.
Qed.

(* ---------- cells ---------- *)
Definition task_waker_only (w : option waker) : Prop := w = None \/ w = Some WTask.

Definition ready_done (s : state) : Prop := s.(ready).(o_sent) = true \/ s.(ready).(o_rxdrop) = true.
Definition parked_other (s : state) : Prop := s.(parked) = true -> is_other s.(cur) = true.
Definition cells_at (ph : nat) (s : state) : Prop :=
  match ph with
  | 0 | 1 => s.(ready).(o_sent) = false /\ s.(sf).(sf_res) = SfNone /\ parked_other s
  | 2 => ready_done s /\ s.(sf).(sf_res) = SfNone /\
         (s.(parked) = true -> fin_done s = false /\ (s.(fin).(o_waker) = Some WQueue \/ s.(fin).(o_waker) = Some WBoth))
  | 3 => ready_done s /\ s.(sf).(sf_res) = SfNone /\ s.(parked) = false /\ fin_done s = true
  | _ => ready_done s /\ (s.(sf).(sf_res) = SfOk \/ s.(sf).(sf_res) = SfReturned) /\ parked_other s /\ fin_done s = true
  end.

Record cells_ok (s : state) : Prop := {
  c_at : cells_at (phase s) s;
  c_ready_tx : s.(ready).(o_txdrop) = false;
  c_fin_rx : s.(fin).(o_rxdrop) = false;
  c_w_ready : task_waker_only s.(ready).(o_waker);
  c_w_sf : task_waker_only s.(sf).(sf_waker);
  c_w_ev : forall e c w, s.(evs) !! e = Some c -> w ∈ c.(regs) -> w = WTask;
  c_tx : s.(txheld) = negb (fin_done s);
  c_owk : s.(owk) <> Some WTask /\ (s.(parked) = true -> is_other s.(cur) = true -> s.(owk) <> None);
}.

Lemma cells_at_view ph s s' :
  s'.(ready).(o_sent) = s.(ready).(o_sent) ->
  (s.(ready).(o_rxdrop) = true -> s'.(ready).(o_rxdrop) = true) ->
  fin_done s' = fin_done s -> s'.(fin).(o_waker) = s.(fin).(o_waker) ->
  s'.(sf).(sf_res) = s.(sf).(sf_res) -> s'.(parked) = s.(parked) -> s'.(cur) = s.(cur) ->
  cells_at ph s -> cells_at ph s'.
Proof.
  intros E1 E2 E3 E4 E5 E6 E7. unfold cells_at, ready_done, parked_other.
  destruct ph as [|[|[|[|?]]]]; rewrite ?E1, ?E3, ?E4, ?E5, ?E6, ?E7; naive_solver.
Qed.

(* consequences in implication form *)
Lemma cells_unsent s : cells_ok s -> phase s <= 1 -> s.(ready).(o_sent) = false.
Proof. intros [H _ _ _ _ _ _ _]. destruct (phase s) as [|[|?]]; cbn in H; [naive_solver|naive_solver|lia]. Qed.
Lemma cells_ready_done s : cells_ok s -> 2 <= phase s -> ready_done s.
Proof. intros [H _ _ _ _ _ _ _]. destruct (phase s) as [|[|[|[|?]]]]; cbn in H; try lia; naive_solver. Qed.
Lemma cells_fin_done s : cells_ok s -> 3 <= phase s -> fin_done s = true.
Proof. intros [H _ _ _ _ _ _ _]. destruct (phase s) as [|[|[|[|?]]]]; cbn in H; try lia; naive_solver. Qed.
Lemma cells_sf_none s : cells_ok s -> phase s <= 3 -> s.(sf).(sf_res) = SfNone.
Proof. intros [H _ _ _ _ _ _ _]. destruct (phase s) as [|[|[|[|?]]]]; cbn in H; try lia; naive_solver. Qed.
Lemma cells_sf_some s : cells_ok s -> 4 <= phase s -> s.(sf).(sf_res) = SfOk \/ s.(sf).(sf_res) = SfReturned.
Proof. intros [H _ _ _ _ _ _ _]. destruct (phase s) as [|[|[|[|?]]]]; cbn in H; try lia; naive_solver. Qed.
Lemma cells_parked s : cells_ok s -> s.(parked) = true ->
  is_other s.(cur) = true \/
  (phase s = 2 /\ fin_done s = false /\ (s.(fin).(o_waker) = Some WQueue \/ s.(fin).(o_waker) = Some WBoth)).
Proof.
  intros [H _ _ _ _ _ _ _] Hp. destruct (phase s) as [|[|[|[|?]]]]; cbn in H.
  - destruct H as (_ & _ & H). left. by apply H.
  - destruct H as (_ & _ & H). left. by apply H.
  - destruct H as (_ & _ & H). right. split; [done|by apply H].
  - destruct H as (_ & _ & H & _); congruence.
  - destruct H as (_ & _ & H & _). left. by apply H.
Qed.
Lemma phase_le4 s : phase s <= 4.
Proof. unfold phase, phase_of. destruct (existsb _ _); [lia|]. destruct (cur s) as [| |[]]; lia. Qed.

(* ---------- the SyncFuture and its task ---------- *)
Definition sf_state (x : sstate) : bool := match x with SWaitQueue | SWaitSched _ => true | _ => false end.
Definition fo (F : sfacts) : bool := F.(f_state_dropped_first).

Definition sst_ok (F : sfacts) (s : state) : Prop :=
  match s.(sst) with
  | SWaitQueue => s.(ready).(o_rxdrop) = false /\ (s.(txheld) = true \/ (s.(pc) = PDropState /\ fo F = false)) /\
                  s.(sf).(sf_res) <> SfReturned
  | SWaitFuture => s.(ready).(o_sent) = true /\ (s.(txheld) = true \/ (s.(pc) = PDropState /\ fo F = false)) /\
                   s.(sf).(sf_res) <> SfReturned
  | SWaitSched v => v = s.(uval) /\ s.(ready).(o_sent) = true /\ s.(txheld) = false /\ s.(sf).(sf_res) <> SfReturned
  | SCompleted => True
  end.

Definition pc_ok (F : sfacts) (s : state) : Prop :=
  match s.(pc) with
  | PIdle | PLoop => s.(sst) <> SCompleted
  | PDrainLoop => sf_state s.(sst) = true
  | PDrainJob => sf_state s.(sst) = true /\ phase s <= 3
  | PDrainPend | PDrainWaker => sf_state s.(sst) = true /\ s.(parked) = true /\ phase s <= 3 /\
                                (s.(cur) = CSlot QS2 \/ (is_other s.(cur) = true /\ s.(owk) = Some WBoth))
  | PReadyPoll => s.(sst) = SWaitQueue /\
                  (s.(pool) = false -> 2 <= phase s \/ s.(pollable) = true \/ (s.(parked) = true /\ is_other s.(cur) = true /\ s.(owk) = Some WBoth))
  | PCreate => s.(sst) = SWaitQueue /\ s.(ready).(o_sent) = true
  | PUser | PFinSend => s.(sst) = SWaitFuture
  | PErrSend | PErrDropRx | PPanic => False
  | PDone => s.(sst) = SCompleted
  | PDropState => fo F = false -> s.(txheld) = false
  | PDropFin => fo F = true -> s.(sst) = SCompleted
  | PGone => s.(sst) = SCompleted /\ s.(txheld) = false
  end.

Definition no_ret (l : list ev) : Prop := forall v, Ret v ∉ l.

Definition ulog_ok (s : state) : Prop :=
  (Dropped ∈ s.(log) <-> dropped s.(pc) = true) /\
  RetErr ∉ s.(log) /\
  match s.(sst) with
  | SWaitQueue => UStart ∉ s.(log) /\ UCancel ∉ s.(log) /\ (forall v, UFinish v ∉ s.(log)) /\ no_ret s.(log)
  | SWaitFuture => UStart ∈ s.(log) /\ UCancel ∉ s.(log) /\ no_ret s.(log) /\
                   (if decide (s.(pc) = PFinSend) then UFinish s.(uval) ∈ s.(log) else forall v, UFinish v ∉ s.(log))
  | SWaitSched _ => UStart ∈ s.(log) /\ UFinish s.(uval) ∈ s.(log) /\ UCancel ∉ s.(log) /\ no_ret s.(log)
  | SCompleted => (UStart ∈ s.(log) -> UCancel ∈ s.(log) \/ UFinish s.(uval) ∈ s.(log)) /\
                  (s.(pc) = PDone -> Ret s.(uval) ∈ s.(log))
  end.

Definition wait_ok (s : state) : Prop :=
  s.(pc) = PIdle -> s.(pollable) = true \/
     match s.(sst) with
     | SWaitQueue => s.(ready).(o_waker) = Some WTask /\ s.(ready).(o_sent) = false /\
                     (s.(pool) = true \/ (s.(parked) = true /\ is_other s.(cur) = true /\ s.(owk) = Some WBoth))
     | SWaitFuture => exists e r, s.(uscr) = UAwait e :: r /\
                        (s.(evs) !! e = None \/
                         exists c, s.(evs) !! e = Some c /\ c.(fired) = false /\ WTask ∈ c.(regs))
     | SWaitSched _ => s.(sf).(sf_res) = SfNone /\ s.(sf).(sf_waker) = Some WTask /\ s.(pool) = true
     | SCompleted => False
     end.

Record Inv (F : sfacts) (nb na : nat) (s : state) : Prop := {
  i_q : qshape nb na s;
  i_c : cells_ok s;
  i_s : sst_ok F s;
  i_p : pc_ok F s;
  i_u : ulog_ok s;
  i_w : wait_ok s;
  i_l : log_ok (P_all F nb) s.(log);
}.

(* ---------- initial state ---------- *)
Lemma init_inv F pl nb na scr v nev : Inv F nb na (init pl nb na scr v nev).
Proof.
  split.
  - eapply (QA _ _ _ 0); cbn; try lia; try set_solver.
    + unfold full_queue. by rewrite Nat.sub_0_r.
    + intros k. split; [set_solver|lia].
    + intros k. split; [set_solver|lia].
  - assert (Hph : phase (init pl nb na scr v nev) = 0).
    { unfold phase, phase_of, init, full_queue; cbn. by rewrite existsb_slot_full. }
    split; rewrite ?Hph; cbn; try done; try lia; try (by left).
    intros e c w [-> _]%lookup_replicate. cbn. set_solver.
  - unfold sst_ok; cbn. split; [done|]. split; [by left|done].
  - unfold pc_ok; cbn. done.
  - unfold ulog_ok; cbn. split; [|split]; [split; [set_solver|done]|set_solver|]. split_and!; try set_solver. intros ?; set_solver.
  - unfold wait_ok; cbn. intros _. by left.
  - apply log_ok_nil.
Qed.

(* ---------- queue steps ---------- *)
Lemma qs_qshape nb na r s s' : qshape nb na s -> queue_step r s = Some s' -> qshape nb na s'.
Proof.
  intros Hq Hs. unfold queue_step in Hs.
  destruct Hq as [i Hi Ho Hc H1 H2 H3 H4|p Ho Hc H1 H2 H3 H4|j Hj Ho Hc H1 H2 H3 H4].
  - (* slot job pending *)
    destruct Hc as [Hc|(i' & -> & Hc)]; rewrite Hc in Hs.
    + rewrite Ho in Hs. destruct (decide (i = nb)) as [->|Hne].
      * rewrite Nat.sub_diag in Hs. cbn in Hs. injection Hs as <-.
        eapply (QB _ _ _ QS1); cbn; try done.
        -- intros k. rewrite elem_snoc, H1. naive_solver.
        -- intros k. rewrite elem_snoc, H2, Hc. naive_solver.
        -- rewrite elem_snoc. by right.
        -- rewrite elem_snoc. naive_solver.
      * rewrite (seq_head i (nb - i)) in Hs by lia. cbn in Hs. injection Hs as <-.
        eapply (QA _ _ _ (S i)); cbn; try lia.
        -- f_equal. f_equal. f_equal. lia.
        -- right. by exists i.
        -- intros k. rewrite elem_snoc, H1. split; [intros [?|[= ->]]; lia|]. intros ?. destruct (decide (k = i)) as [->|]; [by right|left; lia].
        -- intros k. rewrite elem_snoc, H2, Hc. split; [intros [[? _]|[=]]|intros [? ?]].
           ++ split; [lia|]. intros [= ->]. lia.
           ++ left. split; [|done]. destruct (decide (k = i)) as [->|]; [done|lia].
        -- rewrite elem_snoc. naive_solver.
        -- rewrite elem_snoc. naive_solver.
    + injection Hs as <-.
      eapply (QA _ _ _ (S i')); cbn; try done.
      * by left.
      * intros k. rewrite elem_snoc, H1. naive_solver.
      * intros k. rewrite elem_snoc, H2, Hc. split; [intros [[? ?]|[= ->]]; split; (lia||done)|].
        intros [? _]. destruct (decide (k = i')) as [->|]; [by right|left]. split; [done|congruence].
      * rewrite elem_snoc. naive_solver.
      * rewrite elem_snoc. naive_solver.
  - (* slot job in progress *)
    rewrite Hc in Hs. destruct p.
    + destruct (os_send (ready s)) as [c w]. injection Hs as <-.
      eapply (qshape_view _ _ (s <| cur := CSlot QS2 |>)).
      { by destruct w as [[]|]. } { by destruct w as [[]|]. } { by destruct w as [[]|]. }
      by eapply (QB _ _ _ QS2).
    + destruct (os_poll (runner_waker r) (fin s)) as [c []]; injection Hs as <-.
      * by eapply (QB _ _ _ QS3).
      * by eapply (QB _ _ _ QS3).
      * by eapply (QB _ _ _ QS2).
    + injection Hs as <-.
      eapply (qshape_view _ _ (emit SlotEnd (s <| cur := CNone |>))).
      { by destruct (sf_waker (sf s)) as [[]|]. } { by destruct (sf_waker (sf s)) as [[]|]. } { by destruct (sf_waker (sf s)) as [[]|]. }
      eapply (QC _ _ _ nb); cbn; try lia.
      * rewrite Ho. f_equal. f_equal. lia.
      * by left.
      * intros k. rewrite elem_snoc, H1. naive_solver.
      * intros k. rewrite elem_snoc, H2. naive_solver.
      * rewrite elem_snoc. by left.
      * rewrite elem_snoc. by right.
  - (* slot job done *)
    destruct Hc as [Hc|(j' & -> & Hj' & Hc)]; rewrite Hc in Hs.
    + rewrite Ho in Hs. destruct (decide (j = nb + na)) as [->|Hne].
      * rewrite Nat.sub_diag in Hs. cbn in Hs. done.
      * rewrite (seq_head j (nb + na - j)) in Hs by lia. cbn in Hs. injection Hs as <-.
        eapply (QC _ _ _ (S j)); cbn; try lia.
        -- f_equal. f_equal. lia.
        -- right. exists j. split; [done|]. split; [lia|done].
        -- intros k. rewrite elem_snoc, H1. split; [intros [?|[= ->]]; lia|]. intros ?. destruct (decide (k = j)) as [->|]; [by right|left; lia].
        -- intros k. rewrite elem_snoc, H2, Hc. split; [intros [[? _]|[=]]|intros [? ?]].
           ++ split; [lia|]. intros [= ->]. lia.
           ++ left. split; [|done]. destruct (decide (k = j)) as [->|]; [done|lia].
        -- rewrite elem_snoc. by left.
        -- rewrite elem_snoc. by left.
    + injection Hs as <-.
      eapply (QC _ _ _ (S j')); cbn; try done.
      * by left.
      * intros k. rewrite elem_snoc, H1. naive_solver.
      * intros k. rewrite elem_snoc, H2, Hc. split; [intros [[? ?]|[= ->]]; split; (lia||done)|].
        intros [? _]. destruct (decide (k = j')) as [->|]; [by right|left]. split; [done|congruence].
      * rewrite elem_snoc. by left.
      * rewrite elem_snoc. by left.
Qed.

