(* Extraction of the executable SyncFut model for the implementation -> model correspondence check
   (/verif/driver/syncfut/replay_syncfut.ml).  ExtrOcamlBasic only: nat stays a datatype.
   [code_facts] is the field order of `struct SyncFuture` as the model reads it (state dropped before task_finished);
   Inst/C08_now.v ties it to the order read from the source. *)
From SyncFut Require Import Model.
Require Import ExtrOcamlBasic.
Extraction Language OCaml.
Extraction "syncfutmodel.ml" step step_label init run code_facts swapped_facts in_drain in_poll dropped is_other.
