(* C08 - "future_sync runs in its slot and cancels cleanly when dropped" (layer SyncFut).

   Status: every clause below is proved for ALL user scripts, event timings, drop points, numbers of other
   operations before/after the slot job, schedules, and both values of [pool]; nothing is `_partial`.
   What the statements do NOT say (read before relying on them):
   * "after SlotEnd" in (3) means "after the slot job's `send.signal(())`": the model logs SlotEnd at that step, the
     last shared-memory operation of the slot job; the runner's return to its dequeue loop is not a step of its own.
   * (5) is the terminal-state form (no reachable state is stuck before completion).  That every fair schedule
     reaches a terminal state is not stated.
   * The queue is the abstraction "ObjExec" of Model.v (one operation at a time, FIFO, a suspended slot job parks
     the queue; while the task drains the queue inside `SchedulerFuture::poll` no background runner steps it).
     That the real queue state machine implements this is the business of the other layers (C01/C02/C07).
   * Other operations may suspend (AOSusp) and are resumed by AOWake, which counts as an actor of the system in
     [terminal]: whatever a suspended other operation waits for eventually happens.  A background runner may poll a parked
     queue again without a wake-up (AWakeQ).  The slot job is never destroyed unrun (no panic in the queue).
     These three actors were added after the replay of implementation logs (driver/syncfut) showed the behaviours.

   Vocabulary: the ghost log [log s] is in chronological order; [log s = l1 ++ e :: l2] reads "e happened, l1 is
   everything before it".  [nb] operations were scheduled before the slot job (ids 0..nb-1), [na] after it
   (ids nb..nb+na-1).  [init pl nb na scr v nev]: pool flag, those numbers, the user future's script, its value,
   the number of external events. *)
From stdpp Require Import list numbers option.
From SyncFut Require Import Model Spec Inv QueueStep TaskStep Frame Safety Live Struct.

(* ------------------------------------------------------------------------------------------------------- *)
(* (1) runs only when awaited: an event of the user future (creation, poll, step, completion) is produced only
   by a step of the owner task T, inside a poll of the SyncFuture, not while T runs queue jobs in drain_queue;
   creation happens exactly at `create_future()`.  Holds for every state, reachable or not. *)
Theorem C08_1_runs_only_when_awaited :
  forall (F : sfacts) (s : state) (a : actor) (s' : state) (e : ev),
    step F s a = Some s' -> log s' = log s ++ [e] -> is_user_ev e = true ->
    a = ATask /\ in_poll (pc s) = true /\ pc s <> PDrainJob /\ (e = UStart -> pc s = PCreate).
Proof. exact user_events_in_poll. Qed.

(* ------------------------------------------------------------------------------------------------------- *)
(* (2) only inside its exclusive slot *)
Theorem C08_2_only_inside_its_exclusive_slot :
  forall (F : sfacts) (pl : bool) (nb na : nat) (scr : list uprim) (v nev : nat) (tr : list actor) (s : state)
         (l1 : list ev) (e : ev) (l2 : list ev),
    run F (init pl nb na scr v nev) tr = Some s -> log s = l1 ++ e :: l2 ->
    (* the user future is created/polled/stepped/completed after SlotStart and before SlotEnd *)
    (is_user_ev e = true -> SlotStart ∈ l1 /\ SlotEnd ∉ l1) /\
    (* no other operation starts or finishes between SlotStart and SlotEnd *)
    (is_other_ev e = true -> ~ (SlotStart ∈ l1 /\ SlotEnd ∉ l1)) /\
    (* the slot starts once, after every operation scheduled before it has finished *)
    (e = SlotStart -> SlotStart ∉ l1 /\ forall k, k < nb -> OFinish k ∈ l1) /\
    (e = SlotEnd -> SlotStart ∈ l1 /\ SlotEnd ∉ l1) /\
    (* operations start once, in FIFO order, one at a time; those scheduled after the slot job only after SlotEnd *)
    (forall k, e = OStart k -> OStart k ∉ l1 /\ (forall j, j < k -> OFinish j ∈ l1) /\ (nb <= k -> SlotEnd ∈ l1)) /\
    (forall k, e = OFinish k -> OStart k ∈ l1 /\ OFinish k ∉ l1 /\ (k < nb -> SlotStart ∉ l1)).
Proof. exact slot_exclusive. Qed.

(* the same as a state invariant: while the user future exists (or is being created) and the completion sender is
   held, the queue is parked on the slot job in S2 *)
Theorem C08_2_user_future_in_slot_state :
  forall (F : sfacts) (pl : bool) (nb na : nat) (scr : list uprim) (v nev : nat) (tr : list actor) (s : state),
    run F (init pl nb na scr v nev) tr = Some s ->
    (sst s = SWaitFuture \/ pc s = PCreate) -> txheld s = true ->
    cur s = CSlot QS2 /\ SlotStart ∈ log s /\ SlotEnd ∉ log s.
Proof. exact user_future_in_slot. Qed.

(* ------------------------------------------------------------------------------------------------------- *)
(* (3) result: the SyncFuture resolves at most once, to Ok of the user future's own value, after the user future
   completed and after the slot job signalled; it never resolves to Err; the user future starts and completes at
   most once *)
Theorem C08_3_result :
  forall (F : sfacts) (pl : bool) (nb na : nat) (scr : list uprim) (v nev : nat) (tr : list actor) (s : state)
         (l1 : list ev) (e : ev) (l2 : list ev),
    run F (init pl nb na scr v nev) tr = Some s -> log s = l1 ++ e :: l2 ->
    (forall x, e = Ret x -> x = v /\ UFinish v ∈ l1 /\ SlotEnd ∈ l1 /\ (forall y, Ret y ∉ l1) /\ Dropped ∉ l1) /\
    e <> RetErr /\
    (forall x, e = UFinish x -> x = v /\ (forall y, UFinish y ∉ l1) /\ UStart ∈ l1 /\ UCancel ∉ l1) /\
    (e = UStart -> UStart ∉ l1).
Proof. exact result_ok. Qed.

(* ------------------------------------------------------------------------------------------------------- *)
(* (4) clean cancellation, for the field order of the code (`state` declared before `task_finished`) *)
Theorem C08_4_clean_cancellation :
  forall (pl : bool) (nb na : nat) (scr : list uprim) (v nev : nat) (tr : list actor) (s : state)
         (l1 : list ev) (e : ev) (l2 : list ev),
    run code_facts (init pl nb na scr v nev) tr = Some s -> log s = l1 ++ e :: l2 ->
    (* after the drop the user future is neither started nor run *)
    (is_user_ev e = true -> Dropped ∉ l1) /\
    (* it is destroyed only by the drop, only if it was started and had not finished, at most once, and its
       destruction (which may run user destructors holding `&mut T`) lies inside the exclusive slot *)
    (e = UCancel -> Dropped ∈ l1 /\ UStart ∈ l1 /\ UCancel ∉ l1 /\ (forall x, UFinish x ∉ l1) /\ SlotStart ∈ l1 /\ SlotEnd ∉ l1) /\
    (e = Dropped -> Dropped ∉ l1) /\
    (* when the slot ends, and when any operation starts, a started user future has been destroyed or has finished *)
    (e = SlotEnd \/ (exists k, e = OStart k) -> UStart ∈ l1 -> UCancel ∈ l1 \/ exists x, UFinish x ∈ l1).
Proof. exact cancel_ok_code. Qed.

(* dropping never blocks: whenever the owner is between polls, the drop and its two field drops are enabled *)
Theorem C08_4_drop_never_blocks :
  forall (F : sfacts) (s : state),
    pc s = PIdle \/ pc s = PDone -> exists s', run F s [ADrop; ATask; ATask] = Some s' /\ pc s' = PGone.
Proof. exact drop_never_blocks. Qed.

(* with the other field order (`task_finished` dropped first) a later operation starts while the user future is alive *)
Example C08_4_field_order_needed_refuted :
  exists (tr : list actor) (s : state) (l1 l2 : list ev) (k : nat),
    run swapped_facts (init true 0 1 [UAwait 0] 7 1) tr = Some s /\ log s = l1 ++ OStart k :: l2 /\
    UStart ∈ l1 /\ UCancel ∉ l1 /\ (forall x, UFinish x ∉ l1) /\ SlotEnd ∈ l1.
Proof.
  exists (repeat AQueue 3 ++ repeat ATask 6 ++ [ADrop; ATask] ++ repeat AQueue 3).
  eexists. exists [SlotStart; UStart; UPoll; UStep; Dropped; SlotEnd], [], 0.
  split; [vm_compute; reflexivity|]. split; [reflexivity|].
  split_and!.
  - by repeat constructor.
  - intros H. by repeat (apply elem_of_cons in H as [H|H]; [discriminate H|]); apply elem_of_nil in H.
  - intros x H. by repeat (apply elem_of_cons in H as [H|H]; [discriminate H|]); apply elem_of_nil in H.
  - by repeat constructor.
Qed.

(* ------------------------------------------------------------------------------------------------------- *)
(* (5) releases the queue.  [terminal]: neither the background runner, nor the owner task (which polls whenever it has
   been woken, unless it dropped the future), nor any external event can move. *)
Theorem C08_5_releases_the_queue :
  forall (F : sfacts) (pl : bool) (nb na : nat) (scr : list uprim) (v nev : nat) (tr : list actor) (s : state),
    pl = true -> script_ok nev scr ->
    run F (init pl nb na scr v nev) tr = Some s -> terminal F s ->
    SlotEnd ∈ log s /\ (forall k, k < nb + na -> OFinish k ∈ log s) /\ (Dropped ∉ log s -> Ret v ∈ log s).
Proof. exact terminal_released. Qed.

(* pool size 0 (no background runner at all), the future is awaited to completion: the owner's polls alone run the
   operations before the slot, the slot job, and deliver the result *)
Theorem C08_5_await_to_completion_without_pool :
  forall (F : sfacts) (pl : bool) (nb na : nat) (scr : list uprim) (v nev : nat) (tr : list actor) (s : state),
    pl = false -> script_ok nev scr ->
    run F (init pl nb na scr v nev) tr = Some s -> terminal F s -> Dropped ∉ log s ->
    Ret v ∈ log s /\ SlotEnd ∈ log s /\ (forall k, k < nb -> OFinish k ∈ log s).
Proof. exact terminal_alone. Qed.

(* ------------------------------------------------------------------------------------------------------- *)
(* structural facts *)
Theorem C08_s_slot_job_passes_S2_only_when_finished :
  forall (r : runner) (s s' : state),
    queue_step r s = Some s' -> cur s = CSlot QS2 -> cur s' <> CSlot QS2 ->
    cur s' = CSlot QS3 /\ (o_sent (fin s) = true \/ o_txdrop (fin s) = true).
Proof. exact s2_passes_only_when_finished. Qed.

Theorem C08_s_beyond_S2_only_when_finished :
  forall (F : sfacts) (pl : bool) (nb na : nat) (scr : list uprim) (v nev : nat) (tr : list actor) (s : state),
    run F (init pl nb na scr v nev) tr = Some s ->
    (cur s = CSlot QS3 \/ SlotEnd ∈ log s) -> o_sent (fin s) = true \/ o_txdrop (fin s) = true.
Proof. exact beyond_s2_finished. Qed.

Theorem C08_s_fin_sent_only_after_completion_or_in_err_branch :
  forall (F : sfacts) (s : state) (a : actor) (s' : state),
    step F s a = Some s' -> o_sent (fin s) = false -> o_sent (fin s') = true ->
    a = ATask /\ (pc s = PFinSend \/ pc s = PErrSend) /\ txheld s = true /\ step_label s a = Some LFinSend.
Proof. exact fin_sent_only_by. Qed.

Theorem C08_s_fin_sender_dropped_only_by_the_drop :
  forall (F : sfacts) (s : state) (a : actor) (s' : state),
    step F s a = Some s' -> o_txdrop (fin s) = false -> o_txdrop (fin s') = true ->
    a = ATask /\ pc s = PDropFin /\ txheld s = true /\ step_label s a = Some LDrop.
Proof. exact fin_dropped_only_by. Qed.

Theorem C08_s_no_panic_no_err :
  forall (F : sfacts) (pl : bool) (nb na : nat) (scr : list uprim) (v nev : nat) (tr : list actor) (s : state),
    run F (init pl nb na scr v nev) tr = Some s ->
    pc s <> PPanic /\ pc s <> PErrSend /\ pc s <> PErrDropRx /\ RetErr ∉ log s /\
    sf_res (sf s) <> SfErr /\ o_txdrop (ready s) = false.
Proof. exact no_panic_no_err. Qed.

Theorem C08_s_scheduler_future_pending_while_waiting_for_queue :
  forall (F : sfacts) (pl : bool) (nb na : nat) (scr : list uprim) (v nev : nat) (tr : list actor) (s : state),
    run F (init pl nb na scr v nev) tr = Some s ->
    sst s = SWaitQueue -> pc s <> PDropState -> sf_res (sf s) = SfNone.
Proof. exact sf_pending_while_waiting. Qed.

Theorem C08_s_user_future_holds_the_sender :
  forall (F : sfacts) (pl : bool) (nb na : nat) (scr : list uprim) (v nev : nat) (tr : list actor) (s : state),
    run F (init pl nb na scr v nev) tr = Some s ->
    f_state_dropped_first F = true -> sst s = SWaitFuture -> txheld s = true.
Proof. exact user_future_holds_sender. Qed.

Print Assumptions C08_1_runs_only_when_awaited.
Print Assumptions C08_2_only_inside_its_exclusive_slot.
Print Assumptions C08_2_user_future_in_slot_state.
Print Assumptions C08_3_result.
Print Assumptions C08_4_clean_cancellation.
Print Assumptions C08_4_drop_never_blocks.
Print Assumptions C08_4_field_order_needed_refuted.
Print Assumptions C08_5_releases_the_queue.
Print Assumptions C08_5_await_to_completion_without_pool.
Print Assumptions C08_s_slot_job_passes_S2_only_when_finished.
Print Assumptions C08_s_beyond_S2_only_when_finished.
Print Assumptions C08_s_fin_sent_only_after_completion_or_in_err_branch.
Print Assumptions C08_s_fin_sender_dropped_only_by_the_drop.
Print Assumptions C08_s_no_panic_no_err.
Print Assumptions C08_s_scheduler_future_pending_while_waiting_for_queue.
Print Assumptions C08_s_user_future_holds_the_sender.

(* ------------------------------------------------------------------------------------------------------- *)
(* non-vacuity: concrete runs that satisfy the hypotheses (reachable, terminal) with non-trivial logs *)
Definition T (n : nat) : list actor := repeat ATask n.
Definition Q (n : nat) : list actor := repeat AQueue n.

Ltac run_example := eexists; split; [vm_compute; reflexivity|]; split; [apply terminalb_ok; vm_compute; reflexivity|vm_compute; reflexivity].

(* awaited to completion with a background runner; the awaited event fires late (the user future is suspended once) *)
Example ex_await_event_late :
  exists s, run code_facts (init true 1 1 [UTouch; UAwait 0; UTouch] 7 1)
              (T 3 ++ Q 5 ++ T 7 ++ [AEvent 0] ++ T 7 ++ Q 2 ++ T 2 ++ Q 2) = Some s /\ terminal code_facts s /\
    log s = [OStart 0; OFinish 0; SlotStart; UStart; UPoll; UStep; UStep; UPoll; UStep; UStep; UFinish 7;
             SlotEnd; Ret 7; OStart 1; OFinish 1].
Proof. run_example. Qed.

(* awaited to completion with pool size 0; the event fires early (before the user future looks at it) *)
Example ex_await_event_early_no_pool :
  exists s, run code_facts (init false 1 1 [UTouch; UAwait 0; UTouch] 7 1) (T 12 ++ [AEvent 0] ++ T 12) = Some s /\
    terminal code_facts s /\
    log s = [OStart 0; OFinish 0; SlotStart; UStart; UPoll; UStep; UStep; UStep; UFinish 7; SlotEnd; Ret 7].
Proof. run_example. Qed.

(* dropped before it is first polled (the event fires at the end only so that the state is terminal) *)
Example ex_drop_before_first_poll :
  exists s, run code_facts (init true 1 1 [UTouch; UAwait 0] 7 1) ([ADrop; ATask; ATask] ++ Q 8 ++ [AEvent 0]) = Some s /\
    terminal code_facts s /\
    log s = [Dropped; OStart 0; OFinish 0; SlotStart; SlotEnd; OStart 1; OFinish 1].
Proof. run_example. Qed.

(* dropped while it waits for its slot (polled once, the slot job not yet started) *)
Example ex_drop_while_waiting_for_slot :
  exists s, run code_facts (init true 1 1 [UTouch; UAwait 0] 7 1)
              (T 3 ++ Q 2 ++ [ADrop; ATask; ATask] ++ Q 6 ++ [AEvent 0]) = Some s /\ terminal code_facts s /\
    log s = [OStart 0; OFinish 0; Dropped; SlotStart; SlotEnd; OStart 1; OFinish 1].
Proof. run_example. Qed.

(* dropped in the middle of the operation (the user future suspended on an event) *)
Example ex_drop_mid_operation :
  exists s, run code_facts (init true 1 1 [UTouch; UAwait 0] 7 1)
              (Q 5 ++ T 7 ++ [ADrop; ATask; ATask] ++ Q 4 ++ [AEvent 0]) = Some s /\ terminal code_facts s /\
    log s = [OStart 0; OFinish 0; SlotStart; UStart; UPoll; UStep; UStep; Dropped; UCancel; SlotEnd; OStart 1; OFinish 1].
Proof. run_example. Qed.

(* two operations before and two after; the owner's first SchedulerFuture::poll drains the queue on its own thread *)
Example ex_two_operations_around :
  exists s, run code_facts (init true 2 2 [UAwait 0; UTouch] 9 1)
              ([ATask; ADrain] ++ T 16 ++ [AEvent 0] ++ T 7 ++ Q 2 ++ T 2 ++ Q 4) = Some s /\ terminal code_facts s /\
    log s = [OStart 0; OFinish 0; OStart 1; OFinish 1; SlotStart; UStart; UPoll; UStep; UPoll; UStep; UStep; UFinish 9;
             SlotEnd; Ret 9; OStart 2; OFinish 2; OStart 3; OFinish 3].
Proof. run_example. Qed.

(* the scope boundary of (5): with pool size 0 a DROPPED future leaves the queue parked on the slot job (the wake-up of
   the dropped sender reaches a queue that has no runner) - this is why (5) asks for a background runner *)
Example C08_5_pool_needed_when_dropped :
  exists s, run code_facts (init false 1 1 [UAwait 0] 7 1) (T 15 ++ [ADrop; ATask; ATask; AEvent 0]) = Some s /\
    terminal code_facts s /\
    log s = [OStart 0; OFinish 0; SlotStart; UStart; UPoll; UStep; Dropped; UCancel].
Proof. run_example. Qed.

(* the labels of the first example's steps, as the implementation's log would show them *)
Fixpoint labels (F : sfacts) (s : state) (tr : list actor) : list (option label) :=
  match tr with
  | [] => []
  | a :: tr => step_label s a :: match step F s a with Some s' => labels F s' tr | None => [] end
  end.
Example ex_labels :
  labels code_facts (init true 0 0 [UAwait 0] 7 1) (Q 3 ++ T 6 ++ [AEvent 0] ++ T 6 ++ Q 2 ++ T 2) =
  [Some LQueue; Some LReadySend; Some LFinPoll;
   None; Some LSfPoll; Some LReadyPoll; None; None; Some LEvent;
   Some LEvent;
   None; None; Some LEvent; None; Some LFinSend; Some LSfPoll;
   Some LFinPoll; Some LSfSignal;
   None; Some LSfPoll].
Proof. vm_compute. reflexivity. Qed.
