(* SyncFut: the small structural facts the proofs of C08 rest on, as separate statements. *)
From stdpp Require Import list numbers option sets.
From RecordUpdate Require Import RecordUpdate.
From SyncFut Require Import Model Spec Inv QueueStep TaskStep Frame.

(* ---------- structural facts about single steps (any state) ---------- *)

(* the slot job passes S2 only if the completion channel holds a value or its sender is gone *)
Lemma s2_passes_only_when_finished r s s' :
  queue_step r s = Some s' -> s.(cur) = CSlot QS2 -> s'.(cur) <> CSlot QS2 ->
  s'.(cur) = CSlot QS3 /\ (s.(fin).(o_sent) = true \/ s.(fin).(o_txdrop) = true).
Proof.
  intros Hs Hc Hn. destruct_state s. cbn in *. subst cur0. qs_cases Hs; cbn in *; try done; auto.
Qed.

Lemma qs_fin r s s' : queue_step r s = Some s' ->
  s'.(fin).(o_sent) = s.(fin).(o_sent) /\ s'.(fin).(o_txdrop) = s.(fin).(o_txdrop) /\ s'.(txheld) = s.(txheld).
Proof.
  intros Hs. destruct_state s. qs_cases Hs.
  all: try (destruct rwk as [[]|]); try (destruct swk as [[]|]); cbn; done.
Qed.

Lemma task_fin F d s s' : task_step F d s = Some s' ->
  (s'.(fin).(o_sent) = s.(fin).(o_sent) \/
   (s.(fin).(o_sent) = false /\ s.(txheld) = true /\ (s.(pc) = PFinSend \/ s.(pc) = PErrSend))) /\
  (s'.(fin).(o_txdrop) = s.(fin).(o_txdrop) \/
   (s.(fin).(o_txdrop) = false /\ s.(txheld) = true /\ s.(pc) = PDropFin)).
Proof.
  intros Hs. unfold task_step in Hs.
  destruct (pc s) eqn:Epc.
  4: { destruct (queue_step RTask s) as [s1|] eqn:Hq.
       - injection Hs as <-. destruct (qs_fin _ _ _ Hq) as (? & ? & ?). cbn. auto.
       - injection Hs as <-. cbn. auto. }
  all: unfold sf_take, sf_return, sf_set_waker, os_poll, os_send, os_droptx, os_droprx, after_drop_state, after_drop_fin in Hs.
  all: destruct_state s; cbn in *.
  all: step_cases Hs.
  all: try (injection Hs as <-).
  all: try (destruct fwk as [[]|]; cbn).
  all: cbn; split; auto.
  all: try (destruct fsent; auto; fail).
  all: try (destruct ftx; auto; fail).
Qed.

(* `task_finished.send(())` happens only after the user future completed (WaitingForFuture -> WaitingForScheduler)
   or in the Err branch of WaitingForQueue; the sender is dropped unsent only by the drop of the SyncFuture *)
Theorem fin_sent_only_by F s a s' :
  step F s a = Some s' -> s.(fin).(o_sent) = false -> s'.(fin).(o_sent) = true ->
  a = ATask /\ (s.(pc) = PFinSend \/ s.(pc) = PErrSend) /\ s.(txheld) = true /\ step_label s a = Some LFinSend.
Proof.
  intros Hs H0 H1. destruct a; cbn in Hs.
  - destruct (pool s && negb (in_drain (pc s)) && negb (parked s)); [|done].
    destruct (qs_fin _ _ _ Hs) as (? & _). congruence.
  - destruct (task_fin _ _ _ _ Hs) as [[?|(_ & ? & Hpc)] _]; [congruence|].
    split_and!; try done. cbn. unfold task_label. by destruct Hpc as [-> | ->].
  - destruct (is_sf_poll s) eqn:E; [|done].
    destruct (task_fin _ _ _ _ Hs) as [[?|(_ & ? & Hpc)] _]; [congruence|].
    unfold is_sf_poll in E. destruct Hpc as [E'|E']; rewrite E' in E; done.
  - unfold fire in Hs. destruct (evs s !! e) as [c|]; cbn in Hs; [|done]. destruct (fired c); [done|]. injection Hs as <-.
    exfalso. revert H1. generalize (regs c). intros l.
    assert (H : forall s0, fin (foldr wake s0 l) = fin s0) by (induction l as [|[] l IH]; intros s0; cbn; auto).
    rewrite H. cbn. congruence.
  - destruct (pc s); try done; injection Hs as <-; cbn in H1; congruence.
  - injection Hs as <-. cbn in H1. congruence.
  - exfalso. destruct (is_other (cur s)); [|done]. destruct (pc s); repeat case_match; try done; injection Hs as <-; cbn in H1; congruence.
  - exfalso. repeat case_match; try done; injection Hs as <-. destruct w; cbn in H1; congruence.
  - exfalso. repeat case_match; try done; injection Hs as <-. cbn in H1. congruence.
Qed.

Theorem fin_dropped_only_by F s a s' :
  step F s a = Some s' -> s.(fin).(o_txdrop) = false -> s'.(fin).(o_txdrop) = true ->
  a = ATask /\ s.(pc) = PDropFin /\ s.(txheld) = true /\ step_label s a = Some LDrop.
Proof.
  intros Hs H0 H1. destruct a; cbn in Hs.
  - destruct (pool s && negb (in_drain (pc s)) && negb (parked s)); [|done].
    destruct (qs_fin _ _ _ Hs) as (_ & ? & _). congruence.
  - destruct (task_fin _ _ _ _ Hs) as [_ [?|(_ & ? & Hpc)]]; [congruence|].
    split_and!; try done. cbn. unfold task_label. by rewrite Hpc.
  - destruct (is_sf_poll s) eqn:E; [|done].
    destruct (task_fin _ _ _ _ Hs) as [_ [?|(_ & ? & Hpc)]]; [congruence|].
    unfold is_sf_poll in E. rewrite Hpc in E; done.
  - unfold fire in Hs. destruct (evs s !! e) as [c|]; cbn in Hs; [|done]. destruct (fired c); [done|]. injection Hs as <-.
    exfalso. revert H1. generalize (regs c). intros l.
    assert (H : forall s0, fin (foldr wake s0 l) = fin s0) by (induction l as [|[] l IH]; intros s0; cbn; auto).
    rewrite H. cbn. congruence.
  - destruct (pc s); try done; injection Hs as <-; cbn in H1; congruence.
  - injection Hs as <-. cbn in H1. congruence.
  - exfalso. destruct (is_other (cur s)); [|done]. destruct (pc s); repeat case_match; try done; injection Hs as <-; cbn in H1; congruence.
  - exfalso. repeat case_match; try done; injection Hs as <-. destruct w; cbn in H1; congruence.
  - exfalso. repeat case_match; try done; injection Hs as <-. cbn in H1. congruence.
Qed.

(* ---------- structural facts about reachable states ---------- *)
Section Reach.
  Context (F : sfacts) (pl : bool) (nb na : nat) (scr : list uprim) (v nev : nat).
  Notation s0 := (init pl nb na scr v nev).

  (* no panic ("Future result has already been returned"), no Err branch, no Err result *)
  Theorem no_panic_no_err tr s : run F s0 tr = Some s ->
    s.(pc) <> PPanic /\ s.(pc) <> PErrSend /\ s.(pc) <> PErrDropRx /\ RetErr ∉ s.(log) /\
    s.(sf).(sf_res) <> SfErr /\ s.(ready).(o_txdrop) = false.
  Proof.
    intros Hr. pose proof (reachable_inv _ _ _ _ _ _ _ _ _ Hr) as [Hq Hc Hss Hp Hu Hw Hl].
    unfold pc_ok in Hp. split_and!; try (intros E; by rewrite E in Hp).
    - apply Hu.
    - by apply sf_not_err.
    - apply Hc.
  Qed.

  (* while the SyncFuture waits for its slot the scheduler future is never ready: its poll in WaitingForQueue
     cannot consume the result *)
  Theorem sf_pending_while_waiting tr s : run F s0 tr = Some s ->
    s.(sst) = SWaitQueue -> s.(pc) <> PDropState -> s.(sf).(sf_res) = SfNone.
  Proof.
    intros Hr Est Hpc. pose proof (reachable_inv _ _ _ _ _ _ _ _ _ Hr) as [Hq Hc Hss Hp Hu Hw Hl].
    unfold sst_ok in Hss. rewrite Est in Hss. destruct Hss as (_ & [Ht|[? _]] & _); [|done]. by apply held_sf_none.
  Qed.

  (* the slot job is beyond S2 only if the completion channel was served *)
  Theorem beyond_s2_finished tr s : run F s0 tr = Some s ->
    (s.(cur) = CSlot QS3 \/ SlotEnd ∈ s.(log)) -> s.(fin).(o_sent) = true \/ s.(fin).(o_txdrop) = true.
  Proof.
    intros Hr H. pose proof (reachable_inv _ _ _ _ _ _ _ _ _ Hr) as [Hq Hc Hss Hp Hu Hw Hl].
    assert (3 <= phase s) as H3.
    { destruct (qshape_phase _ _ _ Hq) as [(?&?&Hn)|[(p & Hp1 & Hp2 & Hp3 & Hp4)|(?&?)]].
      - destruct H as [H|H]; [by destruct (Hn QS3)|].
        destruct Hq as [i Hi Ho' Hc' G1 G2 G3 G4|p Ho' Hc' G1 G2 G3 G4|j Hj Ho' Hc' G1 G2 G3 G4]; try done.
      - destruct H as [H|H]; [|done]. rewrite H in Hp1. injection Hp1 as <-. lia.
      - lia. }
    pose proof (cells_fin_done _ Hc H3) as Hd. unfold fin_done in Hd. by apply orb_true_iff in Hd.
  Qed.

  (* the key state invariant: while the user future exists (or is being created) and the completion sender is still
     held, the queue is parked on the slot job in S2 -- no other operation is in progress *)
  Theorem user_future_in_slot tr s : run F s0 tr = Some s ->
    (s.(sst) = SWaitFuture \/ s.(pc) = PCreate) -> s.(txheld) = true ->
    s.(cur) = CSlot QS2 /\ SlotStart ∈ s.(log) /\ SlotEnd ∉ s.(log).
  Proof.
    intros Hr H Ht. pose proof (reachable_inv _ _ _ _ _ _ _ _ _ Hr) as [Hq Hc Hss Hp Hu Hw Hl].
    assert (o_sent (ready s) = true) as Hrs.
    { destruct H as [E|E].
      - unfold sst_ok in Hss. rewrite E in Hss. apply Hss.
      - unfold pc_ok in Hp. rewrite E in Hp. apply Hp. }
    destruct (user_in_slot _ _ _ Hq Hc Hrs Ht) as (? & _ & ? & ?). done.
  Qed.

  (* with the code's field order the sender is held as long as the user future exists *)
  Theorem user_future_holds_sender tr s : run F s0 tr = Some s ->
    F.(f_state_dropped_first) = true -> s.(sst) = SWaitFuture -> s.(txheld) = true.
  Proof.
    intros Hr HF Est. pose proof (reachable_inv _ _ _ _ _ _ _ _ _ Hr) as [Hq Hc Hss Hp Hu Hw Hl].
    unfold sst_ok, fo in Hss. rewrite Est in Hss. destruct Hss as (_ & [?|[_ ?]] & _); [done|congruence].
  Qed.
End Reach.
