(* SyncFut: executable model of `Scheduler::future_sync` / `SyncFuture` (src/scheduler/desync_scheduler.rs,
   src/scheduler/sync_future.rs) over an abstract exclusive FIFO queue ("ObjExec").  No proofs in this file.

   What is modelled, and how the steps correspond to the code
   ----------------------------------------------------------
   * ONE call of `future_sync` on ONE object.  Its slot job sits in the object's queue between `nb` operations
     scheduled before it (`Other 0 .. Other (nb-1)`) and `na` operations scheduled after it (`Other nb ..`).
     (Scheduling later operations dynamically is the same as having them in the FIFO from the start: an operation
     behind the head has no influence until it becomes the head.)
   * The queue runs its operations one at a time in FIFO order: `cur` is the operation in progress.  Who runs
     the queue is left open: actor [AQueue] is "some background runner (pool thread / sync caller) performs the next
     atomic step of the queue"; in addition the polling task performs queue steps itself while it is inside
     `SchedulerFuture::poll` -> `drain_queue` (pcs PDrainLoop/PDrainJob/PDrainPend/PDrainWaker).  The only thing
     kept from the queue state machine is the exclusion it provides: while the task drains, no background runner steps
     the queue ([AQueue] is disabled), because that exclusion is what makes `drain_queue`'s
     "take result ... later set waker" sequence free of lost wake-ups.  [pool = false] is "pool size 0": no background
     runner at all, the task's `SchedulerFuture::poll` always drains.
   * Shared cells, each operation one atomic step: oneshot `ready` (queue_ready), oneshot `fin` (done/task_finished),
     the scheduler-future cell `sf`, and the external events the user future awaits.
   * Slot job (`signal_job`): dequeue (ghost SlotStart) ; S1 `queue_ready_send.send(()).ok()` ; S2 one poll of `done_recv`
     (value or dropped sender -> go on; otherwise the runner's waker is stored in the channel and the job is
     suspended: `parked`) ; S3 `send.signal(())` (ghost SlotEnd: the signal is the last shared-memory operation of the
     slot job; the job's completion and the runner's return to its dequeue loop are not separate steps).
   * Owner task T: polls the SyncFuture when woken (`pollable`), one atomic operation per step, following
     `SyncFuture::poll` including `retry`; or drops it between polls ([ADrop], then two [ATask] steps that perform
     the field drops in the order given by [f_state_dropped_first]); [AWake] is a spurious wake-up of T (a parent
     future polling the SyncFuture for unrelated reasons).
   * User future: a script of [uprim]; `create_future()` = UStart, each poll = UPoll then one UStep per primitive,
     completion = UFinish v, destruction before completion = UCancel.

   Steps and the code's atomic operations (for the replay of implementation logs; [step_label])
   * LReadySend  = `queue_ready_send.send(())` (slot job S1)        LReadyPoll = `recv.poll_unpin` (SyncFuture::poll)
   * LFinSend    = `task_finished.take().map(send)`                 LFinPoll   = one poll of `done_recv` (slot job S2)
   * LSfSignal   = `send.signal(())` (slot job S3)                  LSfPoll    = one critical section on the
     SchedulerFutureResult mutex by the poller: the first one of `SchedulerFuture::poll` (take, else set waker), and in
     `drain_queue` the `take()` at the top of the loop (PDrainLoop), the `take()` after a Pending job (PDrainPend) and
     the `waker = Some(..)` assignment (PDrainWaker)
   * LEvent      = an operation on an external event cell (the user future's check-and-register, or the event firing)
   * LDrop       = the drop of the SyncFuture: the decision [ADrop] and the two field drops that touch a channel
   * LQueue      = dequeue of the next job (ghost OStart/SlotStart) and the end of another operation (ghost OFinish)
   * None        = control only (poll begins, `create_future()`, the user future's poll begins / UTouch / completion)
   NOT steps of this model: the critical sections on the JobQueue core mutex other than the dequeue (requeue, state
   changes Idle/Running/WaitingForWake/WaitingForPoll, reschedule_queue), on the DrainWaker/DoubleWaker mutexes and on
   the scheduler core.  They belong to the queue state machine, which is abstracted here.

   Deviations (none of them changes what other parties can observe)
   * The receiver halves are dropped where Rust drops them only when observable: `ready`'s receiver when the
     SyncFuture is dropped in WaitingForQueue, in the Err branch, and (folded into the same step) after
     `Ready(Ok)`/`Ready(Err)`; `done_recv` (dropped by the slot job after it resolved) is not recorded: by then the
     sender is consumed or dropped.
   * In `drain_queue` the job is polled with a fresh `DrainWaker` which is later (`wake_with`) pointed at a
     `DoubleWaker(queue waker, context waker)`.  The model stores [WBoth] directly in `fin` at S2 when the runner is the
     task: a wake that arrives before `wake_with` is remembered by the DrainWaker (state Woken) and delivered by `wake_with`,
     so the net effect is the same, only later; T is inside its poll at that time so it will be polled again.
   * The task may enter `drain_queue` in any state of the queue (the code: only when the queue is Idle, Pending or
     WaitingForPoll(own id)); it then continues whatever operation is in progress.  This only adds behaviours.
   * `drop(scheduler_future)` has no step (its Drop is empty).  `send.signal(())` consumes the signaller, whose Drop locks the
     result cell once more (and does nothing, the result being set): that second section is not a step.
   * Other operations take two steps (start, finish); between them they may suspend ([AOSusp]: the operation is a future that
     returns Pending and keeps the waker of its runner's context - the queue waker, or both wakers of drain_queue's
     DoubleWaker when the runner is the draining task, which then leaves drain_queue exactly as for a pending slot job)
     and are resumed by [AOWake].  [AWakeQ]: a pool thread takes the parked queue from a stale schedule entry (state
     WaitingForPoll is taken like Pending) and polls the suspended job again without any wake-up.
   * UFinish stands for "the user future returned Ready and everything it owned is destroyed".  This is what
     `Desync::future_sync` provides (its future is `async { job.await }`, which drops `job` when it completes); the
     boxed, completed future object itself is dropped by `SyncFuture::poll` only at the end of the match arm, i.e. AFTER
     `task_finished.send(())` - harmless for a completed `async` block, but a hand-written future passed directly to
     `Scheduler::future_sync` that still owns something after returning Ready would release it outside the slot.
   * The `Err` results (`queue_ready` sender dropped, scheduler future cancelled) are in the step function for the
     replay, but nothing in the model destroys the slot job, so they are unreachable (proved: [RetErr] never logged).
   * [f_state_dropped_first] is transcribed by hand from the declaration order of `struct SyncFuture`
     (`state`, `scheduler_future`, `task_finished`); it should be produced by the translator.
*)
From stdpp Require Import list numbers option.
From RecordUpdate Require Import RecordUpdate.

(* ---------- facts read from the source ---------- *)
Record sfacts := {
  f_state_dropped_first : bool;   (* struct SyncFuture declares `state` before `task_finished` *)
}.
Definition code_facts : sfacts := {| f_state_dropped_first := true |}.
Definition swapped_facts : sfacts := {| f_state_dropped_first := false |}.

(* ---------- vocabulary ---------- *)
Inductive waker := WTask | WQueue | WBoth.
Inductive runner := RPool | RTask.
Definition runner_waker (r : runner) : waker := match r with RPool => WQueue | RTask => WBoth end.

Record oneshot := { o_sent : bool; o_txdrop : bool; o_rxdrop : bool; o_waker : option waker }.
#[export] Instance eta_oneshot : Settable _ := settable! Build_oneshot <o_sent; o_txdrop; o_rxdrop; o_waker>.
Definition os_new : oneshot := {| o_sent := false; o_txdrop := false; o_rxdrop := false; o_waker := None |}.

Inductive pollres := PRok | PRerr | PRpending.
(* `Sender::send` (consumes the sender, whose drop wakes the receiver); Err when the receiver is gone *)
Definition os_send (c : oneshot) : oneshot * option waker :=
  if c.(o_rxdrop) then (c, None) else (c <| o_sent := true |> <| o_waker := None |>, c.(o_waker)).
(* drop of a sender that never sent *)
Definition os_droptx (c : oneshot) : oneshot * option waker :=
  (c <| o_txdrop := true |> <| o_waker := None |>, c.(o_waker)).
(* `Receiver::poll` *)
Definition os_poll (w : waker) (c : oneshot) : oneshot * pollres :=
  if c.(o_sent) then (c, PRok)
  else if c.(o_txdrop) then (c, PRerr)
  else (c <| o_waker := Some w |>, PRpending).
Definition os_droprx (c : oneshot) : oneshot := c <| o_rxdrop := true |> <| o_waker := None |>.

Inductive sfres := SfNone | SfOk | SfErr | SfReturned.
Record sfcell := { sf_res : sfres; sf_waker : option waker }.
#[export] Instance eta_sfcell : Settable _ := settable! Build_sfcell <sf_res; sf_waker>.

Record evcell := { fired : bool; regs : list waker }.
#[export] Instance eta_evcell : Settable _ := settable! Build_evcell <fired; regs>.

Inductive uprim := UTouch | UAwait (e : nat).
Inductive qop := Slot | Other (k : nat).
Inductive spc := QS1 | QS2 | QS3.
Inductive qcur := CNone | COther (k : nat) | CSlot (p : spc).

Inductive sstate := SWaitQueue | SWaitFuture | SWaitSched (v : nat) | SCompleted.

Inductive tpc :=
| PIdle                       (* not inside a poll *)
| PLoop                       (* top of the `loop` in SyncFuture::poll: dispatch on the state *)
| PDrainLoop | PDrainJob | PDrainPend | PDrainWaker   (* SchedulerFuture::drain_queue *)
| PReadyPoll                  (* recv.poll_unpin *)
| PCreate                     (* create_future() *)
| PUser                       (* inside future.poll_unpin *)
| PFinSend                    (* task_finished.take().map(send) after the user future completed *)
| PErrSend | PErrDropRx       (* Err branch of WaitingForQueue *)
| PDone                       (* the poll returned Ready; T still holds the (Completed) SyncFuture *)
| PDropState | PDropFin       (* field drops *)
| PGone                       (* SyncFuture destroyed *)
| PPanic.                     (* "Future result has already been returned" *)

Inductive ev :=
| OStart (k : nat) | OFinish (k : nat) | SlotStart | SlotEnd
| UStart | UPoll | UStep | UFinish (v : nat) | UCancel
| Ret (v : nat) | RetErr | Dropped.

Inductive actor := AQueue | ATask | ADrain | AEvent (e : nat) | ADrop | AWake | AOSusp | AOWake | AWakeQ.

Inductive label := LReadySend | LReadyPoll | LFinSend | LFinPoll | LSfPoll | LSfSignal | LEvent | LDrop | LQueue.

#[export] Instance waker_eq_dec : EqDecision waker. Proof. solve_decision. Defined.
#[export] Instance uprim_eq_dec : EqDecision uprim. Proof. solve_decision. Defined.
#[export] Instance qop_eq_dec : EqDecision qop. Proof. solve_decision. Defined.
#[export] Instance spc_eq_dec : EqDecision spc. Proof. solve_decision. Defined.
#[export] Instance qcur_eq_dec : EqDecision qcur. Proof. solve_decision. Defined.
#[export] Instance sstate_eq_dec : EqDecision sstate. Proof. solve_decision. Defined.
#[export] Instance tpc_eq_dec : EqDecision tpc. Proof. solve_decision. Defined.
#[export] Instance ev_eq_dec : EqDecision ev. Proof. solve_decision. Defined.
#[export] Instance actor_eq_dec : EqDecision actor. Proof. solve_decision. Defined.
#[export] Instance label_eq_dec : EqDecision label. Proof. solve_decision. Defined.

(* ---------- state ---------- *)
Record state := {
  (* the object's queue *)
  opq : list qop;            (* pending operations, FIFO *)
  cur : qcur;                (* operation in progress *)
  parked : bool;             (* the operation in progress (the slot job in S2, or another operation) is suspended and has not been woken *)
  owk : option waker;        (* the waker held by whatever a suspended other operation waits for *)
  pool : bool;               (* there is a background runner (pool size >= 1) *)
  (* shared cells *)
  ready : oneshot;           (* queue_ready *)
  fin : oneshot;             (* done / task_finished *)
  sf : sfcell;               (* SchedulerFutureResult *)
  evs : list evcell;         (* external events awaited by the user future *)
  (* the SyncFuture and its owner task *)
  sst : sstate;
  txheld : bool;             (* task_finished is Some *)
  uscr : list uprim;         (* rest of the user future *)
  uval : nat;                (* the user future's value *)
  pc : tpc;
  pollable : bool;           (* T has been woken since its last poll began *)
  (* ghost *)
  log : list ev;
}.
#[export] Instance eta_state : Settable _ :=
  settable! Build_state <opq; cur; parked; owk; pool; ready; fin; sf; evs; sst; txheld; uscr; uval; pc; pollable; log>.

Definition emit (e : ev) (s : state) : state := s <| log := s.(log) ++ [e] |>.

(* waking: the task waker makes T pollable, the queue waker makes the suspended slot job runnable again;
   a wake for something that no longer exists has no effect on anything that is looked at *)
Definition wake (w : waker) (s : state) : state :=
  match w with
  | WTask => s <| pollable := true |>
  | WQueue => s <| parked := false |>
  | WBoth => s <| parked := false |> <| pollable := true |>
  end.
Definition wake_opt (w : option waker) (s : state) : state :=
  match w with Some w => wake w s | None => s end.

(* ---------- the queue ---------- *)
Definition queue_step (r : runner) (s : state) : option state :=
  match s.(cur) with
  | CNone =>
      match s.(opq) with
      | [] => None
      | Slot :: q => Some (emit SlotStart (s <| opq := q |> <| cur := CSlot QS1 |>))
      | Other k :: q => Some (emit (OStart k) (s <| opq := q |> <| cur := COther k |>))
      end
  | COther k => Some (emit (OFinish k) (s <| cur := CNone |> <| parked := false |> <| owk := None |>))
  | CSlot QS1 =>
      let '(c, w) := os_send s.(ready) in
      Some (wake_opt w (s <| ready := c |> <| cur := CSlot QS2 |>))
  | CSlot QS2 =>
      let '(c, r') := os_poll (runner_waker r) s.(fin) in
      match r' with
      | PRpending => Some (s <| fin := c |> <| parked := true |>)
      | _ => Some (s <| fin := c |> <| parked := false |> <| cur := CSlot QS3 |>)
      end
  | CSlot QS3 =>
      Some (wake_opt s.(sf).(sf_waker)
              (emit SlotEnd (s <| sf := {| sf_res := SfOk; sf_waker := None |} |> <| cur := CNone |>)))
  end.

Definition queue_label (s : state) : option label :=
  match s.(cur) with
  | CNone => match s.(opq) with [] => None | _ => Some LQueue end
  | COther _ => Some LQueue
  | CSlot QS1 => Some LReadySend
  | CSlot QS2 => Some LFinPoll
  | CSlot QS3 => Some LSfSignal
  end.

(* ---------- the owner task ---------- *)
Definition is_other (c : qcur) : bool := match c with COther _ => true | _ => false end.
Definition in_drain (p : tpc) : bool :=
  match p with PDrainLoop | PDrainJob | PDrainPend | PDrainWaker => true | _ => false end.
Definition in_poll (p : tpc) : bool :=
  match p with
  | PLoop | PDrainLoop | PDrainJob | PDrainPend | PDrainWaker | PReadyPoll | PCreate | PUser | PFinSend | PErrSend | PErrDropRx => true
  | _ => false end.
Definition dropped (p : tpc) : bool :=
  match p with PDropState | PDropFin | PGone => true | _ => false end.

Inductive sfret := RPending | ROk | RErr.

(* `self.scheduler_future.poll_unpin(context)` has returned [r]: continue in SyncFuture::poll *)
Definition sf_return (r : sfret) (s : state) : state :=
  match s.(sst) with
  | SWaitQueue => match r with RErr => s <| pc := PErrSend |> | _ => s <| pc := PReadyPoll |> end
  | SWaitSched v => match r with
                    | RPending => s <| pc := PIdle |>
                    | _ => emit (Ret v) (s <| sst := SCompleted |> <| pc := PDone |>)
                    end
  | _ => s <| pc := PPanic |>
  end.

(* `future_result.result.take()` under the result lock; [k] is what happens (same critical section) when it is None *)
Definition sf_take (s : state) (k : state -> state) : state :=
  match s.(sf).(sf_res) with
  | SfOk => sf_return ROk (s <| sf := s.(sf) <| sf_res := SfReturned |> |>)
  | SfErr => sf_return RErr (s <| sf := s.(sf) <| sf_res := SfReturned |> |>)
  | SfReturned => s <| pc := PPanic |>
  | SfNone => k s
  end.
Definition sf_set_waker (s : state) : state := s <| sf := s.(sf) <| sf_waker := Some WTask |> |>.

Definition after_drop_state (F : sfacts) : tpc := if F.(f_state_dropped_first) then PDropFin else PGone.
Definition after_drop_fin (F : sfacts) : tpc := if F.(f_state_dropped_first) then PGone else PDropState.

(* [drain]: SchedulerFuture::poll finds the queue claimable and drains it on this thread *)
Definition task_step (F : sfacts) (drain : bool) (s : state) : option state :=
  match s.(pc) with
  | PIdle => if s.(pollable) then Some (s <| pollable := false |> <| pc := PLoop |>) else None
  | PLoop =>
      match s.(sst) with
      | SWaitQueue | SWaitSched _ =>
          Some (sf_take s (fun s => if drain then s <| pc := PDrainLoop |> else sf_return RPending (sf_set_waker s)))
      | SWaitFuture => Some (emit UPoll (s <| pc := PUser |>))
      | SCompleted => Some (emit RetErr (s <| pc := PDone |>))
      end
  | PDrainLoop => Some (sf_take s (fun s => s <| pc := PDrainJob |>))
  | PDrainJob =>
      match queue_step RTask s with
      | Some s' =>
          Some (s' <| pc := match s'.(cur) with
                             | CNone => PDrainLoop
                             | CSlot QS2 => if s'.(parked) then PDrainPend else PDrainJob
                             | _ => PDrainJob
                             end |>)
      | None => Some (s <| pc := PDrainWaker |>)
      end
  | PDrainPend => Some (sf_take s (fun s => s <| pc := PDrainWaker |>))
  | PDrainWaker => Some (sf_return RPending (sf_set_waker s))
  | PReadyPoll =>
      let '(c, r) := os_poll WTask s.(ready) in
      match r with
      | PRok => Some (s <| pc := PCreate |>)
      | PRerr => Some (emit RetErr (s <| ready := os_droprx c |> <| sst := SCompleted |> <| pc := PDone |>))
      | PRpending => Some (s <| ready := c |> <| pc := PIdle |>)
      end
  | PCreate => Some (emit UStart (s <| ready := os_droprx s.(ready) |> <| sst := SWaitFuture |> <| pc := PLoop |>))
  | PUser =>
      match s.(uscr) with
      | [] => Some (emit (UFinish s.(uval)) (s <| pc := PFinSend |>))
      | UTouch :: r => Some (emit UStep (s <| uscr := r |>))
      | UAwait e :: r =>
          match s.(evs) !! e with
          | Some c => if c.(fired) then Some (emit UStep (s <| uscr := r |>))
                      else Some (emit UStep (s <| evs := <[ e := c <| regs := WTask :: c.(regs) |> ]> s.(evs) |> <| pc := PIdle |>))
          | None => Some (emit UStep (s <| pc := PIdle |>))
          end
      end
  | PFinSend =>
      let s1 := if s.(txheld) then let '(c, w) := os_send s.(fin) in wake_opt w (s <| fin := c |> <| txheld := false |>) else s in
      Some (s1 <| sst := SWaitSched s.(uval) |> <| pc := PLoop |>)
  | PErrSend =>
      let s1 := if s.(txheld) then let '(c, w) := os_send s.(fin) in wake_opt w (s <| fin := c |> <| txheld := false |>) else s in
      Some (s1 <| pc := PErrDropRx |>)
  | PErrDropRx => Some (emit RetErr (s <| ready := os_droprx s.(ready) |> <| sst := SCompleted |> <| pc := PDone |>))
  | PDone => None
  | PDropState =>
      let s1 := match s.(sst) with
                | SWaitQueue => s <| ready := os_droprx s.(ready) |>
                | SWaitFuture => emit UCancel s
                | _ => s
                end in
      Some (s1 <| sst := SCompleted |> <| pc := after_drop_state F |>)
  | PDropFin =>
      let s1 := if s.(txheld) then let '(c, w) := os_droptx s.(fin) in wake_opt w (s <| fin := c |> <| txheld := false |>) else s in
      Some (s1 <| pc := after_drop_fin F |>)
  | PGone => None
  | PPanic => None
  end.

Definition is_sf_poll (s : state) : bool :=
  match s.(pc), s.(sst) with
  | PLoop, (SWaitQueue | SWaitSched _) => true
  | _, _ => false
  end.

Definition fire (e : nat) (s : state) : option state :=
  c ← s.(evs) !! e;
  if c.(fired) then None
  else Some (foldr wake (s <| evs := <[ e := {| fired := true; regs := [] |} ]> s.(evs) |>) c.(regs)).

Definition step (F : sfacts) (s : state) (a : actor) : option state :=
  match a with
  | AQueue => if s.(pool) && negb (in_drain s.(pc)) && negb s.(parked) then queue_step RPool s else None
  | ATask => task_step F (negb s.(pool)) s
  | ADrain => if is_sf_poll s then task_step F true s else None
  | AEvent e => fire e s
  | ADrop => match s.(pc) with
             | PIdle | PDone => Some (emit Dropped (s <| pc := if F.(f_state_dropped_first) then PDropState else PDropFin |>))
             | _ => None
             end
  | AWake => Some (s <| pollable := true |>)
  | AOSusp =>
      (* the other operation in progress is a future and returns Pending: it keeps the waker of its runner's context *)
      if is_other s.(cur) then
        match s.(pc) with
        | PDrainJob => Some (s <| parked := true |> <| owk := Some WBoth |> <| pc := PDrainPend |>)
        | _ => if s.(pool) && negb (in_drain s.(pc)) && negb s.(parked) then Some (s <| parked := true |> <| owk := Some WQueue |>) else None
        end
      else None
  | AOWake =>
      (* what the suspended other operation waits for happens; while the task is still leaving drain_queue the DrainWaker
         only remembers the wake-up and delivers it in wake_with, i.e. afterwards *)
      if is_other s.(cur) && s.(parked) && negb (in_drain s.(pc)) then
        match s.(owk) with Some w => Some (wake w (s <| owk := None |>)) | None => None end
      else None
  | AWakeQ =>
      (* a background runner picks the parked queue up without a wake-up (a stale entry of the schedule) and polls again *)
      if s.(pool) && negb (in_drain s.(pc)) && s.(parked) then Some (s <| parked := false |>) else None
  end.

Definition run (F : sfacts) (s : state) (tr : list actor) : option state :=
  foldl (fun os a => o ← os; step F o a) (Some s) tr.

(* what a step corresponds to in the code; None = no shared-memory operation (control only) *)
Definition task_label (s : state) : option label :=
  match s.(pc) with
  | PLoop => match s.(sst) with SWaitQueue | SWaitSched _ => Some LSfPoll | _ => None end
  | PDrainLoop | PDrainPend | PDrainWaker => Some LSfPoll
  | PDrainJob => queue_label s
  | PReadyPoll => Some LReadyPoll
  | PUser => match s.(uscr) with UAwait _ :: _ => Some LEvent | _ => None end
  | PFinSend | PErrSend => Some LFinSend
  | PErrDropRx => Some LDrop
  | PDropState | PDropFin => Some LDrop
  | _ => None
  end.
Definition step_label (s : state) (a : actor) : option label :=
  match a with
  | AQueue => queue_label s
  | ATask | ADrain => task_label s
  | AEvent _ => Some LEvent
  | ADrop => Some LDrop
  | AWake | AOSusp | AOWake | AWakeQ => None
  end.

(* ---------- initial states ---------- *)
Definition full_queue (nb na : nat) : list qop := (Other <$> seq 0 nb) ++ Slot :: (Other <$> seq nb na).

Definition init (pl : bool) (nb na : nat) (scr : list uprim) (v : nat) (nev : nat) : state :=
  {| opq := full_queue nb na; cur := CNone; parked := false; owk := None; pool := pl;
     ready := os_new; fin := os_new; sf := {| sf_res := SfNone; sf_waker := None |};
     evs := replicate nev {| fired := false; regs := [] |};
     sst := SWaitQueue; txheld := true; uscr := scr; uval := v; pc := PIdle; pollable := true;
     log := [] |}.

(* every event the script awaits exists *)
Definition script_ok (nev : nat) (scr : list uprim) : Prop := forall e, UAwait e ∈ scr -> e < nev.

(* no actor of the system proper can move (the environment's free choices ADrop, AWake, AOSusp, AWakeQ are not counted;
   AOWake is: whatever a suspended other operation waits for eventually happens) *)
Definition terminal (F : sfacts) (s : state) : Prop :=
  step F s AQueue = None /\ step F s ATask = None /\ step F s ADrain = None /\ step F s AOWake = None /\ forall e, step F s (AEvent e) = None.

(* a computable sufficient check, for the examples *)
Definition is_none {A} (o : option A) : bool := match o with None => true | Some _ => false end.
Definition terminalb (F : sfacts) (s : state) : bool :=
  is_none (step F s AQueue) && is_none (step F s ATask) && is_none (step F s ADrain) && is_none (step F s AOWake) && forallb fired s.(evs).

(* log vocabulary used by the statements *)
Definition in_slot (l : list ev) : Prop := SlotStart ∈ l /\ SlotEnd ∉ l.
Definition user_alive (l : list ev) : Prop := UStart ∈ l /\ UCancel ∉ l /\ forall v, UFinish v ∉ l.
Definition is_user_ev (e : ev) : bool := match e with UStart | UPoll | UStep | UFinish _ => true | _ => false end.
Definition is_other_ev (e : ev) : bool := match e with OStart _ | OFinish _ => true | _ => false end.

(* [log_ok P l]: every event of [l] satisfies [P] with respect to the events before it *)
Definition log_ok (P : list ev -> ev -> Prop) (l : list ev) : Prop :=
  forall l1 e l2, l = l1 ++ e :: l2 -> P l1 e.
