(* SyncFut: (5) the queue is released - every reachable terminal state is complete. *)
From stdpp Require Import list numbers option sets.
From RecordUpdate Require Import RecordUpdate.
From SyncFut Require Import Model Spec Inv QueueStep TaskStep Frame Safety.

(* ---------- what "no actor can move" means ---------- *)
Lemma task_step_none F d s : task_step F d s = None ->
  (s.(pc) = PIdle /\ s.(pollable) = false) \/ s.(pc) = PDone \/ s.(pc) = PGone \/ s.(pc) = PPanic.
Proof.
  unfold task_step. destruct (pc s) eqn:Epc; try (intros; auto; fail).
  all: try (intros H; exfalso; revert H; repeat case_match; done).
  destruct (pollable s); [done|auto].
Qed.

Lemma fire_none s : (forall e, fire e s = None) -> forall e c, s.(evs) !! e = Some c -> c.(fired) = true.
Proof. intros H e c Hc. specialize (H e). unfold fire in H. rewrite Hc in H. cbn in H. by destruct (fired c). Qed.

Lemma qs_none r s : queue_step r s = None -> s.(cur) = CNone /\ s.(opq) = [].
Proof. unfold queue_step. repeat case_match; done. Qed.

Lemma qshape_drained nb na s : qshape nb na s -> s.(cur) = CNone -> s.(opq) = [] ->
  phase s = 4 /\ SlotEnd ∈ s.(log) /\ forall k, k < nb + na -> OFinish k ∈ s.(log).
Proof.
  intros Hq Hc Ho. pose proof (qshape_phase _ _ _ Hq) as Hph.
  destruct Hq as [i Hi Ho' Hc' H1 H2 H3 H4|p Ho' Hc' H1 H2 H3 H4|j Hj Ho' Hc' H1 H2 H3 H4].
  - rewrite Ho in Ho'. by destruct (seq i (nb - i)).
  - congruence.
  - rewrite Ho in Ho'. assert (j = nb + na) as ->.
    { destruct (decide (j = nb + na)); [done|]. rewrite (seq_head j) in Ho' by lia. done. }
    split_and!; try done.
    + destruct Hph as [(?&?&?)|[(p & ? & ?)|(?&?)]]; [done|congruence|done].
    + intros k Hk. apply H2. split; [done|congruence].
Qed.

Lemma qshape_ended nb na s : qshape nb na s -> SlotEnd ∈ s.(log) ->
  phase s = 4 /\ forall k, k < nb -> OFinish k ∈ s.(log).
Proof.
  intros Hq He. pose proof (qshape_phase _ _ _ Hq) as Hph.
  destruct Hq as [i Hi Ho' Hc' H1 H2 H3 H4|p Ho' Hc' H1 H2 H3 H4|j Hj Ho' Hc' H1 H2 H3 H4]; try done.
  split.
  - destruct Hph as [(?&?&?)|[(p & ? & ? & ? & ?)|(?&?)]]; done.
  - intros k Hk. apply H2. split; [lia|]. destruct Hc' as [->|(j' & ? & ? & ->)]; [done|]. intros [= ->]. lia.
Qed.

Lemma terminalb_ok F s : terminalb F s = true -> terminal F s.
Proof.
  unfold terminalb, terminal. rewrite !andb_true_iff. intros [[[[H1 H2] H3] H5] H4].
  split_and!.
  - by destruct (step F s AQueue).
  - by destruct (step F s ATask).
  - by destruct (step F s ADrain).
  - by destruct (step F s AOWake).
  - intros e. cbn. unfold fire. destruct (evs s !! e) as [c|] eqn:E; cbn; [|done].
    rewrite forallb_forall in H4. rewrite (H4 c); [done|]. apply elem_of_list_In. by eapply elem_of_list_lookup_2.
Qed.

(* a suspended other operation can be resumed: not in a terminal state *)
Lemma no_parked_other F s : cells_ok s -> step F s AOWake = None -> in_drain s.(pc) = false -> s.(parked) = true -> is_other s.(cur) = false.
Proof.
  intros Hc Hs Hd Hp. destruct (is_other (cur s)) eqn:Ho; [|done]. exfalso. cbn in Hs. rewrite Ho, Hp, Hd in Hs. cbn in Hs.
  destruct (owk s) eqn:E; [done|]. by apply (proj2 (c_owk _ Hc)).
Qed.

Section Live.
  Context (F : sfacts) (pl : bool) (nb na : nat) (scr : list uprim) (v nev : nat).
  Notation s0 := (init pl nb na scr v nev).

  (* an owner that is idle, not woken, and has not dropped the future, in a state where every event has fired:
     it is not waiting for its slot with the slot reached, not waiting for the user future, not waiting for a signalled
     scheduler future -- it has its result *)
  Lemma idle_owner_done tr s :
    script_ok nev scr -> run F s0 tr = Some s -> (forall e, fire e s = None) -> step F s AOWake = None ->
    s.(pc) = PIdle -> s.(pollable) = false ->
    (s.(sst) = SWaitQueue /\ s.(ready).(o_sent) = false /\ s.(pool) = true /\ s.(txheld) = true) \/
    (exists x, s.(sst) = SWaitSched x /\ s.(sf).(sf_res) = SfNone /\ s.(pool) = true /\ s.(txheld) = false).
  Proof.
    intros Hscr Hr Hfire Hwk Epc Epl.
    pose proof (reachable_inv _ _ _ _ _ _ _ _ _ Hr) as [Hq Hc Hss Hp Hu Hw Hl].
    destruct (run_frame _ _ _ _ _ _ _ _ _ Hr) as (_ & _ & Hev & _). specialize (Hev Hscr).
    unfold wait_ok in Hw. destruct (Hw Epc) as [?|Hwait]; [congruence|].
    unfold sst_ok in Hss. rewrite Epc in Hss.
    destruct (sst s) eqn:Est.
    - left. destruct Hwait as (_ & ? & [?|(Hpk & Ho & _)]); [destruct Hss as (_ & [?|[? _]] & _); done|].
      rewrite (no_parked_other F s Hc Hwk) in Ho; [done|by rewrite Epc|done].
    - exfalso. destruct Hwait as (e & r & Hscr' & [Hnone|(c & Hc' & Hf & _)]).
      + assert (e < length (evs s)) as He by (apply Hev; rewrite Hscr'; by left).
        apply lookup_lt_is_Some_2 in He as [? ?]. congruence.
      + pose proof (fire_none _ Hfire _ _ Hc'). congruence.
    - right. exists v0. destruct Hwait as (? & _ & ?). destruct Hss as (_ & _ & ? & _). done.
    - done.
  Qed.

  (* (5) with a background runner *)
  Theorem terminal_released tr s :
    pl = true -> script_ok nev scr -> run F s0 tr = Some s -> terminal F s ->
    SlotEnd ∈ s.(log) /\ (forall k, k < nb + na -> OFinish k ∈ s.(log)) /\ (Dropped ∉ s.(log) -> Ret v ∈ s.(log)).
  Proof.
    intros Hpl Hscr Hr (Tq & Tt & _ & To & Te).
    pose proof (reachable_inv _ _ _ _ _ _ _ _ _ Hr) as [Hq Hc Hss Hp Hu Hw Hl].
    destruct (run_frame _ _ _ _ _ _ _ _ _ Hr) as (Hpool & Huv & _ & _). rewrite Hpl in Hpool.
    cbn in Tt. destruct (task_step_none _ _ _ Tt) as [[Epc Epl]|Hpc].
    2: assert (Hnd : in_drain (pc s) = false) by (destruct Hpc as [->|[->| ->]]; done).
    1: assert (Hnd : in_drain (pc s) = false) by (by rewrite Epc).
    all: cbn in Tq; rewrite Hpool, Hnd in Tq; cbn in Tq.
    all: assert (Hnp : parked s = false).
    1,3: destruct (parked s) eqn:Epk; [exfalso|done]; destruct (cells_parked _ Hc Epk) as [Ho|(Hph & Hfd & _)]; [by rewrite (no_parked_other F s Hc To Hnd Epk) in Ho|].
    - (* idle owner while the slot job is parked in S2 *)
      destruct (idle_owner_done _ _ Hscr Hr Te To Epc Epl) as [(Est & Hrs & _ & _)|(x & Est & _ & _ & Htx)].
      + destruct (cells_ready_done _ Hc) as [?|Hrx]; [lia|congruence|].
        unfold sst_ok in Hss. rewrite Est in Hss. destruct Hss as (? & _). congruence.
      + rewrite (c_tx _ Hc), Hfd in Htx. done.
    - (* the owner is done or gone while the slot job is parked in S2 *)
      assert (Htx : txheld s = true) by (by rewrite (c_tx _ Hc), Hfd).
      unfold pc_ok in Hp. destruct Hpc as [Epc|[Epc|Epc]]; rewrite Epc in Hp; [|destruct Hp; congruence|done].
      destruct Hu as (_ & _ & Hu). rewrite Hp in Hu. destruct Hu as [_ Hu]. specialize (Hu Epc).
      destruct (log_ok_elem _ _ _ Hl Hu) as (l1 & l2 & El & _ & _ & (_ & He & _) & _).
      destruct (qshape_ended _ _ _ Hq) as [? _]; [|lia]. rewrite El. apply elem_of_app. by left.
    - rewrite Hnp in Tq. cbn in Tq. destruct (qs_none _ _ Tq) as [Ecur Eopq].
      destruct (qshape_drained _ _ _ Hq Ecur Eopq) as (Hph & Hend & Hall). split_and!; try done.
      intros _. exfalso.
      destruct (idle_owner_done _ _ Hscr Hr Te To Epc Epl) as [(Est & Hrs & _ & _)|(x & Est & Hres & _ & _)].
      + destruct (cells_ready_done _ Hc) as [?|Hrx]; [lia|congruence|].
        unfold sst_ok in Hss. rewrite Est in Hss. destruct Hss as (? & _). congruence.
      + destruct (cells_sf_some _ Hc); [lia|congruence|congruence].
    - rewrite Hnp in Tq. cbn in Tq. destruct (qs_none _ _ Tq) as [Ecur Eopq].
      destruct (qshape_drained _ _ _ Hq Ecur Eopq) as (Hph & Hend & Hall). split_and!; try done.
      intros Hnd'. destruct Hu as (Hu1 & _ & Hu). unfold pc_ok in Hp.
      destruct Hpc as [Epc|[Epc|Epc]]; rewrite Epc in Hp, Hu1.
      + rewrite Hp in Hu. destruct Hu as [_ Hu]. rewrite <- Huv. by apply Hu.
      + exfalso. apply Hnd'. by apply Hu1.
      + done.
  Qed.

  (* (5) pool size 0: the owner's polls are the only runner of the queue; if it never drops the future it gets its result *)
  Theorem terminal_alone tr s :
    pl = false -> script_ok nev scr -> run F s0 tr = Some s -> terminal F s -> Dropped ∉ s.(log) ->
    Ret v ∈ s.(log) /\ SlotEnd ∈ s.(log) /\ (forall k, k < nb -> OFinish k ∈ s.(log)).
  Proof.
    intros Hpl Hscr Hr (_ & Tt & _ & To & Te) Hnd.
    pose proof (reachable_inv _ _ _ _ _ _ _ _ _ Hr) as [Hq Hc Hss Hp Hu Hw Hl].
    destruct (run_frame _ _ _ _ _ _ _ _ _ Hr) as (Hpool & Huv & _ & _). rewrite Hpl in Hpool.
    cbn in Tt. destruct Hu as (Hu1 & _ & Hu). unfold pc_ok in Hp.
    assert (Hret : Ret v ∈ log s).
    { destruct (task_step_none _ _ _ Tt) as [[Epc Epl]|[Epc|[Epc|Epc]]].
      - exfalso. destruct (idle_owner_done _ _ Hscr Hr Te To Epc Epl) as [(_ & _ & ? & _)|(x & _ & _ & ? & _)]; congruence.
      - rewrite Epc in Hp. rewrite Hp in Hu. destruct Hu as [_ Hu]. rewrite <- Huv. by apply Hu.
      - exfalso. apply Hnd. apply Hu1. by rewrite Epc.
      - by rewrite Epc in Hp. }
    split; [done|].
    destruct (log_ok_elem _ _ _ Hl Hret) as (l1 & l2 & El & _ & _ & (_ & He & _) & _).
    assert (Hend : SlotEnd ∈ log s) by (rewrite El; apply elem_of_app; by left).
    split; [done|]. by destruct (qshape_ended _ _ _ Hq Hend).
  Qed.
End Live.
