(* SyncFut: the per-event conditions that make up property C08 (definitions only).
   [log_ok P l] (Model.v) says every event [e] of the ghost log satisfies [P l1 e] where [l1] is the log before [e]. *)
From stdpp Require Import list numbers option.
From SyncFut Require Import Model.

(* (2) the user future runs only inside the exclusive slot *)
Definition P_slot (l : list ev) (e : ev) : Prop :=
  match e with
  | UStart | UPoll | UStep | UFinish _ => in_slot l
  | OStart _ | OFinish _ => ~ in_slot l
  | SlotStart => SlotStart ∉ l
  | SlotEnd => SlotStart ∈ l /\ SlotEnd ∉ l
  | _ => True
  end.

(* (2) queue order around the slot: operations run one at a time in FIFO order, those scheduled before the slot
   job ([k < nb]) have finished when the slot starts, those scheduled after start only after the slot ended *)
Definition P_order (nb : nat) (l : list ev) (e : ev) : Prop :=
  match e with
  | SlotStart => forall k, k < nb -> OFinish k ∈ l
  | OStart k => OStart k ∉ l /\ (forall j, j < k -> OFinish j ∈ l) /\ (nb <= k -> SlotEnd ∈ l)
  | OFinish k => OStart k ∈ l /\ OFinish k ∉ l /\ (k < nb -> SlotStart ∉ l)
  | _ => True
  end.

(* (3) result *)
Definition P_result (l : list ev) (e : ev) : Prop :=
  match e with
  | Ret v => UFinish v ∈ l /\ SlotEnd ∈ l /\ (forall v', Ret v' ∉ l) /\ Dropped ∉ l
  | RetErr => False
  | UFinish v => (forall v', UFinish v' ∉ l) /\ UStart ∈ l /\ UCancel ∉ l
  | UStart => UStart ∉ l
  | UPoll | UStep => UStart ∈ l /\ UCancel ∉ l /\ (forall v', UFinish v' ∉ l)
  | _ => True
  end.

(* (4) cancellation; the clauses that need the field order are guarded by it *)
Definition P_cancel (F : sfacts) (l : list ev) (e : ev) : Prop :=
  match e with
  | UStart | UPoll | UStep | UFinish _ => Dropped ∉ l
  | UCancel => Dropped ∈ l /\ user_alive l /\ (F.(f_state_dropped_first) = true -> in_slot l)
  | Dropped => Dropped ∉ l
  | SlotEnd | OStart _ => F.(f_state_dropped_first) = true -> ~ user_alive l
  | _ => True
  end.

Definition P_all (F : sfacts) (nb : nat) (l : list ev) (e : ev) : Prop :=
  P_slot l e /\ P_order nb l e /\ P_result l e /\ P_cancel F l e.
