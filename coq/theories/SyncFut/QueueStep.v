(* SyncFut: preservation of the invariant by steps of the queue (background runner or the draining task). *)
From stdpp Require Import list numbers option sets.
From RecordUpdate Require Import RecordUpdate.
From SyncFut Require Import Model Spec Inv.

Ltac destruct_state s :=
  let r := fresh "rdy" in let f := fresh "fn" in let c := fresh "sfc" in
  destruct s as [opq0 cur0 parked0 owk0 pool0 r f c evs0 sst0 txheld0 uscr0 uval0 pc0 pollable0 log0];
  destruct r as [rsent rtx rrx rwk]; destruct f as [fsent ftx frx fwk]; destruct c as [sres swk].

Ltac qs_cases H :=
  unfold queue_step, os_send, os_poll in H; cbn in H;
  repeat first
  [ match type of H with
    | context [match ?x with _ => _ end] => is_var x; destruct x; cbn in H
    end
  | match type of H with
    | context [match ?x with _ => _ end] => let E := fresh "E" in destruct x eqn:E; cbn in H
    end ];
  try discriminate H;
  injection H as <-.

Lemma wake_task_only w s : task_waker_only w -> exists b, wake_opt w s = s <| pollable := b |>.
Proof. intros [->| ->]; cbn; [exists (pollable s); by destruct s|by exists true]. Qed.

Ltac wake_simpl :=
  repeat match goal with
  | |- context [wake_opt ?w ?s] =>
      let b := fresh "b" in let E := fresh "E" in
      destruct (wake_task_only w s ltac:(assumption)) as [b E]; rewrite E; clear E
  end.

Lemma qs_cells nb na r s s' :
  qshape nb na s -> qshape nb na s' -> cells_ok s -> queue_step r s = Some s' -> cells_ok s'.
Proof.
  intros Hq Hq' Hc Hs.
  pose proof (qshape_exists _ _ _ Hq) as [Hx1 Hx2]. pose proof (qshape_exists _ _ _ Hq') as [Hx1' _].
  clear Hq Hq'. destruct Hc. unfold fin_done, phase, phase_of in *.
  destruct_state s. cbn in *. qs_cases Hs.
  all: wake_simpl; cbn in *.
  all: try (specialize (Hx2 _ eq_refl)).
  all: split; cbn; unfold fin_done, phase, phase_of, ready_done in *; cbn in *; try done.
  all: try match goal with H : existsb is_slot ?q = false |- context [existsb is_slot ?q] => rewrite H end.
  all: cbn; unfold ready_done; cbn.
  all: unfold fin_done, task_waker_only; cbn.
  all: try (rewrite Hx1 in c_at; cbn in c_at).
  all: unfold ready_done, parked_other in *; cbn in *.
  all: try (destruct (existsb is_slot opq0); cbn in * ).
  all: unfold ready_done, parked_other in *; cbn in *.
  all: try solve [timeout 5 (destruct r, parked0; naive_solver)].
Qed.

(* ---------- frame of a queue step ---------- *)
Lemma qs_frame r s s' : queue_step r s = Some s' ->
  s'.(sst) = s.(sst) /\ s'.(txheld) = s.(txheld) /\ s'.(uscr) = s.(uscr) /\ s'.(uval) = s.(uval) /\
  s'.(evs) = s.(evs) /\ s'.(pool) = s.(pool) /\ s'.(pc) = s.(pc) /\
  s'.(ready).(o_rxdrop) = s.(ready).(o_rxdrop) /\
  (s.(ready).(o_sent) = true -> s'.(ready).(o_sent) = true) /\
  (forall e, is_queue_ev e = false -> (e ∈ s'.(log) <-> e ∈ s.(log))) /\
  (s'.(sf).(sf_res) = SfReturned -> s.(sf).(sf_res) = SfReturned).
Proof.
  intros Hs. destruct_state s. qs_cases Hs.
  all: try (destruct rwk as [[]|]); try (destruct swk as [[]|]); cbn.
  all: split_and!; try done.
  all: try (intros e He; rewrite elem_snoc; split; [intros [?|E]; [done|subst e; discriminate]|by left]).
Qed.

(* ---------- views ---------- *)
Lemma sst_ok_view F s s' :
  s'.(sst) = s.(sst) -> s'.(txheld) = s.(txheld) -> s'.(uval) = s.(uval) ->
  s'.(ready).(o_rxdrop) = s.(ready).(o_rxdrop) ->
  (s.(ready).(o_sent) = true -> s'.(ready).(o_sent) = true) ->
  (s'.(pc) = PDropState <-> s.(pc) = PDropState) ->
  (s'.(sf).(sf_res) = SfReturned -> s.(sf).(sf_res) = SfReturned) ->
  sst_ok F s -> sst_ok F s'.
Proof.
  unfold sst_ok. intros -> -> -> -> Hs Hp Hr. destruct (sst s); rewrite ?Hp; naive_solver.
Qed.

Definition is_task_ev (e : ev) : bool := negb (is_queue_ev e).

Lemma ulog_ok_view s s' :
  s'.(sst) = s.(sst) -> s'.(uval) = s.(uval) -> dropped s'.(pc) = dropped s.(pc) ->
  (s'.(pc) = PFinSend <-> s.(pc) = PFinSend) -> (s'.(pc) = PDone <-> s.(pc) = PDone) ->
  (forall e, is_queue_ev e = false -> (e ∈ s'.(log) <-> e ∈ s.(log))) ->
  ulog_ok s -> ulog_ok s'.
Proof.
  unfold ulog_ok, no_ret. intros -> -> -> Hp1 Hp2 Hl (H1 & H2 & H3).
  split; [by rewrite Hl|]. split; [by rewrite Hl|].
  destruct (sst s).
  - rewrite !Hl by done. destruct H3 as (?&?&?&?). split_and!; try done; intros v; by rewrite Hl.
  - rewrite !Hl by done. destruct H3 as (?&?&?&H4). split_and!; try done.
    + intros v. by rewrite Hl.
    + destruct (decide (pc s = PFinSend)) as [E|E].
      * rewrite decide_True by (by apply Hp1). by rewrite Hl.
      * rewrite decide_False by (by rewrite Hp1). intros v. by rewrite Hl.
  - rewrite !Hl by done. destruct H3 as (?&?&?&?). split_and!; try done. intros v'. by rewrite Hl.
  - rewrite !Hl by done. rewrite Hp2. done.
Qed.

(* with the code's field order a user future that is alive holds the completion sender: the slot job is in S2 *)
Lemma alive_phase F nb na s :
  qshape nb na s -> cells_ok s -> sst_ok F s -> ulog_ok s -> fo F = true -> user_alive s.(log) -> phase s = 2.
Proof.
  intros Hq Hc Hs (_ & _ & Hu) HF (Ha1 & Ha2 & Ha3).
  unfold sst_ok in Hs. destruct (sst s) eqn:Est.
  - naive_solver.
  - destruct Hs as (Hsent & [Htx|[_ ?]] & _); [|congruence].
    pose proof (phase_le4 s).
    destruct (decide (phase s <= 1)) as [H1|H1]; [pose proof (cells_unsent _ Hc H1); congruence|].
    destruct (decide (3 <= phase s)) as [H3|H3]; [|lia].
    pose proof (cells_fin_done _ Hc H3) as Hd. rewrite (c_tx _ Hc), Hd in Htx. done.
  - destruct Hu as (_ & Hu & _). by apply Ha3 in Hu.
  - destruct Hu as [Hu _]. destruct (Hu Ha1) as [?|Hf]; [done|by apply Ha3 in Hf].
Qed.

Lemma qs_log nb na r s s' : qshape nb na s -> queue_step r s = Some s' ->
  s'.(log) = s.(log) \/
  exists e, s'.(log) = s.(log) ++ [e] /\ is_queue_ev e = true /\ P_slot s.(log) e /\ P_order nb s.(log) e /\ phase s <> 2.
Proof.
  intros Hq Hs. pose proof (qshape_phase _ _ _ Hq) as Hph. unfold queue_step in Hs.
  destruct Hq as [i Hi Ho Hc H1 H2 H3 H4|p Ho Hc H1 H2 H3 H4|j Hj Ho Hc H1 H2 H3 H4].
  - assert (Hp : phase s <> 2) by (destruct Hph as [(?&?)|[(p & ? & ?)|(?&?&?)]]; [lia|destruct Hc as [?|(?&?&?)]; congruence|done]).
    destruct Hc as [Hc|(i' & -> & Hc)]; rewrite Hc in Hs.
    + rewrite Ho in Hs. destruct (decide (i = nb)) as [->|Hne].
      * rewrite Nat.sub_diag in Hs. cbn in Hs. injection Hs as <-. right. exists SlotStart. cbn. split_and!; try done.
        intros k Hk. apply H2. split; [done|congruence].
      * rewrite (seq_head i (nb - i)) in Hs by lia. cbn in Hs. injection Hs as <-. right. exists (OStart i). cbn.
        split_and!; try done.
        -- unfold in_slot; naive_solver.
        -- rewrite H1. lia.
        -- intros j' Hj'. apply H2. split; [lia|congruence].
        -- lia.
    + injection Hs as <-. right. exists (OFinish i'). cbn. split_and!; try done.
      * unfold in_slot; naive_solver.
      * apply H1. lia.
      * rewrite H2. naive_solver.
  - rewrite Hc in Hs. destruct p.
    + destruct (os_send (ready s)) as [c w]. injection Hs as <-. left. by destruct w as [[]|].
    + destruct (os_poll (runner_waker r) (fin s)) as [c []]; injection Hs as <-; by left.
    + injection Hs as <-. right. exists SlotEnd. split; [by destruct (sf_waker (sf s)) as [[]|]|]. cbn.
      split_and!; try done. destruct Hph as [(?&?&Hn)|[(p & Hp & Hpp & _)|(?&?&?&Hn)]]; [by destruct (Hn QS3)| |by destruct (Hn QS3)].
      rewrite Hc in Hp. injection Hp as <-. lia.
  - assert (Hp : phase s <> 2) by (destruct Hph as [(?&?)|[(p & ? & ?)|(?&?&?)]]; [lia|destruct Hc as [?|(?&?&?&?)]; congruence|lia]).
    destruct Hc as [Hc|(j' & -> & Hj' & Hc)]; rewrite Hc in Hs.
    + rewrite Ho in Hs. destruct (decide (j = nb + na)) as [->|Hne].
      * rewrite Nat.sub_diag in Hs. cbn in Hs. done.
      * rewrite (seq_head j (nb + na - j)) in Hs by lia. cbn in Hs. injection Hs as <-. right. exists (OStart j). cbn.
        split_and!; try done.
        -- unfold in_slot; naive_solver.
        -- rewrite H1. lia.
        -- intros j' Hj'. apply H2. split; [lia|congruence].
    + injection Hs as <-. right. exists (OFinish j'). cbn. split_and!; try done.
      * unfold in_slot; naive_solver.
      * apply H1. lia.
      * rewrite H2. naive_solver.
      * lia.
Qed.

Lemma qs_logok F nb na r s s' : Inv F nb na s -> queue_step r s = Some s' -> log_ok (P_all F nb) s'.(log).
Proof.
  intros [Hq Hc Hs Hp Hu Hw Hl] Hst.
  destruct (qs_log _ _ _ _ _ Hq Hst) as [->|(e & -> & He & H1 & H2 & Hph)]; [done|].
  apply log_ok_snoc; [done|]. split_and!; try done.
  - destruct e; cbn in He; try discriminate He; done.
  - destruct e; cbn in He; try discriminate He; try done; cbn; intros HF Ha; apply Hph; by eapply alive_phase.
Qed.

Lemma qs_wait r s s' : cells_ok s -> wait_ok s -> (s.(pc) = PIdle -> s.(pool) = true) -> queue_step r s = Some s' -> wait_ok s'.
Proof.
  intros Hc Hw2 Hpl Hs. pose proof (c_w_ready _ Hc) as Hwr. pose proof (c_w_sf _ Hc) as Hws. clear Hc.
  unfold wait_ok in *. destruct_state s. cbn in *. qs_cases Hs.
  all: destruct Hwr as [->| ->]; destruct Hws as [->| ->]; cbn.
  all: try done.
  all: intros Hpc; specialize (Hw2 Hpc); specialize (Hpl Hpc); subst pool0.
  all: try (by left).
  all: destruct Hw2 as [Hw2|Hw2]; [by left|right].
  all: destruct sst0; try done.
  all: try (destruct Hw2 as (? & ? & ?); split_and!; try done; by left).
Qed.

Lemma cells_ok_view s s' :
  s'.(opq) = s.(opq) -> s'.(cur) = s.(cur) -> s'.(parked) = s.(parked) -> s'.(ready) = s.(ready) ->
  s'.(fin) = s.(fin) -> s'.(sf) = s.(sf) -> s'.(evs) = s.(evs) -> s'.(txheld) = s.(txheld) -> s'.(owk) = s.(owk) ->
  cells_ok s -> cells_ok s'.
Proof.
  intros E1 E2 E3 E4 E5 E6 E7 E8 E9 [H1 H2 H3 H4 H5 H6 H7 H8].
  split; unfold phase, fin_done in *; rewrite ?E1, ?E2, ?E3, ?E4, ?E5, ?E6, ?E7, ?E8, ?E9; try done.
  eapply cells_at_view; [..|exact H1]; unfold fin_done; by rewrite ?E2, ?E3, ?E4, ?E5, ?E6.
Qed.

Lemma wait_ok_view s s' :
  s'.(uscr) = s.(uscr) -> s'.(evs) = s.(evs) -> s'.(sst) = s.(sst) -> s'.(ready) = s.(ready) ->
  s'.(sf) = s.(sf) -> s'.(pool) = s.(pool) -> s'.(parked) = s.(parked) -> s'.(cur) = s.(cur) -> s'.(owk) = s.(owk) ->
  (s'.(pc) = PIdle -> s.(pc) = PIdle /\ (s.(pollable) = true -> s'.(pollable) = true)) ->
  wait_ok s -> wait_ok s'.
Proof.
  unfold wait_ok. intros -> -> -> -> -> -> -> -> -> Hp H2.
  intros E. destruct (Hp E) as [E' Hq]. destruct (H2 E') as [?|?]; [left; auto|by right].
Qed.

Lemma qs_pc_pool F r s s' :
  pc_ok F s -> in_drain s.(pc) = false -> s.(pool) = true -> queue_step r s = Some s' -> pc_ok F s'.
Proof.
  intros Hp Hd Hpool Hs.
  destruct (qs_frame _ _ _ Hs) as (E1 & E2 & E3 & E4 & E5 & E6 & E7 & E8 & E9 & E10 & E11).
  unfold pc_ok in *. rewrite E7, E1, E2, E6. destruct (pc s); cbn in Hd; try discriminate Hd; try exact Hp.
  - split; [apply Hp|congruence].
  - split; [apply Hp|apply E9, Hp].
Qed.

Theorem aqueue_inv F nb na s s' : Inv F nb na s -> step F s AQueue = Some s' -> Inv F nb na s'.
Proof.
  intros HI Hs. cbn in Hs.
  destruct (pool s) eqn:Epool; [|done]. destruct (in_drain (pc s)) eqn:Ed; [done|]. destruct (parked s) eqn:Epk; [done|].
  cbn in Hs. pose proof HI as [Hq Hc Hss Hp Hu Hw Hl].
  destruct (qs_frame _ _ _ Hs) as (E1 & E2 & E3 & E4 & E5 & E6 & E7 & E8 & E9 & E10 & E11).
  assert (Hq' := qs_qshape _ _ _ _ _ Hq Hs).
  split.
  - done.
  - exact (qs_cells _ _ _ _ _ Hq Hq' Hc Hs).
  - eapply sst_ok_view; [..|exact Hss]; try done. by rewrite E7.
  - exact (qs_pc_pool _ _ _ _ Hp Ed Epool Hs).
  - eapply ulog_ok_view; [..|exact Hu]; try done; by rewrite E7.
  - exact (qs_wait _ _ _ Hc Hw (fun _ => Epool) Hs).
  - exact (qs_logok _ _ _ _ _ _ HI Hs).
Qed.

(* a state that differs only in the program counter, both inside a poll and not at the two pcs the invariants single out *)
Lemma qshape_pc nb na s p : qshape nb na s -> qshape nb na (s <| pc := p |>).
Proof. by apply qshape_view. Qed.
Lemma cells_ok_pc s p : cells_ok s -> cells_ok (s <| pc := p |>).
Proof. by apply cells_ok_view. Qed.

Lemma qs_enabled nb na r s : qshape nb na s -> phase s <= 3 -> queue_step r s <> None.
Proof.
  intros Hq Hp. pose proof (qshape_phase _ _ _ Hq) as Hph. unfold queue_step.
  destruct Hq as [i Hi Ho Hc H1 H2 H3 H4|p Ho Hc H1 H2 H3 H4|j Hj Ho Hc H1 H2 H3 H4].
  - destruct Hc as [->|(i' & -> & ->)]; [|congruence]. rewrite Ho. destruct (seq i (nb - i)); cbn; congruence.
  - rewrite Hc. destruct p; [destruct (os_send _); congruence|destruct (os_poll _ _) as [? []]; congruence|congruence].
  - destruct Hph as [(?&?)|[(p & ? & ?)|(?&?&?)]]; [|destruct Hc as [?|(?&?&?&?)]; congruence|lia].
    exfalso. unfold phase, phase_of in *. rewrite Ho, existsb_slot_others in *. destruct Hc as [Hc|(?&?&?&Hc)]; rewrite Hc in *; done.
Qed.

Lemma qs_phase3 nb na r s s' : qshape nb na s -> phase s <= 3 -> queue_step r s = Some s' -> phase s' <= 3 \/ s'.(cur) = CNone.
Proof.
  intros Hq Hp Hs. pose proof (qshape_exists _ _ _ Hq) as [Hx1 Hx2]. clear Hq.
  unfold phase, phase_of in *. destruct_state s. cbn in *. qs_cases Hs.
  all: try (destruct rwk as [[]|]); try (destruct swk as [[]|]); cbn.
  all: try (by right).
  all: left; cbn in *; repeat case_match; cbn in *; try lia; try congruence.
Qed.

Lemma drainjob_inv F nb na d s s' :
  Inv F nb na s -> s.(pc) = PDrainJob -> task_step F d s = Some s' -> Inv F nb na s'.
Proof.
  intros HI Epc Hs. pose proof HI as [Hq Hc Hss Hp Hu Hw Hl].
  unfold task_step in Hs. rewrite Epc in Hs.
  unfold pc_ok in Hp. rewrite Epc in Hp. destruct Hp as [Hsf Hph].
  destruct (queue_step RTask s) as [s1|] eqn:Hq1; [|by destruct (qs_enabled _ _ RTask _ Hq Hph)].
  injection Hs as <-.
  destruct (qs_frame _ _ _ Hq1) as (E1 & E2 & E3 & E4 & E5 & E6 & E7 & E8 & E9 & E10 & E11).
  assert (Hq' := qs_qshape _ _ _ _ _ Hq Hq1).
  set (p := match cur s1 with CNone => PDrainLoop | CSlot QS2 => if parked s1 then PDrainPend else PDrainJob | _ => PDrainJob end).
  assert (Hpd : in_drain p = true) by (subst p; repeat case_match; done).
  split.
  - by apply qshape_pc.
  - apply cells_ok_pc. exact (qs_cells _ _ _ _ _ Hq Hq' Hc Hq1).
  - eapply sst_ok_view; [..|exact Hss]; try done. cbn. rewrite Epc. split; [|done]. intros E; rewrite E in Hpd; done.
  - unfold pc_ok. cbn. rewrite E1.
    destruct (qs_phase3 _ _ _ _ _ Hq Hph Hq1) as [H3|H3].
    + subst p. destruct (cur s1) as [| |[]] eqn:Ec; try done. destruct (parked s1) eqn:Epk; [|done]. split_and!; try done. by left.
    + subst p. rewrite H3. done.
  - eapply ulog_ok_view; [..|exact Hu]; try done; cbn; rewrite Epc.
    + by destruct p.
    + split; [|done]. intros E; rewrite E in Hpd; done.
    + split; [|done]. intros E; rewrite E in Hpd; done.
  - eapply wait_ok_view; [..|exact (qs_wait _ _ _ Hc Hw ltac:(intros E; rewrite Epc in E; done) Hq1)]; try done. cbn. intros E; rewrite E in Hpd; done.
  - exact (qs_logok _ _ _ _ _ _ HI Hq1).
Qed.
