(* C08 (5): terminal states of programs with future_sync.  The terminal analysis of Term.v needs "all events fired" only for the
   events the queue is waiting for (the head job's, or the job a sync caller is parked on); with future_sync those may be done
   cells of slot jobs, which nobody fires from outside: they are shown fired from the invariants Inv_y / Inv_y2 / Inv_ytw. *)
From stdpp Require Import list numbers option.
From RecordUpdate Require Import RecordUpdate.
From L2 Require Import Model Base Own Jobs Shape OpShape DwInv Pool Fut Sig Wake WakeInv WakeLem Term Task TaskInv YTask Complete
  YDefs YMono YStep1 YStep2 YStep3 YInv YInv2.
#[global] Unset Lia Cache.

Definition awaited (s : state) (e : nat) : Prop :=
  hsusp s = Some e \/ exists c j rest, stacks s !! c = Some (FROpark j :: rest) /\ susp j = Some e.

Section TermG.
  Context (T : ftables) (HA : all_cond T).
  Context (s : state) (HI : Inv_all s) (Hterm : terminal T s) (Hnp : no_panic T s).
  Context (Haw : forall e, awaited s e -> (getev s e).(fired) = true).

  Lemma termg_npwake w : np (is_wake w) s = 0. Proof. apply (term_quiet T s HI Hterm Hnp). intros []; try done. by left. Qed.
  Lemma termg_cover e : hsusp s = Some e -> cover s e = false.
  Proof.
    intros He. destruct (cover s e) eqn:E; [|done]. exfalso. apply cover_iff in E as [(Hf & _)|[(c & w & Hf & _)|(c & d & w & Hf & _)]].
    - rewrite Haw in Hf; [done|by left].
    - pose proof (np_pos_wake s c w Hf) as H. by rewrite termg_npwake in H.
    - assert (H : np (fun fr => match fr with FWakeWith _ _ => true | _ => false end) s > 0).
      { apply np_pos_fsat. by exists c, (FWakeWith d w). }
      rewrite (term_quiet T s HI Hterm Hnp) in H; [lia|]. intros []; try done. by right.
  Qed.
  Lemma termg_no_runner : owned s.(qs) = false.
  Proof.
    destruct (owned (qs s)) eqn:Ho; [|done]. exfalso.
    pose proof (io_cnt _ (ia_own _ HI)) as Hc. rewrite Ho in Hc. cbn in Hc.
    assert (Hp : np marker s > 0) by lia. apply np_pos_fsat in Hp as (c & fr' & (st & Hst & Hin) & Hm).
    destruct (term_top T s HI Hterm Hnp c st Hst) as (fr & rest & -> & Hb).
    pose proof (shape_top_plain s c fr rest (ia_shape _ HI) Hst ltac:(by destruct fr)) as Hz.
    apply elem_of_cons in Hin as [->|Hin]; [|by rewrite (cntf_zero_all marker rest Hz fr' Hin) in Hm].
    destruct fr; try done. (* FROpark j *)
    pose proof (iw_frames _ (ia_wake _ HI) c (FROpark j) ltac:(eexists; split; [exact Hst|left])) as Hok. cbn in Hok.
    destruct (susp j) as [e|] eqn:Es; [|done].
    assert (Hfe : (getev s e).(fired) = true) by (apply Haw; right; by eexists _, _, _).
    assert (Hgt : gt s c e = false) by (unfold gt, unfreg; by rewrite Hfe, termg_npwake).
    rewrite Hgt in Hok. destruct (is_wfu (qs s)); [done|]. rewrite orb_false_r in Hok.
    rewrite (term_quiet T s HI Hterm Hnp (is_unpark c)) in Hok by (intros []; try done; by left). rewrite orb_false_r in Hok.
    destruct (stacks_actor s c _ Hst) as (ac & Ea & Est). pose proof (Hterm c) as Hs. unfold step in Hs. rewrite Ea in Hs. cbn in Hs. rewrite Est in Hs.
    cbn in Hs. unfold tokb in Hok. rewrite (toks_lookup _ _ _ Ea) in Hok. cbn in Hok. by rewrite Hok in Hs.
  Qed.
  Lemma termg_insched : has_pool s -> s.(insched) = 0.
  Proof.
    intros (p & st & Hp & Hi). destruct (insched s) as [|n] eqn:En; [done|]. exfalso.
    destruct (ip_shape _ (ia_pool _ HI) p st Hp Hi) as [->|(pre & m & -> & Hm & _)].
    - destruct (stacks_actor s p _ Hp) as (ac & Ea & Est). pose proof (Hterm p) as Hs. unfold step in Hs. rewrite Ea in Hs. cbn in Hs.
      rewrite Est in Hs. cbn in Hs. rewrite En in Hs. by destruct (t_next (ft_base T) (qs s)).
    - assert (Hc : cntf marker (pre ++ [m; FPIdle]) >= 1).
      { rewrite cntf_app. cbn. assert (marker m = true) as -> by (by destruct m). lia. }
      pose proof (runner_owned s p _ (ia_own _ HI) Hp Hc) as Ho. by rewrite termg_no_runner in Ho.
  Qed.
  Theorem termg_idle_empty : has_pool s -> s.(qs) = Idle /\ s.(jobs) = [] /\ held s = [].
  Proof.
    intros HP. pose proof termg_no_runner as Ho. pose proof (termg_insched HP) as Hin.
    pose proof (iw_queue _ (ia_wake _ HI)) as HQ. unfold queue_ok in HQ.
    rewrite (term_quiet T s HI Hterm Hnp is_rq1), (term_quiet T s HI Hterm Hnp is_push), Hin in HQ by (intros []; try done; (by left) || (by right)).
    assert (Hh : held s = []) by (apply held_none; [apply (ia_own _ HI)|done]).
    destruct (qs s) eqn:Eq; try done.
    - destruct (jobs s) eqn:Ej; [done|]. cbn in HQ. destruct (hsusp s) eqn:Eh; [by rewrite termg_cover in HQ|done].
    - destruct (hsusp s) eqn:Eh; [by rewrite termg_cover in HQ|done].
    - destruct (hsusp s) eqn:Eh; [by rewrite termg_cover in HQ|done].
    - by destruct (io_nopanic _ (ia_own _ HI)).
  Qed.
End TermG.

(* ---------- the events the queue waits for are fired ---------- *)
Section Cells.
  Context (T : ftables) (HA : all_cond T) (nev : nat).
  Context (s : state) (H2 : Inv_all2 s) (HY : Inv_y nev s) (HY2 : Inv_y2 nev s) (Hterm : terminal T s).
  Context (Hext : forall e, e < nev -> (getev s e).(fired) = true).
  Let HI := i2_all _ H2.
  Let Hnp : no_panic T s := fun a => fut_no_panic T s a (ac_own _ HA) (ia_own _ HI) (ia_fut _ HI).

  (* the owner of a SyncFuture is not asleep once queue_ready has been sent: task_finished has been sent / dropped *)
  Lemma done_fired o f r : (o, f, r) ∈ Ys s -> firedP s r -> firedP s (S r).
  Proof.
    intros Ht Hr. unfold firedP. destruct (fired (getev s (S r))) eqn:Ed; [done|exfalso].
    destruct (y2_fy _ _ HY2 (o, f, r) Ht) as (c & fr & (st0 & Hc & Hin) & Hfy); [cbn; unfold firedP; by rewrite Ed|].
    destruct fr; try done.
    cbn in Hfy. destruct (term_top T s HI Hterm Hnp c st0 Hc) as (top & rest & -> & Hb).
    assert (Htop : top = FY pc y st u /\ pc = YPpark).
    { destruct (i2_op _ H2 c _ Hc) as [Hbot Hcnt].
      apply elem_of_cons in Hin as [<-|Hin]; [split; [done|by destruct pc]|exfalso].
      assert (cntf opfr rest >= 1) by (assert (cntf opfr rest > 0); [apply cntf_pos; by eexists|lia]).
      destruct top; try done; cbn in Hcnt; try lia.
      - destruct script; [|done]. rewrite (op_bot_alone s c _ rest (i2_op _ H2) Hc eq_refl) in Hin. by apply elem_of_nil in Hin.
      - rewrite (op_bot_alone s c _ rest (i2_op _ H2) Hc eq_refl) in Hin. by apply elem_of_nil in Hin. }
    destruct Htop as [-> ->].
    destruct (stacks_actor s c _ Hc) as (ac & Ea & Est).
    pose proof (Hterm c) as Hs. unfold step in Hs. rewrite Ea in Hs. cbn in Hs. rewrite Est in Hs. cbn in Hs.
    destruct (token ac) eqn:Etok; [done|].
    assert (Htk : tokb s c = false) by (unfold tokb; by rewrite (toks_lookup _ _ _ Ea), Etok).
    pose proof (i2_ytw _ H2 c _ _ Hc ltac:(left)) as Hy. cbn [yob] in Hy.
    pose proof (y_frames _ _ HY c _ _ Hc ltac:(left)) as Hfr. cbn [frok] in Hfr. destruct Hfr as (_ & _ & _ & _ & _ & _ & _ & Hpl).
    assert (Hq : forall e, twr s c e = true -> (getev s e).(fired) = false).
    { intros e. unfold twr. rewrite Htk, (term_quiet T s HI Hterm Hnp (is_unpark c)), (term_quiet T s HI Hterm Hnp (is_wake (WTask c))) by (intros []; try done; by left).
      cbn. unfold unfreg. intros [H _]%andb_true_iff. by apply negb_true_iff in H. }
    injection Hfy as <- <- <-.
    destruct st as [b|rs]; cbn [yguar] in Hy.
    - apply Hq in Hy. unfold firedP in Hr. congruence.
    - destruct rs as [|p b]; [done|]. cbn in Hpl. apply andb_true_iff in Hpl as [Hp _]. destruct p; try done; cbn in Hp.
      + apply Hq in Hy. apply Nat.ltb_lt in Hp. rewrite Hext in Hy by done. done.
      + unfold twr2 in Hy. rewrite Htk, (term_quiet T s HI Hterm Hnp (is_unpark c)), (term_quiet T s HI Hterm Hnp (is_wake (WTask c))) in Hy by (intros []; try done; by left).
        cbn in Hy. apply andb_true_iff in Hy as [Hy _]. unfold unfreg in Hy. apply andb_true_iff in Hy as [Hy _]. apply negb_true_iff in Hy.
        apply andb_true_iff in Hp as [Hp _]. apply Nat.ltb_lt in Hp. rewrite Hext in Hy by done. done.
  Qed.

  (* a SyncFuture owner asleep in a terminal state waits for queue_ready (its slot job has not sent it) *)
  Lemma ypark_waits c y st u rest : stacks s !! c = Some (FY YPpark y st u :: rest) ->
    exists b, st = YQueue b /\ (getev s y.(y_r)).(fired) = false.
  Proof.
    intros Hc. destruct (stacks_actor s c _ Hc) as (ac & Ea & Est).
    pose proof (Hterm c) as Hs. unfold step in Hs. rewrite Ea in Hs. cbn in Hs. rewrite Est in Hs. cbn in Hs.
    destruct (token ac) eqn:Etok; [done|].
    assert (Htk : tokb s c = false) by (unfold tokb; by rewrite (toks_lookup _ _ _ Ea), Etok).
    pose proof (i2_ytw _ H2 c _ _ Hc ltac:(left)) as Hy. cbn [yob] in Hy.
    pose proof (y_frames _ _ HY c _ _ Hc ltac:(left)) as Hfr. cbn [frok] in Hfr. destruct Hfr as (_ & _ & _ & _ & _ & _ & _ & Hpl).
    assert (Hq : forall e, twr s c e = true -> (getev s e).(fired) = false).
    { intros e. unfold twr. rewrite Htk, (term_quiet T s HI Hterm Hnp (is_unpark c)), (term_quiet T s HI Hterm Hnp (is_wake (WTask c))) by (intros []; try done; by left).
      cbn. unfold unfreg. intros [H _]%andb_true_iff. by apply negb_true_iff in H. }
    destruct st as [b|rs]; cbn [yguar] in Hy; [exists b; split; [done|by apply Hq]|exfalso].
    destruct rs as [|p b]; [done|]. cbn in Hpl. apply andb_true_iff in Hpl as [Hp _]. destruct p; try done; cbn in Hp.
    - apply Hq in Hy. apply Nat.ltb_lt in Hp. rewrite Hext in Hy by done. done.
    - unfold twr2 in Hy. rewrite Htk, (term_quiet T s HI Hterm Hnp (is_unpark c)), (term_quiet T s HI Hterm Hnp (is_wake (WTask c))) in Hy by (intros []; try done; by left).
      cbn in Hy. apply andb_true_iff in Hy as [Hy _]. unfold unfreg in Hy. apply andb_true_iff in Hy as [Hy _]. apply negb_true_iff in Hy.
      apply andb_true_iff in Hp as [Hp _]. apply Nat.ltb_lt in Hp. rewrite Hext in Hy by done. done.
  Qed.

  (* what a suspended job waits for has happened *)
  Lemma susp_fired j e : jobok nev s j -> susp j = Some e -> (getev s e).(fired) = true.
  Proof.
    intros [_ Hj] Hs. destruct j as [|o st sc|]; try done. destruct st; try done. destruct Hj as [J1 J2].
    destruct (ydec (Ys s) o) as [(f & r & Ht)|Hn].
    - destruct (J1 _ _ Ht) as [E|[_ [Hr [E|[_ [E|E]]]]]]; subst sc; try done.
      cbn in Hs. injection Hs as <-. by apply (done_fired o f r).
    - specialize (J2 Hn). destruct sc as [|p l]; [done|]. inversion J2 as [|? ? Hp _]. destruct p; try done; cbn in Hp, Hs.
      + injection Hs as <-. apply Hext. by apply Nat.ltb_lt.
      + injection Hs as <-. apply andb_true_iff in Hp as [Hp _]. apply Hext. by apply Nat.ltb_lt.
  Qed.
  Lemma awaited_fired e : awaited s e -> (getev s e).(fired) = true.
  Proof.
    intros [Hh|(c & j & rest & Hc & Hs)].
    - unfold hsusp in Hh. destruct (jobs s) as [|j js] eqn:Ej; [done|]. apply (susp_fired j); [|done].
      apply (y_jobs _ _ HY). rewrite Ej. left.
    - apply (susp_fired j); [|done]. exact (y_frames _ _ HY c _ _ Hc ltac:(left)).
  Qed.
  Theorem termy_idle_empty : has_pool s -> s.(qs) = Idle /\ s.(jobs) = [] /\ held s = [].
  Proof. apply (termg_idle_empty T s HI Hterm Hnp awaited_fired). Qed.

  (* with a pool thread every cell is fired: every slot job has run *)
  Theorem termy_all_fired : has_pool s -> all_fired s.
  Proof.
    intros HP e. destruct (decide (e < nev)) as [?|Hge]; [by apply Hext|].
    destruct (decide (e < length (evs s))) as [Hlt|?]; [|unfold getev; by rewrite lookup_ge_None_2 by lia].
    destruct (y2_cover _ _ HY2 e ltac:(lia)) as (o & f & r & Ht & He).
    assert (Hr : firedP s r); [|destruct He as [-> | ->]; [done|by apply (done_fired o f r)] ].
    destruct (termy_idle_empty HP) as (Hq & Hj & Hh). pose proof (ia_jobs _ HI) as HJ.
    destruct (y2_push _ _ HY2 _ _ _ Ht) as [Hp|(c & fr & Hf & Hd)].
    - pose proof (ij_fifo _ HJ) as H1. unfold pend in H1. rewrite Hh, Hj in H1. cbn in H1. rewrite app_nil_r in H1.
      pose proof (ij_log _ HJ) as Hw. unfold inprog in Hw. rewrite Hh, Hj in Hw.
      assert (Hs : GStart o ∈ log s).
      { assert (H : o ∈ pushes (log s)).
        { clear -Hp. induction (log s) as [|ev l IH]; [by apply elem_of_nil in Hp|]. cbn. apply elem_of_app.
          apply elem_of_cons in Hp as [<-|Hp]; [right; left|left; by apply IH]. }
        rewrite H1 in H. clear -H. induction (log s) as [|ev l IH]; [by apply elem_of_nil in H|]. cbn in H.
        apply elem_of_app in H as [H|H]; [right; by apply IH|]. destruct ev; try (by apply elem_of_nil in H).
        apply elem_of_list_singleton in H as ->. left. }
      destruct (wbn_finished _ _ Hw o Hs) as [Hfin|?]; [|done]. by eapply (proj2 (y2_fin _ _ HY2 o Hfin)).
    - exfalso. assert (Hn : np (fun fr => match fr with FD1 _ => true | _ => false end) s > 0).
      { apply np_pos_fsat. exists c, fr. split; [done|]. by destruct fr. }
      rewrite (term_quiet T s HI Hterm Hnp) in Hn; [lia|]. intros []; try done. by right.
  Qed.
End Cells.

Lemma reachable_y2 nev T (HA : all_cond T) scripts npool tr s : ywf nev scripts -> run T (init scripts npool nev) tr = Some s ->
  Inv_yall nev s /\ Inv_y2 nev s.
Proof.
  intros Hwf. apply (run_inv (fun s => Inv_yall nev s /\ Inv_y2 nev s) T).
  - intros s0 a s1 [H1 H2] Hs. pose proof (step_yall nev T HA _ _ _ H1 Hs) as H1'. split; [done|].
    eapply step_y2; [apply (ia_fut _ (ya_all _ _ H1))|apply (ya_sig _ _ H1)|apply (ya_y _ _ H1)|apply (ya_y _ _ H1')|done|done].
  - split; [|apply init_y2]. split; [apply init_all|apply init_sig|by apply init_y].
Qed.

(* C08 (5): future_sync releases the queue.  At least one pool thread; in a terminal state in which all EXTERNAL events are fired
   every oneshot cell of every future_sync call is fired as well, the queue is idle and empty, every caller has finished its script,
   every slot job has started and finished, and every call's user future completed or its SyncFuture was dropped *)
Theorem futsync_releases_queue T (HA : all_cond T) scripts npool nev tr s :
  ywf nev scripts -> npool >= 1 -> run T (init scripts npool nev) tr = Some s -> terminal T s ->
  (forall e, e < nev -> (getev s e).(fired) = true) ->
  all_fired s /\ s.(qs) = Idle /\ s.(jobs) = [] /\ held s = [] /\
  (forall c st, stacks s !! c = Some st -> st = [FTop []] \/ st = [FPIdle]) /\
  (forall o f r, GYnew o f r ∈ s.(log) -> GStart o ∈ s.(log) /\ GFinish o ∈ s.(log) /\ (GUFinish o ∈ s.(log) \/ GYdrop o ∈ s.(log))).
Proof.
  intros Hwf Hn Hr Hterm Hext. destruct (reachable_y2 nev T HA _ _ _ _ Hwf Hr) as [H1 HY2]. pose proof (ya_y _ _ H1) as HY.
  pose proof (reachable_all2 T HA _ _ _ _ _ Hr) as H2. pose proof (reachable_has_pool T HA _ _ _ _ _ Hn Hr) as HP.
  pose proof (termy_all_fired T HA nev s H2 HY HY2 Hterm Hext HP) as Hf. split; [done|].
  destruct (termy_idle_empty T HA nev s H2 HY HY2 Hterm Hext HP) as (Hq & Hj & Hh). split; [done|]. split; [done|]. split; [done|].
  split; [intros c st; by eapply (C07_complete T HA)|].
  intros o f r Hg. apply ynews_in in Hg.
  destruct (terminal_all_ran T HA _ _ _ _ _ Hn Hr Hterm Hf) as [_ Hran].
  assert (Hp : GPush o ∈ log s).
  { destruct (y2_push _ _ HY2 _ _ _ Hg) as [?|(c & fr & Hfs & Hd)]; [done|exfalso].
    pose proof (i2_all _ H2) as HI.
    assert (Hnp : no_panic T s) by (intros a; apply fut_no_panic; [apply (ac_own _ HA)|apply (ia_own _ HI)|apply (ia_fut _ HI)]).
    assert (Hz : np (fun fr => match fr with FD1 _ => true | _ => false end) s > 0).
    { apply np_pos_fsat. exists c, fr. split; [done|]. by destruct fr. }
    rewrite (term_quiet T s HI Hterm Hnp) in Hz; [lia|]. intros []; try done. by right. }
  destruct (Hran o Hp) as [? ?]. split; [done|]. split; [done|].
  apply (y_t3 _ _ HY _ _ _ Hg). apply Hf.
Qed.
Print Assumptions futsync_releases_queue.
