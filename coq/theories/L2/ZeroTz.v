(* Zero pool: the awaiting caller (actor 0) is always going to be woken: invariant Inv_tz and its preservation. *)
From stdpp Require Import list numbers option.
From RecordUpdate Require Import RecordUpdate.
From L2 Require Import Model Base Own Jobs Shape OpShape DwInv Fut Wake WakeInv WakeLem WakeStep1 WakeStep2 WakeStep3 WakeStep4 Task TaskInv Zero ZeroInv ZeroCover.
#[global] Unset Lia Cache.

Definition awaiting (st : list frame) (f : nat) : Prop := FAwRet f ∈ st \/ FPark f ∈ st.
Definition polling2 (st : list frame) (f : nat) : Prop := exists x, x ∈ st /\ pollprog2 x = Some f.
Definition tzP (s : state) (f : nat) : Prop :=
  tokb s 0 = true \/ np (is_unpark 0) s > 0 \/ (s.(qs) = WaitingForPoll f /\ exists e, tcover s e = true).
Definition Inv_tz (s : state) : Prop := forall st0 f, stacks s !! 0 = Some st0 -> awaiting st0 f -> polling2 st0 f \/ tzP s f.

Lemma tzP_keep s s' f :
  (tokb s 0 = true -> tokb s' 0 = true \/ np (is_unpark 0) s' > 0) ->
  (np (is_unpark 0) s > 0 -> np (is_unpark 0) s' > 0 \/ tokb s' 0 = true) ->
  (s.(qs) = WaitingForPoll f -> s'.(qs) = WaitingForPoll f) ->
  (forall e, tcover s e = true -> exists e', tcover s' e' = true \/ np (is_unpark 0) s' > 0) ->
  tzP s f -> tzP s' f.
Proof.
  intros H1 H2 H3 H4 [H|[H|[Hq [e He]]]].
  - destruct (H1 H) as [?|?]; [by left|by right; left].
  - destruct (H2 H) as [?|?]; [by right; left|by left].
  - destruct (H4 e He) as [e' [?|?]]; [|by right; left]. right; right. split; [by apply H3|by exists e'].
Qed.

Ltac tcp_side Hst He :=
  [> exact Hst | solve_stacks
  | intros ?fr ?Hin; rewrite ?elem_of_app, ?elem_of_cons; solve [repeat (first [exact Hin | right])]
  | intros ?fr ?Hin; repeat (apply elem_of_cons in Hin as [->|Hin]; [reflexivity|]); by apply elem_of_nil in Hin
  | intros ?e ?w ?H1 ?H2; split; assumption
  | first [intros ?d; reflexivity | apply getdw_app; reflexivity]
  | first [intros ?k _; reflexivity | eapply getdbl_app; reflexivity]
  | exact He ].
Ltac tcp s a e0 Hst He :=
  first [ eapply (tc_plain s _ a [_] _ _ e0); tcp_side Hst He | eapply (tc_plain s _ a [_;_] _ _ e0); tcp_side Hst He ].
Lemma ev_reg_mono s e w e' w' : fired (getev s e') = false -> w' ∈ wakers (getev s e') ->
  let s' := setev s e (getev s e <| wakers := w :: wakers (getev s e) |>) in
  fired (getev s' e') = false /\ w' ∈ wakers (getev s' e').
Proof.
  intros H1 H2. cbn. destruct (decide (e' = e)) as [->|Hne]; [|by rewrite getev_setev_ne].
  destruct (decide (e < length (evs s))).
  - rewrite getev_setev_eq by done. cbn. split; [done|]. apply elem_of_cons. by right.
  - assert (Hid : setev s e (getev s e <| wakers := w :: wakers (getev s e) |>) = s); [|by rewrite Hid].
    unfold setev. rewrite list_insert_ge by lia. by destruct s.
Qed.
Section TZ.
  Context (T : ftables) (HT : own_cond T) (HW : wake_cond T) (HZ : zero_cond T).
  Lemma step_tzP s a s' f : Inv_own s -> Inv_dw s -> Inv_zp s -> Inv_zq s ->
    step T s a = Some s' -> tzP s f ->
    tzP s' f \/ (a = 0 /\ exists ac f' rest, s.(actors) !! 0 = Some ac /\ (ac.(stack) = FPark f' :: rest \/ ac.(stack) = FSFpoll f' :: rest)).
  Proof.
    intros HO HD HZP [Q1 Q2] Hstep Htz. pose proof (io_nopanic _ HO) as Hnp. step_split Hstep Ea Est.
    all: try discriminate Hstep.
    all: injection Hstep as <-.
    all: pop_cont_split.
    all: pose proof (stacks_lookup _ _ _ Ea) as Hst; rewrite Est in Hst.
    all: try match goal with k : kont |- _ => destruct k end.
    all: pose proof (zp_stacks _ HZP a _ Hst) as Hk; unfold stk_ok in Hk; cbn [forallb ok0 okf andb] in Hk.
    all: destruct (bool_decide (a = 0)) eqn:Ea0; try discriminate Hk.
    all: first [apply bool_decide_eq_true in Ea0 | apply bool_decide_eq_false in Ea0].
    all: try (right; split; [done|]; subst a; eexists _, _, _; split; [exact Ea|]; first [left; exact Est|right; exact Est]).
    all: left; revert Htz; apply tzP_keep.
    (* 1: the token stays *)
    all: try (lazymatch goal with |- tokb _ 0 = true -> tokb ?s2 0 = true \/ _ =>
                intros Htk; left; rewrite (tokb_toks s s2 0 ltac:(solve_toks)); exact Htk end).
    (* 2: unpark calls in flight stay *)
    all: try (lazymatch goal with |- np _ _ > 0 -> np _ _ > 0 \/ _ =>
                intros Hn; left; eapply Nat.lt_le_trans; [exact Hn|eapply np_mono; [exact Hst|solve_stacks|cnt_le] ] end).
    (* 3: the queue state WaitingForPoll is left only by the caller's own poll *)
    all: try (assert (Hrun := runner_owned s a _ HO Hst ltac:(cbn; lia))).
    all: try match goal with
      | E : t_wake_queue _ _ = (_, _) |- _ => pose proof (wq_keeps _ HW _ _ _ E Hnp Q1) as (K1 & K2 & K3)
      | E : t_resched _ _ _ = (_, _) |- _ => pose proof (rq_keeps _ HW _ _ _ _ E Q1) as (K1 & K2 & K3)
      | E : t_desync _ _ = (_, _) |- _ => pose proof (ds_keeps _ HW _ _ _ E Q1) as (K1 & K2 & K3)
      | |- context [t_wake_thread _ _] => pose proof (wt_keeps _ HW _ Hnp Q1) as (K1 & K2 & K3)
      end.
    all: try (lazymatch goal with |- qs _ = _ -> qs _ = _ =>
                intros Hq; cbn; first [ exact Hq | rewrite (K3 _ Hq); exact Hq | exfalso; rewrite Hq in Hrun; discriminate Hrun ] end).
    (* 4: the cover *)
    all: try (lazymatch goal with |- forall e, tcover _ e = true -> _ =>
       intros e0 He; exists e0; left;
       tcp s a e0 Hst He end).
    (* FUnpark c *)
    all: try (lazymatch goal with |- tokb _ 0 = true -> tokb (setstack (settoken _ ?c true) _ _) 0 = true \/ _ =>
       intros Htk; left; rewrite tokb_setstack; destruct (decide (c = 0)) as [->|Hc];
       [apply tokb_set_eq; apply lookup_lt_Some in Hst; lia | by rewrite tokb_set_ne by done] end).
    all: try (lazymatch goal with |- np _ _ > 0 -> np _ (setstack (settoken _ ?c true) _ _) > 0 \/ _ =>
       intros Hn; destruct (decide (c = 0)) as [->|Hc];
       [ right; rewrite tokb_setstack; apply tokb_set_eq; apply lookup_lt_Some in Hst; lia
       | left; eapply Nat.lt_le_trans; [exact Hn|eapply np_mono; [exact Hst|solve_stacks|cnt_le] ] ] end).
    (* DrainWaker tables *)
    all: try (match goal with E1 : t_dw_wake _ ?d0 = _ |- _ => rewrite (wc_dw_wake _ HW) in E1; destruct d0; try discriminate E1; injection E1 as <- end).
    all: try (match goal with E1 : t_dw_wake_with _ ?d0 = _ |- _ => rewrite (wc_dw_wake_with _ HW) in E1; destruct d0; try discriminate E1; injection E1 as <- end).
    all: try (lazymatch goal with Hst : stacks _ !! _ = Some (FWakeWith _ _ :: _), E : getdw _ _ = (DWWoken, _) |- _ =>
                intros e0 He; exists e0; left; exact (tc_wake_with_now _ _ _ _ _ _ _ Hst E He) end).
    all: try (lazymatch goal with Hst : stacks _ !! _ = Some (FWakeWith _ _ :: _), E : getdw _ _ = (_, _) |- _ =>
                intros e0 He; exists e0; left; exact (tc_wake_with_later _ _ _ _ _ _ _ _ HD Hst E ltac:(done) He) end).
    all: try (lazymatch goal with Hst : stacks _ !! _ = Some (FWake (WDrain _) :: _), E0 : getdw _ _ = (?st, _) |- _ =>
                intros e0 He; exists e0; left; exact (tc_wake_drain s a _ st _ rest e0 HD Hst E0 He) end).
    all: try (lazymatch goal with Hst : stacks _ !! _ = Some (FWake (WDouble _) :: _), E : getdbl _ _ = Some _ |- _ =>
                intros e0 He; exists e0; left; exact (tc_wake_double_some _ _ _ _ _ _ _ Hst E He) end).
    all: try (lazymatch goal with Hst : stacks _ !! _ = Some (FWake (WDouble _) :: _), E : getdbl _ _ = None |- _ =>
                intros e0 He; exists e0; left; exact (tc_wake_double_none _ _ _ _ _ Hst E He) end).
    all: try (lazymatch goal with Hst : stacks _ !! _ = Some (FFire _ :: _) |- _ =>
                intros e0 He; exists e0; left; exact (tc_fire _ _ _ _ _ Hst He) end).
    - (* a job suspends: its waker is registered *)
      intros e0 He. exists e0. left. eapply (tc_plain s _ a [_] _ _ e0); [exact Hst|solve_stacks| | | | | |exact He].
      + intros fr Hin. by right.
      + intros fr Hin. apply elem_of_list_singleton in Hin as ->. done.
      + intros e1 w1. apply ev_reg_mono.
      + done.
      + done.
    - (* a job suspends on two events (select): its waker is registered with both *)
      intros e0 He. exists e0. left. eapply (tc_plain s _ a [_] _ _ e0); [exact Hst|solve_stacks| | | | | |exact He].
      + intros fr Hin. by right.
      + intros fr Hin. apply elem_of_list_singleton in Hin as ->. done.
      + intros e3 w3 H3 H4. destruct (ev_reg_mono s e1 w e3 w3 H3 H4) as [H5 H6]. exact (ev_reg_mono _ e2 w e3 w3 H5 H6).
      + done.
      + done.
    - (* the task waker is called *)
      intros e0 He. exists e0. destruct c as [|c].
      + right. apply np_pos_fsat. exists a, (FUnpark 0). split; [|done]. eapply fsat_new; [exact Hst|solve_stacks|left].
      + left. eapply (tc_plain s _ a [_] _ _ e0); [exact Hst|solve_stacks| | |done|done|done|exact He].
        * intros fr Hin. by right.
        * intros fr Hin. apply elem_of_list_singleton in Hin as ->. done.
    - (* the task waker is called (by a firing caller) *)
      intros e0 He. exists e0. destruct c as [|c].
      + right. apply np_pos_fsat. exists a, (FUnpark 0). split; [|done]. eapply fsat_new; [exact Hst|solve_stacks|left].
      + left. eapply (tc_plain s _ a [_] _ _ e0); [exact Hst|solve_stacks| | |done|done|done|exact He].
        * intros fr Hin. by right.
        * intros fr Hin. apply elem_of_list_singleton in Hin as ->. done.
  Qed.
End TZ.

(* ---------- helper facts about the stack of the awaiting caller ---------- *)
Lemma await_unique st f f' : cntf opfr st <= 1 -> awaiting st f -> awaiting st f' -> f = f'.
Proof.
  induction st as [|x r IH]; [intros _ [H|H]; by apply elem_of_nil in H|].
  cbn. intros Hc H1 H2. destruct (opfr x) eqn:Ex.
  - assert (Hz : cntf opfr r = 0) by lia.
    assert (Hno : forall g, ~ awaiting r g).
    { intros g [H|H]; by pose proof (cntf_zero_all _ _ Hz _ H). }
    unfold awaiting in H1, H2. rewrite !elem_of_cons in H1, H2.
    destruct H1 as [[<-|H1]|[<-|H1]]; try (by exfalso; eapply Hno; [left + right]; exact H1);
    destruct H2 as [[E|H2]|[E|H2]]; try (by exfalso; eapply Hno; [left + right]; exact H2); congruence.
  - apply IH; [lia| |].
    + destruct H1 as [H1|H1]; apply elem_of_cons in H1 as [<-|H1]; try done; [by left|by right].
    + destruct H2 as [H2|H2]; apply elem_of_cons in H2 as [<-|H2]; try done; [by left|by right].
Qed.
Lemma poll_head_awaits x r f : pollall (x :: r) = true -> pollfam x = Some f -> forallb ok0 r = true -> exists r2, r = FAwRet f :: r2.
Proof.
  cbn. intros [H _]%andb_true_iff Hp Hk. unfold adjok in H. rewrite Hp in H. destruct r as [|y r2]; [done|].
  cbn in Hk. apply andb_true_iff in Hk as [Hy _]. destruct y; try done. cbn in H. apply bool_decide_eq_true in H as ->. by eexists.
Qed.
Lemma no_runner0 s fr rest : Inv_own s -> Inv_shape s -> Inv_zp s ->
  stacks s !! 0 = Some (fr :: rest) -> chain fr = false -> marker fr = false -> owned s.(qs) = false.
Proof.
  intros HO HS HZP Hst Hc Hm. destruct (owned (qs s)) eqn:Eo; [exfalso|done].
  pose proof (io_cnt _ HO) as Hn. rewrite Eo in Hn. cbn in Hn.
  assert (Hp : np marker s > 0) by lia. apply np_pos_fsat in Hp as (c & x & (st & Hcst & Hin) & Hx).
  pose proof (zp_stacks _ HZP c _ Hcst) as Hk. unfold stk_ok in Hk. destruct (decide (c = 0)) as [->|Hne].
  - rewrite Hst in Hcst. injection Hcst as <-. destruct (HS 0 _ Hst) as [H1 _]. cbn in H1. rewrite Hc in H1.
    apply elem_of_cons in Hin as [->|Hin]; [congruence|]. by rewrite (cntf_zero_all _ _ H1 _ Hin) in Hx.
  - rewrite bool_decide_false in Hk by done. pose proof (forallb_in _ _ _ Hk Hin) as Hf. by destruct x.
Qed.

Lemma tz_update s s' a old new : stacks s !! a = Some old -> stacks s' = <[a := new]> (stacks s) -> Inv_tz s ->
  (a <> 0 -> forall f, tzP s f -> tzP s' f) ->
  (a = 0 -> forall f, awaiting new f -> polling2 new f \/ tzP s' f \/
      (awaiting old f /\ (polling2 old f -> polling2 new f) /\ (tzP s f -> tzP s' f))) -> Inv_tz s'.
Proof.
  intros Ha Hs HI H1 H2 st0 f Hst0 Haw. rewrite Hs in Hst0. destruct (decide (a = 0)) as [->|Hne].
  - rewrite list_lookup_insert in Hst0 by (by eapply lookup_lt_Some). injection Hst0 as <-.
    destruct (H2 eq_refl f Haw) as [?|[?|(Ho & Hp & Ht)]]; [by left|by right|].
    destruct (HI _ _ Ha Ho) as [?|?]; [left; by apply Hp|right; by apply Ht].
  - rewrite list_lookup_insert_ne in Hst0 by done. destruct (HI _ _ Hst0 Haw) as [?|?]; [by left|right; by apply H1].
Qed.
Definition isaw (fr : frame) : bool := match fr with FAwRet _ | FPark _ => true | _ => false end.
Lemma awaiting_sub new old f : (forall fr, isaw fr = true -> fr ∈ new -> fr ∈ old) -> awaiting new f -> awaiting old f.
Proof. intros H [Hi|Hi]; [left|right]; by apply H. Qed.
Lemma polling_sub new old f : (forall fr, pollprog2 fr = Some f -> fr ∈ old -> exists fr', pollprog2 fr' = Some f /\ fr' ∈ new) ->
  polling2 old f -> polling2 new f.
Proof. intros H (x & Hx & Hp). destruct (H x Hp Hx) as (y & ? & ?). by exists y. Qed.
Ltac mem_split Hin :=
  rewrite ?elem_of_app, ?elem_of_cons in Hin;
  repeat match type of Hin with _ \/ _ => destruct Hin as [Hin|Hin] end.
Lemma in_opt_wake fr o : fr ∈ opt_wake o -> exists w, fr = FWake w.
Proof. destruct o; cbn; [|by intros ?%elem_of_nil]. intros ->%elem_of_list_singleton. by eexists. Qed.

Lemma no_await_rest s a fr rest g : Inv_op s -> stacks s !! a = Some (fr :: rest) -> opfr fr = true -> awaiting rest g -> False.
Proof. intros HP Hst Ho Haw. pose proof (op_top_only _ _ _ _ HP Hst Ho) as Hz. destruct Haw as [H|H]; by pose proof (cntf_zero_all _ _ Hz _ H). Qed.
Lemma awaiting_cons x r g : awaiting (x :: r) g -> x = FAwRet g \/ x = FPark g \/ awaiting r g.
Proof. intros [H|H]; apply elem_of_cons in H as [<-|H]; auto; right; right; [by left|by right]. Qed.
Section TZ2.
  Context (T : ftables) (HT : own_cond T) (HW : wake_cond T) (HZ : zero_cond T).
  Lemma step_tz s a s' : Inv_own s -> Inv_shape s -> Inv_op s -> Inv_dw s -> Inv_fut s -> Inv_wake s -> Inv_zp s ->
    (forall c st fr, stacks s !! c = Some st -> fr ∈ st -> rn2_ok s fr = true) -> Inv_zq s -> Inv_tz s ->
    step T s a = Some s' -> Inv_tz s'.
  Proof.
    intros HO HS HP HD HF HWk HZP I2 HQ I Hstep.
    assert (HTZ : forall f, tzP s f -> tzP s' f \/
       (a = 0 /\ exists ac f' rest, s.(actors) !! 0 = Some ac /\ (ac.(stack) = FPark f' :: rest \/ ac.(stack) = FSFpoll f' :: rest))).
    { intros f. by eapply step_tzP. }
    destruct HQ as [Q1 Q2]. pose proof (io_nopanic _ HO) as Hnp. step_split Hstep Ea Est.
    all: try discriminate Hstep.
    all: injection Hstep as <-.
    all: pop_cont_split.
    all: pose proof (stacks_lookup _ _ _ Ea) as Hst; rewrite Est in Hst.
    all: try match goal with k : kont |- _ => destruct k end.
    all: pose proof (zp_stacks _ HZP a _ Hst) as Hk; unfold stk_ok in Hk; cbn [forallb ok0 okf andb] in Hk.
    all: destruct (bool_decide (a = 0)) eqn:Ea0; try discriminate Hk.
    all: first [apply bool_decide_eq_true in Ea0 | apply bool_decide_eq_false in Ea0].
    all: assert (Hrn := I2 a _ _ Hst ltac:(left)); cbn in Hrn; try discriminate Hrn.
    all: try (apply bool_decide_eq_true in Hrn; match goal with E : res _ = FSome _ |- _ => rewrite Hrn in E; discriminate E end).
    all: eapply (tz_update s _ a _ _ Hst); [solve_stacks|exact I| |]; try done.
    all: try (intros _ fz Htz; destruct (HTZ fz Htz) as [?|[? _]]; done).
    all: intros _ fz Haw.
    all: try (right; right; split; [|split];
      [ revert Haw; apply awaiting_sub; intros fr Hi Hin; mem_split Hin;
        try (apply in_opt_wake in Hin as [? Hin]); try (subst fr; discriminate Hi);
        rewrite ?elem_of_cons; auto 6
      | apply polling_sub; intros fr Hp Hin; mem_split Hin;
        [ subst fr; first [discriminate Hp | eexists; split; [|left]; exact Hp ]
        | exists fr; split; [exact Hp|rewrite ?elem_of_app, ?elem_of_cons; auto 6] ]
      | intros Htz; destruct (HTZ fz Htz) as [?|(_ & ac' & f' & rest' & Hac & [Eq|Eq])]; [done|exfalso..];
        subst a; rewrite Ea in Hac; injection Hac as <-; rewrite Est in Eq; discriminate Eq ]; fail).
    - (* FUse f UAwait: the poll starts *)
      left. apply awaiting_cons in Haw as [Hi|[Hi|Haw]]; try discriminate Hi.
      apply awaiting_cons in Haw as [Hi|[Hi|Haw]]; try discriminate Hi.
      + injection Hi as <-. exists (FSFpoll f). split; [left|done].
      + exfalso. by eapply (no_await_rest s a _ rest fz HP Hst).
    - (* FAwRet f: about to park *)
      right; right. split; [|split].
      + apply awaiting_cons in Haw as [Hi|[Hi|Haw]]; try discriminate Hi.
        * injection Hi as <-. left. left.
        * destruct Haw; [left|right]; by right.
      + intros (x & Hx & Hp). apply elem_of_cons in Hx as [->|Hx]; [discriminate Hp|]. exists x. split; [by right|done].
      + intros Htz; destruct (HTZ fz Htz) as [?|(_ & ac' & f' & rest' & Hac & [Eq|Eq])]; [done|exfalso..];
        subst a; rewrite Ea in Hac; injection Hac as <-; rewrite Est in Eq; discriminate Eq.
    - (* FPark f with a token: poll again *)
      left. apply awaiting_cons in Haw as [Hi|[Hi|Haw]]; try discriminate Hi.
      apply awaiting_cons in Haw as [Hi|[Hi|Haw]]; try discriminate Hi.
      + injection Hi as <-. exists (FSFpoll f). split; [left|done].
      + exfalso. by eapply (no_await_rest s a _ rest fz HP Hst).
    - (* FSFpoll, PAWait: impossible for this caller *)
      exfalso. subst a. pose proof (if_poll _ HF _ _ Hst) as Hpo. destruct (poll_head_awaits _ _ f Hpo eq_refl Hk) as [r2 ->].
      destruct (HP 0 _ Hst) as [_ Hop].
      destruct (zc_poll_wait _ HZ _ _ _ E0) as [Ho|[Hw|(f' & Hne & Hq)]]; [|done|].
      + rewrite (no_runner0 s _ _ HO HS HZP Hst eq_refl eq_refl) in Ho. discriminate Ho.
      + destruct (Q2 f' Hq) as [_ (st0 & H0 & Hin)]. rewrite Hst in H0. injection H0 as <-. apply Hne.
        eapply (await_unique _ f' f Hop); [exact Hin|]. left. right. left.
    - (* FSFpoll, PADrain: the caller drains the queue itself *)
      left. subst a. pose proof (if_poll _ HF _ _ Hst) as Hpo. destruct (poll_head_awaits _ _ f Hpo eq_refl Hk) as [r2 ->].
      destruct (HP 0 _ Hst) as [_ Hop].
      assert (fz = f) as ->.
      { eapply (await_unique _ fz f Hop); [|left; right; left]. apply awaiting_cons in Haw as [Hi|[Hi|Haw]]; try discriminate Hi.
        destruct Haw; [left|right]; by right. }
      exists (FDQtake f). split; [left|done].
    - (* FSFpoll, Ready: the await frame below is popped *)
      exfalso. pose proof (if_poll _ HF _ _ Hst) as Hpo. destruct (poll_head_awaits _ _ f Hpo eq_refl Hk) as [r2 ->]. exact Hnc.
    - exfalso. destruct (HP a _ Hst) as [_ Hop]. cbn in Hop.
      assert (Hz : cntf opfr rc = 0) by lia. destruct Haw as [H|H]; by pose proof (cntf_zero_all _ _ Hz _ H).
    - (* FDQtake finds the result: the await frame below is popped *)
      exfalso. pose proof (if_poll _ HF _ _ Hst) as Hpo. destruct (poll_head_awaits _ _ f Hpo eq_refl Hk) as [r2 ->]. exact Hnc.
    - exfalso. destruct (HP a _ Hst) as [_ Hop]. cbn in Hop.
      assert (Hz : cntf opfr rc = 0) by lia. apply awaiting_cons in Haw as [Hi|[Hi|Haw]]; try discriminate Hi.
      destruct Haw as [H|H]; by pose proof (cntf_zero_all _ _ Hz _ H).
    - (* FDQwfp: the queue waits for this caller's poll; the DoubleWaker carries the task waker *)
      right; left. subst a. pose proof (if_poll _ HF _ _ Hst) as Hpo. destruct (poll_head_awaits _ _ f Hpo eq_refl Hk) as [r2 ->].
      destruct (HP 0 _ Hst) as [_ Hop].
      assert (fz = f) as ->.
      { eapply (await_unique _ fz f Hop); [|left; right; left]. apply awaiting_cons in Haw as [Hi|[Hi|Haw]]; try discriminate Hi.
        destruct Haw; [left|right]; by right. }
      right; right. split; [reflexivity|].
      pose proof (iw_frames _ HWk 0 (FDQwfp f d) ltac:(eexists; split; [exact Hst|left])) as Hok. cbn in Hok.
      destruct (hsusp s) as [e|] eqn:Eh; [|discriminate Hok]. exists e. apply tcover_iff. right; right.
      exists 0, d, (WDouble (length (dbl s))). split; [|split].
      + eapply fsat_new; [exact Hst|solve_stacks|left].
      + cbn. unfold dbl_t, getdbl. cbn. by rewrite list_lookup_middle.
      + eapply (gd_np s); [reflexivity|reflexivity| |exact Hok]. eapply np_mono; [exact Hst|solve_stacks|cnt_le].
    - (* the job signals its future *)
      right; right. split; [|split].
      + revert Haw. apply awaiting_sub. intros fr Hi Hin. apply elem_of_app in Hin as [Hin|Hin].
        * apply in_opt_wake in Hin as [? ->]. discriminate Hi.
        * apply elem_of_cons in Hin as [->|Hin]; [discriminate Hi|by right].
      + apply polling_sub. intros fr Hp Hin. apply elem_of_cons in Hin as [->|Hin].
        * eexists. split; [|apply elem_of_app; right; left]. exact Hp.
        * exists fr. split; [done|]. apply elem_of_app. right. by right.
      + intros Htz; destruct (HTZ fz Htz) as [?|(_ & ac' & f' & rest' & Hac & [Eq|Eq])]; [done|exfalso..];
        subst a; rewrite Ea in Hac; injection Hac as <-; rewrite Est in Eq; discriminate Eq.
  Qed.
End TZ2.
