(* C06, the terminal theorem: in a reachable state where no actor can move, with every event fired and at least one pool
   runner, the queue is Idle and empty: no operation is left suspended *)
From stdpp Require Import list numbers option.
From RecordUpdate Require Import RecordUpdate.
From L2 Require Import Model Base Own Jobs Shape DwInv Pool Fut Wake WakeInv WakeLem WakeStep1 WakeStep.
#[global] Unset Lia Cache.

Record all_cond (T : ftables) : Prop := { ac_own : own_cond T; ac_jobs : jobs_cond T; ac_wake : wake_cond T }.
Record Inv_all (s : state) : Prop := {
  ia_own : Inv_own s; ia_jobs : Inv_jobs s; ia_shape : Inv_shape s; ia_dw : Inv_dw s; ia_pool : Inv_pool s; ia_fut : Inv_fut s; ia_wake : Inv_wake s }.

Lemma wake_dw_cond T : wake_cond T -> dw_cond T.
Proof. intros HW. split. intros st. rewrite (wc_dw_wake _ HW). by destruct st. Qed.

Lemma init_stacks scripts npool nev c st : stacks (init scripts npool nev) !! c = Some st -> st = [FPIdle] \/ exists sc, st = [FTop sc].
Proof.
  intros Hc. unfold stacks, init in Hc; cbn in Hc. rewrite list_lookup_fmap in Hc.
  destruct ((((fun sc => mk_actor [FTop sc]) <$> scripts) ++ replicate npool (mk_actor [FPIdle])) !! c) as [ac|] eqn:E; [|done].
  cbn in Hc. injection Hc as <-. apply elem_of_list_lookup_2 in E. apply elem_of_app in E as [E|E].
  - apply elem_of_list_fmap in E as (sc & -> & _). right. by exists sc.
  - apply elem_of_replicate in E as [-> _]. by left.
Qed.
Lemma init_wake scripts npool nev : Inv_wake (init scripts npool nev).
Proof.
  split; [|done]. intros c fr (st & Hc & Hin). apply nonmarker_ok.
  destruct (init_stacks _ _ _ _ _ Hc) as [->|[sc ->]]; apply elem_of_list_singleton in Hin as ->; done.
Qed.
Lemma init_all scripts npool nev : Inv_all (init scripts npool nev).
Proof. split; [apply init_own|apply init_jobs|apply init_shape|apply init_dw|apply init_pool|apply init_fut|apply init_wake]. Qed.

Section Reach.
  Context (T : ftables) (HA : all_cond T).
  Lemma step_all s a s' : Inv_all s -> step T s a = Some s' -> Inv_all s'.
  Proof.
    intros [H1 H2 H3 H4 H5 H7 H6] Hs. destruct HA as [A1 A2 A3]. split.
    - by eapply step_own.
    - by eapply step_jobs.
    - by eapply step_shape.
    - eapply step_dw; [by apply wake_dw_cond|done|done].
    - by eapply step_pool_inv.
    - by eapply step_fut_inv.
    - by eapply step_wake_inv.
  Qed.
  Theorem reachable_all scripts npool nev tr s : run T (init scripts npool nev) tr = Some s -> Inv_all s.
  Proof. apply (run_inv Inv_all T); [intros; by eapply step_all|apply init_all]. Qed.
  Lemma reachable_has_pool scripts npool nev tr s : npool >= 1 -> run T (init scripts npool nev) tr = Some s -> has_pool s.
  Proof.
    intros Hn Hr.
    assert (H : Inv_all s /\ has_pool s); [|by destruct H].
    revert Hr. apply (run_inv (fun s => Inv_all s /\ has_pool s) T).
    - intros s0 a s1 [HI Hp] Hs. split; [by eapply step_all|]. by eapply (step_pool_inv T s0 a s1 (ia_pool _ HI) Hs).
    - split; [apply init_all|by apply init_has_pool].
  Qed.
End Reach.

Definition blockable (fr : frame) : bool :=
  match fr with FTop [] | FPark _ | FROpark _ | FSBwait | FPIdle | FY YPpark _ _ _ => true | _ => false end.
Lemma getf_addlog s l f : getf (addlog s l) f = getf s f. Proof. done. Qed.
Lemma step_none_cases T s a ac fr rest : s.(actors) !! a = Some ac -> ac.(stack) = fr :: rest -> step T s a = None ->
  blockable fr = true \/ would_panic T s a = true.
Proof.
  intros Ea Est H. unfold would_panic. rewrite Ea, Est. unfold step in H. rewrite Ea in H. cbn in H. rewrite Est in H.
  destruct fr; step_unfold H; step_destr H.
  all: rewrite ?getf_addlog in *.
  all: try (by left).
  all: right; cbn.
  all: repeat match goal with E : _ = _ |- _ => rewrite E; clear E end.
  all: try done.
Qed.

Definition no_panic (T : ftables) (s : state) : Prop := forall a, would_panic T s a = false.
Definition all_fired (s : state) : Prop := forall e, (getev s e).(fired) = true.

Lemma stacks_actor s c st : stacks s !! c = Some st -> exists ac, s.(actors) !! c = Some ac /\ ac.(stack) = st.
Proof. unfold stacks. rewrite list_lookup_fmap. destruct (actors s !! c) as [ac|]; cbn; [|done]. intros [= <-]. by exists ac. Qed.
Lemma np_zero_all P s : (forall c st, stacks s !! c = Some st -> cntf P st = 0) -> np P s = 0.
Proof.
  intros H. destruct (decide (np P s = 0)) as [|Hn]; [done|]. exfalso.
  assert (Hp : np P s > 0) by lia. apply npl_pos in Hp as (c & st & Hc & Hp). rewrite (H c st Hc) in Hp. lia.
Qed.
Lemma isbot_nonempty st : isbot (lastf st) -> st <> [].
Proof. intros [H|[sc H]] ->; done. Qed.

Section Terminal.
  Context (T : ftables) (HA : all_cond T).
  Context (s : state) (HI : Inv_all s) (Hterm : terminal T s) (Hnp : no_panic T s).

  (* every stack is non-empty and its top frame is one of the five blocking program points *)
  Lemma term_top c st : stacks s !! c = Some st -> exists fr rest, st = fr :: rest /\ blockable fr = true.
  Proof.
    intros Hc. pose proof (ip_bottom _ (ia_pool _ HI) c st Hc) as Hb. apply isbot_nonempty in Hb.
    destruct st as [|fr rest]; [done|]. exists fr, rest. split; [done|].
    destruct (stacks_actor s c _ Hc) as (ac & Ea & Est).
    destruct (step_none_cases T s c ac fr rest Ea Est (Hterm c)) as [?|Hp]; [done|]. by rewrite Hnp in Hp.
  Qed.
  (* hence no waker call, no reschedule, no schedule push and no wake_with is pending anywhere *)
  Lemma term_quiet P : (forall fr, P fr = true -> chain fr = true \/ toponly fr = true) -> np P s = 0.
  Proof.
    intros HP. apply np_zero_all. intros c st Hc. destruct (term_top c st Hc) as (fr & rest & -> & Hb).
    destruct (ia_shape _ HI c _ Hc) as (_ & H2 & H3). cbn in H2, H3.
    assert (Hcf : chain fr = false) by (by destruct fr). rewrite Hcf in H2.
    assert (Hpf : P fr = false).
    { destruct (P fr) eqn:E; [|done]. destruct (HP _ E) as [?|?]; [congruence|]. by destruct fr. }
    cbn. rewrite Hpf. cbn.
    assert (cntf P rest <= cntf chain rest + cntf toponly rest); [|lia].
    clear -HP. induction rest as [|x r IH]; cbn; [lia|]. destruct (P x) eqn:E; [|lia].
    destruct (HP _ E) as [-> | ->]; lia.
  Qed.

  Context (Hfired : all_fired s).
  Lemma term_npwake w : np (is_wake w) s = 0. Proof. apply term_quiet. intros []; try done. by left. Qed.
  Lemma term_cover e : cover s e = false.
  Proof.
    destruct (cover s e) eqn:E; [|done]. exfalso. apply cover_iff in E as [(Hf & _)|[(c & w & Hf & _)|(c & d & w & Hf & _)]].
    - by rewrite Hfired in Hf.
    - pose proof (np_pos_wake s c w Hf) as H. by rewrite term_npwake in H.
    - assert (H : np (fun fr => match fr with FWakeWith _ _ => true | _ => false end) s > 0).
      { apply np_pos_fsat. by exists c, (FWakeWith d w). }
      rewrite term_quiet in H; [lia|]. intros []; try done. by right.
  Qed.
  Lemma term_unfreg e w : unfreg s e w = false. Proof. unfold unfreg. by rewrite Hfired. Qed.

  (* nobody runs the queue: the only runner frame that blocks is the sync caller's park, and its wake-up is guaranteed *)
  Lemma term_no_runner : owned s.(qs) = false.
  Proof.
    destruct (owned (qs s)) eqn:Ho; [|done]. exfalso.
    pose proof (io_cnt _ (ia_own _ HI)) as Hc. rewrite Ho in Hc. cbn in Hc.
    assert (Hp : np marker s > 0) by lia. apply np_pos_fsat in Hp as (c & fr' & (st & Hst & Hin) & Hm).
    destruct (term_top c st Hst) as (fr & rest & -> & Hb).
    pose proof (shape_top_plain s c fr rest (ia_shape _ HI) Hst ltac:(by destruct fr)) as Hz.
    apply elem_of_cons in Hin as [->|Hin]; [|by rewrite (cntf_zero_all marker rest Hz fr' Hin) in Hm].
    destruct fr; try done. (* FROpark j *)
    pose proof (iw_frames _ (ia_wake _ HI) c (FROpark j) ltac:(eexists; split; [exact Hst|left])) as Hok. cbn in Hok.
    destruct (susp j) as [e|]; [|done].
    assert (Hgt : gt s c e = false) by (unfold gt; by rewrite term_unfreg, term_npwake).
    rewrite Hgt in Hok. destruct (is_wfu (qs s)); [done|]. rewrite orb_false_r in Hok.
    rewrite (term_quiet (is_unpark c)) in Hok by (intros []; try done; by left). rewrite orb_false_r in Hok.
    destruct (stacks_actor s c _ Hst) as (ac & Ea & Est). pose proof (Hterm c) as Hs. unfold step in Hs. rewrite Ea in Hs. cbn in Hs. rewrite Est in Hs.
    cbn in Hs. unfold tokb in Hok. rewrite (toks_lookup _ _ _ Ea) in Hok. cbn in Hok. by rewrite Hok in Hs.
  Qed.

  (* an idle pool runner would take a schedule entry *)
  Lemma term_insched : has_pool s -> s.(insched) = 0.
  Proof.
    intros (p & st & Hp & Hi). destruct (insched s) as [|n] eqn:En; [done|]. exfalso.
    destruct (ip_shape _ (ia_pool _ HI) p st Hp Hi) as [->|(pre & m & -> & Hm & _)].
    - destruct (stacks_actor s p _ Hp) as (ac & Ea & Est). pose proof (Hterm p) as Hs. unfold step in Hs. rewrite Ea in Hs. cbn in Hs.
      rewrite Est in Hs. cbn in Hs. rewrite En in Hs. by destruct (t_next (ft_base T) (qs s)).
    - assert (Hc : cntf marker (pre ++ [m; FPIdle]) >= 1).
      { rewrite cntf_app. cbn. assert (marker m = true) as -> by (by destruct m). lia. }
      pose proof (runner_owned s p _ (ia_own _ HI) Hp Hc) as Ho. by rewrite term_no_runner in Ho.
  Qed.

  Theorem terminal_idle_empty : has_pool s -> s.(qs) = Idle /\ s.(jobs) = [] /\ held s = [].
  Proof.
    intros HP. pose proof term_no_runner as Ho. pose proof (term_insched HP) as Hin.
    pose proof (iw_queue _ (ia_wake _ HI)) as HQ. unfold queue_ok in HQ.
    rewrite (term_quiet is_rq1), (term_quiet is_push), Hin in HQ by (intros []; try done; (by left) || (by right)).
    assert (Hh : held s = []) by (apply held_none; [apply (ia_own _ HI)|done]).
    destruct (qs s) eqn:Eq; try done.
    - destruct (jobs s) eqn:Ej; [done|]. cbn in HQ. destruct (hsusp s); [by rewrite term_cover in HQ|done].
    - destruct (hsusp s); [by rewrite term_cover in HQ|done].
    - destruct (hsusp s); [by rewrite term_cover in HQ|done].
    - by destruct (io_nopanic _ (ia_own _ HI)).
  Qed.
End Terminal.

(* C06, terminal form, for all programs, event timings and schedules, whoever ran the queue (pool thread, sync caller, polling task) *)
Theorem C06_terminal T (HA : all_cond T) scripts npool nev tr s :
  npool >= 1 -> run T (init scripts npool nev) tr = Some s ->
  terminal T s -> all_fired s ->
  s.(qs) = Idle /\ s.(jobs) = [] /\ held s = [].
Proof.
  intros Hn Hr Ht Hf. pose proof (reachable_all T HA _ _ _ _ _ Hr) as HI.
  eapply terminal_idle_empty; try done.
  - intros a. apply fut_no_panic; [apply (ac_own _ HA)|apply (ia_own _ HI)|apply (ia_fut _ HI)].
  - by eapply reachable_has_pool.
Qed.

(* C07: the code's panics (second take of a result, Panic arms of the tables, unexpected state in run_one_job_now) are unreachable *)
Theorem no_panic_reachable T (HA : all_cond T) scripts npool nev tr s a :
  run T (init scripts npool nev) tr = Some s -> would_panic T s a = false.
Proof.
  intros Hr. pose proof (reachable_all T HA _ _ _ _ _ Hr) as HI.
  apply fut_no_panic; [apply (ac_own _ HA)|apply (ia_own _ HI)|apply (ia_fut _ HI)].
Qed.

(* C07: the result of a scheduler future is delivered (Resolve f _ in the ghost log) at most once *)
Theorem resolve_at_most_once T (HA : all_cond T) scripts npool nev tr s f :
  run T (init scripts npool nev) tr = Some s -> nres f s.(log) <= 1.
Proof.
  intros Hr. pose proof (reachable_all T HA _ _ _ _ _ Hr) as HI. pose proof (if_one _ (ia_fut _ HI) f). lia.
Qed.

(* reading of [wbn]: every started operation has finished, except the open one *)
Lemma wbn_finished l : forall cur, wbn l = Some cur -> forall o, GStart o ∈ l -> GFinish o ∈ l \/ cur = Some o.
Proof.
  induction l as [|ev l IH]; intros cur H o Hin; [by apply elem_of_nil in Hin|].
  cbn in H. destruct (wbn l) as [c0|] eqn:E; cbn in H; [|done]. specialize (IH c0 eq_refl).
  apply elem_of_cons in Hin as [Heq|Hin].
  - subst ev. cbn in H. destruct c0; [done|]. injection H as <-. by right.
  - destruct (IH o Hin) as [Hf|Hc].
    + left. by right.
    + subst c0. destruct ev; cbn in H; try (injection H as <-; by right); try done.
      destruct (decide (o0 = o)) as [->|]; [|done]. left. left.
Qed.

(* detached / dropped / never-polled futures included: in a terminal state with all events fired and a pool runner, every
   operation that was scheduled has started and finished, in the order of scheduling *)
Theorem terminal_all_ran T (HA : all_cond T) scripts npool nev tr s :
  npool >= 1 -> run T (init scripts npool nev) tr = Some s -> terminal T s -> all_fired s ->
  starts s.(log) = pushes s.(log) /\ forall o, GPush o ∈ s.(log) -> GStart o ∈ s.(log) /\ GFinish o ∈ s.(log).
Proof.
  intros Hn Hr Ht Hf. destruct (C06_terminal T HA _ _ _ _ _ Hn Hr Ht Hf) as (Hq & Hj & Hh).
  pose proof (reachable_all T HA _ _ _ _ _ Hr) as HI. pose proof (ia_jobs _ HI) as HJ.
  pose proof (ij_fifo _ HJ) as H1. unfold pend in H1. rewrite Hh, Hj in H1. cbn in H1. rewrite app_nil_r in H1.
  pose proof (ij_log _ HJ) as H2. unfold inprog in H2. rewrite Hh, Hj in H2.
  split; [done|]. intros o Ho.
  assert (Hs : GStart o ∈ log s).
  { assert (o ∈ pushes (log s)).
    { clear -Ho. induction (log s) as [|ev l IH]; [by apply elem_of_nil in Ho|]. cbn. apply elem_of_app.
      apply elem_of_cons in Ho as [<-|Ho]; [right; left|left; by apply IH]. }
    rewrite H1 in H. clear -H. induction (log s) as [|ev l IH]; [by apply elem_of_nil in H|]. cbn in H.
    apply elem_of_app in H as [H|H]; [right; by apply IH|]. destruct ev; try (by apply elem_of_nil in H).
    apply elem_of_list_singleton in H as ->. left. }
  split; [done|]. by destruct (wbn_finished _ _ H2 o Hs).
Qed.
