(* C06 (one queue, with futures): a wake-up for a suspended future operation is never lost.  Layer L2.
   PROVED for all programs, event timings and schedules, for each of the three runner contexts (the invariant does the case
   analysis: pool thread = FDRrequeue/FDRpend, sync caller = FROpend/FROcheck/FROpark, polling task = FDQrequeue..FDQwfp, and the
   parked states WaitingForWake / WaitingForPoll / dormant Idle / Pending):
     [C06_invariant]      every reachable state satisfies Wake.frame_ok (runner frames) and Wake.queue_ok (no runner);
     [C06_terminal_pool]  with >= 1 pool runner, a reachable state in which no actor is enabled and all events are fired has
                          qs = Idle, jobs = [], nothing in hand, and every scheduled operation has started and finished, in order.
     [C06_zero_pool_full] with ZERO pool runners: one caller that only schedules plain / future jobs (bodies without signals) and
                          awaits or detaches its futures - no sync, no suspend - plus any number of callers that only fire events:
                          in a reachable state where no actor is enabled and all events are fired, the awaiting caller has
                          finished its script (stack = [FTop []]).  Needs, besides all_cond, the table facts ZeroInv.zero_cond
                          (instantiated for the generated tables in Inst.gen_zero_cond).  Proof: Zero*.v - the task half of the
                          DoubleWaker is tracked by a second cover predicate (Zero.tcover, invariant ZeroTz.Inv_tz).
   The side condition is needed: without it the statement ([Main.C06_zero_pool_any_script]) is REFUTED by a concrete run of the
   generated tables, see Examples.C06_zero_pool_needs_side_condition_refuted (a task that awaits a later future while the queue is
   parked in Pending / WaitingForWake is not re-polled by the queue wake-up and nobody runs the queue without a pool thread). *)
From L2 Require Import Model Wake WakeInv Term Main.
Theorem C06_wake_invariant_L2 : C06_invariant.
Proof. exact C06_invariant_main. Qed.
Theorem C06_terminal_partial_L2 : C06_terminal_pool.
Proof. exact C06_terminal_main. Qed.
Theorem C06_zero_pool_L2 : C06_zero_pool_full.
Proof. exact C06_zero_pool_main. Qed.
Print Assumptions C06_wake_invariant_L2.
Print Assumptions C06_terminal_partial_L2.
Print Assumptions C06_zero_pool_L2.
