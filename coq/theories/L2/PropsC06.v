(* C06 (one queue, with futures): a wake-up for a suspended future operation is never lost.  Layer L2.
   PROVED for all programs, event timings and schedules, for each of the three runner contexts (the invariant does the case
   analysis: pool thread = FDRrequeue/FDRpend, sync caller = FROpend/FROcheck/FROpark, polling task = FDQrequeue..FDQwfp, and the
   parked states WaitingForWake / WaitingForPoll / dormant Idle / Pending):
     [C06_invariant]      every reachable state satisfies Wake.frame_ok (runner frames) and Wake.queue_ok (no runner);
     [C06_terminal_pool]  with >= 1 pool runner, a reachable state in which no actor is enabled and all events are fired has
                          qs = Idle, jobs = [], nothing in hand, and every scheduled operation has started and finished, in order.
     [C06_zero_pool_full] with ZERO pool runners: one caller that only schedules plain / future jobs (bodies without signals) and
                          awaits or detaches its futures - no sync, no suspend - plus any number of callers that only fire events:
                          in a reachable state where no actor is enabled and all events are fired, the awaiting caller has
                          finished its script (stack = [FTop []]).  Needs, besides all_cond, the table facts ZeroInv.zero_cond
                          (instantiated for the generated tables in Inst.gen_zero_cond).  Proof: Zero*.v - the task half of the
                          DoubleWaker is tracked by a second cover predicate (Zero.tcover, invariant ZeroTz.Inv_tz).
   The side condition is needed: without it the statement ([Main.C06_zero_pool_any_script]) is REFUTED by a concrete run of the
   generated tables, see Examples.C06_zero_pool_needs_side_condition_refuted (a task that awaits a later future while the queue is
   parked in Pending / WaitingForWake is not re-polled by the queue wake-up and nobody runs the queue without a pool thread).
   The statements are about [run T] = [runF code_ffacts T] (Facts.runF_code; Inst.gen_ffacts_code).  Two of the order facts of
   Model.ffacts are NEEDED for the terminal theorem ([C06_terminal_pool_F F] = its statement for the model with facts F, plus
   "every actor is done"): with wake_with called before the parked state is written the queue wake-up of a job that was woken
   during its poll is lost; with a WakeThread waker that unparks only when it found WaitingForUnpark a stale waker of a finished
   sync caller eats the wake-up of the parked one (Refute.v: concrete terminal runs under the generated tables, >= 1 pool runner,
   all events fired, an operation started and never finished). *)
From L2 Require Import Model Wake WakeInv Term Main Refute.
Theorem C06_wake_invariant_L2 : C06_invariant.
Proof. exact C06_invariant_main. Qed.
Theorem C06_terminal_partial_L2 : C06_terminal_pool.
Proof. exact C06_terminal_main. Qed.
Theorem C06_zero_pool_L2 : C06_zero_pool_full.
Proof. exact C06_zero_pool_main. Qed.
(* zero pool runners, a caller that uses sync and poll-and-drop but does not also await futures: Main.C06_zero_pool_sync_full
   (from the sync-returns theorem of PropsC04.v; the other callers are arbitrary) *)
Theorem C06_zero_pool_sync_L2 : C06_zero_pool_sync_full.
Proof. exact C06_zero_pool_sync_main. Qed.
Theorem C06_terminal_with_code_facts_L2 : C06_terminal_pool_F code_ffacts.
Proof. exact C06_terminal_pool_code. Qed.
Theorem C06_needs_park_before_wake_refuted_L2 : ~ C06_terminal_pool_F wake_with_before_park.
Proof. exact C06_terminal_needs_park_before_wake. Qed.
Theorem C06_needs_unconditional_unpark_refuted_L2 : ~ C06_terminal_pool_F unpark_only_if_parked.
Proof. exact C06_terminal_needs_unconditional_unpark. Qed.
Print Assumptions C06_wake_invariant_L2.
Print Assumptions C06_terminal_partial_L2.
Print Assumptions C06_zero_pool_L2.
Print Assumptions C06_terminal_with_code_facts_L2.
Print Assumptions C06_needs_park_before_wake_refuted_L2.
Print Assumptions C06_needs_unconditional_unpark_refuted_L2.
Print Assumptions C06_zero_pool_sync_L2.
