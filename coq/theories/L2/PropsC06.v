(* C06 (one queue, with futures): a wake-up for a suspended future operation is never lost.  Layer L2.
   PROVED for all programs, event timings and schedules, for each of the three runner contexts (the invariant does the case
   analysis: pool thread = FDRrequeue/FDRpend, sync caller = FROpend/FROcheck/FROpark, polling task = FDQrequeue..FDQwfp, and the
   parked states WaitingForWake / WaitingForPoll / dormant Idle / Pending):
     [C06_invariant]      every reachable state satisfies Wake.frame_ok (runner frames) and Wake.queue_ok (no runner);
     [C06_terminal_pool]  with >= 1 pool runner, a reachable state in which no actor is enabled and all events are fired has
                          qs = Idle, jobs = [], nothing in hand, and every scheduled operation has started and finished, in order.
   MISSING ([C06_zero_pool_full], Main.v, only stated): the variant with ZERO pool runners (a single awaiting caller completes
   its future itself).  It needs a second cover predicate for the task half of the DoubleWaker; note the side condition the
   statement needs (found while exploring): no sync and no suspend in the awaiting caller - a task that awaits a later future while
   the queue is parked in WaitingForWake is not re-polled by the queue wake-up and nobody runs the queue without a pool thread. *)
From L2 Require Import Model Wake WakeInv Term Main.
Theorem C06_wake_invariant_L2 : C06_invariant.
Proof. exact C06_invariant_main. Qed.
Theorem C06_terminal_partial_L2 : C06_terminal_pool.
Proof. exact C06_terminal_main. Qed.
Print Assumptions C06_wake_invariant_L2.
Print Assumptions C06_terminal_partial_L2.
