(* C08: Inv_y is an invariant of the reachable states of well-formed programs *)
From stdpp Require Import list numbers option.
From RecordUpdate Require Import RecordUpdate.
From L2 Require Import Model Base Own Jobs Shape DwInv Pool Fut Sig Wake WakeInv Term YDefs YMono YStep1 YStep2 YStep3.
#[global] Unset Lia Cache.

Record Inv_yall (nev : nat) (s : state) : Prop := { ya_all : Inv_all s; ya_sig : Inv_sig s; ya_y : Inv_y nev s }.

Lemma step_y nev T s a s' : Inv_own s -> Inv_jobs s -> Inv_jobs s' -> Inv_fut s -> Inv_sig s -> Inv_y nev s ->
  step T s a = Some s' -> Inv_y nev s'.
Proof.
  intros HO HJ HJ' HF HS HY Hstep.
  destruct (step_y_rng nev T _ _ _ HY Hstep) as (R1 & R2 & R3).
  destruct (step_y_fj nev T _ _ _ HO HJ HF HS HY Hstep) as (F1 & F2).
  destruct (step_y_state nev T _ _ _ HO HJ HJ' HF HS HY Hstep) as (S1 & S2 & S3 & S4 & S5).
  by split.
Qed.
Lemma init_y nev scripts npool : ywf nev scripts -> Inv_y nev (init scripts npool nev).
Proof.
  intros Hwf. split.
  - cbn. by rewrite replicate_length.
  - intros o f r H. by apply elem_of_nil in H.
  - done.
  - intros c st fr Hc Hin. destruct (init_stacks _ _ _ _ _ Hc) as [->|[sc ->]].
    + by apply elem_of_list_singleton in Hin as ->.
    + apply elem_of_list_singleton in Hin as ->. cbn [frok].
      unfold stacks, init in Hc; cbn in Hc. rewrite list_lookup_fmap in Hc.
      destruct ((((fun sc => mk_actor [FTop sc]) <$> scripts) ++ replicate npool (mk_actor [FPIdle])) !! c) as [ac|] eqn:E; [|done].
      cbn in Hc. injection Hc as Hc. apply elem_of_list_lookup_2 in E. apply elem_of_app in E as [E|E].
      * apply elem_of_list_fmap in E as (sc' & -> & Hsc). cbn in Hc. injection Hc as ->.
        unfold ywf in Hwf. rewrite List.Forall_forall in Hwf. apply Hwf. by apply elem_of_list_In.
      * apply elem_of_replicate in E as [-> _]. done.
  - intros j H. by apply elem_of_nil in H.
  - intros o f r H. by apply elem_of_nil in H.
  - intros o f r v H. by apply elem_of_nil in H.
  - intros o f r H. by apply elem_of_nil in H.
  - intros f v H. by apply elem_of_nil in H.
  - done.
Qed.

Section Reach.
  Context (nev : nat) (T : ftables) (HA : all_cond T).
  Lemma step_yall s a s' : Inv_yall nev s -> step T s a = Some s' -> Inv_yall nev s'.
  Proof.
    intros [H1 H2 H3] Hs. pose proof (step_all T HA _ _ _ H1 Hs) as H1'. split; [done|by eapply step_sig|].
    eapply step_y; [apply (ia_own _ H1)|apply (ia_jobs _ H1)|apply (ia_jobs _ H1')|apply (ia_fut _ H1)|done|done|done].
  Qed.
  Theorem reachable_yall scripts npool tr s : ywf nev scripts -> run T (init scripts npool nev) tr = Some s -> Inv_yall nev s.
  Proof.
    intros Hwf. apply (run_inv (Inv_yall nev) T); [intros; by eapply step_yall|].
    split; [apply init_all|apply init_sig|by apply init_y].
  Qed.
End Reach.
