(* zero pool runners, one awaiting caller: the invariants as Props and their preservation (part 1: well-formedness) *)
From stdpp Require Import list numbers option.
From RecordUpdate Require Import RecordUpdate.
From L2 Require Import Model Base Own Jobs Shape DwInv Pool OpShape Fut Wake WakeInv WakeLem WakeStep1 Term Task TaskInv Complete Zero.
#[global] Unset Lia Cache.

Record zero_cond (T : ftables) : Prop := {
  zc_deq : forall st, running st = true -> T.(ft_base).(t_dequeue_refuses) st = false;
  zc_poll_self : forall f, T.(t_poll) f (WaitingForPoll f) = (Running, PADrain);
  zc_poll_wait : forall f st st', T.(t_poll) f st = (st', PAWait) ->
     owned st = true \/ st = WaitingForWake \/ exists f', f' <> f /\ st = WaitingForPoll f';
}.

Definition stk_ok (c : nat) (st : list frame) : bool := if bool_decide (c = 0) then forallb ok0 st else forallb okf st.
Record Inv_zp (s : state) : Prop := {
  zp_stacks : forall c st, stacks s !! c = Some st -> stk_ok c st = true;
  zp_jobs : forallb wfjob s.(jobs) = true;
}.

Lemma wfsc_app_sig body f : sigfreeb body = true -> wfsc (body ++ [PSignal f]) = true.
Proof.
  induction body as [|p body IH]; cbn; [done|]. intros [Hp Hb]%andb_true_iff. specialize (IH Hb). by destruct p.
Qed.
Lemma wfsc_tail p sc : wfsc (p :: sc) = true -> wfsc sc = true.
Proof. cbn. destruct p; try done. by destruct sc. Qed.
Lemma wfsc_sig_last f sc : wfsc (PSignal f :: sc) = true -> sc = [].
Proof. cbn. by destruct sc. Qed.
Lemma forallb_wake_frames_ok0 ws : forallb ok0 (wake_frames ws) = true. Proof. by induction ws. Qed.
Lemma forallb_wake_frames_okf ws : forallb okf (wake_frames ws) = true. Proof. by induction ws. Qed.
Lemma zp_update s s' a old new :
  (forall c st, stacks s !! c = Some st -> stk_ok c st = true) -> stacks s !! a = Some old -> stacks s' = <[a := new]> (stacks s) ->
  (stk_ok a old = true -> stk_ok a new = true) -> forall c st, stacks s' !! c = Some st -> stk_ok c st = true.
Proof.
  intros HI Ha Hs Hn c st Hc. rewrite Hs in Hc. destruct (decide (c = a)) as [->|Hne].
  - rewrite list_lookup_insert in Hc by (by eapply lookup_lt_Some). injection Hc as <-. apply Hn. by eapply HI.
  - rewrite list_lookup_insert_ne in Hc by done. by eapply HI.
Qed.

Section ZP.
  Context (T : ftables).
  Lemma step_zp s a s' : Inv_zp s -> step T s a = Some s' -> Inv_zp s'.
  Proof.
    intros [I1 I2] Hstep. step_split Hstep Ea Est.
    all: try discriminate Hstep.
    all: injection Hstep as <-.
    all: pop_cont_split.
    all: pose proof (stacks_lookup _ _ _ Ea) as Hst; rewrite Est in Hst.
    all: try match goal with k : kont |- _ => destruct k end.
    all: pose proof (I1 a _ Hst) as Hk; unfold stk_ok in Hk; cbn [forallb ok0 okf andb] in Hk.
    all: destruct (bool_decide (a = 0)) eqn:Ea0; try discriminate Hk.
    all: repeat match goal with H : _ && _ = true |- _ => apply andb_true_iff in H as [? ?] end.
    all: split.
    (* stacks *)
    all: try (lazymatch goal with |- forall c st, stacks _ !! c = Some st -> _ =>
              eapply (zp_update s _ a _ _ I1 Hst); [solve_stacks|]; intros _; unfold stk_ok; rewrite Ea0;
              cbn [forallb ok0 okf andb awaitb fireb wfjob]; rewrite ?forallb_app, ?forallb_wake_frames_ok0, ?forallb_wake_frames_okf;
              cbn [forallb ok0 okf andb awaitb fireb wfjob opt_wake]; rewrite ?andb_true_iff; repeat split; try done end).
    (* jobs *)
    all: try (lazymatch goal with |- forallb wfjob _ = true =>
              try (match goal with E : jobs _ = _ :: _ |- _ => rewrite E in I2; cbn in I2; apply andb_true_iff in I2 as [? ?] end);
              cbn -[forallb]; rewrite ?forallb_app; cbn [forallb andb]; rewrite ?I2, ?andb_true_r; cbn; rewrite ?andb_true_iff; repeat split; done end).
    all: try (by eapply wfsc_tail).
    all: try (by apply wfsc_app_sig).
    all: try (match goal with H : wfsc (PSignal _ :: ?l) = true |- wfsc ?l = true => by rewrite (wfsc_sig_last _ _ H) end).
    all: try (match goal with H : wfjob (JFut _ _ (PSignal _ :: ?l)) = true |- wfsc ?l = true => by rewrite (wfsc_sig_last _ _ H) end).
    all: try (match goal with H : awaitb (OFuture ?body ?u) = true |- _ => cbn in H; destruct u; try discriminate H; first [by apply wfsc_app_sig|done] end).
    all: try (match goal with |- forallb ok0 (opt_wake ?o) = true => by destruct o end).
    all: try (match goal with E : jobs _ = ?j :: ?l |- _ => rewrite E in I2; cbn in I2; apply andb_true_iff in I2 as [? ?]; first [done|cbn; done] end).
    all: try exact I2.
    all: try (match goal with |- forallb okf (opt_wake ?o) = true => by destruct o end).
    1: (change (forallb wfjob (jobs s) = true); by rewrite E0).
    all: cbn in I2; apply andb_true_iff in I2 as [? ?]; first [done|cbn; done].
  Qed.
End ZP.
Lemma forallb_repl {A} (p : A -> bool) n x : p x = true -> forallb p (replicate n x) = true.
Proof. intros H. induction n; cbn; [done|]. by rewrite H. Qed.

Lemma forallb_in {A} (p : A -> bool) l x : forallb p l = true -> x ∈ l -> p x = true.
Proof. intros H Hin. rewrite forallb_forall in H. apply H. by apply elem_of_list_In. Qed.
(* the poller's own future still has its job somewhere: drain_queue cannot find the queue empty *)
Lemma zero_no_empty s a f rest : Inv_own s -> Inv_shape s -> Inv_fut s -> Inv_zp s -> Inv_task s ->
  stacks s !! a = Some (FDQdeq f :: rest) -> s.(jobs) = [] -> False.
Proof.
  intros HO HS HF HZ HT Hst Hj.
  assert (Ha0 : a = 0).
  { pose proof (zp_stacks _ HZ a _ Hst) as H. unfold stk_ok in H. case_bool_decide; [done|]. cbn in H. done. }
  pose proof (it_rn _ HT a _ _ Hst ltac:(left)) as Hrn. cbn in Hrn. apply bool_decide_eq_true in Hrn.
  pose proof (if_poll _ HF _ _ Hst) as Hpo. cbn in Hpo. apply andb_true_iff in Hpo as [Hadj _]. unfold adjok in Hadj. cbn in Hadj.
  destruct rest as [|y r]; [done|].
  assert (Hwy : wf f y = true) by (destruct y; try done; by destruct pc).
  assert (Hlt : f < length (futs s)) by (eapply (wf_in_range s a _ y f HF Hst); [right; left|done]).
  pose proof (it_sig _ HT f Hlt Hrn) as Hn. unfold nsig in Hn. rewrite Hj in Hn. cbn in Hn.
  assert (Hp : np (sgf f) s > 0) by lia. apply np_pos_fsat in Hp as (c & fr & (st & Hc & Hin) & Hsg).
  destruct (marker_unique s a _ _ HO Hst eq_refl) as [Hr Ho].
  destruct (marker fr) eqn:Hm.
  - destruct (decide (c = a)) as [->|Hne]; [|by rewrite (Ho c fr Hne ltac:(by exists st)) in Hm].
    rewrite Hst in Hc. injection Hc as <-. apply elem_of_cons in Hin as [->|Hin]; [done|]. by rewrite (Hr _ Hin) in Hm.
  - destruct fr; try done. (* FD1 *)
    destruct (decide (c = a)) as [->|Hne].
    + rewrite Hst in Hc. injection Hc as <-. apply elem_of_cons in Hin as [?|Hin]; [done|].
      destruct (HS a _ Hst) as (_ & _ & H3). change (cntf toponly (y :: r) = 0) in H3. by pose proof (cntf_zero_all toponly _ H3 _ Hin).
    + pose proof (zp_stacks _ HZ c _ Hc) as H. unfold stk_ok in H. rewrite bool_decide_false in H by congruence.
      by pose proof (forallb_in okf _ _ H Hin).
Qed.

Lemma rn2_nonmarker s fr : marker fr = false -> rn2_ok s fr = true. Proof. by destruct fr. Qed.
Section RN2.
  Context (T : ftables) (HZ : zero_cond T).
  Lemma step_rn2 s a s' : Inv_own s -> Inv_shape s -> Inv_fut s -> Inv_zp s -> Inv_task s ->
    (forall c st fr, stacks s !! c = Some st -> fr ∈ st -> rn2_ok s fr = true) ->
    step T s a = Some s' -> forall c st fr, stacks s' !! c = Some st -> fr ∈ st -> rn2_ok s' fr = true.
  Proof.
    intros HO HS HF HZP HT I2 Hstep. step_split Hstep Ea Est.
    all: try discriminate Hstep.
    all: injection Hstep as <-.
    all: pop_cont_split.
    all: pose proof (stacks_lookup _ _ _ Ea) as Hst; rewrite Est in Hst.
    all: try match goal with k : kont |- _ => destruct k end.
    all: assert (Hok0 := I2 a _ _ Hst ltac:(left)); cbn in Hok0; try discriminate Hok0.
    all: first [ eapply (marked_runner_step rn2_ok s _ a _ _ _ rn2_nonmarker HO Hst eq_refl); [solve_stacks|]
               | eapply (marked_other_step rn2_ok s _ a _ _ _ rn2_nonmarker Hst); [solve_stacks| | |exact I2] ].
    (* stability under non-marker steps *)
    all: try (lazymatch goal with |- forall fr, marker fr = true -> _ =>
      intros frq Hm Hok; destruct frq; try done; cbn in Hok |- *;
      try (match goal with k : kont |- _ => destruct k end; try done);
      rewrite ?orb_true_iff in *; try (destruct Hok as [Hok|Hok]; [left|by right]);
      apply bool_decide_eq_true in Hok; apply bool_decide_eq_true;
      first [ rewrite (getf_futs _ s _ eq_refl); exact Hok
            | match goal with |- res (getf ?s1 _) = _ => apply (res_none_alloc s s1 _ _ eq_refl ltac:(repeat constructor) Hok) end
            | match goal with |- context [setf ?s0 ?f ?c] => match goal with |- res (getf ?s1 ?fq) = _ =>
                rewrite (getf_futs s1 (setf s0 f c) fq eq_refl); apply res_none_keep; [exact Hok|]; cbn; first [by left|right; congruence] end end ] end).
    (* new frames *)
    all: try (lazymatch goal with |- forall fr, fr ∈ _ -> _ \/ _ =>
              intros fr0 Hin; cbn [ret_ready ret_pending] in Hin; rewrite ?elem_of_app in Hin;
              repeat (first [ apply elem_of_cons in Hin as [->|Hin]; [right|]
                            | destruct Hin as [Hin|Hin]; [right; first [ destruct (fwaker (getf s f0)); [apply elem_of_list_singleton in Hin as ->|by apply elem_of_nil in Hin]
                                                                       | match goal with o : option waker |- _ => destruct o; [apply elem_of_list_singleton in Hin as ->|by apply elem_of_nil in Hin] end
                                                                       | unfold wake_frames in Hin; apply elem_of_list_fmap in Hin as (? & -> & _) ] |] ]);
              [..|first [by left|left; by right] ]; try reflexivity end).
    all: cbn [rn2_ok ret_pending]; rewrite ?orb_true_iff in *.
    (* the result cannot have arrived while the job polled returned Pending *)
    all: try (lazymatch goal with Hst : stacks _ !! _ = Some (FDQtake2 _ _ :: _) |- false = true => apply bool_decide_eq_true in Hok0; congruence end).
    (* facts of the old top frame *)
    all: try (destruct Hok0 as [Hok0|Hok0]; [|discriminate Hok0]).
    all: try (apply bool_decide_eq_true in Hok0).
    all: try (lazymatch goal with Hst : stacks _ !! _ = Some (?x :: _) |- _ =>
              lazymatch x with FDQdeq _ => idtac | FDQstore _ _ => idtac end;
              pose proof (it_rn _ HT a _ x Hst ltac:(left)) as Hrn; cbn in Hrn; apply bool_decide_eq_true in Hrn end).
    (* a signal inside a job polled by drain_queue: the job's own future only as the last prim *)
    all: try (lazymatch goal with Hst : stacks _ !! _ = Some (FJob (JFut _ Waiting (PSignal ?f0 :: ?l)) _ (KDq ?f1 _) :: _) |- _ =>
              assert (Hwf : wfsc (PSignal f0 :: l) = true) by
                (pose proof (zp_stacks _ HZP a _ Hst) as Hk; unfold stk_ok in Hk; case_bool_decide; cbn in Hk; [by apply andb_true_iff in Hk as [? _]|done]);
              destruct (decide (f0 = f1)) as [->|Hnf];
              [ right; by rewrite (wfsc_sig_last _ _ Hwf)
              | left; apply bool_decide_eq_true; match goal with |- res (getf ?s1 ?fq) = _ =>
                  rewrite (getf_futs s1 (setf s f0 {| res := FSome _; fwaker := None |}) fq eq_refl) end;
                unfold getf, setf; cbn; rewrite list_lookup_insert_ne by done; exact Hok0 ] end).
    all: try (left).
    all: try (apply bool_decide_eq_true).
    all: try (match goal with |- res (getf ?s1 ?fq) = _ => rewrite (getf_futs s1 s fq eq_refl); first [exact Hok0|exact Hrn] end).
    all: try (match goal with |- context [setf ?s0 ?f ?c] => match goal with |- res (getf ?s1 ?fq) = _ =>
              rewrite (getf_futs s1 (setf s0 f c) fq eq_refl); apply res_none_keep; [first [exact Hok0|exact Hrn]|]; cbn; by left end end).
    (* drain_queue never finds the queue empty *)
    - exfalso. destruct (runner_working s a _ HO Hst ltac:(cbn; lia)) as [H1 H2]. rewrite (zc_deq _ HZ) in E; [done|by apply owned_running].
    - exfalso. by eapply (zero_no_empty s a f rest).
  Qed.
End RN2.

(* ---------- queue-state facts ---------- *)
Definition awaits0 (s : state) (f : nat) : Prop := exists st0, stacks s !! 0 = Some st0 /\ (FAwRet f ∈ st0 \/ FPark f ∈ st0).
Record Inv_zq (s : state) : Prop := {
  zq_nowfw : s.(qs) <> WaitingForWake;
  zq_wfp : forall f, s.(qs) = WaitingForPoll f -> (getf s f).(res) = FNone /\ awaits0 s f;
}.
(* the tables never produce WaitingForWake from another state, and keep WaitingForPoll *)
Lemma wq_keeps T (HW : wake_cond T) st st' c : T.(t_wake_queue) st = (st', c) -> st <> Panicked -> st <> WaitingForWake ->
  st' <> WaitingForWake /\ (forall f, st' = WaitingForPoll f -> st = WaitingForPoll f) /\ (forall f, st = WaitingForPoll f -> st' = st).
Proof.
  intros E Hp Hw. destruct st; try done.
  - rewrite (wc_wq_idle _ HW) in E. injection E as <- <-. done.
  - pose proof (wc_wq_pending _ HW) as H. rewrite E in H. cbn in H. subst. done.
  - pose proof (wc_wq_running _ HW Running eq_refl) as H. rewrite E in H. cbn in H. subst. done.
  - pose proof (wc_wq_wfu _ HW) as H. rewrite E in H. cbn in H. subst. done.
  - rewrite (wc_wq_wfp _ HW) in E. injection E as <- <-. split; [done|]. split; [by intros ? [= ->]|done].
  - pose proof (wc_wq_running _ HW AwokenWhileRunning eq_refl) as H. rewrite E in H. cbn in H. subst. done.
Qed.
Lemma wt_keeps T (HW : wake_cond T) st : st <> Panicked -> st <> WaitingForWake ->
  let st' := T.(t_wake_thread) st in
  st' <> WaitingForWake /\ (forall f, st' = WaitingForPoll f -> st = WaitingForPoll f) /\ (forall f, st = WaitingForPoll f -> st' = st).
Proof.
  intros Hp Hw. cbn. destruct st; try done.
  - by rewrite (wc_wt_other _ HW) by (by left).
  - by rewrite (wc_wt_other _ HW) by (right; by left).
  - by rewrite (wc_wt_running _ HW).
  - by rewrite (wc_wt_wfu _ HW).
  - rewrite (wc_wt_other _ HW) by (right; right; by eexists). split; [done|]. split; [by intros ? [= ->]|done].
  - by rewrite (wc_wt_running _ HW).
Qed.
Lemma rq_keeps T (HW : wake_cond T) st ne st' p : T.(ft_base).(t_resched) st ne = (st', p) -> st <> WaitingForWake ->
  st' <> WaitingForWake /\ (forall f, st' = WaitingForPoll f -> st = WaitingForPoll f) /\ (forall f, st = WaitingForPoll f -> st' = st).
Proof.
  intros E Hw. destruct (decide (st = Idle)) as [->|Hn].
  - rewrite (wc_resched_idle _ HW) in E. destruct ne; injection E as <- <-; done.
  - rewrite (wc_resched_other _ HW _ _ _ _ E Hn). done.
Qed.
Lemma ds_keeps T (HW : wake_cond T) st st' act : T.(ft_base).(t_desync) st = (st', act) -> st <> WaitingForWake ->
  st' <> WaitingForWake /\ (forall f, st' = WaitingForPoll f -> st = WaitingForPoll f) /\ (forall f, st = WaitingForPoll f -> st' = st).
Proof.
  intros E Hw. destruct (decide (st = Idle)) as [->|Hn].
  - rewrite (wc_desync_idle _ HW) in E. injection E as <- <-. done.
  - rewrite (wc_desync_other _ HW _ _ _ E Hn). done.
Qed.

Lemma awaits0_other s s' a old new f : a <> 0 -> stacks s !! a = Some old -> stacks s' = <[a := new]> (stacks s) -> awaits0 s f -> awaits0 s' f.
Proof. intros Hne Ha Hs (st0 & H0 & Hin). exists st0. split; [|done]. by rewrite Hs, list_lookup_insert_ne. Qed.
Lemma awaits0_self s s' old new f : stacks s !! 0 = Some old -> stacks s' = <[0 := new]> (stacks s) ->
  (FAwRet f ∈ new \/ FPark f ∈ new) -> awaits0 s' f.
Proof. intros Ha Hs Hin. exists new. split; [|done]. rewrite Hs, list_lookup_insert; [done|by eapply lookup_lt_Some]. Qed.

Lemma zq_update s s' a old new : stacks s !! a = Some old -> stacks s' = <[a := new]> (stacks s) -> Inv_zq s ->
  s'.(qs) <> WaitingForWake ->
  (forall f, s'.(qs) = WaitingForPoll f ->
     (s.(qs) = WaitingForPoll f /\ ((getf s f).(res) = FNone -> (getf s' f).(res) = FNone) /\
        (a = 0 -> FAwRet f ∈ old \/ FPark f ∈ old -> FAwRet f ∈ new \/ FPark f ∈ new)) \/
     ((getf s' f).(res) = FNone /\ a = 0 /\ (FAwRet f ∈ new \/ FPark f ∈ new))) -> Inv_zq s'.
Proof.
  intros Ha Hs [Q1 Q2] Hq H. split; [done|]. intros f Hf. destruct (H f Hf) as [(Hq0 & Hr & Hin)|(Hr & -> & Hin)].
  - destruct (Q2 f Hq0) as [Hr0 Haw]. split; [by apply Hr|]. destruct (decide (a = 0)) as [->|Hne].
    + destruct Haw as (st0 & H0 & Hi). assert (st0 = old) by congruence. subst st0.
      eapply awaits0_self; [exact Ha|exact Hs|]. by apply Hin.
    + by eapply awaits0_other.
  - split; [done|]. by eapply awaits0_self.
Qed.

Section ZQ.
  Context (T : ftables) (HT : own_cond T) (HW : wake_cond T) (HZ : zero_cond T).
  Lemma step_zq s a s' : Inv_own s -> Inv_op s -> Inv_fut s -> Inv_zp s ->
    (forall c st fr, stacks s !! c = Some st -> fr ∈ st -> rn2_ok s fr = true) -> Inv_zq s ->
    step T s a = Some s' -> Inv_zq s'.
  Proof.
    intros HO HP HF HZP I2 [Q1 Q2] Hstep. pose proof (io_nopanic _ HO) as Hnp. step_split Hstep Ea Est.
    all: try discriminate Hstep.
    all: injection Hstep as <-.
    all: pop_cont_split.
    all: pose proof (stacks_lookup _ _ _ Ea) as Hst; rewrite Est in Hst.
    all: try match goal with k : kont |- _ => destruct k end.
    (* frames that do not occur in these programs *)
    all: pose proof (zp_stacks _ HZP a _ Hst) as Hk; unfold stk_ok in Hk; cbn [forallb ok0 okf andb] in Hk.
    all: destruct (bool_decide (a = 0)) eqn:Ea0; try discriminate Hk.
    all: [> apply bool_decide_eq_true in Ea0 | apply bool_decide_eq_false in Ea0 ..] || idtac.
    all: assert (Hrn := I2 a _ _ Hst ltac:(left)); cbn in Hrn; try discriminate Hrn.
    all: eapply zq_update; [exact Hst| solve_stacks |done | cbn | cbn; intros f' Hq].
    all: try (assert (Hrun := runner_owned s a _ HO Hst ltac:(cbn; lia))).
    all: try match goal with
      | E : t_wake_queue _ _ = (_, _) |- _ => pose proof (wq_keeps _ HW _ _ _ E Hnp Q1) as (K1 & K2 & K3)
      | E : t_resched _ _ _ = (_, _) |- _ => pose proof (rq_keeps _ HW _ _ _ _ E Q1) as (K1 & K2 & K3)
      | E : t_desync _ _ = (_, _) |- _ => pose proof (ds_keeps _ HW _ _ _ E Q1) as (K1 & K2 & K3)
      | E : t_poll _ _ _ = (_, _) |- _ => pose proof (oc_poll _ HT _ _ _ _ E) as K1; cbn in K1
      | |- context [t_wake_thread _ _] => pose proof (wt_keeps _ HW _ Hnp Q1) as (K1 & K2 & K3)
      end.
    all: try (first [exact Q1 | discriminate | exact K1]).
    all: try (exfalso; rewrite Hq in Hrun; discriminate Hrun).
    all: try (left; split; [first [exact Hq | by apply K2] | split;
       [ intros Hr; unfold getf in *; cbn; exact Hr
       | intros _ Hi; rewrite ?elem_of_app, !elem_of_cons in *; naive_solver ]]).
    all: try (first [ subst q; exact Q1 | destruct K1 as (_ & _ & ->); discriminate ]).
    - (* alloc *) left. split; [exact Hq|]. split.
      + apply (res_none_alloc s _ [fc0]); [done|by repeat constructor].
      + intros _ Hi; rewrite !elem_of_cons in *; naive_solver.
    - (* poll stores the task waker *) left. split; [congruence|]. split.
      + intros Hr. apply (res_none_keep (s <| qs := q |>)); [exact Hr|by left].
      + intros _ Hi; rewrite !elem_of_cons in *; naive_solver.
    - (* Ready, nothing popped *) left. split; [exact Hq|]. split.
      + intros Hr. apply (res_none_keep s); [exact Hr|right; by rewrite E].
      + intros _ Hi; rewrite !elem_of_cons in *; naive_solver.
    - (* Ready, continuation popped *) exfalso.
      pose proof (if_poll _ HF _ _ Hst) as Hpo. cbn in Hpo. apply andb_true_iff in Hpo as [Hpo _].
      apply bool_decide_eq_true in Hpo. subst fc. destruct (Q2 f' Hq) as [Hr (st0 & H0 & Hin)].
      rewrite Ea0 in Hst. rewrite Hst in H0. injection H0 as <-.
      assert (Hz : cntf opfr rc = 0).
      { destruct (HP 0 _ Hst) as [_ H]. cbn in H. lia. }
      assert (Hno : forall x, x ∈ rc -> opfr x = false) by (by apply cntf_zero_all).
      rewrite !elem_of_cons in Hin. destruct Hin as [[Hi|[Hi|Hi]]|[Hi|[Hi|Hi]]]; try discriminate Hi.
      + injection Hi as ->. rewrite E in Hr. discriminate Hr.
      + by specialize (Hno _ Hi).
      + by specialize (Hno _ Hi).
    - (* FDQwfp: the queue starts waiting for the caller's poll *)
      injection Hq as <-. right. apply bool_decide_eq_true in Hrn. split; [exact Hrn|]. split; [done|].
      pose proof (if_poll _ HF _ _ Hst) as Hpo. cbn in Hpo. apply andb_true_iff in Hpo as [Hpo _].
      destruct rest as [|y rest']; [done|]. cbn in Hk. apply andb_true_iff in Hk as [Hy _].
      destruct y; try discriminate Hpo; try discriminate Hy.
      apply bool_decide_eq_true in Hpo. subst. left. rewrite !elem_of_cons. auto.
  Qed.
End ZQ.
