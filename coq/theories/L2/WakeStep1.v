(* C06: preservation of the wake invariant, the steps that touch what it looks at (part 1) *)
From stdpp Require Import list numbers option.
From RecordUpdate Require Import RecordUpdate.
From L2 Require Import Model Base Own Jobs Shape Wake WakeInv WakeLem.
#[global] Unset Lia Cache.

Ltac cnt_le := cbn; rewrite ?cntf_app, ?cntf_wake_frames, ?cntf_opt_wake by done; cbn; repeat case_bool_decide; simplify_eq; lia.
(* tview for a step that only adds to what the runner's obligations look at *)
Ltac tv_mono s Hst :=
  apply tview_mono;
  [ cbn; reflexivity
  | intros ?e ?He; unfold hsusp; cbn; first [eassumption | by apply hsusp_push]
  | intros ?e ?w; lazymatch goal with |- _ -> unfreg ?s2 ?e ?w = true => rewrite (unfreg_evs s s2 e w ltac:(reflexivity)); done end
  | intros ?w ?Hw; eapply np_mono; [exact Hst|solve_stacks|cnt_le]
  | intros ?c _; apply unp_mono;
      [ lazymatch goal with |- _ -> tokb ?s2 ?c = true => rewrite (tokb_toks s s2 c ltac:(solve_toks)); done end
      | eapply np_mono; [exact Hst|solve_stacks|cnt_le] ]
  | intros ?d; lazymatch goal with |- _ -> dw_woken ?s2 ?d = true => rewrite (dw_woken_dws s s2 d ltac:(reflexivity)); done end ].
Ltac new_in_rest := intros ?fr ?Hin; left; exact Hin.

Section Steps.
  Context (T : ftables) (HT : own_cond T) (HC : jobs_cond T) (HW : wake_cond T).

  (* FD2 / FRQ2: the schedule push *)
  Lemma ws_push s a fr0 rest : Inv_own s -> Inv_wake s -> stacks s !! a = Some (fr0 :: rest) -> is_push fr0 = true ->
    Inv_wake (setstack (s <| insched := S s.(insched) |>) a rest).
  Proof.
    intros HO [IF IQ] Hst Hp. split.
    - eapply (frames_other_tview s _ a fr0 rest _ HO IF Hst); [solve_stacks|new_in_rest|]. intros _.
      destruct fr0; try done; tv_mono s Hst.
    - match goal with |- queue_ok ?x = true => assert (Hs : stacks x = <[a := rest]> (stacks s)) by solve_stacks; set (s' := x) in * end.
      assert (Hc : forall e, cover s' e = cover s e).
      { intros e. eapply cover_same; [exact Hst|exact Hs| |done|done|done]. by destruct fr0. }
      assert (Hn : np is_push s' + 1 = np is_push s).
      { pose proof (np_upd is_push s s' a _ _ Hst Hs) as H. cbn [cntf] in H. rewrite Hp in H. lia. }
      assert (Hr : np is_rq1 s' = np is_rq1 s) by (eapply np_same; [exact Hst|exact Hs|by destruct fr0]).
      unfold queue_ok in *. change (qs s') with (qs s). change (jobs s') with (jobs s). change (hsusp s') with (hsusp s).
      change (insched s') with (S (insched s)). rewrite Hr.
      destruct (qs s); try done.
      + destruct (jobs s); [done|]. destruct (hsusp s); [by rewrite Hc|done].
      + destruct (np is_push s'); cbn; [|done]. done.
      + destruct (hsusp s); [by rewrite Hc|done].
      + destruct (hsusp s); [|done]. by rewrite !orb_true_r.
  Qed.

  Lemma app_not_nil {A} (l : list A) x : l ++ [x] <> []. Proof. by destruct l. Qed.

  (* schedule_job_desync on an Idle queue *)
  Lemma ws_fd1_sched s a j op q rest : Inv_own s -> Inv_wake s -> stacks s !! a = Some (FD1 j :: rest) ->
    T.(ft_base).(t_desync) s.(qs) = (q, DASchedule) ->
    Inv_wake (setstack (addlog (s <| jobs := s.(jobs) ++ [j] |> <| qs := q |>) [GPush op]) a (FD2 :: rest)).
  Proof.
    intros HO [IF IQ] Hst E. apply (wc_desync_sched _ HW) in E as [Hq ->]. split.
    - eapply (frames_other_tview s _ a _ rest _ HO IF Hst); [solve_stacks| |intros Hown; by rewrite Hq in Hown].
      intros fr [->|Hin]%elem_of_cons; [by right|by left].
    - match goal with |- queue_ok ?x = true => pose proof (np_upd is_push s x a _ _ Hst ltac:(solve_stacks)) as H; unfold queue_ok;
        change (qs x) with Pending; change (insched x) with (insched s); cbv beta iota; cbn [cntf is_push] in H end.
      match goal with |- posb (?n + _) = true => destruct n; [lia|done] end.
  Qed.

  (* sync_background pushing onto an Idle queue: reschedule_queue follows *)
  Lemma ws_sbpush_idle s a j op rest : Inv_own s -> Inv_wake s -> stacks s !! a = Some (FSBpush op j :: rest) -> s.(qs) = Idle ->
    forall jb, Inv_wake (setstack (addlog (setsres (s <| jobs := s.(jobs) ++ [jb] |>) a false) [GPush op]) a (FRQ1 :: FSBwait :: rest)).
  Proof.
    intros HO [IF IQ] Hst Hq jb. split.
    - eapply (frames_other_tview s _ a _ rest _ HO IF Hst); [solve_stacks| |intros Hown; by rewrite Hq in Hown].
      intros fr [->|[->|Hin]%elem_of_cons]%elem_of_cons; [by right|by right|by left].
    - match goal with |- queue_ok ?x = true => pose proof (np_upd is_rq1 s x a _ _ Hst ltac:(solve_stacks)) as H; unfold queue_ok;
        change (qs x) with (qs s); change (jobs x) with (jobs s ++ [jb]); cbn [cntf is_rq1] in H end.
      rewrite Hq; cbv beta iota. destruct (jobs s ++ [jb]) eqn:Ej; [by apply app_not_nil in Ej|].
      match goal with |- posb ?n || _ = true => destruct n; [lia|done] end.
  Qed.

  (* reschedule_queue, first section *)
  Lemma ws_rq1 s a q push rest : Inv_own s -> Inv_wake s -> stacks s !! a = Some (FRQ1 :: rest) ->
    T.(ft_base).(t_resched) s.(qs) (negb (bool_decide (s.(jobs) = []))) = (q, push) ->
    Inv_wake (setstack (kickall (s <| qs := q |>)) a (if push then FRQ2 :: rest else rest)).
  Proof.
    intros HO [IF IQ] Hst E.
    set (new := if push then FRQ2 :: rest else rest).
    assert (Hnew : forall fr, fr ∈ new -> fr ∈ rest \/ frame_ok (setstack (kickall (s <| qs := q |>)) a new) a fr = true).
    { subst new. destruct push; [intros fr [->|Hin]%elem_of_cons; [by right|by left]|by left]. }
    assert (Hs : stacks (setstack (kickall (s <| qs := q |>)) a new) = <[a := new]> (stacks s)) by solve_stacks.
    assert (Hc : forall e, cover (setstack (kickall (s <| qs := q |>)) a new) e = cover s e).
    { intros e. eapply cover_same; [exact Hst|exact Hs| |done|done|done]. subst new. by destruct push. }
    destruct (owned (qs s)) eqn:Ho.
    - assert (q = qs s) as -> by (eapply (wc_resched_other _ HW); [exact E|by destruct (qs s)]).
      split; [|by apply queue_ok_owned].
      eapply (frames_other_tview s _ a _ rest _ HO IF Hst); [exact Hs|exact Hnew|]. intros _.
      subst new. destruct push; tv_mono s Hst.
    - split; [eapply (frames_other_tview s _ a _ rest _ HO IF Hst); [exact Hs|exact Hnew|congruence]|].
      pose proof (np_upd is_push s _ a _ _ Hst Hs) as Hp. pose proof (np_upd is_rq1 s _ a _ _ Hst Hs) as Hr.
      set (s' := setstack _ _ _) in *. unfold queue_ok in *.
      change (qs s') with q. change (jobs s') with (jobs s). change (hsusp s') with (hsusp s). change (insched s') with (insched s).
      destruct (qs s) eqn:Eq; try done.
      + rewrite (wc_resched_idle _ HW) in E. destruct (jobs s) as [|j l] eqn:Ej; cbn in E; injection E as <- <-; [done|].
        subst new. cbn [cntf is_push] in Hp. destruct (np is_push s'); [lia|done].
      + assert (q = Pending) as -> by (eapply (wc_resched_other _ HW); [exact E|done]).
        subst new. destruct push; cbn [cntf is_push] in Hp; eapply posb_mono; [|exact IQ| |exact IQ]; lia.
      + assert (q = WaitingForWake) as -> by (eapply (wc_resched_other _ HW); [exact E|done]).
        destruct (hsusp s); [by rewrite Hc|done].
      + rewrite (wc_resched_wfp _ HW) in E. injection E as <- <-. destruct (hsusp s); [|done].
        subst new. cbn [cntf is_push] in Hp. destruct (np is_push s'); [lia|]. by rewrite orb_true_r.
      + assert (q = Panicked) as -> by (eapply (wc_resched_other _ HW); [exact E|done]). done.
  Qed.

  Lemma queue_ok_same s s' : s'.(qs) = s.(qs) -> s'.(jobs) = s.(jobs) -> s'.(insched) = s.(insched) ->
    (forall e, cover s' e = cover s e) -> np is_rq1 s' = np is_rq1 s -> np is_push s' = np is_push s ->
    queue_ok s = true -> queue_ok s' = true.
  Proof.
    intros Hq Hj Hi Hc Hr Hp. unfold queue_ok. rewrite Hq, Hj, Hi, Hr, Hp, (hsusp_jobs _ _ Hj).
    destruct (qs s); try done; destruct (hsusp s); try done; by rewrite Hc.
  Qed.
  Lemma queue_ok_mono s s' : s'.(qs) = s.(qs) -> s'.(jobs) = s.(jobs) -> s.(insched) <= s'.(insched) ->
    (forall e, cover s e = true -> cover s' e = true) -> np is_rq1 s <= np is_rq1 s' -> np is_push s <= np is_push s' ->
    queue_ok s = true -> queue_ok s' = true.
  Proof.
    intros Hq Hj Hi Hc Hr Hp. unfold queue_ok. rewrite Hq, Hj, (hsusp_jobs _ _ Hj).
    destruct (qs s); try done.
    - destruct (jobs s); [done|]. rewrite !orb_true_iff. intros [H|H]; [left; by eapply posb_mono|right].
      destruct (hsusp s); [by apply Hc|done].
    - apply posb_mono. lia.
    - destruct (hsusp s); [apply Hc|done].
    - destruct (hsusp s); [|done]. rewrite !orb_true_iff.
      intros [[[H|H]|H]|H]; [left; left; left; by apply Hc|left; left; right; by eapply posb_mono|left; right; by eapply posb_mono|right; by eapply posb_mono].
  Qed.
  Lemma isrunner_lt s c : isrunner s c -> c < length (stacks s).
  Proof. intros (fr & (st & Hc & _) & _). by eapply lookup_lt_Some. Qed.
  Lemma tokb_set_eq s c : c < length (stacks s) -> tokb (settoken s c true) c = true.
  Proof.
    intros H. unfold tokb. rewrite toks_settoken, list_lookup_insert; [done|].
    unfold toks; rewrite fmap_length. unfold stacks in H. by rewrite fmap_length in H.
  Qed.
  Lemma tokb_setstack s a st c : tokb (setstack s a st) c = tokb s c.
  Proof. unfold tokb. by rewrite toks_setstack. Qed.
  Lemma tokb_set_ne s c c0 b : c <> c0 -> tokb (settoken s c0 b) c = tokb s c.
  Proof. intros H. unfold tokb. by rewrite toks_settoken, list_lookup_insert_ne. Qed.

  (* thread.unpark() / the task waker *)
  Lemma ws_unpark s a c0 rest : Inv_own s -> Inv_wake s -> stacks s !! a = Some (FUnpark c0 :: rest) ->
    Inv_wake (setstack (settoken s c0 true) a rest).
  Proof.
    intros HO [IF IQ] Hst.
    assert (Hs : stacks (setstack (settoken s c0 true) a rest) = <[a := rest]> (stacks s)) by solve_stacks.
    split.
    - eapply (frames_other_tview s _ a _ rest _ HO IF Hst); [exact Hs|new_in_rest|]. intros _.
      apply tview_mono; try done.
      + intros w _. eapply np_mono; [exact Hst|exact Hs|cnt_le].
      + intros c Hc. unfold unp. rewrite tokb_setstack.
        destruct (decide (c = c0)) as [->|Hne]; [by rewrite tokb_set_eq by (by apply isrunner_lt)|].
        rewrite tokb_set_ne by done. rewrite (np_same (is_unpark c) s _ a _ _ Hst Hs); [done|]. cbn. by rewrite bool_decide_false by congruence.
    - eapply (queue_ok_same s); try done.
      + intros e. by eapply cover_same; [exact Hst|exact Hs| | | |].
      + by eapply np_same; [exact Hst|exact Hs|].
      + by eapply np_same; [exact Hst|exact Hs|].
  Qed.

  (* the awaiting task's executor returns from park (token consumed) and polls again *)
  Lemma ws_park s a f rest : Inv_own s -> Inv_shape s -> Inv_wake s -> stacks s !! a = Some (FPark f :: rest) ->
    Inv_wake (setstack (settoken s a false) a (FSFpoll f :: FAwRet f :: rest)).
  Proof.
    intros HO HS [IF IQ] Hst.
    assert (Hs : stacks (setstack (settoken s a false) a (FSFpoll f :: FAwRet f :: rest)) = <[a := FSFpoll f :: FAwRet f :: rest]> (stacks s)) by solve_stacks.
    assert (Hna : forall c, isrunner s c -> c <> a).
    { intros c (fr & (st & Hc & Hin) & Hm) ->. rewrite Hst in Hc. injection Hc as <-.
      pose proof (shape_top_plain s a _ _ HS Hst eq_refl) as Hz.
      apply elem_of_cons in Hin as [->|Hin]; [done|]. by rewrite (cntf_zero_all marker rest Hz fr Hin) in Hm. }
    split.
    - eapply (frames_other_tview s _ a _ rest _ HO IF Hst); [exact Hs| |].
      { intros fr [->|[->|Hin]%elem_of_cons]%elem_of_cons; [by right|by right|by left]. }
      intros _. apply tview_mono; try done.
      + intros w _. eapply np_mono; [exact Hst|exact Hs|cnt_le].
      + intros c Hc. unfold unp. rewrite tokb_setstack, tokb_set_ne by (by apply Hna).
        by rewrite (np_same (is_unpark c) s _ a _ _ Hst Hs).
    - eapply (queue_ok_same s); try done.
      + intros e. by eapply cover_same; [exact Hst|exact Hs| | | |].
      + by eapply np_same; [exact Hst|exact Hs|].
      + by eapply np_same; [exact Hst|exact Hs|].
  Qed.

  (* run_one_job_now: the parked sync caller returns from thread::park and re-checks the state *)
  Lemma ws_ropark s a j rest : Inv_own s -> Inv_wake s -> stacks s !! a = Some (FROpark j :: rest) ->
    Inv_wake (setstack (settoken s a false) a (FROcheck j :: rest)).
  Proof.
    intros HO [IF IQ] Hst.
    assert (Hs : stacks (setstack (settoken s a false) a (FROcheck j :: rest)) = <[a := FROcheck j :: rest]> (stacks s)) by solve_stacks.
    split; [|apply queue_ok_owned; by apply (runner_owned s a _ HO Hst); cbn; lia].
    eapply (frames_runner_step' s _ a _ rest _ HO Hst eq_refl Hs).
    intros fr [->|Hin]%elem_of_cons; [right|by left].
    assert (Hok := IF a (FROpark j) ltac:(eexists; split; [exact Hst|left])). cbn in Hok |- *.
    destruct (susp j) as [e|]; [|done].
    assert (Hg : gt (setstack (settoken s a false) a (FROcheck j :: rest)) a e = gt s a e).
    { unfold gt. f_equal. f_equal. by eapply np_same; [exact Hst|exact Hs|]. }
    rewrite Hg. by destruct (is_wfu (qs s)).
  Qed.
End Steps.
