(* C08: the clauses of Inv_y about frames and jobs are stable under steps that only add to the state *)
From stdpp Require Import list numbers option.
From RecordUpdate Require Import RecordUpdate.
From L2 Require Import Model Base Own Jobs Fut YDefs.
#[global] Unset Lia Cache.

Record ext (s s' : state) : Prop := {
  x_in : forall t, t ∈ Ys s -> t ∈ Ys s';
  x_new : forall t, t ∈ Ys s' -> t ∈ Ys s \/ (s.(nextop) <= t.1.1 /\ length s.(futs) <= t.1.2);
  x_fired : forall e, e < length s.(evs) -> firedP s e -> firedP s' e;
  x_futs : length s.(futs) <= length s'.(futs);
  x_nop : s.(nextop) <= s'.(nextop);
  x_evs : length s.(evs) <= length s'.(evs);
  x_log : forall e, e ∈ s.(log) -> e ∈ s'.(log);
}.
(* the events about the user future / the drop of call o *)
Definition yev_of (e : gev) : option nat :=
  match e with GUStart o | GUStep o | GUFinish o | GUCancel o | GYdrop o => Some o | _ => None end.

Section Ext.
  Context (nev : nat) (s s' : state) (X : ext s s').
  Context (Hrng : forall o f r, (o, f, r) ∈ Ys s -> r + 1 < length s.(evs)).
  Lemma noy_ext o : o < s.(nextop) -> noy s o -> noy s' o.
  Proof. intros Ho H f r Hin. destruct (x_new _ _ X _ Hin) as [?|[? _]]; [by eapply H|cbn in *; lia]. Qed.
  Lemma noy_back o : noy s' o -> noy s o.
  Proof. intros H f r Hin. eapply H. by apply (x_in _ _ X). Qed.
  Lemma futok_ext f : futok s f -> futok s' f.
  Proof.
    intros [H1 H2]. split; [pose proof (x_futs _ _ X); lia|]. intros o r Hin.
    destruct (x_new _ _ X _ Hin) as [?|[_ ?]]; [apply (x_log _ _ X); by eapply H2|cbn in *; lia].
  Qed.
  Lemma tkok_ext tk : tkok s tk -> tkok s' tk.
  Proof. destruct tk; [apply futok_ext|done]. Qed.
  Lemma usrp_ext p : usrp nev s p -> usrp nev s' p.
  Proof.
    destruct p; try done. cbn. intros [H1 H2]. split; [pose proof (x_futs _ _ X); lia|]. intros o r Hin.
    destruct (x_new _ _ X _ Hin) as [?|[_ ?]]; [by eapply H2|cbn in *; lia].
  Qed.
  Lemma scok_ext o st sc : o < s.(nextop) -> scok nev s o st sc -> scok nev s' o st sc.
  Proof.
    intros Ho [H1 H2]. split.
    - intros f r Hin. destruct (x_new _ _ X _ Hin) as [Hold|[? _]]; [|cbn in *; lia].
      destruct (H1 _ _ Hold) as [?|[? [Hr [?|[Hf ?]]]]]; [by left| |].
      + right. split; [done|]. split; [apply (x_fired _ _ X); [specialize (Hrng _ _ _ Hold); lia|done]|by left].
      + right. split; [done|]. split; [apply (x_fired _ _ X); [specialize (Hrng _ _ _ Hold); lia|done]|]. right.
        split; [apply (x_fired _ _ X); [specialize (Hrng _ _ _ Hold); lia|done]|done].
    - intros Hn. specialize (H2 (noy_back _ Hn)). rewrite Forall_forall in H2 |- *. intros p Hp. by apply usrp_ext, H2.
  Qed.
  Lemma jobok_ext j : jobok nev s j -> jobok nev s' j.
  Proof.
    intros [Ho H]. split; [pose proof (x_nop _ _ X); lia|]. destruct j as [o|o st sc|o c tk]; cbn in Ho.
    - by apply noy_ext.
    - by apply scok_ext.
    - destruct H. split; [by apply noy_ext|by apply tkok_ext].
  Qed.
  Lemma yfrok_ext pc y st :
    (firedP s' (S y.(y_r)) -> firedP s (S y.(y_r))) -> (forall e, yev_of e = Some y.(y_op) -> e ∈ s'.(log) -> e ∈ s.(log)) ->
    yfrok nev s pc y st -> yfrok nev s' pc y st.
  Proof.
    intros Hd Hu (H1 & H2 & H3 & H4 & H5 & H6 & H7 & H8).
    assert (Hiff : forall e, yev_of e = Some y.(y_op) -> e ∈ s'.(log) <-> e ∈ s.(log)).
    { intros e He. split; [by apply Hu|apply (x_log _ _ X)]. }
    split; [by apply (x_in _ _ X)|]. split; [tauto|]. split; [rewrite Hiff by done; done|].
    rewrite !Hiff by done. split; [done|]. split; [done|]. split; [done|]. split; [|done].
    intros Hy. apply (x_fired _ _ X); [specialize (Hrng _ _ _ H1); lia|by apply H7].
  Qed.
  Lemma frok_ext fr :
    (forall pc y st u, fr = FY pc y st u ->
       (firedP s' (S y.(y_r)) -> firedP s (S y.(y_r))) /\ (forall e, yev_of e = Some y.(y_op) -> e ∈ s'.(log) -> e ∈ s.(log))) ->
    frok nev s fr -> frok nev s' fr.
  Proof.
    intros HY H. destruct fr; cbn in H |- *; try done; try (by apply jobok_ext); try (by apply futok_ext).
    all: try (destruct H as (H1 & H2 & H3); split; [pose proof (x_nop _ _ X); lia|]; split; [by apply noy_ext|by apply tkok_ext]).
    destruct (HY _ _ _ _ eq_refl) as [Hd Hu]. by apply yfrok_ext.
  Qed.
End Ext.
