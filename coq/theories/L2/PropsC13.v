(* C13 (suspend), one queue.  Layer L2.  PROVED, in state form ([C13_full], Main.v): while the suspend job waits for its resumer
   (it is a started future operation whose next prim is PAwait e_resume, in the runner's hand or at the head of the queue) the
   operations started so far are exactly those scheduled up to and including it, all others have finished, those scheduled after
   it have not started; this persists over every step until e_resume is fired; afterwards C06 gives completion and C02 the order.
   Not shown here: that a blocked sync caller does not Return meanwhile (sync_background is abstract in this layer: L1). *)
From L2 Require Import Model Susp Term Main.
Theorem C13_suspend_L2 : C13_full.
Proof. exact C13_main. Qed.
Print Assumptions C13_suspend_L2.
