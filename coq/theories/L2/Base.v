(* generic lemmas: observations of a state (stacks, tokens) and counting of pending frames *)
From stdpp Require Import list numbers option.
From RecordUpdate Require Import RecordUpdate.
From L2 Require Import Model.
#[global] Unset Lia Cache. (* the .lia.cache of this directory is shared with concurrent builds *)

Definition stacks (s : state) : list (list frame) := stack <$> s.(actors).
Definition toks (s : state) : list bool := token <$> s.(actors).
Definition sress (s : state) : list bool := sres <$> s.(actors).

Lemma fmap_alter_same {A B} (f : A -> B) (g : A -> A) (i : nat) (l : list A) : (forall x, f (g x) = f x) -> f <$> alter g i l = f <$> l.
Proof. intros H. revert i; induction l as [|x l IH]; intros [|i]; cbn; try done; [by rewrite H|by rewrite IH]. Qed.
Lemma fmap_alter_const {A B} (f : A -> B) (g : A -> A) (v : B) (i : nat) (l : list A) : (forall x, f (g x) = v) -> f <$> alter g i l = alter (fun _ => v) i (f <$> l).
Proof. intros H. revert i; induction l as [|x l IH]; intros [|i]; cbn; try done; [by rewrite H|by rewrite IH]. Qed.
Lemma alter_const_insert {A} (v : A) (i : nat) (l : list A) : alter (fun _ => v) i l = <[i := v]> l.
Proof. revert i; induction l as [|x l IH]; intros [|i]; cbn; try done. by rewrite <- IH. Qed.

Lemma stacks_setstack s a st : stacks (setstack s a st) = <[a := st]> (stacks s).
Proof. unfold stacks, setstack, upda; cbn. rewrite <- alter_const_insert. by apply fmap_alter_const. Qed.
Lemma stacks_settoken s c b : stacks (settoken s c b) = stacks s.
Proof. unfold stacks, settoken, upda; cbn. by apply fmap_alter_same. Qed.
Lemma stacks_setsres s c b : stacks (setsres s c b) = stacks s.
Proof. unfold stacks, setsres, upda; cbn. by apply fmap_alter_same. Qed.
Lemma toks_setstack s a st : toks (setstack s a st) = toks s.
Proof. unfold toks, setstack, upda; cbn. by apply fmap_alter_same. Qed.
Lemma toks_setsres s c b : toks (setsres s c b) = toks s.
Proof. unfold toks, setsres, upda; cbn. by apply fmap_alter_same. Qed.
Lemma toks_settoken s c b : toks (settoken s c b) = <[c := b]> (toks s).
Proof. unfold toks, settoken, upda; cbn. rewrite <- alter_const_insert. by apply fmap_alter_const. Qed.
Lemma sress_setstack s a st : sress (setstack s a st) = sress s.
Proof. unfold sress, setstack, upda; cbn. by apply fmap_alter_same. Qed.
Lemma sress_settoken s c b : sress (settoken s c b) = sress s.
Proof. unfold sress, settoken, upda; cbn. by apply fmap_alter_same. Qed.
Lemma sress_setsres s c b : sress (setsres s c b) = <[c := b]> (sress s).
Proof. unfold sress, setsres, upda; cbn. rewrite <- alter_const_insert. by apply fmap_alter_const. Qed.

Definition kicks (s : state) : list bool := kicked <$> s.(actors).
Lemma stacks_setkick s c b : stacks (setkick s c b) = stacks s.
Proof. unfold stacks, setkick, upda; cbn. by apply fmap_alter_same. Qed.
Lemma toks_setkick s c b : toks (setkick s c b) = toks s.
Proof. unfold toks, setkick, upda; cbn. by apply fmap_alter_same. Qed.
Lemma sress_setkick s c b : sress (setkick s c b) = sress s.
Proof. unfold sress, setkick, upda; cbn. by apply fmap_alter_same. Qed.
Lemma stacks_kickall s : stacks (kickall s) = stacks s.
Proof. unfold stacks, kickall; cbn. rewrite <- list_fmap_compose. by apply list_fmap_ext. Qed.
Lemma toks_kickall s : toks (kickall s) = toks s.
Proof. unfold toks, kickall; cbn. rewrite <- list_fmap_compose. by apply list_fmap_ext. Qed.
Lemma sress_kickall s : sress (kickall s) = sress s.
Proof. unfold sress, kickall; cbn. rewrite <- list_fmap_compose. by apply list_fmap_ext. Qed.
Lemma kicks_setstack s a st : kicks (setstack s a st) = kicks s.
Proof. unfold kicks, setstack, upda; cbn. by apply fmap_alter_same. Qed.
Lemma kicks_settoken s c b : kicks (settoken s c b) = kicks s.
Proof. unfold kicks, settoken, upda; cbn. by apply fmap_alter_same. Qed.
Lemma kicks_setsres s c b : kicks (setsres s c b) = kicks s.
Proof. unfold kicks, setsres, upda; cbn. by apply fmap_alter_same. Qed.
Lemma kicks_setkick s c b : kicks (setkick s c b) = <[c := b]> (kicks s).
Proof. unfold kicks, setkick, upda; cbn. rewrite <- alter_const_insert. by apply fmap_alter_const. Qed.
Lemma kicks_kickall s : kicks (kickall s) = (fun _ => true) <$> kicks s.
Proof. unfold kicks, kickall; cbn. rewrite <- !list_fmap_compose. by apply list_fmap_ext. Qed.
Lemma kicks_lookup s a ac : s.(actors) !! a = Some ac -> kicks s !! a = Some ac.(kicked).
Proof. intros H. unfold kicks. by rewrite list_lookup_fmap, H. Qed.
Lemma stacks_lookup s a ac : s.(actors) !! a = Some ac -> stacks s !! a = Some ac.(stack).
Proof. intros H. unfold stacks. by rewrite list_lookup_fmap, H. Qed.
Lemma toks_lookup s a ac : s.(actors) !! a = Some ac -> toks s !! a = Some ac.(token).
Proof. intros H. unfold toks. by rewrite list_lookup_fmap, H. Qed.
Lemma sress_lookup s a ac : s.(actors) !! a = Some ac -> sress s !! a = Some ac.(sres).
Proof. intros H. unfold sress. by rewrite list_lookup_fmap, H. Qed.

(* ---------- counting frames ---------- *)
Fixpoint cntf (P : frame -> bool) (st : list frame) : nat :=
  match st with [] => 0 | fr :: r => (if P fr then 1 else 0) + cntf P r end.
Fixpoint npl (P : frame -> bool) (L : list (list frame)) : nat := match L with [] => 0 | st :: r => cntf P st + npl P r end.
Definition np (P : frame -> bool) (s : state) : nat := npl P (stacks s).

Lemma cntf_app P a b : cntf P (a ++ b) = cntf P a + cntf P b.
Proof. induction a; cbn; lia. Qed.
Lemma npl_insert P L a old new : L !! a = Some old -> npl P (<[a := new]> L) + cntf P old = npl P L + cntf P new.
Proof.
  revert a; induction L as [|x L IH]; intros [|a]; cbn; try done.
  - intros [= ->]. cbn. lia.
  - intros H. specialize (IH a H). change (cntf P x + npl P (<[a:=new]> L) + cntf P old = cntf P x + npl P L + cntf P new). lia.
Qed.
Lemma cntf_pos P st : cntf P st > 0 <-> exists fr, fr ∈ st /\ P fr = true.
Proof.
  induction st as [|x st IH]; cbn.
  - split; [lia|]. intros (fr & H & _). by apply elem_of_nil in H.
  - destruct (P x) eqn:E.
    + split; [|lia]. intros _. exists x. split; [left|done].
    + rewrite Nat.add_0_l, IH. split; intros (fr & H & HP).
      * exists fr. split; [by right|done].
      * apply elem_of_cons in H as [->|H]; [congruence|]. by exists fr.
Qed.
Lemma npl_pos P L : npl P L > 0 <-> exists a st, L !! a = Some st /\ cntf P st > 0.
Proof.
  induction L as [|x L IH]; cbn.
  - split; [lia|]. by intros (a & st & H & _).
  - split.
    + intros H. destruct (decide (0 < cntf P x)).
      * exists 0, x. split; [done|lia].
      * assert (H1 : npl P L > 0) by lia. apply IH in H1 as (a & st & H1 & H2). by exists (S a), st.
    + intros ([|a] & st & H1 & H2); cbn in H1.
      * injection H1 as ->. lia.
      * assert (npl P L > 0) by (apply IH; by exists a, st). lia.
Qed.
Lemma npl_zero P L a st : npl P L = 0 -> L !! a = Some st -> cntf P st = 0.
Proof.
  intros H0 H. destruct (decide (cntf P st = 0)); [done|]. exfalso.
  assert (npl P L > 0) by (apply npl_pos; exists a, st; split; [done|lia]). lia.
Qed.
Lemma npl_ge P L a st : L !! a = Some st -> cntf P st <= npl P L.
Proof. revert a; induction L as [|x L IH]; intros [|a]; cbn; try done; [intros [= ->]; lia|]. intros H. specialize (IH a H). lia. Qed.

(* ---------- the generic case split of a step ---------- *)
Ltac step_unfold H :=
  unfold step_caller, step_y, fire_cell, step_fut, step_sync, step_pool, step_job, step_wake, step_wake_with, run_closure, take_f, take_res in H;
  cbn beta iota zeta in H.
Ltac step_destr H :=
  repeat (match type of H with
          | context [match ?x with _ => _ end] =>
              lazymatch x with context [match _ with _ => _ end] => fail | _ => idtac end;
              let E := fresh "E" in destruct x eqn:E
          end; cbn beta iota zeta in H; try discriminate H).
Ltac step_split Hstep Ea Est :=
  unfold step in Hstep;
  match type of Hstep with context [actors ?s !! ?a] =>
    let ac := fresh "ac" in destruct (actors s !! a) as [ac|] eqn:Ea; cbn [mbind option_bind] in Hstep; [|discriminate Hstep];
    let fr := fresh "fr" in let rest := fresh "rest" in
    destruct (stack ac) as [|fr rest] eqn:Est; [discriminate Hstep|];
    destruct fr; step_unfold Hstep; step_destr Hstep
  end.

Lemma stacks_addlog s l : stacks (addlog s l) = stacks s. Proof. done. Qed.
Lemma stacks_setf s f c : stacks (setf s f c) = stacks s. Proof. done. Qed.
Lemma stacks_setev s e c : stacks (setev s e c) = stacks s. Proof. done. Qed.
Lemma stacks_setdw s d c : stacks (setdw s d c) = stacks s. Proof. done. Qed.
Lemma stacks_setdbl s k c : stacks (setdbl s k c) = stacks s. Proof. done. Qed.
Lemma toks_addlog s l : toks (addlog s l) = toks s. Proof. done. Qed.
Lemma toks_setf s f c : toks (setf s f c) = toks s. Proof. done. Qed.
Lemma toks_setev s e c : toks (setev s e c) = toks s. Proof. done. Qed.
Lemma toks_setdw s d c : toks (setdw s d c) = toks s. Proof. done. Qed.
Lemma toks_setdbl s k c : toks (setdbl s k c) = toks s. Proof. done. Qed.
Ltac solve_stacks :=
  rewrite ?stacks_setstack;
  rewrite ?stacks_addlog, ?stacks_setf, ?stacks_setev, ?stacks_setdw, ?stacks_setdbl, ?stacks_settoken, ?stacks_setsres, ?stacks_setkick, ?stacks_kickall;
  rewrite ?stacks_addlog, ?stacks_setf, ?stacks_setev, ?stacks_setdw, ?stacks_setdbl, ?stacks_settoken, ?stacks_setsres, ?stacks_setkick, ?stacks_kickall;
  reflexivity.

(* the two steps that end a poll with Ready also pop the await / drop continuation frame *)
Definition nocont (rest : list frame) : Prop := match rest with FAwRet _ :: _ | FDropRet _ _ :: _ | FY YPsfret _ _ _ :: _ => False | _ => True end.
Lemma pop_cont_cases rest : (pop_cont rest = rest /\ nocont rest) \/
  exists x r, rest = x :: r /\ pop_cont (x :: r) = r /\ ((exists f, x = FAwRet f) \/ (exists f k, x = FDropRet f k) \/ (exists y st u, x = FY YPsfret y st u)).
Proof.
  destruct rest as [|x r]; [by left|]. destruct x as [| | | | | | | | | | | | | | | | | | | | | | | | | | | | | | | | | | | | | | | | | | | | | | | pc y st u]; try (by left).
  all: try (right; eexists _, r; (split; [done|split; [done|] ]); first [left; eauto; fail | right; left; eauto; fail]).
  destruct pc; try (by left). right. eexists _, r. split; [done|]. split; [done|]. right; right. eauto.
Qed.
Ltac pop_cont_split :=
  try match goal with |- context [pop_cont ?r] =>
    let Hpc := fresh "Hpc" in let Hnc := fresh "Hnc" in
    destruct (pop_cont_cases r) as [[Hpc Hnc]|(?xc & ?rc & -> & Hpc & [[?fc ->]|[[?fc [?kc ->]]|[?yc [?stc [?uc ->]]]]])]; rewrite Hpc in *; clear Hpc end.
