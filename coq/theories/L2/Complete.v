(* C07, complete form: with at least one pool runner, in a reachable state in which no actor is enabled and every event is fired,
   every caller has finished its script (every awaiting task was woken, every blocked sync caller was released) *)
From stdpp Require Import list numbers option.
From RecordUpdate Require Import RecordUpdate.
From L2 Require Import Model Base Own Jobs Shape DwInv Pool OpShape Fut Wake WakeInv WakeLem WakeStep1 Term Task TaskInv YTask.
#[global] Unset Lia Cache.

Record Inv_all2 (s : state) : Prop := { i2_all : Inv_all s; i2_op : Inv_op s; i2_task : Inv_task s; i2_ytw : Inv_ytw s }.
Lemma init_all2 scripts npool nev : Inv_all2 (init scripts npool nev).
Proof. split; [apply init_all|apply init_op|apply init_task|apply init_ytw]. Qed.
Lemma step_all2 T (HA : all_cond T) s a s' : Inv_all2 s -> step T s a = Some s' -> Inv_all2 s'.
Proof.
  intros [H1 H2 H3 H4] Hs. split; [by eapply step_all|by eapply step_op| |by eapply step_ytw].
  eapply step_task; [apply (ia_own _ H1)|apply (ia_fut _ H1)|exact H2|exact H3|exact Hs].
Qed.
Theorem reachable_all2 T (HA : all_cond T) scripts npool nev tr s : run T (init scripts npool nev) tr = Some s -> Inv_all2 s.
Proof. apply (run_inv Inv_all2 T); [intros; by eapply step_all2|apply init_all2]. Qed.

Lemma heldl_none L c st fr : heldl L = [] -> L !! c = Some st -> fr ∈ st -> hjob fr = None.
Proof.
  revert c; induction L as [|x L IH]; intros [|c]; cbn; try done.
  - intros [H _]%app_eq_nil [= ->] Hin. clear -H Hin. induction st as [|y st IHs]; [by apply elem_of_nil in Hin|].
    cbn in H. destruct (hjob y) eqn:E; [done|]. apply elem_of_cons in Hin as [->|Hin]; [done|by apply IHs].
  - intros [_ H]%app_eq_nil Hc Hin. by eapply IH.
Qed.

Section Terminal.
  Context (T : ftables) (HA : all_cond T).
  Context (s : state) (H2 : Inv_all2 s) (Hterm : terminal T s) (Hfired : all_fired s) (HP : has_pool s).
  Let HI := i2_all _ H2.
  Let Hnp : no_panic T s := fun a => fut_no_panic T s a (ac_own _ HA) (ia_own _ HI) (ia_fut _ HI).

  (* no job is left anywhere: queue, hands, schedule_job_desync frames *)
  Lemma term_no_job (P : frame -> bool) (Q : job -> bool) cntq :
    (forall fr, P fr = true -> is_Some (hjob fr) \/ toponly fr = true) ->
    np P s + cntq s.(jobs) >= 1 -> cntq [] = 0 -> False.
  Proof.
    intros HPf Hn Hz. destruct (terminal_idle_empty T s HI Hterm Hnp Hfired HP) as (_ & Hj & Hh).
    rewrite Hj, Hz in Hn. assert (Hp : np P s > 0) by lia. apply np_pos_fsat in Hp as (c & fr & (st & Hc & Hin) & Hpf).
    destruct (HPf _ Hpf) as [[j Hj']|Ht].
    - unfold held in Hh. by rewrite (heldl_none _ c st fr Hh Hc Hin) in Hj'.
    - assert (Hq : np toponly s > 0) by (apply np_pos_fsat; exists c, fr; split; [by exists st|done]).
      rewrite (term_quiet T s HI Hterm Hnp toponly) in Hq; [lia|]. intros ? ?. by right.
  Qed.

  (* the owner of a SyncFuture is never left asleep after a Pending poll: the wake-up it waits for is under way *)
  Lemma term_no_ypark c y st u rest : stacks s !! c = Some (FY YPpark y st u :: rest) -> False.
  Proof.
    intros Hc. destruct (stacks_actor s c _ Hc) as (ac & Ea & Est).
    pose proof (Hterm c) as Hs. unfold step in Hs. rewrite Ea in Hs. cbn in Hs. rewrite Est in Hs. cbn in Hs.
    destruct (token ac) eqn:Etok; [done|].
    assert (Htk : tokb s c = false) by (unfold tokb; by rewrite (toks_lookup _ _ _ Ea), Etok).
    pose proof (i2_ytw _ H2 c _ _ Hc ltac:(left)) as Hy. cbn [yob] in Hy.
    assert (Hq : forall e, twr s c e = false).
    { intros e. unfold twr. rewrite Htk, (term_quiet T s HI Hterm Hnp (is_unpark c)), (term_npwake T s HI Hterm Hnp), (term_unfreg s Hfired) by (intros []; try done; by left). done. }
    destruct st as [b|rs]; cbn [yguar] in Hy; [by rewrite Hq in Hy|]. destruct rs as [|p b]; [done|]. destruct p; try done; [by rewrite Hq in Hy|].
    unfold twr2 in Hy. by rewrite Htk, (term_quiet T s HI Hterm Hnp (is_unpark c)), (term_npwake T s HI Hterm Hnp), (term_unfreg s Hfired) in Hy by (intros []; try done; by left).
  Qed.

  Theorem terminal_complete c st : stacks s !! c = Some st -> st = [FTop []] \/ st = [FPIdle].
  Proof.
    intros Hc. destruct (term_top T s HI Hterm Hnp c st Hc) as (fr & rest & -> & Hb).
    destruct (stacks_actor s c _ Hc) as (ac & Ea & Est).
    pose proof (Hterm c) as Hs. unfold step in Hs. rewrite Ea in Hs. cbn in Hs. rewrite Est in Hs.
    destruct fr; try done; cbn in Hs.
    - (* FTop [] *) destruct script; [|done]. left. by rewrite (op_bot_alone s c _ rest (i2_op _ H2) Hc eq_refl).
    - (* FPark f *) exfalso. destruct (token ac) eqn:Etok; [done|].
      pose proof (it_tw _ (i2_task _ H2) c _ Hc) as Htw. cbn in Htw. unfold tw in Htw.
      assert (Htk : tokb s c = false) by (unfold tokb; by rewrite (toks_lookup _ _ _ Ea), Etok).
      rewrite Htk, (term_quiet T s HI Hterm Hnp (is_unpark c)), (term_npwake T s HI Hterm Hnp) in Htw by (intros []; try done; by left).
      cbn in Htw. apply andb_true_iff in Htw as [Hr Hw]. apply bool_decide_eq_true in Hr. apply bool_decide_eq_true in Hw.
      assert (Hlt : f < length (futs s)) by (by apply (cell_in_range s c f)).
      pose proof (it_sig _ (i2_task _ H2) f Hlt Hr) as Hn. unfold nsig in Hn.
      eapply (term_no_job (sgf f) (sgj f) (cnts f)); [|exact Hn|done].
      intros fr Hf. destruct fr; try done; (left; by eexists) || (by right).
    - (* FSBwait *) exfalso. destruct (sres ac) eqn:Esr; [done|].
      pose proof (it_sb _ (i2_task _ H2) c _ Hc) as Hsb. unfold sb_ok in Hsb. cbn in Hsb.
      assert (Hsr : sresb s c = false) by (unfold sresb; by rewrite (sress_lookup _ _ _ Ea), Esr).
      rewrite Hsr in Hsb. cbn in Hsb. apply posb_true in Hsb. unfold nsb in Hsb.
      eapply (term_no_job (sbf c) (sbj c) (cntb c)); [|lia|done].
      intros fr Hf. destruct fr; try done; (left; by eexists) || (by right).
    - (* FROpark j *) exfalso. pose proof (runner_owned s c _ (ia_own _ HI) Hc ltac:(cbn; lia)) as Ho.
      by rewrite (term_no_runner T s HI Hterm Hnp Hfired) in Ho.
    - (* FPIdle *) right. by rewrite (op_bot_alone s c _ rest (i2_op _ H2) Hc eq_refl).
    - (* FY YPpark: the owner of a SyncFuture, asleep after a Pending poll *) exfalso. destruct pc; try done. by eapply term_no_ypark.
  Qed.
End Terminal.

Theorem C07_complete T (HA : all_cond T) scripts npool nev tr s :
  npool >= 1 -> run T (init scripts npool nev) tr = Some s -> terminal T s -> all_fired s ->
  forall c st, stacks s !! c = Some st -> st = [FTop []] \/ st = [FPIdle].
Proof.
  intros Hn Hr Ht Hf. eapply terminal_complete; try done; [by eapply reachable_all2|by eapply reachable_has_pool].
Qed.
