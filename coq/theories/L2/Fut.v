(* C07, safety parts: a scheduler-future result is taken at most once (the code's "already returned" panic is unreachable),
   because exactly one consumer (frame or sync job) refers to a future until its result has been taken *)
From stdpp Require Import list numbers option.
From RecordUpdate Require Import RecordUpdate.
From L2 Require Import Model Base Own Shape.
#[global] Unset Lia Cache.

(* the consumer of future f: the caller's await / drop / sync() frames and the sync job that reads it;
   the poll frames above an await continuation are not counted (weight 0) *)
Definition wj (f : nat) (j : job) : bool := match j with JSync _ _ (Some f') => bool_decide (f' = f) | _ => false end.
Definition wf (f : nat) (fr : frame) : bool :=
  match fr with
  | FUse f' _ | FAwRet f' | FPark f' | FDropRet f' _ | FFS1 f' => bool_decide (f' = f)
  | FY _ y _ _ => bool_decide (y.(y_f) = f)          (* the SyncFuture owns its SchedulerFuture until that returns Ready or is dropped *)
  | FS1 _ (Some f') | FClosure _ (Some f') | FSDpush _ (Some f') | FSBreg _ (Some f') | FSBpush _ (Some f') => bool_decide (f' = f)
  | FJob j _ _ | FDRrequeue j | FDQrequeue _ _ j | FROpend j | FROcheck j | FROpark j | FD1 j => wj f j
  | _ => false
  end.
Fixpoint cntj (f : nat) (l : list job) : nat := match l with [] => 0 | j :: r => (if wj f j then 1 else 0) + cntj f r end.
Definition tot (f : nat) (s : state) : nat := np (wf f) s + cntj f s.(jobs).
Lemma cntj_app f a b : cntj f (a ++ b) = cntj f a + cntj f b. Proof. induction a; cbn; lia. Qed.

(* a poll frame for f sits directly on the continuation frame of the await / drop loop for f *)
Definition pollfam (fr : frame) : option nat :=
  match fr with
  | FSFpoll f | FDQtake f | FDQdeq f | FDQrequeue f _ _ | FDQtake2 f _ | FDQstore f _ | FDQwfp f _ | FDQempty1 f | FDQempty2 f
  | FJob _ _ (KDq f _) => Some f
  | _ => None
  end.
Definition iscont (f : nat) (fr : frame) : bool :=
  match fr with FAwRet f' | FDropRet f' _ => bool_decide (f' = f) | FY YPsfret y _ _ => bool_decide (y.(y_f) = f) | _ => false end.
Definition adjok (x : frame) (r : list frame) : bool :=
  match pollfam x with Some f => match r with y :: _ => iscont f y | [] => false end | None => true end.
Fixpoint pollall (st : list frame) : bool := match st with [] => true | x :: r => adjok x r && pollall r end.

(* number of times the result of f has been delivered (ghost log) *)
Fixpoint nres (f : nat) (l : list gev) : nat :=
  match l with [] => 0 | GResolve f' _ :: r => (if bool_decide (f' = f) then 1 else 0) + nres f r | _ :: r => nres f r end.
Record Inv_fut (s : state) : Prop := {
  if_one : forall f, nres f s.(log) + tot f s <= 1;
  if_ret : forall f, (getf s f).(res) = FReturned -> tot f s = 0;
  if_fresh : forall f, length s.(futs) <= f -> nres f s.(log) + tot f s = 0;
  if_poll : forall c st, stacks s !! c = Some st -> pollall st = true;
}.

Record fut_cond (T : ftables) : Prop := { fc_dummy : True }.

Lemma pollall_app pre r : pollall (pre ++ r) = true -> pollall r = true.
Proof. induction pre as [|x pre IH]; cbn; [done|]. intros [_ H]%andb_true_iff. by apply IH. Qed.
Lemma pollall_chain pre r : forallb chain pre = true -> pollall r = true -> pollall (pre ++ r) = true.
Proof.
  induction pre as [|x pre IH]; cbn; [done|]. intros [H1 H2]%andb_true_iff Hr. rewrite IH by done.
  by destruct x.
Qed.
Lemma log_setf s f c : log (setf s f c) = log s. Proof. done. Qed.
Lemma jobs_setf0 s f c : jobs (setf s f c) = jobs s. Proof. done. Qed.
Lemma fut_poll_update s s' a old new :
  (forall c st, stacks s !! c = Some st -> pollall st = true) -> stacks s !! a = Some old -> stacks s' = <[a := new]> (stacks s) ->
  (pollall old = true -> pollall new = true) -> forall c st, stacks s' !! c = Some st -> pollall st = true.
Proof.
  intros HI Ha Hs Hn c st Hc. rewrite Hs in Hc. destruct (decide (c = a)) as [->|Hne].
  - rewrite list_lookup_insert in Hc by (by eapply lookup_lt_Some). injection Hc as <-. apply Hn. by eapply HI.
  - rewrite list_lookup_insert_ne in Hc by done. by eapply HI.
Qed.

Lemma res_setf s f c fq : (getf (setf s f c) fq).(res) = FReturned -> (fq = f /\ c.(res) = FReturned) \/ (getf s fq).(res) = FReturned.
Proof.
  unfold getf, setf; cbn. destruct (decide (fq = f)) as [->|Hne]; [|rewrite list_lookup_insert_ne by done; by right].
  destruct (decide (f < length (futs s))).
  - rewrite list_lookup_insert by done. cbn. by left.
  - rewrite lookup_ge_None_2 by (rewrite insert_length; lia). done.
Qed.
Lemma res_alloc s (s' : state) l fq : s'.(futs) = s.(futs) ++ l -> Forall (fun c => c = fc0) l ->
  (getf s' fq).(res) = FReturned -> (getf s fq).(res) = FReturned.
Proof.
  intros H Hl. unfold getf. rewrite H. destruct (decide (fq < length (futs s))).
  - by rewrite lookup_app_l.
  - rewrite lookup_app_r by lia. destruct (l !! (fq - length (futs s))) as [c|] eqn:E; cbn; [|done].
    apply elem_of_list_lookup_2 in E. rewrite (proj1 (List.Forall_forall _ _) Hl c) by (by apply elem_of_list_In). done.
Qed.
Lemma futs_len_setf s f c : length (setf s f c).(futs) = length s.(futs).
Proof. unfold setf; cbn. by rewrite insert_length. Qed.
Lemma jobs_setf s f c : jobs (setf s f c) = jobs s. Proof. done. Qed.
Lemma getf_futs (s' s : state) f : s'.(futs) = s.(futs) -> getf s' f = getf s f.
Proof. intros H. unfold getf. by rewrite H. Qed.
Lemma getf_addlog' s l f : getf (addlog s l) f = getf s f. Proof. done. Qed.

Section Pres.
  Context (T : ftables).
  Lemma step_fut_inv s a s' : Inv_fut s -> step T s a = Some s' -> Inv_fut s'.
  Proof.
    intros [I1 I2 I3 I4] Hstep. step_split Hstep Ea Est.
    all: try discriminate Hstep.
    all: injection Hstep as <-.
    all: pose proof (stacks_lookup _ _ _ Ea) as Hst; rewrite Est in Hst.
    all: pose proof (I4 _ _ Hst) as Hpo.
    all: pop_cont_split.
    all: try match goal with k : kont |- _ => destruct k end.
    all: split.
    (* pollall *)
    all: try (lazymatch goal with |- forall c st, stacks _ !! c = Some st -> pollall st = true =>
              eapply (fut_poll_update s _ a _ _ I4 Hst); [solve_stacks|]; intros _;
              first [ apply pollall_chain; [first [apply chain_wake_frames|apply chain_opt_wake]|]; cbn in Hpo |- *
                    | cbn in Hpo |- * ];
              repeat match goal with H : _ && _ = true |- _ => apply andb_true_iff in H as [? ?] end;
              rewrite ?andb_true_iff; repeat split; try done; try (by apply bool_decide_eq_true) end).
    all: cbn [pollall adjok pollfam iscont] in Hpo; repeat match goal with H : _ && _ = true |- _ => apply andb_true_iff in H as [? ?] end.
    all: repeat match goal with H : bool_decide (_ = _) = true |- _ => apply bool_decide_eq_true in H; try subst end.
    all: intros fq; specialize (I1 fq); pose proof (I2 fq) as I2'; pose proof (I3 fq) as I3'.
    all: match goal with |- context [tot ?f ?s'] =>
           pose proof (np_upd (wf f) s s' a _ _ Hst ltac:(solve_stacks)) as Hu;
           unfold tot in *; (let n := fresh "cnt" in set (n := np (wf f) s') in *; clearbody n) end.
    all: cbn [cntf wf wj ret_ready ret_pending] in Hu; rewrite ?cntf_app, ?cntf_opt_wake, ?cntf_wake_frames in Hu by done; cbn [cntf wf wj ret_ready ret_pending] in Hu.
    all: cbn [y_f] in *.
    all: try (match goal with E : jobs _ = _ :: _ |- _ => rewrite E in * end).
    all: cbn -[cntj length getf setf "++" nres]; rewrite ?jobs_setf0, ?log_setf; cbn -[cntj length getf setf "++" nres]; rewrite ?cntj_app; cbn [cntj wj nres app] in *.
    all: repeat match goal with H : context [wj ?f ?j] |- _ => destruct (wj f j) end.
    (* clause 1 *)
    all: try (lazymatch goal with |- _ <= 1 => repeat case_bool_decide; simplify_eq; lia end).
    (* clause 3: fresh futures *)
    all: try (lazymatch goal with |- length _ <= _ -> _ =>
              intros Hlen; cbn -[length app setf] in Hlen; rewrite ?futs_len_setf in Hlen; cbn -[length app] in Hlen; rewrite ?app_length in Hlen; cbn [length] in Hlen;
              assert (Hx : length (futs s) <= fq) by lia; specialize (I3' Hx); repeat case_bool_decide; simplify_eq; lia end).
    (* clause 2, result cells untouched *)
    all: try (lazymatch goal with |- res (getf ?s' _) = FReturned -> _ =>
              intros Hr; rewrite (getf_futs s' s fq eq_refl) in Hr; specialize (I2' Hr); repeat case_bool_decide; simplify_eq; lia end).
    (* allocation of fresh future cells *)
    all: try (lazymatch goal with |- _ <= 1 => repeat case_bool_decide; simplify_eq;
              try (assert (Hx : length (futs s) <= length (futs s)) by lia; specialize (I3' Hx)); lia end).
    all: try (lazymatch goal with |- res (getf ?s' _) = FReturned -> _ =>
              intros Hr; apply (res_alloc s s' _ fq eq_refl ltac:(repeat constructor)) in Hr; specialize (I2' Hr);
              repeat case_bool_decide; simplify_eq; try lia; unfold getf in Hr; rewrite lookup_ge_None_2 in Hr by lia; discriminate Hr end).
    (* result cells written *)
    all: try (lazymatch goal with |- res (getf ?s' _) = FReturned -> _ =>
              intros Hr; match type of Hr with context [setf ?s0 ?f ?c] =>
                rewrite (getf_futs s' (setf s0 f c) fq eq_refl) in Hr; apply res_setf in Hr as [[-> Hr]|Hr] end;
              [ cbn in Hr; first [discriminate Hr | idtac]
              | rewrite ?getf_addlog' in Hr; first [specialize (I2' Hr)|idtac] ] end).
    all: try (repeat case_bool_decide; simplify_eq; lia).
    all: try (match goal with Hnc : nocont ?r, H : match ?r with [] => false | _ :: _ => _ end = true |- _ =>
              exfalso; destruct r as [|[] ?]; try done; try (match goal with pc : ypc |- _ => destruct pc end; try done); cbn in H; discriminate end).
    all: try (match type of Hr with res (getf ?s1 ?f1) = _ => rewrite (getf_futs s1 s f1 eq_refl) in Hr end).
    all: try (pose proof (I2 _ Hr) as I2f).
    all: try (repeat case_bool_decide; simplify_eq; first [lia|congruence]).
  Qed.
End Pres.

Lemma init_fut scripts npool nev : Inv_fut (init scripts npool nev).
Proof.
  split.
  - intros f. unfold tot. rewrite np_init by done. cbn. lia.
  - intros f _. unfold tot. by rewrite np_init.
  - intros f _. unfold tot. rewrite np_init by done. cbn. lia.
  - intros c st Hc. unfold stacks, init in Hc; cbn in Hc. rewrite list_lookup_fmap in Hc.
    destruct ((((fun sc => mk_actor [FTop sc]) <$> scripts) ++ replicate npool (mk_actor [FPIdle])) !! c) as [ac|] eqn:E; [|done].
    cbn in Hc. injection Hc as <-. apply elem_of_list_lookup_2 in E. apply elem_of_app in E as [E|E].
    + by apply elem_of_list_fmap in E as (sc & -> & _).
    + by apply elem_of_replicate in E as [-> _].
Qed.

(* a consumer frame for f in some stack makes tot f positive *)
Lemma tot_pos s c st fr f : stacks s !! c = Some st -> fr ∈ st -> wf f fr = true -> tot f s >= 1.
Proof.
  intros Hc Hin Hw. unfold tot. assert (np (wf f) s > 0); [|lia]. apply npl_pos. exists c, st. split; [done|].
  apply cntf_pos. by exists fr.
Qed.

(* the code's panics are unreachable *)
Lemma fut_no_panic T s a : own_cond T -> Inv_own s -> Inv_fut s -> would_panic T s a = false.
Proof.
  intros HT HO [I1 I2 I3 I4]. unfold would_panic. destruct (actors s !! a) as [ac|] eqn:Ea; [|done].
  destruct (stack ac) as [|fr rest] eqn:Est; [done|].
  pose proof (stacks_lookup _ _ _ Ea) as Hst. rewrite Est in Hst. pose proof (I4 _ _ Hst) as Hp.
  assert (Hret : forall f fr', fr' ∈ fr :: rest -> wf f fr' = true -> (getf s f).(res) <> FReturned).
  { intros f fr' Hin Hw Hr. pose proof (tot_pos s a _ fr' f Hst Hin Hw). rewrite (I2 f Hr) in H. lia. }
  assert (Hcont : forall f, pollfam fr = Some f -> (getf s f).(res) <> FReturned).
  { intros f Hf. cbn in Hp. apply andb_true_iff in Hp as [Hp _]. unfold adjok in Hp. rewrite Hf in Hp.
    destruct rest as [|y r]; [done|]. apply (Hret f y); [right; left|]. destruct y; try done. by destruct pc. }
  destruct fr; try done.
  - (* FD1 *) destruct (t_desync (ft_base T) (qs s)) as [q p] eqn:Ep. cbn. destruct p; try done.
    apply (oc_desync _ HT) in Ep as [_ Hq]. by destruct (io_nopanic _ HO); apply Hq.
  - (* FFS1 *) destruct (res (getf s f)) eqn:E; try done.
    exfalso. apply (Hret f (FFS1 f)); [left|cbn; by apply bool_decide_eq_true|done].
  - (* FSFpoll *) destruct (res (getf s f)) eqn:E; try done; [|by apply (Hcont f eq_refl) in E].
    destruct (t_poll T f (qs s)) as [q p] eqn:Ep. cbn. destruct p; try done.
    apply (oc_poll _ HT) in Ep as [_ Hq]. by destruct (io_nopanic _ HO).
  - destruct (res (getf s f)) eqn:E; try done. by apply (Hcont f eq_refl) in E.
  - destruct (res (getf s f)) eqn:E; try done. by apply (Hcont f eq_refl) in E.
  - (* FS1 *) destruct (t_sync (ft_base T) (qs s) (bool_decide (jobs s = []))) as [q p] eqn:Ep. cbn. destruct p; try done.
    apply (oc_sync _ HT) in Ep as [_ Hq]. by destruct (io_nopanic _ HO).
  - (* FClosure *) destruct tk as [f|]; [|done]. destruct (res (getf s f)) eqn:E; try done.
    exfalso. apply (Hret f (FClosure op (Some f))); [left|cbn; by apply bool_decide_eq_true|done].
  - (* FROpend *) destruct (t_roj_pend T (qs s)) eqn:E; [done|]. exfalso.
    destruct (runner_working s a _ HO Hst) as [H1 H2]; [cbn; lia|]. destruct (oc_roj_pend _ HT _ H1 H2) as (? & H3 & _). congruence.
  - (* FROcheck *) destruct (t_roj_park T (qs s)) eqn:E; try done. exfalso.
    apply (oc_roj_park _ HT (qs s)); [|done]. apply (runner_owned s a _ HO Hst). cbn; lia.
  - (* FJob *) destruct j as [| |op c [f|]]; try done. destruct (res (getf s f)) eqn:E; try done.
    exfalso. apply (Hret f (FJob (JSync op c (Some f)) w k)); [left|cbn; by apply bool_decide_eq_true|done].
Qed.
