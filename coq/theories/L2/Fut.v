(* C07, safety parts: a scheduler-future result is taken at most once (the code's "already returned" panic is unreachable),
   because exactly one consumer (frame or sync job) refers to a future until its result has been taken *)
From stdpp Require Import list numbers option.
From RecordUpdate Require Import RecordUpdate.
From L2 Require Import Model Base Own Shape.
#[global] Unset Lia Cache.

(* the consumer of future f: the caller's await / drop / sync() frames and the sync job that reads it;
   the poll frames above an await continuation are not counted (weight 0) *)
Definition wj (f : nat) (j : job) : bool := match j with JSync _ _ (Some f') => bool_decide (f' = f) | _ => false end.
Definition wf (f : nat) (fr : frame) : bool :=
  match fr with
  | FUse f' _ | FAwRet f' | FPark f' | FDropRet f' _ | FFS1 f' => bool_decide (f' = f)
  | FS1 _ (Some f') | FClosure _ (Some f') | FSDpush _ (Some f') | FSBreg _ (Some f') | FSBpush _ (Some f') => bool_decide (f' = f)
  | FJob j _ _ | FDRrequeue j | FDQrequeue _ _ j | FROpend j | FROcheck j | FROpark j | FD1 j => wj f j
  | _ => false
  end.
Fixpoint cntj (f : nat) (l : list job) : nat := match l with [] => 0 | j :: r => (if wj f j then 1 else 0) + cntj f r end.
Definition tot (f : nat) (s : state) : nat := np (wf f) s + cntj f s.(jobs).
Lemma cntj_app f a b : cntj f (a ++ b) = cntj f a + cntj f b. Proof. induction a; cbn; lia. Qed.

(* a poll frame for f sits directly on the continuation frame of the await / drop loop for f *)
Definition pollfam (fr : frame) : option nat :=
  match fr with
  | FSFpoll f | FDQtake f | FDQdeq f | FDQrequeue f _ _ | FDQtake2 f _ | FDQstore f _ | FDQwfp f _ | FDQempty1 f | FDQempty2 f
  | FJob _ _ (KDq f _) => Some f
  | _ => None
  end.
Definition iscont (f : nat) (fr : frame) : bool :=
  match fr with FAwRet f' | FDropRet f' _ => bool_decide (f' = f) | _ => false end.
Definition adjok (x : frame) (r : list frame) : bool :=
  match pollfam x with Some f => match r with y :: _ => iscont f y | [] => false end | None => true end.
Fixpoint pollall (st : list frame) : bool := match st with [] => true | x :: r => adjok x r && pollall r end.

Record Inv_fut (s : state) : Prop := {
  if_one : forall f, tot f s <= 1;
  if_ret : forall f, (getf s f).(res) = FReturned -> tot f s = 0;
  if_fresh : forall f, length s.(futs) <= f -> tot f s = 0;
  if_poll : forall c st, stacks s !! c = Some st -> pollall st = true;
}.

Record fut_cond (T : ftables) : Prop := { fc_dummy : True }.

Lemma pollall_app pre r : pollall (pre ++ r) = true -> pollall r = true.
Proof. induction pre as [|x pre IH]; cbn; [done|]. intros [_ H]%andb_true_iff. by apply IH. Qed.
Lemma pollall_chain pre r : forallb chain pre = true -> pollall r = true -> pollall (pre ++ r) = true.
Proof.
  induction pre as [|x pre IH]; cbn; [done|]. intros [H1 H2]%andb_true_iff Hr. rewrite IH by done.
  by destruct x.
Qed.
Lemma fut_poll_update s s' a old new :
  (forall c st, stacks s !! c = Some st -> pollall st = true) -> stacks s !! a = Some old -> stacks s' = <[a := new]> (stacks s) ->
  (pollall old = true -> pollall new = true) -> forall c st, stacks s' !! c = Some st -> pollall st = true.
Proof.
  intros HI Ha Hs Hn c st Hc. rewrite Hs in Hc. destruct (decide (c = a)) as [->|Hne].
  - rewrite list_lookup_insert in Hc by (by eapply lookup_lt_Some). injection Hc as <-. apply Hn. by eapply HI.
  - rewrite list_lookup_insert_ne in Hc by done. by eapply HI.
Qed.

Lemma res_setf s f c fq : (getf (setf s f c) fq).(res) = FReturned -> (fq = f /\ c.(res) = FReturned) \/ (getf s fq).(res) = FReturned.
Proof.
  unfold getf, setf; cbn. destruct (decide (fq = f)) as [->|Hne]; [|rewrite list_lookup_insert_ne by done; by right].
  destruct (decide (f < length (futs s))).
  - rewrite list_lookup_insert by done. cbn. by left.
  - rewrite lookup_ge_None_2 by (rewrite insert_length; lia). done.
Qed.
Lemma res_alloc s (s' : state) l fq : s'.(futs) = s.(futs) ++ l -> Forall (fun c => c = fc0) l ->
  (getf s' fq).(res) = FReturned -> (getf s fq).(res) = FReturned.
Proof.
  intros H Hl. unfold getf. rewrite H. destruct (decide (fq < length (futs s))).
  - by rewrite lookup_app_l.
  - rewrite lookup_app_r by lia. destruct (l !! (fq - length (futs s))) as [c|] eqn:E; cbn; [|done].
    apply elem_of_list_lookup_2 in E. rewrite (proj1 (List.Forall_forall _ _) Hl c) by (by apply elem_of_list_In). done.
Qed.
Lemma futs_len_setf s f c : length (setf s f c).(futs) = length s.(futs).
Proof. unfold setf; cbn. by rewrite insert_length. Qed.
Lemma jobs_setf s f c : jobs (setf s f c) = jobs s. Proof. done. Qed.
Lemma getf_futs (s' s : state) f : s'.(futs) = s.(futs) -> getf s' f = getf s f.
Proof. intros H. unfold getf. by rewrite H. Qed.
Lemma getf_addlog' s l f : getf (addlog s l) f = getf s f. Proof. done. Qed.
