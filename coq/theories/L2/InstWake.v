(* the generated tables meet the wake conditions *)
From stdpp Require Import list numbers option.
From L2 Require Import Model Base Own Jobs Wake WakeInv Inst.
From Gen Require Import Tables.

Lemma gen_wake_cond : wake_cond gen_ftables.
Proof.
  split; cbn.
  - intros st H. by destruct st.
  - done.
  - intros st st' H. destruct st; inversion H; by subst.
  - intros st st' act H Hn. destruct st; inversion H; subst; congruence.
  - by intros [].
  - done.
  - intros st ne st' p H Hn. destruct st, ne; inversion H; subst; congruence.
  - done.
  - done.
  - intros st H. by destruct st.
  - done.
  - done.
  - done.
  - done.
  - done.
  - intros st H. by destruct st.
  - done.
  - by left.
  - intros st [->|[->|[f ->]]]; done.
  - done.
  - intros st' [= <-]. done.
  - intros st H. by destruct st.
  - intros st e st' Hr H. destruct st, e; cbn in *; try congruence; inversion H; by subst.
  - by intros [].
  - by intros [].
Qed.
