(* C02 with futures (one queue): operations Start in the order their jobs were pushed, whoever runs the queue (pool thread, sync
   caller draining, polling task); a job that returns Pending goes back to the FRONT.  [C02_full] (Main.v) is proved.
   (The real-time "Ret A before Call B" reading of the property is added by the object layer.) *)
From L2 Require Import Model Own Jobs Main.
Theorem C02_fifo_L2 : C02_full.
Proof. exact C02_main. Qed.
Print Assumptions C02_fifo_L2.
