(* L2: ONE queue WITH futures, abstract pool.  Model only - no proofs here.
   One step = one critical section on one mutex (class given by [step_label]) or one lock-free local segment (LNone).
   All queue-state / drain-waker decisions go through the table parameters ([ftables]).  Hard-coded "facts" (plain assignments in
   the Rust source, to be checked against the source by the separate tool):
     F-a  schedule_job_desync / sync_drain / sync_background push_back           (FD1, FSDpush, FSBpush)
     F-b  requeue = push_front                                                   (FDRrequeue, FDQrequeue)
     F-c  dequeue pops the front                                                 (FDRdeq, FROdeq, FDQdeq)
     F-d  sync_immediate / sync_drain / drain_queue(result found | queue empty): state := Idle, then reschedule_queue
                                                                                 (FSIidle, FSDidle, FDQidle, FDQempty2)
     F-e  drain_queue Pending+result: state := WaitingForWake, then wake_with(WakeQueue)           (FDQwfw)
     F-f  drain_queue Pending+no result: fwaker := task waker, THEN state := WaitingForPoll(self.id),
          then wake_with(DoubleWaker(WakeQueue, task waker))                      (FDQstore, FDQwfp)
     F-g  run_one_job_now keeps a Pending job in hand (no requeue) and re-polls it (FROpend, FROcheck)
     F-h  signal: result := Some unconditionally, take waker, call it outside the lock (FJob .. PSignal)
     F-i  poll: take result first; core lock nested inside result lock; waker stored for Wait and Panic   (FSFpoll)
     F-j  DoubleWaker takes both and calls the queue waker first                  (FWake (WDouble k))
     F-k  WakeThread: core section, then unpark                                   (FWake (WThread c), FUnpark)
     F-l  drain does NOT call reschedule_queue when it returns                    (FDRpend, FDRfin)
     F-m  drain_queue queue-empty arm: fwaker := task waker BEFORE state := Idle   (FDQempty1, FDQempty2)
     F-n  a fresh DrainWaker (NotWoken) per job poll in drain_queue               (FDQdeq)
     F-o  sync_background: the `rescheduled` flag starts out set; loop head: ready? -> done; rescheduled.swap(false)? -> claim, else wait;
          a successful claim_pending_queue drops the queue's schedule entries, then run_one_job_now until the own job has run,
          state := Idle, reschedule_queue; reschedule_queue sets the flag of every registered waiter          (FSBreg, FSBwait, FSBclaim, FRQ1)
   MODELLING DECISIONS
   * Wakers are called as NESTED FRAMES on the calling thread's stack ([FWake w] pushed on top), exactly as in the code; a wake
     "from another thread" is a wake executed by the firing caller's actor and interleaves anywhere with the runner.
   * PANICS: wherever the code would panic! (take of a Returned result, the Panic arms of the tables) the model's step is None:
     the actor is stuck at that frame ([would_panic] below); the theorems show such states unreachable.
   * Job polls are frames [FJob j w k]: j = job, w = context waker, k = who polls (drain / run_one_job_now / drain_queue f d) =
     where the poll returns to.  [ret_ready] / [ret_pending] give the return points.
   * A poll of a SchedulerFuture that is going to return Ready removes the caller's await / drop-loop continuation frame at the
     step that takes the result ([pop_cont]); the lock-free return path has no steps of its own.
   * An external event cell keeps EVERY waker registered with it until it is fired (stale wakers from earlier polls included; the
     real oneshot keeps only the latest) and calls them OLDEST registration first when it fires.  Events outside the configured
     range count as already fired.  [PAwaitEither e1 e2] (select) registers the context waker with both events in ONE step (the
     harness's EitherFut checks and registers in four small sections; a fire in between makes it wake itself, which is the same
     as being registered and fired): the waker left with the event that fires second is a stale waker of a possibly FINISHED
     operation (e.g. the WakeThread waker of a sync caller that has returned).
   * ORDER FACTS: five of the hand-written order decisions are a parameter ([ffacts], [stepF], below [would_panic]); [step] is
     the model with the code's facts.
   * thread::park returns only with the unpark token ([FPark], [FROpark]); spurious returns (allowed by std, produced by the
     controlled runtime) are not modelled: in run_one_job_now they only re-read the state, which matters only after a stale
     WakeThread waker has written Running over WaitingForUnpark (the caller then re-polls without having been unparked).
   * ABSTRACTED: the pool ([FPIdle] may take a schedule entry whenever insched > 0; L1 proves the hand-over); schedule_thread;
     private result mutex / condvar of sync (the waiter of sync_background is blocked in [FSBwait] until its job has been run or
     reschedule_queue has set its `rescheduled` flag [kicked]; wake_blocked itself is not a model datum: [kickall]).
   * future_sync ([OFutSync], frames [FY pc y st u], job prims PSendReady / PAwaitDone): the two oneshot channels of a call are two
     fresh cells of [evs] (r = queue_ready, S r = done; send and sender-drop both = fired, a oneshot receiver keeps only its
     newest waker); the slot job is the script [PSendReady r; PAwaitDone (S r); PSignal f] pushed by schedule_job_desync; the
     owner's polls follow SyncFuture::poll (WaitingForQueue: scheduler_future.poll_unpin = the frames of SchedulerFuture::poll /
     drain_queue, then recv.poll_unpin; WaitingForFuture: the user future, one primitive per step; then task_finished.send and
     WaitingForScheduler = the frames of a plain SchedulerFuture [FUse f u]); the drop follows the field order (order fact
     f_syncfuture_state_dropped_first).  Not modelled: the Err(Canceled) arms (the queue is never dropped here) and the value.
   * OMITTED: the signaller's Drop (Canceled) - a queued job is never dropped here; try_sync; several queues;
     nested operations; debug_assert!() critical sections (read-only core lock sections in debug builds have no model step).
   * [step_label] of [FPIdle] is the schedule lock (the queue-core lock is nested inside it: next_to_run examines one entry per
     step); [FSFpoll] is the result lock (core nested). *)
From stdpp Require Import list numbers option.
From RecordUpdate Require Import RecordUpdate.
From L0 Require Export Types.

Record ftables := {
  ft_base : tables;
  t_poll : nat -> qstate -> qstate * pollact;
  t_drain_pend : qstate -> qstate;
  t_roj_pend : qstate -> option qstate;
  t_roj_park : qstate -> parkact;
  t_wake_queue : qstate -> qstate * bool;
  t_wake_thread : qstate -> qstate;
  t_dw_wake : dwstate -> dwstate * bool;
  t_dw_wake_with : dwstate -> dwstate * bool;
}.

Inductive waker := WQueue | WThread (c : nat) | WDrain (d : nat) | WTask (c : nat) | WDouble (k : nat).
(* PAwaitEither e1 e2: select-style await, ready when either event has fired; while pending the waker is registered with BOTH
   events, so the event that fires second calls a stale waker (possibly long after the operation has finished) *)
(* PSendReady r / PAwaitDone d: the two oneshot operations of the slot job of future_sync (`queue_ready_send.send(()).ok()`,
   `done_recv.await.ok()`); the oneshot cells live in [evs] next to the external events (sent / sender dropped = fired) *)
Inductive fprim := PAwait (e : nat) | PSignal (f : nat) | PTouch | PAwaitEither (e1 e2 : nat) | PSendReady (r : nat) | PAwaitDone (d : nat).
Inductive jstate := NotCreated | Waiting.
(* JSync: the job pushed by sync_drain / sync_background of caller c; tk = Some f for SchedulerFuture::sync() (closure = take f) *)
Inductive job := JPlain (op : nat) | JFut (op : nat) (st : jstate) (script : list fprim) | JSync (op c : nat) (tk : option nat).

Inductive fuse := UDetach | UAwait | USync | UDropAfter (k : nat).
(* OFutSync body u: future_sync; body = the user future (PTouch / PAwait e / PAwaitEither only), polled on the caller's task;
   u = UAwait (poll until Ready) | UDropAfter n (poll n times, then drop the SyncFuture); any other use drops it at once *)
Inductive cop := ODesync | OFuture (body : list fprim) (u : fuse) | OSuspend (e_resume : nat) (u : fuse) | OSync | OFire (e : nat)
               | OFutSync (body : list fprim) (u : fuse).
(* SyncFuture: its state (WaitingForQueue with the closure / WaitingForFuture with the rest of the user future; in
   WaitingForScheduler it behaves exactly like its SchedulerFuture and is represented by [FUse f u]), the program points of SyncFuture::poll and of the poll loop of its owner, and its identity: the op id of
   the slot job, the SchedulerFuture, the queue_ready cell (the done cell is the next one) *)
Inductive ystate := YQueue (body : list fprim) | YFuture (rest : list fprim).
Inductive ypc := YPuse | YPpark | YPloop | YPsfret | YPrecv | YPuser | YPfin | YPpend | YPdrop1 | YPdrop2.
Record ydat := { y_op : nat; y_f : nat; y_r : nat }.

Inductive fres := FNone | FSome (v : nat) | FReturned.
Record evcell := { fired : bool; wakers : list waker }.
Record fcell := { res : fres; fwaker : option waker }.
#[export] Instance eta_evcell : Settable _ := settable! Build_evcell <fired; wakers>.
#[export] Instance eta_fcell : Settable _ := settable! Build_fcell <res; fwaker>.

(* who polls a job, i.e. where its poll returns to: drain (pool), run_one_job_now (sync caller), drain_queue f with DrainWaker d *)
Inductive kont := KDrain | KRoj | KDq (f d : nat).

Inductive frame :=
| FTop (script : list cop)
(* schedule_job_desync *)
| FD1 (j : job) | FD2
(* use of a returned SchedulerFuture *)
| FUse (f : nat) (u : fuse)
| FAwRet (f : nat) | FPark (f : nat)
| FDropRet (f : nat) (k : nat)
| FFS1 (f : nat)
(* SchedulerFuture::poll / drain_queue *)
| FSFpoll (f : nat)
| FDQtake (f : nat) | FDQdeq (f : nat) | FDQrequeue (f d : nat) (j : job) | FDQtake2 (f d : nat)
| FDQwfw (f d : nat) | FDQstore (f d : nat) | FDQwfp (f d : nat)
| FDQempty1 (f : nat) | FDQempty2 (f : nat) | FDQidle (f : nat)
| FWakeWith (d : nat) (w : waker)
(* sync *)
| FS1 (op : nat) (tk : option nat)
| FClosure (op : nat) (tk : option nat) | FSIidle
| FSDpush (op : nat) (tk : option nat) | FSDloop | FSDidle
| FSBreg (op : nat) (tk : option nat) | FSBpush (op : nat) (tk : option nat) | FSBwait | FSBdone
(* run_one_job_now *)
| FROdeq | FROpend (j : job) | FROcheck (j : job) | FROpark (j : job)
(* reschedule_queue *)
| FRQ1 | FRQ2
(* fire an external event *)
| FFire (e : nat)
(* pool runner *)
| FPIdle | FDRdeq | FDRrequeue (j : job) | FDRpend | FDRfin
(* polling a job with a context waker *)
| FJob (j : job) (w : waker) (k : kont)
(* waker calls *)
| FWake (w : waker) | FUnpark (c : nat)
(* only in the variant order "requeue after wake_with" of [stepF] (fact f_requeue_before_park false): the late requeue *)
| FDQlate (j : job)
(* sync_background: the waiter's attempt to take the queue over itself (claim_pending_queue) *)
| FSBclaim
(* future_sync: the SyncFuture held by its owner task *)
| FY (pc : ypc) (y : ydat) (st : ystate) (u : fuse).

(* GYnew o f r: future_sync created slot job o, SchedulerFuture f, oneshot cells r (queue_ready) and S r (done);
   GUStart / GUStep / GUFinish / GUCancel o: the user future of that call is created / polled one primitive further / completes /
   is destroyed unfinished; GYdrop o: the SyncFuture is dropped before it returned Ready *)
Inductive gev := GPush (o : nat) | GStart (o : nat) | GFinish (o : nat) | GSig (f v : nat) | GResolve (f v : nat)
               | GYnew (o f r : nat) | GUStart (o : nat) | GUStep (o : nat) | GUFinish (o : nat) | GUCancel (o : nat) | GYdrop (o : nat).

(* kicked = the `rescheduled` flag of a sync_background waiter (set by every reschedule_queue while the waiter is registered) *)
Record arec := { stack : list frame; token : bool; sres : bool; kicked : bool }.
#[export] Instance eta_arec : Settable _ := settable! Build_arec <stack; token; sres; kicked>.

Record state := {
  qs : qstate; jobs : list job; insched : nat;
  evs : list evcell; futs : list fcell;
  dws : list (dwstate * option waker); dbl : list (option (waker * waker));
  actors : list arec;
  log : list gev (* ghost, newest first *); nextop : nat }.
#[export] Instance eta_state : Settable _ :=
  settable! Build_state <qs; jobs; insched; evs; futs; dws; dbl; actors; log; nextop>.

Inductive lockclass := LCore | LSched | LFres | LDw | LDbl | LEv | LNone.

(* ---------- small helpers ---------- *)
Definition upda (s : state) (a : nat) (f : arec -> arec) := s <| actors := alter f a s.(actors) |>.
Definition setstack (s : state) (a : nat) (st : list frame) := upda s a (fun x => x <| stack := st |>).
Definition settoken (s : state) (c : nat) (b : bool) := upda s c (fun x => x <| token := b |>).
Definition setsres (s : state) (c : nat) (b : bool) := upda s c (fun x => x <| sres := b |>).
Definition setkick (s : state) (c : nat) (b : bool) := upda s c (fun x => x <| kicked := b |>).
(* reschedule_queue sets the `rescheduled` flag of every registered waiter (wake_blocked) and notifies it.  The flag of an actor that
   is not a waiter is never read ([FSBreg] sets it), so setting all flags is the same as setting those of the registered waiters *)
Definition kickall (s : state) : state := s <| actors := (fun x => x <| kicked := true |>) <$> s.(actors) |>.

(* events outside the configured range count as already fired (an await on them completes at once) *)
Definition ev0 : evcell := {| fired := true; wakers := [] |}.
Definition ev_new : evcell := {| fired := false; wakers := [] |}.
Definition fc0 : fcell := {| res := FNone; fwaker := None |}.
Definition getev (s : state) (e : nat) : evcell := default ev0 (s.(evs) !! e).
Definition getf (s : state) (f : nat) : fcell := default fc0 (s.(futs) !! f).
Definition getdw (s : state) (d : nat) : dwstate * option waker := default (DWNotWoken, None) (s.(dws) !! d).
Definition getdbl (s : state) (k : nat) : option (waker * waker) := default None (s.(dbl) !! k).
Definition setev (s : state) (e : nat) (c : evcell) := s <| evs := <[e := c]> s.(evs) |>.
Definition setf (s : state) (f : nat) (c : fcell) := s <| futs := <[f := c]> s.(futs) |>.
Definition setdw (s : state) (d : nat) (c : dwstate * option waker) := s <| dws := <[d := c]> s.(dws) |>.
Definition setdbl (s : state) (k : nat) (c : option (waker * waker)) := s <| dbl := <[k := c]> s.(dbl) |>.
Definition addlog (s : state) (l : list gev) := s <| log := l ++ s.(log) |>.

(* FutureResultState::take: None = the code's panic *)
Definition take_res (r : fres) : option (fres * option nat) :=
  match r with FNone => Some (FNone, None) | FSome v => Some (FReturned, Some v) | FReturned => None end.
(* take under [fres f] with the ghost Resolve event *)
Definition take_f (s : state) (f : nat) : option (state * option nat) :=
  let c := getf s f in
  match take_res c.(res) with
  | None => None
  | Some (r', None) => Some (s, None)
  | Some (r', Some v) => Some (addlog (setf s f (c <| res := r' |>)) [GResolve f v], Some v)
  end.

(* a poll of a SchedulerFuture that is going to return Ready ends the caller's await / poll-and-drop loop: the continuation
   frame (which would only be popped on Ready) is removed at the step that takes the result *)
(* a oneshot keeps only the newest waker: the previous context waker of the slot job is replaced (task wakers, which no well-formed
   program registers with a done cell, are left alone) *)
Definition is_anytask (w : waker) : bool := match w with WTask _ => true | _ => false end.
Definition pop_cont (rest : list frame) : list frame :=
  match rest with FAwRet _ :: r | FDropRet _ _ :: r | FY YPsfret _ _ _ :: r => r | _ => rest end.
Definition wake_frames (ws : list waker) : list frame := FWake <$> ws.
Definition opt_wake (ow : option waker) : list frame := match ow with Some w => [FWake w] | None => [] end.

Definition is_wfw (st : qstate) : bool := match st with WaitingForWake => true | _ => false end.
Definition is_wfu (st : qstate) : bool := match st with WaitingForUnpark => true | _ => false end.

(* the closure of a sync job: Start; (take f under [fres f] when it is SchedulerFuture::sync()); Finish *)
Definition run_closure (s : state) (op : nat) (tk : option nat) : option state :=
  match tk with
  | None => Some (addlog s [GFinish op; GStart op])
  | Some f => match take_f (addlog s [GStart op]) f with
              | None => None
              | Some (s1, _) => Some (addlog s1 [GFinish op])
              end
  end.

(* ---------- polling a job: frame [FJob j w] on top of [rest]; [w] = context waker ---------- *)
Definition ret_ready (k : kont) : frame := match k with KDrain => FDRdeq | KRoj => FSDloop | KDq f d => FDQtake f end.
Definition ret_pending (k : kont) (j : job) : frame :=
  match k with KDrain => FDRrequeue j | KRoj => FROpend j | KDq f d => FDQrequeue f d j end.
Definition step_job (s : state) (a : nat) (rest : list frame) (j : job) (w : waker) (k : kont) : option state :=
  match j with
  | JPlain op => Some (setstack (addlog s [GFinish op; GStart op]) a (ret_ready k :: rest))
  | JSync op c tk =>
      match run_closure s op tk with
      | None => None
      | Some s1 => Some (setstack (setsres s1 c true) a (ret_ready k :: rest))
      end
  | JFut op NotCreated sc => Some (setstack (addlog s [GStart op]) a (FJob (JFut op Waiting sc) w k :: rest))
  | JFut op Waiting [] => Some (setstack (addlog s [GFinish op]) a (ret_ready k :: rest))
  | JFut op Waiting (PTouch :: r) => Some (setstack s a (FJob (JFut op Waiting r) w k :: rest))
  | JFut op Waiting (PAwait e :: r) =>
      let c := getev s e in
      if c.(fired) then Some (setstack s a (FJob (JFut op Waiting r) w k :: rest))
      else Some (setstack (setev s e (c <| wakers := w :: c.(wakers) |>)) a (ret_pending k j :: rest))
  | JFut op Waiting (PAwaitEither e1 e2 :: r) =>
      if (getev s e1).(fired) || (getev s e2).(fired) then Some (setstack s a (FJob (JFut op Waiting r) w k :: rest))
      else let s1 := setev s e1 (getev s e1 <| wakers := w :: (getev s e1).(wakers) |>) in
           Some (setstack (setev s1 e2 (getev s1 e2 <| wakers := w :: (getev s1 e2).(wakers) |>)) a (ret_pending k j :: rest))
  | JFut op Waiting (PSendReady e :: r) =>        (* [ev e] queue_ready_send.send(()): the receiver's waker is taken and called *)
      let c := getev s e in
      Some (setstack (setev s e {| fired := true; wakers := [] |}) a (wake_frames (rev c.(wakers)) ++ FJob (JFut op Waiting r) w k :: rest))
  | JFut op Waiting (PAwaitDone e :: r) =>        (* [ev e] one poll of done_recv: a oneshot keeps only the NEWEST waker *)
      let c := getev s e in
      if c.(fired) then Some (setstack s a (FJob (JFut op Waiting r) w k :: rest))
      else Some (setstack (setev s e (c <| wakers := w :: List.filter is_anytask c.(wakers) |>)) a (ret_pending k j :: rest))
  | JFut op Waiting (PSignal f :: r) =>
      let c := getf s f in
      let s1 := addlog (setf s f {| res := FSome op; fwaker := None |}) [GSig f op] in
      Some (setstack s1 a (opt_wake c.(fwaker) ++ FJob (JFut op Waiting r) w k :: rest))
  end.

(* ---------- waker calls ---------- *)
Definition step_wake (T : ftables) (s : state) (a : nat) (rest : list frame) (w : waker) : option state :=
  match w with
  | WQueue =>
      let '(st', cont) := T.(t_wake_queue) s.(qs) in
      let s1 := s <| qs := st' |> in
      if cont then Some (setstack s1 a (FRQ1 :: rest)) else Some (setstack s1 a rest)
  | WThread c => Some (setstack (s <| qs := T.(t_wake_thread) s.(qs) |>) a (FUnpark c :: rest))
  | WTask c => Some (setstack s a (FUnpark c :: rest))
  | WDrain d =>
      let '(st, slot) := getdw s d in
      let '(st', now) := T.(t_dw_wake) st in
      if now then Some (setstack (setdw s d (st', None)) a (opt_wake slot ++ rest))
      else Some (setstack (setdw s d (st', slot)) a rest)
  | WDouble k =>
      match getdbl s k with
      | Some (w1, w2) => Some (setstack (setdbl s k None) a (FWake w1 :: FWake w2 :: rest))
      | None => Some (setstack s a rest)
      end
  end.

(* DrainWaker::wake_with *)
Definition step_wake_with (T : ftables) (s : state) (a : nat) (rest : list frame) (d : nat) (w : waker) : option state :=
  let '(st, slot) := getdw s d in
  let '(st', now) := T.(t_dw_wake_with) st in
  if now then Some (setstack (setdw s d (st', slot)) a (FWake w :: rest))
  else Some (setstack (setdw s d (st', Some w)) a rest).

(* ---------- SchedulerFuture::poll and drain_queue, run by caller [a] ---------- *)
Definition step_fut (T : ftables) (s : state) (a : nat) (rest : list frame) (fr : frame) : option state :=
  let goto s' f := Some (setstack s' a (f :: rest)) in
  let panic : option state := None in
  match fr with
  | FSFpoll f =>                                      (* [fres f], nested [core] *)
      match take_f s f with
      | None => None
      | Some (s1, Some v) => Some (setstack s1 a (pop_cont rest))
      | Some (_, None) =>
          let '(st', act) := T.(t_poll) f s.(qs) in
          let s1 := s <| qs := st' |> in
          let store := setf s1 f (getf s1 f <| fwaker := Some (WTask a) |>) in
          match act with
          | PAWait => Some (setstack store a rest)
          | PADrain => goto s1 (FDQtake f)
          | PAPanic => None
          end
      end
  | FDQtake f =>                                      (* [fres f] *)
      match take_f s f with
      | None => panic
      | Some (s1, Some v) => Some (setstack s1 a (FDQidle f :: pop_cont rest))
      | Some (_, None) => goto s (FDQdeq f)
      end
  | FDQdeq f =>                                       (* dequeue [core]; a fresh DrainWaker for the job poll *)
      if T.(ft_base).(t_dequeue_refuses) s.(qs) then goto s (FDQempty1 f)
      else match s.(jobs) with
           | [] => goto s (FDQempty1 f)
           | j :: js =>
               let d := length s.(dws) in
               let s1 := s <| jobs := js |> <| dws := s.(dws) ++ [(DWNotWoken, None)] |> in
               Some (setstack s1 a (FJob j (WDrain d) (KDq f d) :: rest))
           end
  | FDQrequeue f d j => goto (s <| jobs := j :: s.(jobs) |>) (FDQtake2 f d)          (* requeue [core] *)
  | FDQtake2 f d =>                                   (* [fres f] *)
      match take_f s f with
      | None => panic
      | Some (s1, Some v) => Some (setstack s1 a (FDQwfw f d :: pop_cont rest))
      | Some (_, None) => goto s (FDQstore f d)
      end
  | FDQwfw f d => Some (setstack (s <| qs := WaitingForWake |>) a (FWakeWith d WQueue :: rest))   (* [core] *)
  | FDQstore f d => goto (setf s f (getf s f <| fwaker := Some (WTask a) |>)) (FDQwfp f d)                     (* [fres f] *)
  | FDQwfp f d =>                                     (* [core]; then the DoubleWaker is built *)
      let k := length s.(dbl) in
      let s1 := s <| qs := WaitingForPoll f |> <| dbl := s.(dbl) ++ [Some (WQueue, WTask a)] |> in
      Some (setstack s1 a (FWakeWith d (WDouble k) :: rest))
  | FDQempty1 f => goto (setf s f (getf s f <| fwaker := Some (WTask a) |>)) (FDQempty2 f)                     (* [fres f] *)
  | FDQempty2 f => Some (setstack (s <| qs := Idle |>) a (FRQ1 :: rest))                     (* [core] *)
  | FDQidle f => Some (setstack (s <| qs := Idle |>) a (FRQ1 :: rest))                         (* [core] *)
  | _ => None
  end.

(* ---------- sync (plain closure, or SchedulerFuture::sync() when tk = Some f), run_one_job_now, reschedule_queue ---------- *)
Definition step_sync (T : ftables) (s : state) (a : nat) (sr : bool) (tok : bool) (kk : bool) (rest : list frame) (fr : frame) : option state :=
  let goto s' f := Some (setstack s' a (f :: rest)) in
  let panic : option state := None in
  let B := T.(ft_base) in
  match fr with
  | FS1 op tk =>                                      (* [core] *)
      let '(st', act) := B.(t_sync) s.(qs) (bool_decide (s.(jobs) = [])) in
      let s1 := s <| qs := st' |> in
      match act with
      | SAImmediate => goto (addlog s1 [GPush op]) (FClosure op tk)
      | SADrain => goto s1 (FSDpush op tk)
      | SABackground => goto s1 (FSBreg op tk)
      | SAPanic => None
      end
  | FClosure op tk => match run_closure s op tk with None => panic | Some s1 => goto s1 FSIidle end   (* LNone | [fres f] *)
  | FSIidle => Some (setstack (s <| qs := Idle |>) a (FRQ1 :: rest))                                            (* [core] *)
  | FSDpush op tk => goto (addlog (setsres (s <| jobs := s.(jobs) ++ [JSync op a tk] |>) a false) [GPush op]) FSDloop   (* [core] *)
  | FSDloop => if sr then goto s FSDidle else goto s FROdeq
  | FSDidle => Some (setstack (s <| qs := Idle |>) a (FRQ1 :: rest))                                            (* [core] *)
  | FSBreg op tk => goto (setkick s a true) (FSBpush op tk)                     (* [core] wake_blocked.push; `rescheduled` starts out set *)
  | FSBpush op tk =>                                  (* [core] *)
      let s1 := addlog (setsres (s <| jobs := s.(jobs) ++ [JSync op a tk] |>) a false) [GPush op] in
      match s.(qs) with
      | Idle => Some (setstack s1 a (FRQ1 :: FSBwait :: rest))
      | _ => goto s1 FSBwait
      end
  | FSBwait =>                                        (* head of the waiter's loop, under its `ready` mutex *)
      if sr then goto s FSBdone                       (* the job has been run (by whoever runs the queue) *)
      else if kk then goto (setkick s a false) FSBclaim   (* rescheduled.swap(false) was true: try to take the queue over *)
      else None                                       (* condvar wait: until the job is run or reschedule_queue kicks the waiter *)
  | FSBclaim =>                                       (* claim_pending_queue: [sched], nested [core]; schedule.retain drops the queue's entries *)
      match B.(t_claim) s.(qs) with
      | Some st' => Some (setstack (s <| insched := 0 |> <| qs := st' |>) a (FSDloop :: FSBdone :: rest))   (* run jobs until the own job has run *)
      | None => goto s FSBwait
      end
  | FSBdone => Some (setstack s a rest)                (* [core] wake_blocked.retain *)
  | FROdeq =>                                         (* dequeue [core] *)
      if B.(t_dequeue_refuses) s.(qs) then goto s FSDloop
      else match s.(jobs) with
           | [] => goto s FSDloop
           | j :: js => goto (s <| jobs := js |>) (FJob j (WThread a) KRoj)
           end
  | FROpend j =>                                      (* [core] *)
      match T.(t_roj_pend) s.(qs) with
      | None => panic
      | Some st' => if is_wfu st' then goto (s <| qs := st' |>) (FROcheck j)
                    else goto (s <| qs := st' |>) (FJob j (WThread a) KRoj)
      end
  | FROcheck j =>                                     (* [core] *)
      match T.(t_roj_park) s.(qs) with
      | PKBreak => goto s (FJob j (WThread a) KRoj)
      | PKPark => goto s (FROpark j)
      | PKPanic => panic
      end
  | FROpark j => if tok then goto (settoken s a false) (FROcheck j) else None      (* thread::park *)
  | FRQ1 =>                                           (* reschedule_queue [core] *)
      let '(st', push) := B.(t_resched) s.(qs) (negb (bool_decide (s.(jobs) = []))) in
      let s1 := kickall (s <| qs := st' |>) in         (* the waiters of wake_blocked are kicked in the same section *)
      if push then goto s1 FRQ2 else Some (setstack s1 a rest)
  | FRQ2 => Some (setstack (s <| insched := S s.(insched) |>) a rest)               (* [sched] push_back *)
  | _ => None
  end.

(* ---------- pool runner: next_to_run (one schedule entry per step) and drain ---------- *)
Definition step_pool (T : ftables) (s : state) (a : nat) (rest : list frame) (fr : frame) : option state :=
  let goto s' f := Some (setstack s' a (f :: rest)) in
  let B := T.(ft_base) in
  match fr with
  | FPIdle =>                                         (* [sched] pop_front, nested [core] *)
      match s.(insched) with
      | 0 => None
      | S n => match B.(t_next) s.(qs) with
               | Some st' => Some (setstack (s <| insched := n |> <| qs := st' |>) a (FDRdeq :: FPIdle :: rest))
               | None => goto (s <| insched := n |>) FPIdle
               end
      end
  | FDRdeq =>                                         (* dequeue [core] *)
      if B.(t_dequeue_refuses) s.(qs) then goto s FDRfin
      else match s.(jobs) with
           | [] => goto s FDRfin
           | j :: js => goto (s <| jobs := js |>) (FJob j WQueue KDrain)
           end
  | FDRrequeue j => goto (s <| jobs := j :: s.(jobs) |>) FDRpend            (* requeue [core] *)
  | FDRpend =>                                        (* [core] *)
      let st' := T.(t_drain_pend) s.(qs) in
      if is_wfw st' then Some (setstack (s <| qs := st' |>) a rest) else goto (s <| qs := st' |>) FDRdeq
  | FDRfin =>                                         (* [core] *)
      let '(st', done) := B.(t_drain_fin) s.(qs) (bool_decide (s.(jobs) = [])) in
      if done then Some (setstack (s <| qs := st' |>) a rest) else goto (s <| qs := st' |>) FDRdeq
  | _ => None
  end.

(* ---------- SyncFuture (future_sync): the owner's poll loop, SyncFuture::poll, the user future, the drop ---------- *)
Definition is_task (a : nat) (w : waker) : bool := match w with WTask c => Nat.eqb c a | _ => false end.
Definition fire_cell (s : state) (a : nat) (e : nat) (k : list frame) : state :=
  setstack (setev s e {| fired := true; wakers := [] |}) a (wake_frames (rev (getev s e).(wakers)) ++ k).
Definition step_y (s : state) (a : nat) (tok : bool) (rest : list frame) (pc : ypc) (y : ydat) (st : ystate) (u : fuse) : option state :=
  let goto s' pc' st' u' := Some (setstack s' a (FY pc' y st' u' :: rest)) in
  let o := y.(y_op) in let r := y.(y_r) in let d := S y.(y_r) in
  match pc with
  | YPuse =>                                          (* the owner: poll (again), or drop *)
      match u with
      | UAwait | UDropAfter (S _) => goto s YPloop st u
      | _ => goto s YPdrop1 st u
      end
  | YPpend =>                                         (* the poll returned Pending *)
      match u with
      | UAwait => goto s YPpark st u
      | UDropAfter (S k) => goto s YPuse st (UDropAfter k)
      | _ => goto s YPdrop1 st u
      end
  | YPpark => if tok then goto (settoken s a false) YPloop st u else None        (* the task is polled again when it has been woken *)
  | YPloop =>                                         (* the `loop` of SyncFuture::poll: dispatch on the state *)
      match st with
      | YFuture _ => goto s YPuser st u
      | YQueue _ => Some (setstack s a (FSFpoll y.(y_f) :: FY YPsfret y st u :: rest))   (* scheduler_future.poll_unpin first *)
      end
  | YPsfret =>                                        (* reached only when that poll returned Pending (Ready: [pop_cont]) *)
      match st with
      | YQueue _ => goto s YPrecv st u
      | YFuture _ => goto s YPuser st u                (* not reached *)
      end
  | YPrecv =>                                         (* [ev r] recv.poll_unpin; Ok: create_future(), retry *)
      match st with
      | YQueue body =>
          let c := getev s r in
          if c.(fired) then goto (addlog s [GUStart o]) YPuser (YFuture body) u
          else goto (setev s r (c <| wakers := WTask a :: List.filter (fun w => negb (is_task a w)) c.(wakers) |>)) YPpend st u
                                                      (* a oneshot receiver keeps only its NEWEST waker: the owner's previous one is replaced *)
      | YFuture _ => goto s YPuser st u                (* not reached *)
      end
  | YPuser =>                                         (* future.poll_unpin: one primitive of the user future per step *)
      match st with
      | YFuture [] => goto (addlog s [GUFinish o]) YPfin st u
      | YFuture (PAwait e :: b) =>
          let c := getev s e in
          if c.(fired) then goto (addlog s [GUStep o]) YPuser (YFuture b) u
          else goto (setev s e (c <| wakers := WTask a :: c.(wakers) |>)) YPpend st u
      | YFuture (PAwaitEither e1 e2 :: b) =>
          if (getev s e1).(fired) || (getev s e2).(fired) then goto (addlog s [GUStep o]) YPuser (YFuture b) u
          else let s1 := setev s e1 (getev s e1 <| wakers := WTask a :: (getev s e1).(wakers) |>) in
               goto (setev s1 e2 (getev s1 e2 <| wakers := WTask a :: (getev s1 e2).(wakers) |>)) YPpend st u
      | YFuture (_ :: b) => goto (addlog s [GUStep o]) YPuser (YFuture b) u
      | YQueue _ => goto s YPloop st u                 (* not reached *)
      end
  | YPfin =>                                          (* [ev d] task_finished.take().map(send); state WaitingForScheduler, retry: from now on the
                                                         SyncFuture is polled / dropped exactly like its SchedulerFuture (poll = its poll, the drop of
                                                         the remaining fields does nothing): the owner goes on with [FUse f u] *)
      Some (fire_cell s a d (FUse y.(y_f) u :: rest))
  | YPdrop1 =>                                        (* drop of the field `state`: the receiver / the user future *)
      match st with
      | YQueue _ => goto (setev s r (getev s r <| wakers := List.filter (fun w => negb (is_task a w)) (getev s r).(wakers) |>)) YPdrop2 st u   (* the receiver's waker is discarded *)
      | YFuture _ => goto (addlog s [GUCancel o]) YPdrop2 st u
      end
  | YPdrop2 =>                                        (* (scheduler_future: its Drop is empty) drop of `task_finished`: done_recv resolves Canceled *)
      Some (fire_cell (addlog s [GYdrop o]) a d rest)
  end.

(* ---------- caller top level, schedule_job_desync, uses of a returned future, fire ---------- *)
Definition step_caller (T : ftables) (s : state) (a : nat) (tok : bool) (rest : list frame) (fr : frame) : option state :=
  let goto s' f := Some (setstack s' a (f :: rest)) in
  let panic : option state := None in
  match fr with
  | FTop [] => None
  | FTop (o :: os) =>
      let op := s.(nextop) in
      let s1 := s <| nextop := S op |> in
      let f := length s.(futs) in
      match o with
      | ODesync => Some (setstack s1 a (FD1 (JPlain op) :: FTop os :: rest))
      | OFuture body u =>
          let s2 := s1 <| futs := s.(futs) ++ [fc0] |> in
          Some (setstack s2 a (FD1 (JFut op NotCreated (body ++ [PSignal f])) :: FUse f u :: FTop os :: rest))
      | OSuspend e u =>      (* f = finished_suspending, S f = the detached outer future of the suspend job *)
          let s2 := s1 <| futs := s.(futs) ++ [fc0; fc0] |> in
          Some (setstack s2 a (FD1 (JFut op NotCreated ([PSignal f; PAwait e] ++ [PSignal (S f)])) :: FUse f u :: FTop os :: rest))
      | OFutSync body u =>   (* two oneshot channels, the SchedulerFuture, the slot job queued by schedule_job_desync, the SyncFuture *)
          let r := length s.(evs) in
          let s2 := addlog (s1 <| futs := s.(futs) ++ [fc0] |> <| evs := s.(evs) ++ [ev_new; ev_new] |>) [GYnew op f r] in
          let y := {| y_op := op; y_f := f; y_r := r |} in
          Some (setstack s2 a (FD1 (JFut op NotCreated [PSendReady r; PAwaitDone (S r); PSignal f]) :: FY YPuse y (YQueue body) u :: FTop os :: rest))
      | OSync => Some (setstack s1 a (FS1 op None :: FTop os :: rest))
      | OFire e => Some (setstack s a (FFire e :: FTop os :: rest))
      end
  | FD1 j =>                                          (* [core] push_back, then the table *)
      let '(st', act) := T.(ft_base).(t_desync) s.(qs) in
      let op := match j with JPlain o | JFut o _ _ | JSync o _ _ => o end in
      let s1 := addlog (s <| jobs := s.(jobs) ++ [j] |> <| qs := st' |>) [GPush op] in
      match act with
      | DASchedule => goto s1 FD2
      | DANone => Some (setstack s1 a rest)
      | DAPanic => None
      end
  | FD2 => Some (setstack (s <| insched := S s.(insched) |>) a rest)       (* [sched] push_back *)
  | FUse f u =>
      match u with
      | UDetach => Some (setstack s a rest)
      | UAwait => Some (setstack s a (FSFpoll f :: FAwRet f :: rest))
      | USync => goto s (FFS1 f)
      | UDropAfter 0 => Some (setstack s a rest)
      | UDropAfter (S k) => Some (setstack s a (FSFpoll f :: FDropRet f k :: rest))
      end
  | FAwRet f => goto s (FPark f)                       (* reached only when the poll returned Pending *)
  | FPark f => if tok then Some (setstack (settoken s a false) a (FSFpoll f :: FAwRet f :: rest)) else None
  | FDropRet f k => goto s (FUse f (UDropAfter k))
  | FFS1 f =>                                         (* SchedulerFuture::sync: [fres f] take *)
      match take_f s f with
      | None => panic
      | Some (s1, Some v) => Some (setstack s1 a rest)
      | Some (_, None) => goto (s <| nextop := S s.(nextop) |>) (FS1 s.(nextop) (Some f))
      end
  | FFire e =>                      (* [ev e] fired := true, take the wakers; then call them, oldest registration first *)
      let c := getev s e in
      Some (setstack (setev s e {| fired := true; wakers := [] |}) a (wake_frames (rev c.(wakers)) ++ rest))
  | FUnpark c => Some (setstack (settoken s c true) a rest)
  | FDQlate j => Some (setstack s a rest)   (* never pushed with the code's facts (only by [stepF], which overrides this step) *)
  | FY pc y st u => step_y s a tok rest pc y st u
  | _ => None
  end.

(* ---------- the step function ---------- *)
Definition step (T : ftables) (s : state) (a : nat) : option state :=
  ac ← s.(actors) !! a;
  match ac.(stack) with
  | [] => None
  | fr :: rest =>
      match fr with
      | FJob j w k => step_job s a rest j w k
      | FWake w => step_wake T s a rest w
      | FWakeWith d w => step_wake_with T s a rest d w
      | FSFpoll _ | FDQtake _ | FDQdeq _ | FDQrequeue _ _ _ | FDQtake2 _ _ | FDQwfw _ _ | FDQstore _ _
      | FDQwfp _ _ | FDQempty1 _ | FDQempty2 _ | FDQidle _ => step_fut T s a rest fr
      | FS1 _ _ | FClosure _ _ | FSIidle | FSDpush _ _ | FSDloop | FSDidle | FSBreg _ _ | FSBpush _ _ | FSBwait | FSBdone
      | FROdeq | FROpend _ | FROcheck _ | FROpark _ | FRQ1 | FRQ2 | FSBclaim => step_sync T s a ac.(sres) ac.(token) ac.(kicked) rest fr
      | FPIdle | FDRdeq | FDRrequeue _ | FDRpend | FDRfin => step_pool T s a rest fr
      | _ => step_caller T s a ac.(token) rest fr
      end
  end.

Definition run (T : ftables) (s : state) (tr : list nat) : option state :=
  foldl (fun os a => o ← os; step T o a) (Some s) tr.

(* the mutex of the critical section the next step of actor [a] executes *)
Definition frame_label (fr : frame) : lockclass * nat :=
  match fr with
  | FD1 _ | FDQdeq _ | FDQrequeue _ _ _ | FDQwfw _ _ | FDQwfp _ _ | FDQempty2 _ | FDQidle _
  | FS1 _ _ | FSIidle | FSDpush _ _ | FSDidle | FSBreg _ _ | FSBpush _ _ | FSBdone | FROdeq | FROpend _ | FROcheck _ | FRQ1
  | FDRdeq | FDRrequeue _ | FDRpend | FDRfin | FWake WQueue | FWake (WThread _) => (LCore, 0)
  | FD2 | FRQ2 | FPIdle | FSBclaim => (LSched, 0)          (* FPIdle: schedule lock, with the queue-core lock nested inside *)
  | FSFpoll f (* core nested *) | FDQtake f | FDQtake2 f _ | FDQstore f _ | FDQempty1 f | FFS1 f
  | FClosure _ (Some f) | FJob (JSync _ _ (Some f)) _ _ | FJob (JFut _ Waiting (PSignal f :: _)) _ _ => (LFres, f)
  | FWakeWith d _ | FWake (WDrain d) => (LDw, d)
  | FWake (WDouble k) => (LDbl, k)
  | FFire e | FJob (JFut _ Waiting (PAwait e :: _)) _ _ | FJob (JFut _ Waiting (PAwaitEither e _ :: _)) _ _
  | FJob (JFut _ Waiting (PSendReady e :: _)) _ _ | FJob (JFut _ Waiting (PAwaitDone e :: _)) _ _ => (LEv, e)
  | FY YPrecv y _ _ => (LEv, y.(y_r))
  | FY YPfin y _ _ | FY YPdrop2 y _ _ => (LEv, S y.(y_r))
  | FY YPdrop1 y (YQueue _) _ => (LEv, y.(y_r))
  | FY YPuser _ (YFuture (PAwait e :: _)) _ | FY YPuser _ (YFuture (PAwaitEither e _ :: _)) _ => (LEv, e)
  | _ => (LNone, 0)
  end.
Definition step_label (s : state) (a : nat) : option (lockclass * nat) :=
  ac ← s.(actors) !! a; fr ← head ac.(stack); Some (frame_label fr).

(* configuration: caller scripts, number of pool runners, number of external events *)
Definition mk_actor (st : list frame) : arec := {| stack := st; token := false; sres := false; kicked := false |}.
Definition init (scripts : list (list cop)) (npool nev : nat) : state :=
  {| qs := Idle; jobs := []; insched := 0; evs := replicate nev ev_new; futs := []; dws := []; dbl := [];
     actors := ((fun sc => mk_actor [FTop sc]) <$> scripts) ++ replicate npool (mk_actor [FPIdle]);
     log := []; nextop := 0 |}.

Definition enabled (T : ftables) (s : state) (a : nat) : bool := bool_decide (is_Some (step T s a)).
Definition terminal (T : ftables) (s : state) : Prop := forall a, step T s a = None.

(* an actor that is disabled because the code would panic at this program point *)
Definition would_panic (T : ftables) (s : state) (a : nat) : bool :=
  match s.(actors) !! a with
  | Some ac => match ac.(stack) with
    | FSFpoll f :: _ => match (getf s f).(res) with FReturned => true | FNone => match (T.(t_poll) f s.(qs)).2 with PAPanic => true | _ => false end | _ => false end
    | FDQtake f :: _ | FDQtake2 f _ :: _ | FFS1 f :: _ | FClosure _ (Some f) :: _ | FJob (JSync _ _ (Some f)) _ _ :: _ =>
        match (getf s f).(res) with FReturned => true | _ => false end
    | FS1 _ _ :: _ => match (T.(ft_base).(t_sync) s.(qs) (bool_decide (s.(jobs) = []))).2 with SAPanic => true | _ => false end
    | FD1 _ :: _ => match (T.(ft_base).(t_desync) s.(qs)).2 with DAPanic => true | _ => false end
    | FROpend _ :: _ => match T.(t_roj_pend) s.(qs) with None => true | _ => false end
    | FROcheck _ :: _ => match T.(t_roj_park) s.(qs) with PKPanic => true | _ => false end
    | _ => false end
  | None => false
  end.

(* ==================================================================================================================================
   ORDER FACTS.  Five hand-written order decisions of [step] as a parameter: [stepF F T] is [step T] when every fact of F is true
   ([code_ffacts]; L2/Facts.v proves stepF code_ffacts T = step T, so every theorem about [run T] is a theorem about
   [runF code_ffacts T]), and the variant order when a fact is false (L2/Refute.v: with the fact false the property fails).
     f_park_before_wake_with       drain_queue's Pending arm writes the parked state (WaitingForWake / WaitingForPoll self.id)
                                   BEFORE waker.wake_with(..)            variant: wake_with first, the state write after it
     f_requeue_before_park         the Pending job is put back at the front of the queue BEFORE the state write and wake_with
                                                                          variant: requeue after wake_with ([FDQlate j])
     f_future_drop_inert           dropping a SchedulerFuture does nothing ([FUse f (UDropAfter 0)] only pops)
                                   variant: Drop does `if self.draining { state := Idle; reschedule_queue }`, draining = the last
                                   poll left the queue in WaitingForPoll(self.id) (not cleared when a pool thread takes the queue
                                   over): the drop after such a last poll is the frame [FDQidle f]
     f_wake_thread_unparks_always  WakeThread::wake unparks its thread whatever state it found
                                   variant: unpark only when it found WaitingForUnpark
     f_syncfuture_state_dropped_first  struct SyncFuture declares `state` (the user future) before `task_finished`: a dropped
                                   SyncFuture destroys its user future BEFORE the slot job is released
                                   variant: task_finished dropped first, then the state *)
Record ffacts := { f_park_before_wake_with : bool; f_requeue_before_park : bool; f_future_drop_inert : bool;
                   f_wake_thread_unparks_always : bool; f_syncfuture_state_dropped_first : bool }.
Definition code_ffacts : ffacts :=
  {| f_park_before_wake_with := true; f_requeue_before_park := true; f_future_drop_inert := true; f_wake_thread_unparks_always := true;
     f_syncfuture_state_dropped_first := true |}.

(* variant f_requeue_before_park = false: the continuation frame of the poll lies below the late requeue *)
Definition pop_contF (rest : list frame) : list frame :=
  match rest with FDQlate j :: r => FDQlate j :: pop_cont r | _ => pop_cont rest end.
(* variant f_future_drop_inert = false: this poll is the last one of a poll-and-drop loop and leaves the queue in WaitingForPoll:
   the drop that follows resets the queue state *)
Definition mark_drop (f : nat) (rest : list frame) : list frame :=
  match rest with
  | FDropRet _ 0 :: r => FDQidle f :: r
  | FDQlate j :: FDropRet _ 0 :: r => FDQlate j :: FDQidle f :: r
  | _ => rest
  end.

Definition stepF (F : ffacts) (T : ftables) (s : state) (a : nat) : option state :=
  match s.(actors) !! a with
  | None => None
  | Some ac =>
    match ac.(stack) with
    | FWake (WThread c) :: rest =>
        if F.(f_wake_thread_unparks_always) then step T s a
        else Some (setstack (s <| qs := T.(t_wake_thread) s.(qs) |>) a (if is_wfu s.(qs) then FUnpark c :: rest else rest))
    | FDQrequeue f d j :: rest =>
        if F.(f_requeue_before_park) then step T s a else Some (setstack s a (FDQtake2 f d :: FDQlate j :: rest))
    | FDQlate j :: rest =>
        if F.(f_requeue_before_park) then step T s a else Some (setstack (s <| jobs := j :: s.(jobs) |>) a rest)
    | FDQtake2 f d :: rest =>
        if F.(f_park_before_wake_with) && F.(f_requeue_before_park) then step T s a
        else match take_f s f with
             | None => None
             | Some (s1, Some v) =>
                 if F.(f_park_before_wake_with) then Some (setstack s1 a (FDQwfw f d :: pop_contF rest))
                 else Some (setstack s1 a (FWakeWith d WQueue :: FDQwfw f d :: pop_contF rest))
             | Some (_, None) => Some (setstack s a (FDQstore f d :: rest))
             end
    | FDQwfw f d :: rest =>
        if F.(f_park_before_wake_with) then step T s a else Some (setstack (s <| qs := WaitingForWake |>) a rest)
    | FDQstore f d :: rest =>
        if F.(f_park_before_wake_with) then step T s a
        else let k := length s.(dbl) in
             let s1 := setf s f (getf s f <| fwaker := Some (WTask a) |>) <| dbl := s.(dbl) ++ [Some (WQueue, WTask a)] |> in
             Some (setstack s1 a (FWakeWith d (WDouble k) :: FDQwfp f d :: rest))
    | FDQwfp f d :: rest =>
        if F.(f_park_before_wake_with) && F.(f_future_drop_inert) then step T s a
        else let rest' := if F.(f_future_drop_inert) then rest else mark_drop f rest in
             if F.(f_park_before_wake_with)
             then let k := length s.(dbl) in
                  Some (setstack (s <| qs := WaitingForPoll f |> <| dbl := s.(dbl) ++ [Some (WQueue, WTask a)] |>) a
                          (FWakeWith d (WDouble k) :: rest'))
             else Some (setstack (s <| qs := WaitingForPoll f |>) a rest')
    | FY YPdrop1 y st u :: rest =>
        if F.(f_syncfuture_state_dropped_first) then step T s a
        else Some (fire_cell s a (S y.(y_r)) (FY YPdrop2 y st u :: rest))
    | FY YPdrop2 y st u :: rest =>
        if F.(f_syncfuture_state_dropped_first) then step T s a
        else match st with
             | YQueue _ => Some (setstack (addlog (setev s y.(y_r) (getev s y.(y_r) <| wakers := List.filter (fun w => negb (is_task a w)) (getev s y.(y_r)).(wakers) |>)) [GYdrop y.(y_op)]) a rest)
             | YFuture _ => Some (setstack (addlog s [GYdrop y.(y_op); GUCancel y.(y_op)]) a rest)
             end
    | _ => step T s a
    end
  end.
Definition runF (F : ffacts) (T : ftables) (s : state) (tr : list nat) : option state :=
  foldl (fun os a => o ← os; stepF F T o a) (Some s) tr.
Definition terminalF (F : ffacts) (T : ftables) (s : state) : Prop := forall a, stepF F T s a = None.

(* ==================================================================================================================================
   MAPPING  model frame -> logged critical sections   (for a log-replay driver of this layer; same conventions as the L1 driver
   /verif/driver/replay.ml [expected]: an event is logged at the END of a critical section; {pre; at; post}: [at] = the section at
   whose end the model step takes effect, [pre] = sections logged before it inside the same model step, [post] = sections that follow
   inside the same model step; "?" = may be absent; DA = a debug_assert!(..core.lock()..is_running()) re-lock, present only in builds
   with debug assertions (the harness builds with them); "silent" = no logged section, the driver takes the model step on its own.)
   Classes: Core (queue core), Sched (schedule), Fres f (SchedulerFutureResult of future f), Dw d (DrainWaker d), Dbl k (DoubleWaker k),
   Ev e (external event / oneshot cell e), SyncRes c (the private result mutex of caller c's sync_drain; not a model lock).
   Nested sections: the inner section ENDS first, so it is logged first.

   caller, scheduling
     FTop                 silent (SchedulerFuture::new, FutureId::new: no mutex)
     FD1 j                at Core
     FD2                  at Sched ; post: the sections of schedule_thread (threads / busy locks, spawn) - abstracted here, see L1
     FUse, FAwRet, FDropRet   silent
     FPark f              silent; enabled only after an Unpark of this thread has been logged (token)
     FFS1 f               at Fres f
     FFire e              at Ev e  (oneshot send: value stored, waker taken; the wake frames follow as their own steps)
   SchedulerFuture::poll / drain_queue (caller a)
     FSFpoll f            result present:            at Fres f
                          result missing:            pre Core (nested inside, logged first) ; at Fres f
                          ... and DrainQueue chosen: post DA Core (entry of drain_queue)
     FDQtake f            at Fres f
     FDQdeq f             at Core ; post DA Core when a job was dequeued (none when the queue was empty / dequeue refused)
     FDQrequeue f d j     at Core
     FDQtake2 f d         at Fres f
     FDQwfw f d           at Core
     FDQstore f d         at Fres f
     FDQwfp f d           at Core
     FDQempty1 f          at Fres f
     FDQempty2 f          at Core
     FDQidle f            at Core
     FWakeWith d w        at Dw d
   polling a job  FJob j w k   (k = KDrain: drain on a pool thread, KRoj: run_one_job_now, KDq f d: drain_queue)
     JPlain op            silent
     JSync op c None      at SyncRes c            (sync_drain's job stores the result; sync_background's job: L1's JSyncBg sections)
     JSync op c (Some f)  pre Fres f ; at SyncRes c
     JFut op NotCreated   silent (the closure is invoked)
     JFut op Waiting []   silent (Poll::Ready)
     JFut .. (PTouch::_)  silent
     JFut .. (PAwait e::_) at Ev e
     JFut .. (PAwaitEither e1 e2::_)   at Ev e1 ; the harness future locks Ev e1, Ev e2 (check) and, when neither has fired,
                          Ev e1, Ev e2 again (register); one model step
     FDQlate j            (variant order of stepF only) at Core - requeue
     JFut .. (PSignal f::_) at Fres f  (the waker call follows as FWake frames on the same thread)
     every FJob step that RETURNS READY with k = KRoj: post DA Core (run_one_job_now asserts is_running after the poll loop)
   sync (caller a)
     FS1 op tk            at Core ; post DA Core for Immediate and Drain (entry of sync_immediate / sync_drain)
     FClosure op None     silent ;  FClosure op (Some f)  at Fres f
     FSIidle              at Core
     FSDpush op tk        at Core
     FSDloop              at SyncRes a  (while result.0.lock().is_none())
     FSDidle              at Core ; the final result.0.lock().take() (SyncRes a) is logged AFTER the reschedule_queue sections that follow
                          (FRQ1, FRQ2): treat it as a stutter before the caller's next FTop step
     FSBreg op tk         at Core (wake_blocked.push)
     FSBpush op tk        at Core
     FSBwait              the head of the waiter's loop, under its private `ready` mutex (not a model lock): the section of `ready`
                          by the waiter's own task that ends with ready = false and is followed by claim_pending_queue is the step
                          FSBwait -> FSBclaim (the `rescheduled` flag was set); the one that ends with ready = true is
                          FSBwait -> FSBdone; a condvar wait is the blocked frame.  Sections on `ready` by other tasks (the job
                          wrapper sets it, reschedule_queue passes through it) are not model steps.
     FSBclaim             at Core, nested in Sched (claim_pending_queue); post Sched.  On success the frames FSDloop / FROdeq / FJob ..
                          KRoj / FSDidle / FRQ1 / FRQ2 of the take-over follow (the same sections as sync_drain), then FSBdone.
                          NOTE reschedule_queue sets the waiters' flags INSIDE its core section (FRQ1): a waiter may see its flag
                          before that section is logged as ended; a driver takes the FRQ1 step at the `kick` mark.
     FSBdone              at Core (wake_blocked.retain)
     FROdeq               at Core ; post DA Core when a job was dequeued
     FROpend j            at Core
     FROcheck j           at Core
     FROpark j            silent; enabled only after an Unpark of this thread has been logged
     FRQ1                 at Core (the notifications of blocked waiters happen INSIDE this section: see FRQ1 in the L1 driver)
     FRQ2                 at Sched ; post: schedule_thread sections (abstracted)
   pool runner
     FPIdle               one schedule entry examined: at Core (nested in the schedule lock held by next_to_run) ;
                          post Sched? (the schedule section ends when an entry is taken or the schedule is exhausted; a skipped stale
                          entry keeps it open) ; when the entry is taken: post DA Core (entry of drain), after the busy-lock sections
                          of the pool loop (abstracted).  With insched = 0 the step is disabled: the log shows Sched only.
     FDRdeq               at Core ; post DA Core when a job was dequeued
     FDRrequeue j         at Core
     FDRpend              at Core
     FDRfin               at Core (the debug_assert uses the guard already held: no extra section)
   waker calls (executed on the calling thread, as the frames on top of its stack)
     FWake WQueue         at Core ; (reschedule_queue follows as FRQ1 / FRQ2)
     FWake (WThread c)    at Core ; then FUnpark c
     FWake (WTask c)      silent (the executor's task waker) ; then FUnpark c
     FUnpark c            the Unpark event of thread c (no mutex)
     FWake (WDrain d)     at Dw d
     FWake (WDouble k)    at Dbl k
   Not represented at all: the pool's thread / busy mutexes, max_threads, remove_finished_threads, thread spawning (all L1);
   Arc / Weak counts; the ActiveQueue guards (no section unless panicking).
   ================================================================================================================================== *)
