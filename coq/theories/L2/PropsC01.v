(* C01 with futures (one queue): operations never overlap, also across awaits.  Layer L2.  The whole statement [C01_full]
   (Main.v) is proved, for ALL programs, event timings and schedules.
   Not covered by this layer: several queues / nested operations (L1, L3), the steal path of sync_background (L1), panics (L1).
   The statement is about [run T] = [runF code_ffacts T] (Facts.runF_code; Inst.gen_ffacts_code: the facts read from the source
   are code_ffacts).  Two of the order facts of Model.ffacts are NEEDED for it ([C01_exclusive_F F] = clauses (2),(3) of C01_full
   for the model with facts F): with the Pending job requeued only after wake_with, or with a SchedulerFuture whose Drop resets
   the queue state, two operations overlap (Refute.v: concrete runs under the generated tables, described there). *)
From L2 Require Import Model Own Jobs Main Refute.
Theorem C01_exclusive_across_awaits_L2 : C01_full.
Proof. exact C01_main. Qed.
Print Assumptions C01_exclusive_across_awaits_L2.
Theorem C01_with_code_facts_L2 : C01_exclusive_F code_ffacts.
Proof. exact C01_exclusive_code. Qed.
Theorem C01_needs_requeue_before_park_refuted_L2 : ~ C01_exclusive_F requeue_after_wake_with.
Proof. exact C01_exclusive_needs_requeue_before_park. Qed.
Theorem C01_needs_inert_future_drop_refuted_L2 : ~ C01_exclusive_F future_drop_resets_state.
Proof. exact C01_exclusive_needs_inert_future_drop. Qed.
Print Assumptions C01_with_code_facts_L2.
Print Assumptions C01_needs_requeue_before_park_refuted_L2.
Print Assumptions C01_needs_inert_future_drop_refuted_L2.
