(* C01 with futures (one queue): operations never overlap, also across awaits.  Layer L2.  The whole statement [C01_full]
   (Main.v) is proved, for ALL programs, event timings and schedules.
   Not covered by this layer: several queues / nested operations (L1, L3), the steal path of sync_background (L1), panics (L1). *)
From L2 Require Import Model Own Jobs Main.
Theorem C01_exclusive_across_awaits_L2 : C01_full.
Proof. exact C01_main. Qed.
Print Assumptions C01_exclusive_across_awaits_L2.
