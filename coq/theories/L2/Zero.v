(* C06 / C07 with ZERO pool runners: one caller (actor 0) that only schedules plain / future jobs (bodies without signals) and awaits or
   detaches its futures; the other callers only fire events.  Definitions of the invariants (boolean, testable). *)
From stdpp Require Import list numbers option.
From RecordUpdate Require Import RecordUpdate.
From L2 Require Import Model Base Own Jobs Shape DwInv Fut Wake Task.
#[global] Unset Lia Cache.

(* ---------- the programs ---------- *)
(* PSendReady / PAwaitDone are the prims of the slot job of future_sync (never part of a user body) *)
Definition sigfreeb (body : list fprim) : bool :=
  forallb (fun p => match p with PSignal _ | PSendReady _ | PAwaitDone _ => false | _ => true end) body.
Definition awaitb (o : cop) : bool := match o with ODesync => true | OFuture body UAwait | OFuture body UDetach => sigfreeb body | _ => false end.
Definition fireb (o : cop) : bool := match o with OFire _ => true | _ => false end.
(* a job script signals only with its last prim *)
Fixpoint wfsc (sc : list fprim) : bool :=
  match sc with
  | [] => true
  | p :: r => match p with PSendReady _ | PAwaitDone _ => false | PSignal _ => match r with [] => true | _ => false end | _ => wfsc r end
  end.
Definition wfjob (j : job) : bool := match j with JPlain _ => true | JFut _ _ sc => wfsc sc | JSync _ _ _ => false end.
(* frames the awaiting caller may have / frames the firing callers may have *)
Definition ok0 (fr : frame) : bool :=
  match fr with
  | FTop sc => forallb awaitb sc
  | FD1 j | FJob j _ (KDq _ _) | FDQrequeue _ _ j => wfjob j
  | FD2 | FUse _ UAwait | FUse _ UDetach | FAwRet _ | FPark _ | FSFpoll _ | FDQtake _ | FDQdeq _ | FDQtake2 _ _ | FDQwfw _ _
  | FDQstore _ _ | FDQwfp _ _ | FDQempty1 _ | FDQempty2 _ | FDQidle _ | FWakeWith _ _ | FRQ1 | FRQ2 | FWake _ | FUnpark _ => true
  | _ => false
  end.
Definition okf (fr : frame) : bool :=
  match fr with FTop sc => forallb fireb sc | FFire _ | FRQ1 | FRQ2 | FWake _ | FUnpark _ => true | _ => false end.
Definition zp_ok (s : state) : bool :=
  forallb (fun '(c, st) => if bool_decide (c = 0) then forallb ok0 st else forallb okf st) (imap (fun c st => (c, st)) (stacks s))
  && forallb wfjob s.(jobs).

(* ---------- the result stays missing while drain_queue polls a job ---------- *)
Definition rn2_ok (s : state) (fr : frame) : bool :=
  match fr with
  | FDQrequeue f _ _ | FDQtake2 f _ | FDQwfp f _ => bool_decide ((getf s f).(res) = FNone)
  | FJob j _ (KDq f _) => bool_decide ((getf s f).(res) = FNone) || match j with JFut _ Waiting [] => true | _ => false end
  | FDQwfw _ _ | FDQempty1 _ | FDQempty2 _ => false          (* never reached *)
  | _ => true
  end.

(* ---------- the wake-up of the task (the task half of the DoubleWaker) ---------- *)
Definition dbl_t (s : state) (k : nat) : bool := match getdbl s k with Some (_, WTask 0) => true | _ => false end.
Definition efftw (s : state) (w : waker) : bool := match w with WTask 0 => true | WDouble k => dbl_t s k | _ => false end.
Definition efft (s : state) (w : waker) : bool :=
  match w with WDrain d => match getdw s d with (DWWillWake, Some w') => efftw s w' | _ => false end | _ => efftw s w end.
Definition tfr (s : state) (e : nat) (fr : frame) : bool :=
  match fr with FWake w => efft s w | FWakeWith d w => efftw s w && gd s e d | _ => false end.
Definition tcover (s : state) (e : nat) : bool :=
  (negb (getev s e).(fired) && existsb (efft s) (getev s e).(wakers)) || exf (tfr s e) s.
Definition tz (s : state) (f : nat) : bool :=
  tokb s 0 || posb (np (is_unpark 0) s)
  || (bool_decide (s.(qs) = WaitingForPoll f) && existsb (tcover s) (seq 0 (length s.(evs)))).
(* for [tz] the poll is in progress up to and including FDQwfp (which sets WaitingForPoll and builds the DoubleWaker).
   [tz] / [tzf] / [zq_ok] / [zero_ok] are the boolean (testable) forms used for simulation; the proofs use the Prop forms
   ZeroInv.Inv_zp / Inv_zq and ZeroTz.tzP / Inv_tz (membership of a poll frame in the stack instead of adjacency, and an
   existential over all events instead of the events in range) *)
Definition pollprog2 (fr : frame) : option nat := match fr with FDQwfp f _ | FDQempty2 f => Some f | _ => pollprog fr end.
Definition inprog2 (prev : option frame) (f : nat) : bool :=
  match prev with Some x => match pollprog2 x with Some f' => bool_decide (f' = f) | None => false end | None => false end.
Fixpoint tzf (s : state) (prev : option frame) (st : list frame) : bool :=
  match st with
  | [] => true
  | y :: r => match y with
              | FAwRet f => inprog2 prev f || tz s f
              | FPark f => tz s f
              | _ => tzf s (Some y) r
              end
  end.
(* queue-state facts *)
Definition zq_ok (s : state) : bool :=
  match s.(qs) with
  | WaitingForWake => false
  | WaitingForPoll f => bool_decide ((getf s f).(res) = FNone) &&
                        existsb (fun fr => match fr with FAwRet f' | FPark f' => bool_decide (f' = f) | _ => false end) (default [] (stacks s !! 0))
  | _ => true
  end.
Definition zero_ok (s : state) : bool :=
  zp_ok s && forallb (rn2_ok s) (default [] (stacks s !! 0)) && tzf s None (default [] (stacks s !! 0)) && zq_ok s.
