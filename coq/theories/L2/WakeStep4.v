(* C06: preservation of the wake invariant, the runner's own steps that change what the invariant looks at (part 4) *)
From stdpp Require Import list numbers option.
From RecordUpdate Require Import RecordUpdate.
From L2 Require Import Model Base Own Jobs Shape DwInv Wake WakeInv WakeLem WakeStep1 WakeStep2 WakeStep3.
#[global] Unset Lia Cache.

Section Steps.
  Context (T : ftables) (HT : own_cond T) (HC : jobs_cond T) (HW : wake_cond T).

  Lemma top_ok s a fr0 rest : Inv_wake s -> stacks s !! a = Some (fr0 :: rest) -> frame_ok s a fr0 = true.
  Proof. intros [IF _] Hst. apply IF. eexists. split; [exact Hst|left]. Qed.

  (* the runner gives the queue up: state := Idle, then reschedule_queue *)
  Lemma ws_release_idle s a fr0 rest pre : Inv_own s -> Inv_wake s -> stacks s !! a = Some (fr0 :: rest) -> marker fr0 = true ->
    (forall fr, fr ∈ pre -> marker fr = false) ->
    Inv_wake (setstack (s <| qs := Idle |>) a (FRQ1 :: pre ++ rest)).
  Proof.
    intros HO HI Hst Hm Hpre. set (s' := setstack _ _ _).
    assert (Hs : stacks s' = <[a := FRQ1 :: pre ++ rest]> (stacks s)) by (subst s'; solve_stacks).
    split.
    - eapply (frames_runner_step' s _ a _ rest _ HO Hst Hm Hs).
      intros fr [->|[Hin|Hin]%elem_of_app]%elem_of_cons; [by right|right; apply nonmarker_ok; by apply Hpre|by left].
    - unfold queue_ok. change (qs s') with Idle. cbv beta iota. change (jobs s') with (jobs s). destruct (jobs s); [done|].
      assert (posb (np is_rq1 s') = true) as ->; [|done].
      apply posb_true, np_pos_fsat. exists a, FRQ1. split; [|done]. eapply fsat_new; [exact Hst|exact Hs|left].
  Qed.

  (* drain_queue: a job is taken and polled with a fresh DrainWaker *)
  Lemma ws_dqdeq s a f j l rest : Inv_own s -> Inv_wake s -> stacks s !! a = Some (FDQdeq f :: rest) ->
    Inv_wake (setstack (s <| jobs := l |> <| dws := s.(dws) ++ [(DWNotWoken, None)] |>) a
                (FJob j (WDrain (length s.(dws))) (KDq f (length s.(dws))) :: rest)).
  Proof.
    intros HO HI Hst. set (s' := setstack _ _ _).
    assert (Hs : stacks s' = <[a := FJob j (WDrain (length s.(dws))) (KDq f (length s.(dws))) :: rest]> (stacks s)) by (subst s'; solve_stacks).
    split; [|apply queue_ok_owned; apply (runner_owned s a _ HO Hst); cbn; lia].
    eapply (frames_runner_step' s _ a _ rest _ HO Hst eq_refl Hs).
    intros fr [->|Hin]%elem_of_cons; [right|by left]. cbn. by apply bool_decide_eq_true.
  Qed.

  (* signal from inside a job: the future's waker (if any) is called on this thread *)
  Lemma ws_signal s a op f l w k rest (s1 : state) fw : Inv_own s -> Inv_wake s ->
    stacks s !! a = Some (FJob (JFut op Waiting (PSignal f :: l)) w k :: rest) ->
    stacks s1 = stacks s -> s1.(qs) = s.(qs) ->
    Inv_wake (setstack s1 a (opt_wake fw ++ FJob (JFut op Waiting l) w k :: rest)).
  Proof.
    intros HO HI Hst H1 Hq. set (s' := setstack _ _ _).
    assert (Hs : stacks s' = <[a := opt_wake fw ++ FJob (JFut op Waiting l) w k :: rest]> (stacks s)) by (subst s'; by rewrite stacks_setstack, H1).
    split; [|apply queue_ok_owned; change (qs s') with (qs s1); rewrite Hq; apply (runner_owned s a _ HO Hst); cbn; lia].
    eapply (frames_runner_step' s _ a _ rest _ HO Hst eq_refl Hs).
    intros fr [Hin|[->|Hin]%elem_of_cons]%elem_of_app; [right|right|by left].
    - destruct fw; [apply elem_of_list_singleton in Hin as ->; done|by apply elem_of_nil in Hin].
    - exact (top_ok s a _ _ HI Hst).
  Qed.

  (* drain_queue parks the queue after its own result arrived: WaitingForWake, then wake_with(WakeQueue) *)
  Lemma ws_dqwfw s a f d rest : Inv_own s -> Inv_wake s -> stacks s !! a = Some (FDQwfw f d :: rest) ->
    Inv_wake (setstack (s <| qs := WaitingForWake |>) a (FWakeWith d WQueue :: rest)).
  Proof.
    intros HO HI Hst. set (s' := setstack _ _ _).
    assert (Hs : stacks s' = <[a := FWakeWith d WQueue :: rest]> (stacks s)) by (subst s'; solve_stacks).
    pose proof (top_ok s a _ _ HI Hst) as Hok. cbn in Hok.
    split.
    - eapply (frames_runner_step' s _ a _ rest _ HO Hst eq_refl Hs).
      intros fr [->|Hin]%elem_of_cons; [by right|by left].
    - unfold queue_ok. change (qs s') with WaitingForWake. cbv beta iota. change (hsusp s') with (hsusp s).
      destruct (hsusp s) as [e|]; [|done]. apply cover_iff. right; right. exists a, d, WQueue.
      split; [eapply fsat_new; [exact Hst|exact Hs|left]|]. split; [done|].
      eapply (gd_np s s'); [done|done| |exact Hok]. eapply np_mono; [exact Hst|exact Hs|cnt_le].
  Qed.

  (* drain_queue parks the queue for the next poll: WaitingForPoll f, then wake_with(DoubleWaker(WakeQueue, task waker)) *)
  Lemma ws_dqwfp s a f d rest : Inv_own s -> Inv_wake s -> stacks s !! a = Some (FDQwfp f d :: rest) ->
    Inv_wake (setstack (s <| qs := WaitingForPoll f |> <| dbl := s.(dbl) ++ [Some (WQueue, WTask a)] |>) a
                (FWakeWith d (WDouble (length s.(dbl))) :: rest)).
  Proof.
    intros HO HI Hst. set (k := length (dbl s)). set (s' := setstack _ _ _).
    assert (Hs : stacks s' = <[a := FWakeWith d (WDouble k) :: rest]> (stacks s)) by (subst s'; solve_stacks).
    pose proof (top_ok s a _ _ HI Hst) as Hok. cbn in Hok.
    split.
    - eapply (frames_runner_step' s _ a _ rest _ HO Hst eq_refl Hs).
      intros fr [->|Hin]%elem_of_cons; [by right|by left].
    - unfold queue_ok. change (qs s') with (WaitingForPoll f). cbv beta iota. change (hsusp s') with (hsusp s).
      destruct (hsusp s) as [e|]; [|done].
      assert (cover s' e = true) as ->; [|done].
      apply cover_iff. right; right. exists a, d, (WDouble k).
      split; [eapply fsat_new; [exact Hst|exact Hs|left]|]. split.
      + cbn. unfold dbl_q, getdbl. change (dbl s') with (dbl s ++ [Some (WQueue, WTask a)]).
        rewrite lookup_app_r by (subst k; lia). subst k. by rewrite Nat.sub_diag.
      + eapply (gd_np s s'); [done|done| |exact Hok]. eapply np_mono; [exact Hst|exact Hs|cnt_le].
  Qed.

  Lemma getev_fired_range s e : (getev s e).(fired) = false -> e < length s.(evs).
  Proof. unfold getev. intros H. destruct (evs s !! e) eqn:E; [by eapply lookup_lt_Some|done]. Qed.
  Lemma getev_setev_eq s e c : e < length s.(evs) -> getev (setev s e c) e = c.
  Proof. intros H. unfold getev, setev; cbn. by rewrite list_lookup_insert. Qed.
  Lemma unfreg_register s e w : (getev s e).(fired) = false ->
    unfreg (setev s e (getev s e <| wakers := w :: (getev s e).(wakers) |>)) e w = true.
  Proof.
    intros Hf. unfold unfreg. rewrite getev_setev_eq by (by apply getev_fired_range).
    destruct (getev s e) as [fi wk]; cbn in *. rewrite Hf. cbn. apply bool_decide_eq_true. left.
  Qed.

  (* a future job awaits an unfired event: the context waker is registered and the poll returns Pending *)
  Lemma ws_await_pending s a op e l w k rest : Inv_own s -> Inv_wake s ->
    stacks s !! a = Some (FJob (JFut op Waiting (PAwait e :: l)) w k :: rest) -> (getev s e).(fired) = false ->
    Inv_wake (setstack (setev s e (getev s e <| wakers := w :: (getev s e).(wakers) |>)) a
                (ret_pending k (JFut op Waiting (PAwait e :: l)) :: rest)).
  Proof.
    intros HO HI Hst Hf. set (s0 := setev s e _). set (s' := setstack _ _ _).
    assert (Hs : stacks s' = <[a := ret_pending k (JFut op Waiting (PAwait e :: l)) :: rest]> (stacks s)) by (subst s' s0; solve_stacks).
    pose proof (top_ok s a _ _ HI Hst) as Hok. cbn in Hok. apply bool_decide_eq_true in Hok. subst w.
    assert (Hu : unfreg s' e (ctxw a k) = true) by (subst s' s0; apply (unfreg_register s e _ Hf)).
    split; [|apply queue_ok_owned; apply (runner_owned s a _ HO Hst); cbn; lia].
    eapply (frames_runner_step' s _ a _ rest _ HO Hst eq_refl Hs).
    intros fr [->|Hin]%elem_of_cons; [right|by left].
    destruct k; cbn in *.
    - unfold gq. by rewrite Hu, orb_true_r.
    - unfold gt. by rewrite Hu, orb_true_r.
    - unfold gd. by rewrite Hu.
  Qed.
  (* registering one more waker keeps what is registered *)
  Lemma unfreg_reg_mono s e w e' w' : unfreg s e' w' = true ->
    unfreg (setev s e (getev s e <| wakers := w :: (getev s e).(wakers) |>)) e' w' = true.
  Proof.
    unfold unfreg. intros [Hf Hin]%andb_true_iff. apply negb_true_iff in Hf. destruct (decide (e' = e)) as [->|Hne].
    - rewrite getev_setev_eq by (by apply getev_fired_range). cbn. rewrite Hf. cbn. apply bool_decide_eq_true in Hin.
      apply bool_decide_eq_true. by right.
    - unfold getev, setev; cbn. rewrite list_lookup_insert_ne by done. fold (getev s e'). by rewrite Hf, Hin.
  Qed.
  (* a future job awaits two unfired events (select): the context waker is registered with both, the poll returns Pending *)
  Lemma ws_await_either_pending s a op e1 e2 l w k rest : Inv_own s -> Inv_wake s ->
    stacks s !! a = Some (FJob (JFut op Waiting (PAwaitEither e1 e2 :: l)) w k :: rest) ->
    (getev s e1).(fired) || (getev s e2).(fired) = false ->
    let s1 := setev s e1 (getev s e1 <| wakers := w :: (getev s e1).(wakers) |>) in
    Inv_wake (setstack (setev s1 e2 (getev s1 e2 <| wakers := w :: (getev s1 e2).(wakers) |>)) a
                (ret_pending k (JFut op Waiting (PAwaitEither e1 e2 :: l)) :: rest)).
  Proof.
    intros HO HI Hst [Hf _]%orb_false_iff s1. set (s0 := setev s1 e2 _). set (s' := setstack _ _ _).
    assert (Hs : stacks s' = <[a := ret_pending k (JFut op Waiting (PAwaitEither e1 e2 :: l)) :: rest]> (stacks s)) by (subst s' s0 s1; solve_stacks).
    pose proof (top_ok s a _ _ HI Hst) as Hok. cbn in Hok. apply bool_decide_eq_true in Hok. subst w.
    assert (Hu : unfreg s' e1 (ctxw a k) = true).
    { subst s' s0. apply (unfreg_reg_mono s1 e2). subst s1. apply (unfreg_register s e1 _ Hf). }
    split; [|apply queue_ok_owned; apply (runner_owned s a _ HO Hst); cbn; lia].
    eapply (frames_runner_step' s _ a _ rest _ HO Hst eq_refl Hs).
    intros fr [->|Hin]%elem_of_cons; [right|by left].
    destruct k; cbn in *.
    - unfold gq. by rewrite Hu, orb_true_r.
    - unfold gt. by rewrite Hu, orb_true_r.
    - unfold gd. by rewrite Hu.
  Qed.
End Steps.
