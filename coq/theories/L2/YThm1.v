(* C08 (1): who polls the user future, and who sends queue_ready - step-level facts *)
From stdpp Require Import list numbers option.
From RecordUpdate Require Import RecordUpdate.
From L2 Require Import Model Base Own Jobs Fut Sig YDefs YMono YStep1 YStep2 YStep3 YInv YThm.
#[global] Unset Lia Cache.

Section S1.
  Context (nev : nat) (T : ftables).
  (* an event of the user future of call o is produced only by a step of the actor whose top frame is the SyncFuture of that call
     (frames never move between actors: it is the caller of future_sync), and only when queue_ready has been sent and
     task_finished has not *)
  Theorem user_event_step s a s' l e o : Inv_y nev s -> step T s a = Some s' -> s'.(log) = l ++ s.(log) -> e ∈ l -> user_ev e = Some o ->
    exists pc y st u rest, stacks s !! a = Some (FY pc y st u :: rest) /\ y.(y_op) = o /\
      GYnew o y.(y_f) y.(y_r) ∈ s.(log) /\ firedP s y.(y_r) /\ ~ firedP s (S y.(y_r)).
  Proof.
    intros HY Hstep Hl Hin He. step_split Hstep Ea Est.
    all: try discriminate Hstep.
    all: injection Hstep as <-.
    all: pop_cont_split.
    all: pose proof (stacks_lookup _ _ _ Ea) as Hst; rewrite Est in Hst.
    all: try match goal with k : kont |- _ => destruct k end.
    all: match type of Hl with log ?s' = _ => let n := log_new s s' in
           assert (En : l = n) by (apply (app_inv_tail (log s)); symmetry; exact Hl) end; subst l.
    all: rewrite ?elem_of_cons, ?elem_of_nil in Hin; repeat (match type of Hin with _ \/ _ => destruct Hin as [Hin|Hin] end); try done.
    all: subst e; try discriminate He; cbn in He; injection He as <-.
    all: pose proof (y_frames _ _ HY a _ _ Hst (elem_of_list_here _ _)) as Hy; cbn [frok] in Hy; destruct Hy as (H1 & H2 & H3 & H4 & H5 & H6 & H7 & H8).
    all: eexists _, _, _, _, _; split; [exact Hst|]; split; [reflexivity|]; split; [by apply ynews_in|]; split; [|done].
    all: first [assumption | by apply H7].
  Qed.

  (* queue_ready of a call is sent only by a step of that call's slot job *)
  Theorem ready_sent_step s a s' o f r : Inv_y nev s -> step T s a = Some s' -> (o, f, r) ∈ Ys s -> ~ firedP s r -> firedP s' r ->
    exists sc w k rest, stacks s !! a = Some (FJob (JFut o Waiting (PSendReady r :: sc)) w k :: rest).
  Proof.
    intros HY Hstep Ht Hn Hf. step_split Hstep Ea Est.
    all: try discriminate Hstep.
    all: injection Hstep as <-.
    all: pop_cont_split.
    all: pose proof (stacks_lookup _ _ _ Ea) as Hst; rewrite Est in Hst.
    all: try match goal with k : kont |- _ => destruct k end.
    all: match type of Hf with firedP ?s' _ => try (try_fsame s s') end.
    all: try (exfalso; apply Hn; by apply Hfs).
    all: pose proof (y_frames _ _ HY a _ _ Hst (elem_of_list_here _ _)) as Hy; cbn [frok] in Hy.
    all: try (apply firedP_fire in Hf as [?|Hf]; [done|]).
    all: try (apply (firedP_fire (addlog s _)) in Hf as [?|Hf]; [done|]).
    - (* external event *) exfalso. destruct (y_rng _ _ HY _ _ _ Ht) as (_ & _ & ? & _). lia.
    - destruct (slot_job_ready _ _ _ _ _ Hy) as (f' & Ht' & ->). subst r0.
      pose proof (triple_eq nev s _ _ HY Ht Ht' ltac:(cbn; auto)) as [= -> _]. by eexists _, _, _, _.
    - destruct (slot_job_ready _ _ _ _ _ Hy) as (f' & Ht' & ->). subst r0.
      pose proof (triple_eq nev s _ _ HY Ht Ht' ltac:(cbn; auto)) as [= -> _]. by eexists _, _, _, _.
    - destruct (slot_job_ready _ _ _ _ _ Hy) as (f' & Ht' & ->). subst r0.
      pose proof (triple_eq nev s _ _ HY Ht Ht' ltac:(cbn; auto)) as [= -> _]. by eexists _, _, _, _.
    - exfalso. destruct Hy as (H1 & _). subst r. by destruct (triple_cells nev s _ _ HY H1 Ht).
    - exfalso. destruct Hy as (H1 & _). subst r. by destruct (triple_cells nev s _ _ HY H1 Ht).
  Qed.
End S1.
