(* the generated tables meet every table-condition Record of layer L2 *)
From stdpp Require Import list numbers option.
From L2 Require Import Model Base Own Jobs Wake WakeInv Term GenTables ZeroInv Facts Waiter.
From Gen Require Import Tables.

Lemma gen_own_cond : own_cond gen_ftables.
Proof.
  split; cbn.
  - intros st st' act H. destruct st; inversion H; subst; unfold keeps; cbn; intuition congruence.
  - intros st ne st' p H. destruct st, ne; inversion H; subst; unfold keeps; cbn; intuition congruence.
  - intros st st' c H. destruct st; inversion H; subst; unfold keeps; cbn; intuition congruence.
  - intros st. destruct st; unfold keeps; cbn; intuition congruence.
  - intros st e st' act H. destruct st, e; inversion H; subst; cbn; intuition congruence.
  - intros f st st' act H. destruct st; cbn in H; try (inversion H; subst; cbn; intuition congruence).
    destruct (f0 =? f); inversion H; subst; cbn; intuition congruence.
  - intros st st' H. destruct st; inversion H; subst; cbn; intuition congruence.
  - intros st st' H. destruct st; inversion H; subst; cbn; intuition congruence.
  - intros st Ho Hn. destruct st; cbn in *; try congruence; intuition congruence.
  - intros st e st' d Ho Hn H. destruct st, e; cbn in *; try congruence; inversion H; subst; cbn; intuition congruence.
  - intros st Ho Hn. destruct st; cbn in *; try congruence; eexists; (split; [reflexivity|done]).
  - intros st Ho. destruct st; cbn in *; congruence.
  - intros st H. destruct st; cbn in *; congruence.
Qed.

Lemma gen_jobs_cond : jobs_cond gen_ftables.
Proof. split; cbn. intros st e st' H. by destruct st, e. Qed.

Lemma gen_wake_cond : wake_cond gen_ftables.
Proof.
  split; cbn.
  - intros st H. by destruct st.
  - done.
  - intros st st' H. destruct st; inversion H; by subst.
  - intros st st' act H Hn. destruct st; inversion H; subst; congruence.
  - by intros [].
  - done.
  - intros st ne st' p H Hn. destruct st, ne; inversion H; subst; congruence.
  - done.
  - done.
  - intros st H. by destruct st.
  - done.
  - done.
  - done.
  - done.
  - done.
  - intros st H. by destruct st.
  - done.
  - by left.
  - intros st [->|[->|[f ->]]]; done.
  - done.
  - intros st' [= <-]. done.
  - intros st H. by destruct st.
  - intros st e st' Hr H. destruct st, e; cbn in *; try congruence; inversion H; by subst.
  - by intros [].
  - by intros [].
Qed.

Theorem gen_all_cond : all_cond gen_ftables.
Proof. split; [apply gen_own_cond|apply gen_jobs_cond|apply gen_wake_cond]. Qed.
Print Assumptions gen_all_cond.

(* the extra conditions used by the zero-pool theorem (ZeroInv.zero_cond) *)
Lemma gen_zero_cond : zero_cond gen_ftables.
Proof.
  split; cbn.
  - intros st H. by destruct st.
  - intros f. cbn. by rewrite Nat.eqb_refl.
  - intros f st st' H. destruct st; cbn in H; try (inversion H; fail); try (left; reflexivity); try (right; left; reflexivity).
    destruct (f0 =? f) eqn:E; inversion H. right; right. exists f0. split; [|done]. by apply Nat.eqb_neq in E.
Qed.
Print Assumptions gen_zero_cond.

(* the order facts read from the source are the ones the model is written with: every theorem about [run gen_ftables] is a theorem
   about the model with the facts of the source, [runF gen_ffacts gen_ftables] *)
Lemma gen_ffacts_code : gen_ffacts = code_ffacts.
Proof. reflexivity. Qed.
Lemma runF_gen s tr : runF gen_ffacts gen_ftables s tr = run gen_ftables s tr.
Proof. rewrite gen_ffacts_code. apply runF_code. Qed.
Print Assumptions gen_ffacts_code.
Print Assumptions runF_gen.

(* claim_pending_queue (the waiter of sync_background): the conditions of Waiter.claim_cond; the row added by the repair of finding F6 *)
Lemma cl_claim_row : forall f, gen_ftables.(ft_base).(t_claim) (WaitingForPoll f) = Some Running.
Proof. reflexivity. Qed.
Lemma gen_claim_cond : claim_cond gen_ftables.
Proof. split; try reflexivity. intros st st' c H Hc. destruct st; cbn in H; inversion H; subst; try done; cbn in Hc; done. Qed.
Print Assumptions cl_claim_row.
Print Assumptions gen_claim_cond.
