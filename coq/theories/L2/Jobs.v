(* C01 part 2 / C02: where a started-and-unfinished future operation can be (in the runner's hand or at the head of the
   queue), exclusivity of Start..Finish in the ghost log, and FIFO order of Starts. *)
From stdpp Require Import list numbers option.
From RecordUpdate Require Import RecordUpdate.
From L2 Require Import Model Base Own.
#[global] Unset Lia Cache.

Definition fresh (j : job) : bool := match j with JFut _ Waiting _ => false | _ => true end.
Definition susp (j : job) : option nat :=
  match j with JFut _ Waiting (PAwait e :: _) | JFut _ Waiting (PAwaitEither e _ :: _) | JFut _ Waiting (PAwaitDone e :: _) => Some e | _ => None end.
Definition jop (j : job) : nat := match j with JPlain o | JFut o _ _ | JSync o _ _ => o end.
Definition wop (j : job) : option nat := match j with JFut o Waiting _ => Some o | _ => None end.
(* the job a frame holds; a sync_immediate closure counts as a (virtual) plain job in hand *)
Definition hjob (fr : frame) : option job :=
  match fr with
  | FJob j _ _ | FDRrequeue j | FDQrequeue _ _ j | FROpend j | FROcheck j | FROpark j => Some j
  | FClosure op _ => Some (JPlain op)
  | _ => None
  end.
(* a job parked in a frame (not being polled) *)
Definition pjob (fr : frame) : option job :=
  match fr with FDRrequeue j | FDQrequeue _ _ j | FROpend j | FROcheck j | FROpark j => Some j | _ => None end.
Definition handfr (fr : frame) : bool := bool_decide (is_Some (hjob fr)).
Definition badpark (fr : frame) : bool := match pjob fr with Some j => negb (bool_decide (is_Some (susp j))) | None => false end.

Fixpoint hjobs (st : list frame) : list job :=
  match st with [] => [] | fr :: r => match hjob fr with Some j => j :: hjobs r | None => hjobs r end end.
Fixpoint heldl (L : list (list frame)) : list job := match L with [] => [] | st :: r => hjobs st ++ heldl r end.
Definition held (s : state) : list job := heldl (stacks s).

Lemma hjobs_app a b : hjobs (a ++ b) = hjobs a ++ hjobs b.
Proof. induction a as [|x a IH]; cbn; [done|]. destruct (hjob x); cbn; by rewrite IH. Qed.
Lemma hand_marker fr : handfr fr = true -> marker fr = true.
Proof. destruct fr; cbn; try done; unfold handfr; cbn; intros H; by apply bool_decide_eq_true in H as [? ?]. Qed.
Lemma hjobs_nil st : cntf marker st = 0 -> hjobs st = [].
Proof.
  induction st as [|x st IH]; cbn; [done|]. intros H.
  destruct (hjob x) eqn:E.
  - assert (marker x = true) by (apply hand_marker; unfold handfr; rewrite E; by apply bool_decide_eq_true). rewrite H0 in H. lia.
  - apply IH. destruct (marker x); lia.
Qed.
Lemma heldl_nil L : npl marker L = 0 -> heldl L = [].
Proof. induction L as [|x L IH]; cbn; [done|]. intros H. rewrite hjobs_nil, IH by lia. done. Qed.

Lemma heldl_insert_same L a old new : L !! a = Some old -> hjobs new = hjobs old -> heldl (<[a := new]> L) = heldl L.
Proof.
  revert a; induction L as [|x L IH]; intros [|a]; cbn; try done.
  - intros [= ->] ->. done.
  - intros H1 H2. change (hjobs x ++ heldl (<[a:=new]> L) = hjobs x ++ heldl L). by rewrite (IH a).
Qed.
(* when the stack of [a] carries the (unique) marker, the held jobs are exactly those of [a] *)
Lemma heldl_runner L a st : L !! a = Some st -> npl marker L <= cntf marker st -> heldl L = hjobs st.
Proof.
  revert a; induction L as [|x L IH]; intros [|a]; cbn; try done.
  - intros [= ->] H. rewrite heldl_nil by lia. by rewrite app_nil_r.
  - intros H1 H2. pose proof (npl_ge marker _ _ _ H1). rewrite hjobs_nil by lia. cbn. apply (IH a); [done|lia].
Qed.
Lemma heldl_runner_insert L a st new : L !! a = Some st -> npl marker L <= cntf marker st -> heldl (<[a := new]> L) = hjobs new.
Proof.
  revert a; induction L as [|x L IH]; intros [|a]; cbn; try done.
  - intros [= ->] H. rewrite heldl_nil by lia. by rewrite app_nil_r.
  - intros H1 H2. pose proof (npl_ge marker _ _ _ H1). rewrite hjobs_nil by lia.
    change ([] ++ heldl (<[a:=new]> L) = hjobs new). cbn. apply (IH a); [done|lia].
Qed.

(* ---------- the ghost log ---------- *)
Definition trans (cur : option nat) (ev : gev) : option (option nat) :=
  match ev with
  | GStart o => match cur with None => Some (Some o) | Some _ => None end
  | GFinish o => match cur with Some o' => if decide (o = o') then Some None else None | None => None end
  | _ => Some cur
  end.
(* [wbn l = Some cur]: in the log (newest first) every Start o is followed by Finish o before any other Start;
   [cur] = the operation that is started and not finished *)
Fixpoint wbn (l : list gev) : option (option nat) := match l with [] => Some None | ev :: l' => cur ← wbn l'; trans cur ev end.
Fixpoint pushes (l : list gev) : list nat :=
  match l with [] => [] | ev :: l' => pushes l' ++ match ev with GPush o => [o] | _ => [] end end.
Fixpoint starts (l : list gev) : list nat :=
  match l with [] => [] | ev :: l' => starts l' ++ match ev with GStart o => [o] | _ => [] end end.
Fixpoint fops (l : list job) : list nat :=
  match l with [] => [] | j :: r => (if fresh j then [jop j] else []) ++ fops r end.
Lemma fops_app a b : fops (a ++ b) = fops a ++ fops b.
Proof. induction a as [|x a IH]; cbn; [done|]. by rewrite IH, app_assoc. Qed.

Definition inprog (s : state) : option nat :=
  match held s with j :: _ => wop j | [] => match s.(jobs) with j :: _ => wop j | [] => None end end.
Definition pend (s : state) : list nat := fops (held s) ++ fops s.(jobs).
Definition allfresh (l : list job) : Prop := forallb fresh l = true.
Definition badpush (fr : frame) : bool := match fr with FD1 j => negb (fresh j) | _ => false end.

Record jobs_cond (T : ftables) : Prop := {
  jc_sync_imm : forall st e st', T.(ft_base).(t_sync) st e = (st', SAImmediate) -> e = true;
}.

Record Inv_jobs (s : state) : Prop := {
  ij_tail : allfresh (tail s.(jobs));
  ij_head : forall j js, s.(jobs) = j :: js -> fresh j = true \/ is_Some (susp j);
  ij_busy : held s <> [] -> allfresh s.(jobs);
  ij_park : np badpark s = 0;
  ij_push : np badpush s = 0;
  ij_log : wbn s.(log) = Some (inprog s);
  ij_fifo : pushes s.(log) = starts s.(log) ++ pend s;
}.

Lemma held_other_step s s' a old new :
  stacks s !! a = Some old -> stacks s' = <[a := new]> (stacks s) -> hjobs new = hjobs old -> held s' = held s.
Proof. intros Ha Hs Hj. unfold held. rewrite Hs. by eapply heldl_insert_same. Qed.
Lemma held_runner_step s a fr rest :
  Inv_own s -> stacks s !! a = Some (fr :: rest) -> marker fr = true ->
  held s = hjobs [fr] /\ hjobs rest = [] /\ (forall s' new, stacks s' = <[a := new]> (stacks s) -> held s' = hjobs new).
Proof.
  intros [I1 _ _] Ha Hm.
  assert (Hle : npl marker (stacks s) <= cntf marker (fr :: rest)).
  { fold (np marker s). rewrite I1. cbn. rewrite Hm. pose proof (b2n_owned_le (qs s)). lia. }
  assert (Hr : cntf marker rest = 0).
  { pose proof (npl_ge marker _ _ _ Ha) as H. fold (np marker s) in H. rewrite I1 in H. cbn in H. rewrite Hm in H.
    pose proof (b2n_owned_le (qs s)). lia. }
  assert (Hrn : hjobs rest = []) by (by apply hjobs_nil).
  split; [|split; [done|]].
  - unfold held. rewrite (heldl_runner _ a _ Ha Hle). cbn. rewrite Hrn. by destruct (hjob fr).
  - intros s' new Hs. unfold held. rewrite Hs. by apply (heldl_runner_insert _ a (fr :: rest)).
Qed.
Lemma held_none s : Inv_own s -> owned s.(qs) = false -> held s = [].
Proof. intros [I1 _ _] Ho. unfold held. apply heldl_nil. fold (np marker s). by rewrite I1, Ho. Qed.
Lemma held_acquire_step s a old :
  Inv_own s -> owned s.(qs) = false -> stacks s !! a = Some old ->
  held s = [] /\ hjobs old = [] /\ (forall s' new, stacks s' = <[a := new]> (stacks s) -> held s' = hjobs new).
Proof.
  intros HO Ho Ha. split; [by apply held_none|]. split.
  - apply hjobs_nil. by eapply not_owned_no_marker.
  - intros s' new Hs. unfold held. rewrite Hs. apply (heldl_runner_insert _ a old new Ha).
    destruct HO as [I1 _ _]. fold (np marker s). rewrite I1, Ho. cbn. lia.
Qed.

Lemma fresh_wop j : fresh j = true -> wop j = None. Proof. by destruct j as [| ? [] ?|]. Qed.
Lemma susp_wop j : is_Some (susp j) -> exists o, wop j = Some o.
Proof. destruct j as [| o [] [|[] ?]|]; cbn; intros [? ?]; try done; by exists o. Qed.
Lemma allfresh_app l j : allfresh l -> fresh j = true -> allfresh (l ++ [j]).
Proof. unfold allfresh. intros H1 H2. rewrite forallb_app, H1. cbn. by rewrite H2. Qed.
Lemma allfresh_tail_app l j : allfresh (tail l) -> fresh j = true -> allfresh (tail (l ++ [j])).
Proof. destruct l as [|x l]; cbn; [done|]. apply allfresh_app. Qed.
Lemma head_app {P : job -> Prop} l x : (forall j js, l = j :: js -> P j) -> P x -> forall j js, l ++ [x] = j :: js -> P j.
Proof. intros H Hx j js. destruct l as [|y l]; cbn; intros [= <- <-]; [done|]. by eapply H. Qed.
Lemma fops_fresh l : allfresh l -> fops l = jop <$> l.
Proof. unfold allfresh. induction l as [|x l IH]; cbn; [done|]. intros [H1 H2]%andb_true_iff. by rewrite H1, IH. Qed.
Lemma head_wop_fresh l : allfresh l -> match l with [] => None | j :: _ => wop j end = None.
Proof. destruct l as [|j l]; [done|]. unfold allfresh; cbn. intros [H _]%andb_true_iff. by apply fresh_wop. Qed.
Lemma allfresh_cons j l : allfresh (j :: l) <-> fresh j = true /\ allfresh l.
Proof. unfold allfresh; cbn. by rewrite andb_true_iff. Qed.
Lemma head_wop_app l x : fresh x = true ->
  match l ++ [x] with [] => None | j :: _ => wop j end = match l with [] => None | j :: _ => wop j end.
Proof. intros H. destruct l; cbn; [by apply fresh_wop|done]. Qed.
Lemma allfresh_tail l : allfresh l -> allfresh (tail l).
Proof. destruct l; [done|]. by intros [_ H]%allfresh_cons. Qed.
Lemma allfresh_head (l : list job) : allfresh l -> forall j js, l = j :: js -> fresh j = true \/ is_Some (susp j).
Proof. intros H j js ->. left. by apply allfresh_cons in H as [H _]. Qed.

Lemma hjobs_opt_wake ow : hjobs (opt_wake ow) = []. Proof. by destruct ow. Qed.
Lemma hjobs_wake_frames ws : hjobs (wake_frames ws) = [].
Proof. induction ws as [|w ws IH]; [done|]. exact IH. Qed.

Ltac cnt_clause P J Hb s a Hst :=
  lazymatch goal with |- np P ?s' = 0 =>
    pose proof (np_upd P s s' a _ _ Hst ltac:(solve_stacks)) as Hu; rewrite J in Hu;
    (let n := fresh "cnt" in set (n := np P s') in *; clearbody n);
    try match goal with k : kont |- _ => destruct k end;
    cbn in Hb, Hu; rewrite ?cntf_app, ?cntf_opt_wake, ?cntf_wake_frames in Hu by done; cbn in Hu; lia end.

Section Pres.
  Context (T : ftables) (HT : own_cond T) (HC : jobs_cond T).

  Lemma step_jobs s a s' : Inv_own s -> Inv_jobs s -> step T s a = Some s' -> Inv_jobs s'.
  Proof.
    intros HO HJ Hstep. step_split Hstep Ea Est.
    all: try discriminate Hstep.
    all: injection Hstep as <-.
    all: pop_cont_split.
    all: pose proof (stacks_lookup _ _ _ Ea) as Hst; rewrite Est in Hst.
    all: match goal with |- Inv_jobs ?s' =>
           first [ assert (Hh : held s' = held s) by
                     (eapply held_other_step; [exact Hst|solve_stacks|cbn; rewrite ?hjobs_app, ?hjobs_opt_wake, ?hjobs_wake_frames; reflexivity])
                 | destruct (held_runner_step s a _ _ HO Hst eq_refl) as (Hh0 & Hr & Hh1);
                   specialize (Hh1 s' _ ltac:(solve_stacks))
                 | assert (Hno : owned (qs s) = false) by (tbl_facts HT; intuition);
                   destruct (held_acquire_step s a _ HO Hno Hst) as (Hh0 & Hr & Hh1);
                   specialize (Hh1 s' _ ltac:(solve_stacks)) ] end.
    all: destruct HJ as [J1 J2 J3 J4 J7 J5 J6].
    all: pose proof (npl_ge badpark _ _ _ Hst) as Hbp; fold (np badpark s) in Hbp; rewrite J4 in Hbp.
    all: pose proof (npl_ge badpush _ _ _ Hst) as Hbq; fold (np badpush s) in Hbq; rewrite J7 in Hbq.
    all: split.
    all: try (cnt_clause badpark J4 Hbp s a Hst; fail).
    all: try (cnt_clause badpush J7 Hbq s a Hst; fail).
    all: try (lazymatch goal with Hst : stacks _ !! _ = Some (?fr :: _) |- _ =>
              lazymatch eval cbn in (pjob fr) with Some ?j =>
                assert (Hsj : is_Some (susp j)) by
                  (cbn in Hbp; destruct (bool_decide (is_Some (susp j))) eqn:Eb; [by apply bool_decide_eq_true in Eb|cbn in Hbp; lia]) end end).
    all: try (lazymatch goal with Hst : stacks _ !! _ = Some (FD1 ?j :: _) |- _ =>
                assert (Hfj : fresh j = true) by (destruct (fresh j) eqn:Ef; [done|]; cbn in Ef, Hbq; rewrite Ef in Hbq; cbn in Hbq; lia) end).
    all: try match goal with Hfj : fresh (JFut _ ?st _) = true |- _ => destruct st; [|discriminate Hfj] end.
    all: clear Hbp Hbq J4 J7.
    all: unfold inprog, pend in *.
    all: rewrite ?Hh; rewrite ?Hh1; try rewrite Hh0 in *.
    all: try match goal with k : kont |- _ => destruct k end.
    all: cbn -[wbn pushes starts fops held allfresh] in *.
    all: rewrite ?hjobs_app, ?hjobs_opt_wake, ?hjobs_wake_frames; cbn -[wbn pushes starts fops held allfresh].
    all: try rewrite Hr in *.
    all: try done.
    (* ij_tail, ij_head, ij_busy for push_back *)
    all: try (apply allfresh_tail_app; [done|by subst]; fail).
    all: try (apply head_app; [done|left; by subst]; fail).
    all: try (intros Hne; apply allfresh_app; [by apply J3|by subst]; fail).
    all: cbn [wbn pushes starts mbind option_bind]; rewrite ?J5, ?J6; cbn [mbind option_bind trans].
    all: try (rewrite fops_app; cbn [fops]; rewrite ?Hfj; cbn [app fresh jop]; rewrite ?app_nil_r, <- ?app_assoc; done).
    all: try (destruct (held s) eqn:Eh; [|rewrite (fresh_wop j0)]; done).
    all: try (assert (Haf : allfresh (jobs s)) by (apply J3; done)).
    all: try rewrite (head_wop_fresh _ Haf).
    all: rewrite ?app_nil_r; cbn [fops fresh jop app]; rewrite ?app_nil_r, <- ?app_assoc; cbn [app].
    all: rewrite ?decide_True by done.
    all: try done.
    all: try (rewrite head_wop_app by (first [done|by subst]); done).
    all: try (match goal with E0 : jobs _ = _ :: _ |- _ => rewrite E0 in * end; cbn [tail] in J1;
              first [ by apply allfresh_tail | by apply allfresh_head | done
                    | cbn [fops]; rewrite <- ?app_assoc; done ]).
    all: try (intros j0 js [= <- <-]; by right).
    all: apply (jc_sync_imm _ HC) in E; apply bool_decide_eq_true in E; rewrite E in *; done.
  Qed.
End Pres.

Lemma held_init scripts npool nev : held (init scripts npool nev) = [].
Proof. apply heldl_nil. fold (np marker (init scripts npool nev)). by rewrite np_init. Qed.
Lemma init_jobs scripts npool nev : Inv_jobs (init scripts npool nev).
Proof.
  split; try done; try (by rewrite np_init).
  - unfold inprog. by rewrite held_init.
  - unfold pend. by rewrite held_init.
Qed.

(* reading of [wbn]: after a Start o (newer events = l1) no other Start happens before Finish o *)
Lemma wbn_exclusive l1 : forall l2 o c, wbn (l1 ++ GStart o :: l2) = Some c -> GFinish o ∉ l1 ->
  (forall o', GStart o' ∉ l1) /\ c = Some o.
Proof.
  induction l1 as [|ev l1 IH]; intros l2 o c; cbn.
  - intros H _. split; [intros o' H'; by apply elem_of_nil in H'|].
    destruct (wbn l2) as [[?|]|]; cbn in H; congruence.
  - intros H Hnf. destruct (wbn (l1 ++ GStart o :: l2)) as [cur|] eqn:E; cbn in H; [|done].
    destruct (IH l2 o cur E) as [Hns ->]; [intros Hin; apply Hnf; by right|].
    destruct ev; cbn in H; try done.
    all: try (injection H as <-; split; [|done]; intros o' [?|?]%elem_of_cons; [done|by eapply Hns]).
    destruct (decide (o0 = o)) as [->|]; [exfalso; apply Hnf; left|done].
Qed.
Lemma wbn_suffix l1 l2 c : wbn (l1 ++ l2) = Some c -> exists c2, wbn l2 = Some c2.
Proof.
  revert c; induction l1 as [|ev l1 IH]; intros c; cbn; [by eexists|].
  destruct (wbn (l1 ++ l2)) eqn:E; cbn; [|done]. intros _. by eapply IH.
Qed.

Section Reach.
  Context (T : ftables) (HT : own_cond T) (HC : jobs_cond T).
  Theorem reachable_jobs scripts npool nev tr s : run T (init scripts npool nev) tr = Some s -> Inv_own s /\ Inv_jobs s.
  Proof.
    apply (run_inv (fun s => Inv_own s /\ Inv_jobs s) T).
    - intros s0 a s' [HO HJ] Hs. split; [by eapply step_own|by eapply step_jobs].
    - split; [apply init_own|apply init_jobs].
  Qed.

  (* C01 across awaits, on the ghost log (newest first): once o has Started, nothing else Starts until Finish o *)
  Theorem log_exclusive scripts npool nev tr s l1 l2 o :
    run T (init scripts npool nev) tr = Some s -> s.(log) = l1 ++ GStart o :: l2 -> GFinish o ∉ l1 -> forall o', GStart o' ∉ l1.
  Proof.
    intros Hr Hl Hnf. apply reachable_jobs in Hr as [_ HJ]. pose proof (ij_log _ HJ) as H. rewrite Hl in H.
    by apply (wbn_exclusive l1 l2 o _ H Hnf).
  Qed.
  (* ... and the open operation is where the invariant says: in the runner's hand, else at the head of the queue *)
  Theorem open_op_location scripts npool nev tr s l1 l2 o :
    run T (init scripts npool nev) tr = Some s -> s.(log) = l1 ++ GStart o :: l2 -> GFinish o ∉ l1 ->
    (exists j r, held s = j :: r /\ wop j = Some o) \/ (held s = [] /\ exists j r, s.(jobs) = j :: r /\ wop j = Some o).
  Proof.
    intros Hr Hl Hnf. apply reachable_jobs in Hr as [_ HJ]. pose proof (ij_log _ HJ) as H. rewrite Hl in H.
    destruct (wbn_exclusive l1 l2 o _ H Hnf) as [_ Ho]. unfold inprog in Ho.
    destruct (held s) as [|j r]; [right|left; by exists j, r].
    split; [done|]. destruct (jobs s) as [|j r]; [done|]. by exists j, r.
  Qed.
  (* C02: operations Start in the order their jobs were pushed *)
  Theorem fifo scripts npool nev tr s :
    run T (init scripts npool nev) tr = Some s -> starts s.(log) `prefix_of` pushes s.(log).
  Proof. intros Hr. apply reachable_jobs in Hr as [_ HJ]. rewrite (ij_fifo _ HJ). by eexists. Qed.
End Reach.
