(* C01 part 2 / C02: where a started-and-unfinished future operation can be (in the runner's hand or at the head of the
   queue), exclusivity of Start..Finish in the ghost log, and FIFO order of Starts. *)
From stdpp Require Import list numbers option.
From RecordUpdate Require Import RecordUpdate.
From L2 Require Import Model Base Own.
#[global] Unset Lia Cache.

Definition fresh (j : job) : bool := match j with JFut _ Waiting _ => false | _ => true end.
Definition susp (j : job) : option nat := match j with JFut _ Waiting (PAwait e :: _) => Some e | _ => None end.
Definition jop (j : job) : nat := match j with JPlain o | JFut o _ _ | JSync o _ _ => o end.
Definition wop (j : job) : option nat := match j with JFut o Waiting _ => Some o | _ => None end.
(* the job a frame holds; a sync_immediate closure counts as a (virtual) plain job in hand *)
Definition hjob (fr : frame) : option job :=
  match fr with
  | FJob j _ _ | FDRrequeue j | FDQrequeue _ _ j | FROpend j | FROcheck j | FROpark j => Some j
  | FClosure op _ => Some (JPlain op)
  | _ => None
  end.
(* a job parked in a frame (not being polled) *)
Definition pjob (fr : frame) : option job :=
  match fr with FDRrequeue j | FDQrequeue _ _ j | FROpend j | FROcheck j | FROpark j => Some j | _ => None end.
Definition handfr (fr : frame) : bool := bool_decide (is_Some (hjob fr)).
Definition badpark (fr : frame) : bool := match pjob fr with Some j => negb (bool_decide (is_Some (susp j))) | None => false end.

Fixpoint hjobs (st : list frame) : list job :=
  match st with [] => [] | fr :: r => match hjob fr with Some j => j :: hjobs r | None => hjobs r end end.
Fixpoint heldl (L : list (list frame)) : list job := match L with [] => [] | st :: r => hjobs st ++ heldl r end.
Definition held (s : state) : list job := heldl (stacks s).

Lemma hjobs_app a b : hjobs (a ++ b) = hjobs a ++ hjobs b.
Proof. induction a as [|x a IH]; cbn; [done|]. destruct (hjob x); cbn; by rewrite IH. Qed.
Lemma hand_marker fr : handfr fr = true -> marker fr = true.
Proof. destruct fr; cbn; try done; unfold handfr; cbn; intros H; by apply bool_decide_eq_true in H as [? ?]. Qed.
Lemma hjobs_nil st : cntf marker st = 0 -> hjobs st = [].
Proof.
  induction st as [|x st IH]; cbn; [done|]. intros H.
  destruct (hjob x) eqn:E.
  - assert (marker x = true) by (apply hand_marker; unfold handfr; rewrite E; by apply bool_decide_eq_true). rewrite H0 in H. lia.
  - apply IH. destruct (marker x); lia.
Qed.
Lemma heldl_nil L : npl marker L = 0 -> heldl L = [].
Proof. induction L as [|x L IH]; cbn; [done|]. intros H. rewrite hjobs_nil, IH by lia. done. Qed.

Lemma heldl_insert_same L a old new : L !! a = Some old -> hjobs new = hjobs old -> heldl (<[a := new]> L) = heldl L.
Proof.
  revert a; induction L as [|x L IH]; intros [|a]; cbn; try done.
  - intros [= ->] ->. done.
  - intros H1 H2. change (hjobs x ++ heldl (<[a:=new]> L) = hjobs x ++ heldl L). by rewrite (IH a).
Qed.
(* when the stack of [a] carries the (unique) marker, the held jobs are exactly those of [a] *)
Lemma heldl_runner L a st : L !! a = Some st -> npl marker L <= cntf marker st -> heldl L = hjobs st.
Proof.
  revert a; induction L as [|x L IH]; intros [|a]; cbn; try done.
  - intros [= ->] H. rewrite heldl_nil by lia. by rewrite app_nil_r.
  - intros H1 H2. pose proof (npl_ge marker _ _ _ H1). rewrite hjobs_nil by lia. cbn. apply (IH a); [done|lia].
Qed.
Lemma heldl_runner_insert L a st new : L !! a = Some st -> npl marker L <= cntf marker st -> heldl (<[a := new]> L) = hjobs new.
Proof.
  revert a; induction L as [|x L IH]; intros [|a]; cbn; try done.
  - intros [= ->] H. rewrite heldl_nil by lia. by rewrite app_nil_r.
  - intros H1 H2. pose proof (npl_ge marker _ _ _ H1). rewrite hjobs_nil by lia.
    change ([] ++ heldl (<[a:=new]> L) = hjobs new). cbn. apply (IH a); [done|lia].
Qed.

(* ---------- the ghost log ---------- *)
Definition trans (cur : option nat) (ev : gev) : option (option nat) :=
  match ev with
  | GStart o => match cur with None => Some (Some o) | Some _ => None end
  | GFinish o => match cur with Some o' => if decide (o = o') then Some None else None | None => None end
  | _ => Some cur
  end.
(* [wbn l = Some cur]: in the log (newest first) every Start o is followed by Finish o before any other Start;
   [cur] = the operation that is started and not finished *)
Fixpoint wbn (l : list gev) : option (option nat) := match l with [] => Some None | ev :: l' => cur ← wbn l'; trans cur ev end.
Fixpoint pushes (l : list gev) : list nat :=
  match l with [] => [] | ev :: l' => pushes l' ++ match ev with GPush o => [o] | _ => [] end end.
Fixpoint starts (l : list gev) : list nat :=
  match l with [] => [] | ev :: l' => starts l' ++ match ev with GStart o => [o] | _ => [] end end.
Fixpoint fops (l : list job) : list nat :=
  match l with [] => [] | j :: r => (if fresh j then [jop j] else []) ++ fops r end.
Lemma fops_app a b : fops (a ++ b) = fops a ++ fops b.
Proof. induction a as [|x a IH]; cbn; [done|]. by rewrite IH, app_assoc. Qed.

Definition inprog (s : state) : option nat :=
  match held s with j :: _ => wop j | [] => match s.(jobs) with j :: _ => wop j | [] => None end end.
Definition pend (s : state) : list nat := fops (held s) ++ fops s.(jobs).
Definition allfresh (l : list job) : Prop := forallb fresh l = true.
Definition badpush (fr : frame) : bool := match fr with FD1 j => negb (fresh j) | _ => false end.

Record jobs_cond (T : ftables) : Prop := {
  jc_sync_imm : forall st e st', T.(ft_base).(t_sync) st e = (st', SAImmediate) -> e = true;
}.

Record Inv_jobs (s : state) : Prop := {
  ij_tail : allfresh (tail s.(jobs));
  ij_head : forall j js, s.(jobs) = j :: js -> fresh j = true \/ is_Some (susp j);
  ij_busy : held s <> [] -> allfresh s.(jobs);
  ij_park : np badpark s = 0;
  ij_push : np badpush s = 0;
  ij_log : wbn s.(log) = Some (inprog s);
  ij_fifo : pushes s.(log) = starts s.(log) ++ pend s;
}.

Lemma held_other_step s s' a old new :
  stacks s !! a = Some old -> stacks s' = <[a := new]> (stacks s) -> hjobs new = hjobs old -> held s' = held s.
Proof. intros Ha Hs Hj. unfold held. rewrite Hs. by eapply heldl_insert_same. Qed.
Lemma held_runner_step s a fr rest :
  Inv_own s -> stacks s !! a = Some (fr :: rest) -> marker fr = true ->
  held s = hjobs [fr] /\ hjobs rest = [] /\ (forall s' new, stacks s' = <[a := new]> (stacks s) -> held s' = hjobs new).
Proof.
  intros [I1 _ _] Ha Hm.
  assert (Hle : npl marker (stacks s) <= cntf marker (fr :: rest)).
  { fold (np marker s). rewrite I1. cbn. rewrite Hm. pose proof (b2n_owned_le (qs s)). lia. }
  assert (Hr : cntf marker rest = 0).
  { pose proof (npl_ge marker _ _ _ Ha) as H. fold (np marker s) in H. rewrite I1 in H. cbn in H. rewrite Hm in H.
    pose proof (b2n_owned_le (qs s)). lia. }
  assert (Hrn : hjobs rest = []) by (by apply hjobs_nil).
  split; [|split; [done|]].
  - unfold held. rewrite (heldl_runner _ a _ Ha Hle). cbn. rewrite Hrn. by destruct (hjob fr).
  - intros s' new Hs. unfold held. rewrite Hs. by apply (heldl_runner_insert _ a (fr :: rest)).
Qed.
Lemma held_none s : Inv_own s -> owned s.(qs) = false -> held s = [].
Proof. intros [I1 _ _] Ho. unfold held. apply heldl_nil. fold (np marker s). by rewrite I1, Ho. Qed.
Lemma held_acquire_step s a old :
  Inv_own s -> owned s.(qs) = false -> stacks s !! a = Some old ->
  held s = [] /\ hjobs old = [] /\ (forall s' new, stacks s' = <[a := new]> (stacks s) -> held s' = hjobs new).
Proof.
  intros HO Ho Ha. split; [by apply held_none|]. split.
  - apply hjobs_nil. by eapply not_owned_no_marker.
  - intros s' new Hs. unfold held. rewrite Hs. apply (heldl_runner_insert _ a old new Ha).
    destruct HO as [I1 _ _]. fold (np marker s). rewrite I1, Ho. cbn. lia.
Qed.

Lemma fresh_wop j : fresh j = true -> wop j = None. Proof. by destruct j as [| ? [] ?|]. Qed.
Lemma susp_wop j : is_Some (susp j) -> exists o, wop j = Some o.
Proof. destruct j as [| o [] [|[] ?]|]; cbn; intros [? ?]; try done. by exists o. Qed.
Lemma allfresh_app l j : allfresh l -> fresh j = true -> allfresh (l ++ [j]).
Proof. unfold allfresh. intros H1 H2. rewrite forallb_app, H1. cbn. by rewrite H2. Qed.
Lemma allfresh_tail_app l j : allfresh (tail l) -> fresh j = true -> allfresh (tail (l ++ [j])).
Proof. destruct l as [|x l]; cbn; [done|]. apply allfresh_app. Qed.
Lemma head_app {P : job -> Prop} l x : (forall j js, l = j :: js -> P j) -> P x -> forall j js, l ++ [x] = j :: js -> P j.
Proof. intros H Hx j js. destruct l as [|y l]; cbn; intros [= <- <-]; [done|]. by eapply H. Qed.
Lemma fops_fresh l : allfresh l -> fops l = jop <$> l.
Proof. unfold allfresh. induction l as [|x l IH]; cbn; [done|]. intros [H1 H2]%andb_true_iff. by rewrite H1, IH. Qed.
Lemma head_wop_fresh l : allfresh l -> match l with [] => None | j :: _ => wop j end = None.
Proof. destruct l as [|j l]; [done|]. unfold allfresh; cbn. intros [H _]%andb_true_iff. by apply fresh_wop. Qed.
Lemma allfresh_cons j l : allfresh (j :: l) <-> fresh j = true /\ allfresh l.
Proof. unfold allfresh; cbn. by rewrite andb_true_iff. Qed.
Lemma head_wop_app l x : fresh x = true ->
  match l ++ [x] with [] => None | j :: _ => wop j end = match l with [] => None | j :: _ => wop j end.
Proof. intros H. destruct l; cbn; [by apply fresh_wop|done]. Qed.
Lemma allfresh_tail l : allfresh l -> allfresh (tail l).
Proof. destruct l; [done|]. by intros [_ H]%allfresh_cons. Qed.
Lemma allfresh_head (l : list job) : allfresh l -> forall j js, l = j :: js -> fresh j = true \/ is_Some (susp j).
Proof. intros H j js ->. left. by apply allfresh_cons in H as [H _]. Qed.
