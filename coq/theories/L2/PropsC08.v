(* C08 - "future_sync runs in its slot and cancels cleanly when dropped" - on the REAL queue machinery (layer L2: one queue with
   futures, executable step function, generated transition tables), not on the abstract queue of layer SyncFut.

   Model (L2/Model.v): [OFutSync body u] = one call of Desync::future_sync.  The caller allocates the SchedulerFuture f and two
   oneshot cells (r = queue_ready, S r = done) in [evs], pushes the slot job  [PSendReady r; PAwaitDone (S r); PSignal f]  with
   schedule_job_desync and holds the SyncFuture as frame [FY pc y st u]; its polls follow SyncFuture::poll step by step
   (scheduler_future.poll_unpin = the frames of SchedulerFuture::poll / drain_queue, recv.poll_unpin, the user future one primitive
   per step, task_finished.send, then the SyncFuture IS its SchedulerFuture), its drop follows the field order
   (state, scheduler_future, task_finished).  Ghost events: GYnew o f r (the call), GUStart / GUStep / GUFinish / GUCancel o (the user
   future of call o is created / advanced / completes / is destroyed unfinished), GYdrop o (drop of task_finished before Ready).
   The log is newest-first: [log s = l2 ++ e :: l1] reads "e happened, l1 is everything before it".

   Hypotheses: [all_cond T] (facts about the generated tables, Inst.gen_all_cond), [ywf nev scripts]: user bodies are sequences of
   PTouch / PAwait e / PAwaitEither e1 e2 over external events e < nev; OFire / OSuspend name external events.  Everything holds for
   all such programs, all interleavings, any number of callers, pool threads (0 included), other operations of any kind on the
   same queue (desync, sync, future_desync, suspend, other future_sync calls).

   (5) is the terminal-state form for at least one pool thread: only the external events are assumed fired; that every oneshot
   cell of every call gets fired (queue_ready sent, task_finished sent or dropped) is part of the conclusion.
   (5) for any pool size, ZERO included: [C08_5_terminal_any_pool] (a terminal state with the external events fired has every actor
   done, parked on a SchedulerFuture, or owning a SyncFuture whose slot job has not sent queue_ready) and
   [C08_5_dropping_caller_finishes] (a caller that never awaits a future to completion - future_sync polled n times and dropped, sync,
   desync, ... - finishes its script).
   What the statements do NOT say: that a caller which AWAITS a future_sync with no pool thread finishes (the owner's polls alone
   running the queue): not proved in this layer - layer SyncFut keeps C08_5_await_to_completion_without_pool for its abstract queue;
   that every fair schedule reaches a terminal state is not stated.  GStart / GFinish of the slot job are the first / last step of
   its poll by the queue runner; the user future's value is not modelled (the SchedulerFuture carries the slot job's id, C07_value). *)
From stdpp Require Import list numbers option.
From L2 Require Import Model Base Term YDefs YThm Main Refute.

Theorem C08_1_runs_only_when_awaited_L2 : C08_1_runs_only_when_awaited.
Proof. exact C08_1_main. Qed.
Theorem C08_2_only_inside_its_exclusive_slot_L2 : C08_2_only_inside_its_exclusive_slot.
Proof. exact C08_2_main. Qed.
Theorem C08_3_result_L2 : C08_3_result.
Proof. exact C08_3_main. Qed.
Theorem C08_4_clean_cancellation_L2 : C08_4_clean_cancellation.
Proof. exact C08_4_main. Qed.
Theorem C08_4_drop_never_blocks_L2 : C08_4_drop_never_blocks.
Proof. exact C08_4_drop_never_blocks_main. Qed.
(* with the other field order (`task_finished` dropped first) a later operation starts while the user future is alive *)
Theorem C08_4_field_order_needed_refuted_L2 : C08_4_swapped_field_order_violation.
Proof. exact C08_4_field_order_needed_refuted. Qed.
Theorem C08_5_releases_the_queue_L2 : C08_5_releases_the_queue.
Proof. exact C08_5_main. Qed.
Theorem C08_5_terminal_any_pool_L2 : C08_5_terminal_any_pool.
Proof. exact C08_5_terminal_any_pool_main. Qed.
Theorem C08_5_dropping_caller_finishes_L2 : C08_5_dropping_caller_finishes.
Proof. exact C08_5_dropping_caller_finishes_main. Qed.
Print Assumptions C08_1_runs_only_when_awaited_L2.
Print Assumptions C08_2_only_inside_its_exclusive_slot_L2.
Print Assumptions C08_3_result_L2.
Print Assumptions C08_4_clean_cancellation_L2.
Print Assumptions C08_4_drop_never_blocks_L2.
Print Assumptions C08_4_field_order_needed_refuted_L2.
Print Assumptions C08_5_releases_the_queue_L2.
Print Assumptions C08_5_terminal_any_pool_L2.
Print Assumptions C08_5_dropping_caller_finishes_L2.
