(* C08 (5): the second part of the future_sync invariant, used for the terminal-state theorem:
   every oneshot cell belongs to a call; while the done cell of a call is unfired its SyncFuture frame exists; the slot job of a
   call has been pushed or is about to be; an operation that finished has an id below nextop, and if it is a slot job its
   queue_ready cell is fired *)
From stdpp Require Import list numbers option.
From RecordUpdate Require Import RecordUpdate.
From L2 Require Import Model Base Own Jobs Fut Sig Wake WakeInv WakeLem YDefs YMono YStep1 YStep2 YStep3.
#[global] Unset Lia Cache.

Definition isfy (t : triple) (fr : frame) : Prop :=
  match fr with FY _ y _ _ => (y.(y_op), y.(y_f), y.(y_r)) = t | _ => False end.
Definition isfd1 (o : nat) (fr : frame) : Prop := match fr with FD1 (JFut o' _ _) => o' = o | _ => False end.
Record Inv_y2 (nev : nat) (s : state) : Prop := {
  y2_cover : forall e, nev <= e < length s.(evs) -> exists o f r, (o, f, r) ∈ Ys s /\ (e = r \/ e = S r);
  y2_fy : forall t, t ∈ Ys s -> ~ firedP s (S t.2) -> exists c fr, fsat s c fr /\ isfy t fr;
  y2_push : forall o f r, (o, f, r) ∈ Ys s -> GPush o ∈ s.(log) \/ exists c fr, fsat s c fr /\ isfd1 o fr;
  y2_fin : forall o, GFinish o ∈ s.(log) -> o < s.(nextop) /\ forall f r, (o, f, r) ∈ Ys s -> firedP s r;
}.

Lemma frame_persist (P : frame -> Prop) s s' a fr0 rest new : stacks s !! a = Some (fr0 :: rest) -> stacks s' = <[a := new]> (stacks s) ->
  (forall fr, fr ∈ rest -> P fr -> fr ∈ new) -> (P fr0 -> exists fr', fr' ∈ new /\ P fr') ->
  (exists c fr, fsat s c fr /\ P fr) -> exists c fr, fsat s' c fr /\ P fr.
Proof.
  intros Ha Hs Hrest Htop (c & fr & (st & Hc & Hin) & HP). destruct (decide (c = a)) as [->|Hne].
  - rewrite Ha in Hc. injection Hc as <-. apply elem_of_cons in Hin as [->|Hin].
    + destruct (Htop HP) as (fr' & Hin' & HP'). exists a, fr'. split; [by eapply fsat_new|done].
    + exists a, fr. split; [|done]. eapply fsat_new; [exact Ha|exact Hs|by apply Hrest].
  - exists c, fr. split; [|done]. exists st. split; [|done]. by rewrite Hs, list_lookup_insert_ne.
Qed.

Lemma step_y2_cover nev T s a s' : Inv_y nev s -> Inv_y2 nev s -> step T s a = Some s' ->
  forall e, nev <= e < length s'.(evs) -> exists o f r, (o, f, r) ∈ Ys s' /\ (e = r \/ e = S r).
Proof.
  intros HY H2 Hstep e He. destruct (step_ys T _ _ _ Hstep) as [[-> El]|(-> & _ & _ & El)].
  - rewrite El in He. by apply (y2_cover _ _ H2).
  - destruct (decide (e < length (evs s))) as [Hlt|Hge].
    + destruct (y2_cover _ _ H2 e ltac:(lia)) as (o & f & r & Ht & Hr). exists o, f, r. split; [by right|done].
    + eexists _, _, _. split; [left|]. lia.
Qed.

Lemma frame_persist_or (P : frame -> Prop) (Q : Prop) s s' a fr0 rest new : stacks s !! a = Some (fr0 :: rest) -> stacks s' = <[a := new]> (stacks s) ->
  (forall fr, fr ∈ rest -> P fr -> fr ∈ new) -> (P fr0 -> Q \/ exists fr', fr' ∈ new /\ P fr') ->
  (exists c fr, fsat s c fr /\ P fr) -> Q \/ exists c fr, fsat s' c fr /\ P fr.
Proof.
  intros Ha Hs Hrest Htop (c & fr & (st & Hc & Hin) & HP). destruct (decide (c = a)) as [->|Hne].
  - rewrite Ha in Hc. injection Hc as <-. apply elem_of_cons in Hin as [->|Hin].
    + destruct (Htop HP) as [?|(fr' & Hin' & HP')]; [by left|right]. exists a, fr'. split; [by eapply fsat_new|done].
    + right. exists a, fr. split; [|done]. eapply fsat_new; [exact Ha|exact Hs|by apply Hrest].
  - right. exists c, fr. split; [|done]. exists st. split; [|done]. by rewrite Hs, list_lookup_insert_ne.
Qed.

Section S2.
  Context (nev : nat) (T : ftables).
  Lemma step_y2_fy s a s' : Inv_fut s -> Inv_sig s -> Inv_y nev s -> Inv_y2 nev s -> step T s a = Some s' ->
    forall t, t ∈ Ys s' -> ~ firedP s' (S t.2) -> exists c fr, fsat s' c fr /\ isfy t fr.
  Proof.
    intros HF HS HY H2 Hstep. pose proof (step_ext T _ _ _ Hstep) as X.
    step_split Hstep Ea Est.
    all: try discriminate Hstep.
    all: injection Hstep as <-.
    all: pop_cont_split.
    all: pose proof (stacks_lookup _ _ _ Ea) as Hst; rewrite Est in Hst.
    all: try match goal with k : kont |- _ => destruct k end.
    all: intros t Ht Hn.
    all: try (assert (Ht0 : t ∈ Ys s) by exact Ht;
              assert (Hn0 : ~ firedP s (S t.2)) by
                (intros Hq; apply Hn; apply (x_fired _ _ X); [destruct t as [[? ?] ?]; destruct (y_rng _ _ HY _ _ _ Ht0) as (_ & _ & _ & ?); cbn; lia|exact Hq]);
              eapply (frame_persist (isfy t) s _ a _ _ _ Hst); [solve_stacks| | |exact (y2_fy _ _ H2 t Ht0 Hn0)]).
    all: try (lazymatch goal with |- forall fr, fr ∈ _ -> _ -> fr ∈ _ => intros fr Hin Hy; rewrite ?elem_of_app, ?elem_of_cons; solve [repeat (first [exact Hin | right])] end).
    all: try (lazymatch goal with |- isfy _ _ -> _ => intros Hy; first [ solve [destruct Hy]
                | eexists (FY _ _ _ _); split; [first [apply elem_of_list_here | apply elem_of_list_further, elem_of_list_here]|exact Hy] ] end).
    (* a poll returned Ready: the continuation frame is popped *)
    all: try (lazymatch goal with |- forall fr, fr ∈ _ :: _ -> _ -> fr ∈ _ => intros fr [->|Hin]%elem_of_cons Hy;
                [|rewrite ?elem_of_cons; solve [repeat (first [exact Hin | right])] ]; try (solve [destruct Hy]) end).
    - (* future_sync *)
      unfold Ys in Ht; cbn in Ht. apply elem_of_cons in Ht as [->|Ht0].
      + eexists a, (FY _ _ _ _). split; [eapply fsat_new; [exact Hst|solve_stacks|right; left]|reflexivity].
      + assert (Hn0 : ~ firedP s (S t.2)).
        { intros Hq; apply Hn; apply (x_fired _ _ X); [destruct t as [[? ?] ?]; destruct (y_rng _ _ HY _ _ _ Ht0) as (_ & _ & _ & ?); cbn; lia|exact Hq]. }
        eapply (frame_persist (isfy t) s _ a _ _ _ Hst); [solve_stacks| | |exact (y2_fy _ _ H2 t Ht0 Hn0)].
        * intros fr Hin Hy. rewrite !elem_of_cons. auto.
        * intros [].
    - exfalso. eapply (sf_ready_contra nev s a _ _ _ _ _ _ _ HF HS HY Hst); [reflexivity|eassumption].
    - exfalso. eapply (sf_ready_contra nev s a _ _ _ _ _ _ _ HF HS HY Hst); [reflexivity|eassumption].
    - exfalso. eapply (sf_ready_contra nev s a _ _ _ _ _ _ _ HF HS HY Hst); [reflexivity|eassumption].
    - intros Hy. exfalso. apply Hn. cbn in Hy. subst t. cbn. apply firedP_fire. by right.
    - intros Hy. exfalso. apply Hn. cbn in Hy. subst t. cbn. apply (firedP_fire (addlog s [GYdrop (y_op y)])). by right.
  Qed.
End S2.

Section S3.
  Context (nev : nat) (T : ftables).
  Lemma step_y2_push s a s' : Inv_y nev s -> Inv_y2 nev s -> step T s a = Some s' ->
    forall o f r, (o, f, r) ∈ Ys s' -> GPush o ∈ s'.(log) \/ exists c fr, fsat s' c fr /\ isfd1 o fr.
  Proof.
    intros HY H2 Hstep. pose proof (step_ext T _ _ _ Hstep) as X.
    step_split Hstep Ea Est.
    all: try discriminate Hstep.
    all: injection Hstep as <-.
    all: pop_cont_split.
    all: pose proof (stacks_lookup _ _ _ Ea) as Hst; rewrite Est in Hst.
    all: try match goal with k : kont |- _ => destruct k end.
    all: intros oo ff rr Ht.
    all: try (assert (Ht0 : (oo, ff, rr) ∈ Ys s) by exact Ht;
              destruct (y2_push _ _ H2 _ _ _ Ht0) as [Hp|Hfr]; [left; apply (x_log _ _ X); exact Hp|];
              eapply (frame_persist_or (isfd1 oo) _ s _ a _ _ _ Hst); [solve_stacks| | |exact Hfr]).
    all: try (lazymatch goal with |- forall fr, fr ∈ _ -> _ -> fr ∈ _ => intros fr Hin Hy; rewrite ?elem_of_app, ?elem_of_cons; solve [repeat (first [exact Hin | right])] end).
    all: try (lazymatch goal with |- forall fr, fr ∈ _ :: _ -> _ -> fr ∈ _ => intros fr [->|Hin]%elem_of_cons Hy;
                [|rewrite ?elem_of_cons; solve [repeat (first [exact Hin | right])] ]; try (solve [destruct Hy]) end).
    all: try (lazymatch goal with |- isfd1 _ _ -> _ => intros Hy; first [ solve [destruct Hy] | cbn in Hy; subst; left; cbn; left ] end).
    - unfold Ys in Ht; cbn in Ht. apply elem_of_cons in Ht as [[= -> -> ->]|Ht0].
      + right. eexists a, (FD1 _). split; [eapply fsat_new; [exact Hst|solve_stacks|left]|reflexivity].
      + destruct (y2_push _ _ H2 _ _ _ Ht0) as [Hp|Hfr]; [left; apply (x_log _ _ X); exact Hp|].
        eapply (frame_persist_or (isfd1 oo) _ s _ a _ _ _ Hst); [solve_stacks| | |exact Hfr].
        * intros fr Hin Hy. rewrite !elem_of_cons. auto.
        * intros [].
  Qed.

  Lemma step_y2_fin s a s' : Inv_y nev s -> Inv_y nev s' -> Inv_y2 nev s -> step T s a = Some s' ->
    forall o, GFinish o ∈ s'.(log) -> o < s'.(nextop) /\ forall f r, (o, f, r) ∈ Ys s' -> firedP s' r.
  Proof.
    intros HY HY' H2 Hstep. pose proof (step_ext T _ _ _ Hstep) as X.
    assert (Hold : forall o, GFinish o ∈ log s -> o < nextop s' /\ forall f r, (o, f, r) ∈ Ys s' -> firedP s' r).
    { intros o Hin. destruct (y2_fin _ _ H2 o Hin) as [Ho Hf]. split; [pose proof (x_nop _ _ X); lia|].
      intros f r Ht. destruct (x_new _ _ X _ Ht) as [Ht0|[? _]]; [|cbn in *; lia].
      apply (x_fired _ _ X); [destruct (y_rng _ _ HY _ _ _ Ht0) as (_ & _ & _ & ?); lia|by eapply Hf]. }
    step_split Hstep Ea Est.
    all: try discriminate Hstep.
    all: injection Hstep as <-.
    all: pop_cont_split.
    all: pose proof (stacks_lookup _ _ _ Ea) as Hst; rewrite Est in Hst.
    all: try match goal with k : kont |- _ => destruct k end.
    all: intros oo Hin.
    all: cbn in Hin; rewrite ?elem_of_cons in Hin; repeat (match type of Hin with _ \/ _ => destruct Hin as [Hin|Hin] end); try discriminate Hin.
    all: try (apply Hold; exact Hin).
    all: injection Hin as ->; pose proof (y_frames _ _ HY a _ _ Hst (elem_of_list_here _ _)) as Hj; cbn [frok] in Hj.
    all: split; [exact (proj1 Hj)|]; destruct Hj as [_ Hj]; intros f2 r2 Ht2.
    all: first [ destruct Hj as [Hs _]; destruct (Hs _ _ Ht2) as [EE|[_ [Hr _] ] ]; [discriminate EE|exact Hr]
               | exfalso; first [exact (Hj _ _ Ht2) | exact (proj1 Hj _ _ Ht2)] ].
  Qed.
End S3.

Lemma step_y2 nev T s a s' : Inv_fut s -> Inv_sig s -> Inv_y nev s -> Inv_y nev s' -> Inv_y2 nev s -> step T s a = Some s' -> Inv_y2 nev s'.
Proof.
  intros HF HS HY HY' H2 Hstep. split.
  - exact (step_y2_cover nev T s a s' HY H2 Hstep).
  - exact (step_y2_fy nev T s a s' HF HS HY H2 Hstep).
  - exact (step_y2_push nev T s a s' HY H2 Hstep).
  - exact (step_y2_fin nev T s a s' HY HY' H2 Hstep).
Qed.
Lemma init_y2 nev scripts npool : Inv_y2 nev (init scripts npool nev).
Proof.
  split; cbn.
  - intros e. rewrite replicate_length. lia.
  - intros t H. by apply elem_of_nil in H.
  - intros o f r H. by apply elem_of_nil in H.
  - intros o H. by apply elem_of_nil in H.
Qed.
