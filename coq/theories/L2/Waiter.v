(* sync_background, the waiter's loop (Model.v: FSBreg / FSBpush / FSBwait / FSBclaim): a waiter whose job has not run and whose
   `rescheduled` flag is clear is going to be kicked whenever the queue can be claimed.  Invariant Inv_K and its preservation. *)
From stdpp Require Import list numbers option.
From RecordUpdate Require Import RecordUpdate.
From L2 Require Import Model Base Own Jobs Shape OpShape DwInv Wake WakeInv WakeLem WakeStep1 WakeStep2 WakeStep3 WakeStep4 CoverStep WakeStep5 Task TaskInv.
#[global] Unset Lia Cache.

Definition kickb (s : state) (c : nat) : bool := default false (kicks s !! c).
Definition claimb (T : ftables) (st : qstate) : bool := match T.(ft_base).(t_claim) st with Some _ => true | None => false end.
(* a wake-up that reaches WakeQueue is registered with the event the head job waits for, or is in flight *)
Definition wakeq (s : state) : bool := match hsusp s with Some e => cover s e | None => false end.

(* claim_pending_queue accepts exactly the states in which nobody runs the queue and no WakeQueue wake-up alone restarts it; a
   WakeQueue wake-up that leaves the queue claimable goes on to reschedule_queue (which kicks the waiters) *)
Record claim_cond (T : ftables) : Prop := {
  cc_idle : claimb T Idle = true;
  cc_pending : claimb T Pending = true;
  cc_wfp : forall f, claimb T (WaitingForPoll f) = true;
  cc_wfw : claimb T WaitingForWake = false;
  cc_wq : forall st st' c, T.(t_wake_queue) st = (st', c) -> claimb T st' = true -> c = true;
}.
Lemma claimb_owned T (HT : own_cond T) st : claimb T st = true -> owned st = false /\ st <> Panicked.
Proof. unfold claimb. destruct (t_claim (ft_base T) st) eqn:E; [|done]. intros _. by destruct (oc_claim _ HT _ _ E) as (? & ? & _). Qed.

Definition notsync (j : job) : Prop := match j with JSync _ _ _ => False | _ => True end.
Record Inv_K (T : ftables) (s : state) : Prop := {
  k_wait : forall c st, stacks s !! c = Some st -> FSBwait ∈ st -> kickb s c = false -> sresb s c = false -> claimb T s.(qs) = true ->
             np is_rq1 s > 0 \/ wakeq s = true;
  k_push : forall c st op tk, stacks s !! c = Some st -> FSBpush op tk ∈ st -> kickb s c = true;
  k_fd1 : forall c st j, stacks s !! c = Some st -> FD1 j ∈ st -> notsync j }.

Lemma kickb_kicks (s s' : state) c : kicks s' = kicks s -> kickb s' c = kickb s c.
Proof. unfold kickb. by intros ->. Qed.
Lemma kickb_setkick_ne s c c0 b : c <> c0 -> kickb (setkick s c0 b) c = kickb s c.
Proof. intros H. unfold kickb. rewrite kicks_setkick. rewrite list_lookup_insert_ne by congruence. done. Qed.
Lemma kickb_setkick_eq s c b : c < length (stacks s) -> kickb (setkick s c b) c = b.
Proof. intros H. unfold kickb. rewrite kicks_setkick, list_lookup_insert; [done|]. unfold kicks, stacks in *. rewrite fmap_length in H. by rewrite fmap_length. Qed.
Lemma kickb_kickall s c : c < length (stacks s) -> kickb (kickall s) c = true.
Proof.
  intros H. unfold kickb. rewrite kicks_kickall, list_lookup_fmap. unfold kicks, stacks in *. rewrite fmap_length in H.
  destruct (lookup_lt_is_Some_2 (actors s) c H) as [ac E]. by rewrite list_lookup_fmap, E.
Qed.
Lemma kickb_setstack s a st c : kickb (setstack s a st) c = kickb s c.
Proof. unfold kickb. by rewrite kicks_setstack. Qed.

(* every waiter has just been kicked *)
Lemma kwait_kicked T s : (forall c st, stacks s !! c = Some st -> kickb s c = true) ->
  forall c st, stacks s !! c = Some st -> FSBwait ∈ st -> kickb s c = false -> sresb s c = false -> claimb T s.(qs) = true ->
    np is_rq1 s > 0 \/ wakeq s = true.
Proof. intros H c st Hc _ Hk. by rewrite (H c st Hc) in Hk. Qed.

(* the generic step: no new waiter, flags only set, the guarantee carried over *)
Lemma kwait_keep T s s' a old new :
  stacks s !! a = Some old -> stacks s' = <[a := new]> (stacks s) -> Inv_K T s ->
  (FSBwait ∈ new -> FSBwait ∈ old) ->
  (forall c, (c = a -> FSBwait ∈ new) -> kickb s' c = false -> kickb s c = false) ->
  (forall c, (c = a -> FSBwait ∈ new) -> sresb s' c = false -> sresb s c = false) ->
  (claimb T s'.(qs) = true -> claimb T s.(qs) = true \/ np is_rq1 s' > 0 \/ wakeq s' = true) ->
  (np is_rq1 s > 0 -> np is_rq1 s' > 0) ->
  (wakeq s = true -> claimb T s.(qs) = true -> claimb T s'.(qs) = true -> wakeq s' = true \/ np is_rq1 s' > 0) ->
  forall c st, stacks s' !! c = Some st -> FSBwait ∈ st -> kickb s' c = false -> sresb s' c = false -> claimb T s'.(qs) = true ->
    np is_rq1 s' > 0 \/ wakeq s' = true.
Proof.
  intros Ha Hs HK Hfr Hki Hsr Hq Hr Hw c st Hc Hin Hk Hsb Hcl. rewrite Hs in Hc.
  assert (Hold : exists st0, stacks s !! c = Some st0 /\ FSBwait ∈ st0 /\ (c = a -> FSBwait ∈ new)).
  { destruct (decide (c = a)) as [->|Hne].
    - rewrite list_lookup_insert in Hc by (by eapply lookup_lt_Some). injection Hc as <-. exists old. split; [done|]. split; [by apply Hfr|done].
    - rewrite list_lookup_insert_ne in Hc by done. exists st. split; [done|]. split; [done|]. by intros ->. }
  destruct Hold as (st0 & Hc0 & Hin0 & Hca).
  destruct (Hq Hcl) as [Hcl0|[?|?]]; [|by left|by right].
  destruct (k_wait _ _ HK c st0 Hc0 Hin0 (Hki c Hca Hk) (Hsr c Hca Hsb) Hcl0) as [H|H]; [left; by apply Hr|].
  destruct (Hw H Hcl0 Hcl) as [?|?]; [by right|by left].
Qed.

Lemma wakeq_eq s s' : hsusp s' = hsusp s -> (forall e, cover s e = true -> cover s' e = true) -> wakeq s = true -> wakeq s' = true.
Proof. unfold wakeq. intros -> H. destruct (hsusp s); [apply H|done]. Qed.

Ltac mem_splitK Hin :=
  rewrite ?elem_of_app, ?elem_of_cons in Hin;
  repeat match type of Hin with _ \/ _ => destruct Hin as [Hin|Hin] end.
Lemma in_opt_wakeK fr o : fr ∈ opt_wake o -> exists w, fr = FWake w.
Proof. destruct o; cbn; [|by intros ?%elem_of_nil]. intros ->%elem_of_list_singleton. by eexists. Qed.
Lemma in_wake_framesK fr ws : fr ∈ wake_frames ws -> exists w, fr = FWake w.
Proof. unfold wake_frames. intros (w & -> & _)%elem_of_list_fmap. by eexists. Qed.
Lemma kicks_addlog s l : kicks (addlog s l) = kicks s. Proof. done. Qed.
Lemma kicks_setf s f c : kicks (setf s f c) = kicks s. Proof. done. Qed.
Lemma kicks_setev s e c : kicks (setev s e c) = kicks s. Proof. done. Qed.
Lemma kicks_setdw s d c : kicks (setdw s d c) = kicks s. Proof. done. Qed.
Lemma kicks_setdbl s k c : kicks (setdbl s k c) = kicks s. Proof. done. Qed.
Lemma sress_addlog s l : sress (addlog s l) = sress s. Proof. done. Qed.
Lemma sress_setf s f c : sress (setf s f c) = sress s. Proof. done. Qed.
Lemma sress_setev s e c : sress (setev s e c) = sress s. Proof. done. Qed.
Lemma sress_setdw s d c : sress (setdw s d c) = sress s. Proof. done. Qed.
Lemma sress_setdbl s k c : sress (setdbl s k c) = sress s. Proof. done. Qed.
Ltac solve_kicks :=
  rewrite ?kicks_setstack;
  rewrite ?kicks_addlog, ?kicks_setf, ?kicks_setev, ?kicks_setdw, ?kicks_setdbl, ?kicks_settoken, ?kicks_setsres;
  rewrite ?kicks_addlog, ?kicks_setf, ?kicks_setev, ?kicks_setdw, ?kicks_setdbl, ?kicks_settoken, ?kicks_setsres;
  reflexivity.
Ltac solve_sress :=
  rewrite ?sress_setstack;
  rewrite ?sress_addlog, ?sress_setf, ?sress_setev, ?sress_setdw, ?sress_setdbl, ?sress_settoken, ?sress_setkick;
  rewrite ?sress_addlog, ?sress_setf, ?sress_setev, ?sress_setdw, ?sress_setdbl, ?sress_settoken, ?sress_setkick;
  reflexivity.
Definition evmono (s s' : state) : Prop :=
  forall e w, (forall c, w <> WTask c) -> (getev s e).(fired) = false -> w ∈ (getev s e).(wakers) -> (getev s' e).(fired) = false /\ w ∈ (getev s' e).(wakers).
Lemma evmono_task s s' : evs_task_eq s s' -> evmono s s'.
Proof. intros H e w Hw Hf Hin. destruct (H e) as [-> Hi]. split; [done|]. by apply Hi. Qed.
Lemma evmono_alloc s (s' : state) l : s'.(evs) = s.(evs) ++ l -> evmono s s'.
Proof.
  intros H e w _ Hf Hin. assert (Hlt : e < length (evs s)) by (by apply getev_fired_range).
  unfold getev in *. by rewrite H, lookup_app_l.
Qed.
Ltac cvp_side Hst He :=
  [> exact Hst | solve_stacks
  | intros ?fr ?Hin; rewrite ?elem_of_app, ?elem_of_cons; solve [repeat (first [exact Hin | right])]
  | intros ?fr ?Hin; repeat (apply elem_of_cons in Hin as [->|Hin]; [reflexivity|]); by apply elem_of_nil in Hin
  | first [ intros ?e ?w _ ?H1 ?H2; split; assumption | apply evmono_task; first [apply evs_reg_task | apply evs_unreg_task | apply evs_rereg_task | eapply evs_task_eq_trans; [apply evs_reg_task|apply evs_reg_task] ] | eapply evmono_alloc; reflexivity ]
  | first [intros ?d; reflexivity | apply getdw_app_c; reflexivity]
  | first [intros ?k _; reflexivity | eapply getdbl_app_c; reflexivity]
  | exact He ].
Ltac cvp s a e0 Hst He :=
  first [ eapply (cv_plain s _ a [_] _ _ e0); cvp_side Hst He | eapply (cv_plain s _ a [_;_] _ _ e0); cvp_side Hst He ].
Lemma wakeq_push s (s' : state) j : jobs s' = jobs s ++ [j] -> (forall e, cover s e = true -> cover s' e = true) -> wakeq s = true -> wakeq s' = true.
Proof. unfold wakeq, hsusp. intros -> H. destruct (jobs s) as [|j0 l]; [done|]. cbn. destruct (susp j0); [apply H|done]. Qed.
Lemma sresb_set_false s c c0 : sresb (setsres s c true) c0 = false -> sresb s c0 = false.
Proof.
  destruct (decide (c0 = c)) as [->|Hne]; [|by rewrite sresb_set_ne].
  unfold sresb. rewrite sress_setsres. destruct (decide (c < length (sress s))).
  - by rewrite list_lookup_insert.
  - rewrite list_insert_ge by lia. done.
Qed.
Lemma no_sbwait_rest s a fr rest : Inv_op s -> stacks s !! a = Some (fr :: rest) -> opfr fr = true -> FSBwait ∈ rest -> False.
Proof. intros HP Hst Ho Hin. pose proof (op_top_only _ _ _ _ HP Hst Ho) as Hz. by pose proof (cntf_zero_all _ _ Hz _ Hin). Qed.
(* the stepping actor is (still) kicked: only the other waiters matter *)
Lemma kwait_keep_kicked T s s' a old new :
  stacks s !! a = Some old -> stacks s' = <[a := new]> (stacks s) -> Inv_K T s -> kickb s' a = true ->
  (forall c, c <> a -> kickb s' c = false -> kickb s c = false) ->
  (forall c, c <> a -> sresb s' c = false -> sresb s c = false) ->
  s'.(qs) = s.(qs) -> (np is_rq1 s > 0 -> np is_rq1 s' > 0) -> (wakeq s = true -> wakeq s' = true) ->
  forall c st, stacks s' !! c = Some st -> FSBwait ∈ st -> kickb s' c = false -> sresb s' c = false -> claimb T s'.(qs) = true ->
    np is_rq1 s' > 0 \/ wakeq s' = true.
Proof.
  intros Ha Hs HK Hka Hki Hsr Hq Hr Hw c st Hc Hin Hk Hsb Hcl. destruct (decide (c = a)) as [->|Hne]; [congruence|].
  rewrite Hs, list_lookup_insert_ne in Hc by done. rewrite Hq in Hcl.
  destruct (k_wait _ _ HK c st Hc Hin (Hki c Hne Hk) (Hsr c Hne Hsb) Hcl) as [H|H]; [left; by apply Hr|right; by apply Hw].
Qed.
(* while somebody runs the queue, jobs in hand are in the runner's marker frame only *)
Lemma no_hands T s a fr0 rest c0 : Inv_own s -> Inv_K T s -> stacks s !! a = Some (fr0 :: rest) -> marker fr0 = true -> sbf c0 fr0 = false ->
  np (sbf c0) s = 0.
Proof.
  intros HO HK Hst Hm Hf. destruct (np (sbf c0) s) eqn:En; [done|]. exfalso.
  assert (Hp : np (sbf c0) s > 0) by lia. apply np_pos_fsat in Hp as (c & fr & Hfs & Hb).
  destruct (marker_unique s a fr0 rest HO Hst Hm) as [M1 M2].
  assert (Hmk : marker fr = true \/ exists j, fr = FD1 j) by (destruct fr; try discriminate Hb; (by left) || (right; by eexists)).
  destruct Hmk as [Hmk|[j ->]].
  - destruct (decide (c = a)) as [->|Hne]; [|by rewrite (M2 c fr Hne Hfs) in Hmk].
    destruct Hfs as (st & Hc & Hin). rewrite Hst in Hc. injection Hc as <-. apply elem_of_cons in Hin as [->|Hin]; [congruence|].
    by rewrite (M1 fr Hin) in Hmk.
  - destruct Hfs as (st & Hc & Hin). pose proof (k_fd1 _ _ HK c st j Hc Hin) as Hn. cbn in Hb. by destruct j.
Qed.
Section KW.
  Context (T : ftables) (HT : own_cond T) (HW : wake_cond T) (HC : claim_cond T).
  Lemma step_kwait s a s' : Inv_own s -> Inv_op s -> Inv_dw s -> Inv_wake s ->
    (forall c st, stacks s !! c = Some st -> sb_ok s c st = true) -> Inv_K T s ->
    step T s a = Some s' ->
    forall c st, stacks s' !! c = Some st -> FSBwait ∈ st -> kickb s' c = false -> sresb s' c = false -> claimb T s'.(qs) = true ->
      np is_rq1 s' > 0 \/ wakeq s' = true.
  Proof.
    intros HO HP HD HWk HSB HK Hstep. pose proof (io_nopanic _ HO) as Hnp. step_split Hstep Ea Est.
    all: try discriminate Hstep.
    all: injection Hstep as <-.
    all: pop_cont_split.
    all: pose proof (stacks_lookup _ _ _ Ea) as Hst; rewrite Est in Hst.
    all: try match goal with k : kont |- _ => destruct k end.
    (* reschedule_queue kicks every waiter *)
    all: try (lazymatch goal with |- context [kickall] => idtac end; apply kwait_kicked; intros c0 st0 Hc0; rewrite kickb_setstack; apply kickb_kickall;
              apply lookup_lt_Some in Hc0; rewrite stacks_setstack, insert_length, stacks_kickall in Hc0; exact Hc0).
    (* a failed claim: the state is not claimable *)
    all: try (lazymatch goal with E : t_claim _ _ = None |- _ => intros c0 st0 _ _ _ _ Hcl; cbn in Hcl; unfold claimb in Hcl; rewrite E in Hcl; discriminate Hcl end).
    (* FSBpush: the new waiter starts out kicked *)
    all: lazymatch goal with Hst : stacks _ !! _ = Some (FSBpush ?op ?tk :: _) |- _ =>
       pose proof (k_push _ _ HK a _ op tk Hst ltac:(left)) as Hka;
       eapply (kwait_keep_kicked T s _ a _ _ Hst);
       [ solve_stacks | exact HK | lazymatch goal with |- kickb ?s1 _ = true => rewrite (kickb_kicks s s1 a ltac:(solve_kicks)); exact Hka end
       | intros c0 Hne; lazymatch goal with |- kickb ?s1 _ = false -> _ => rewrite (kickb_kicks s s1 c0 ltac:(solve_kicks)); done end
       | intros c0 Hne; rewrite sresb_setstack; change (sresb (addlog ?x _) c0) with (sresb x c0); rewrite sresb_set_ne by done; done
       | reflexivity
       | intros Hn; eapply Nat.lt_le_trans; [exact Hn|eapply np_mono; [exact Hst|solve_stacks|cnt_le] ]
       | eapply wakeq_push; [cbn; reflexivity|intros e0 He; cvp s a e0 Hst He] ] | _ => idtac end.
    (* drain ends with an empty queue: every waiter's job has been run *)
    all: try (lazymatch goal with Hst : stacks _ !! _ = Some (FDRfin :: _), E : t_drain_fin _ _ _ = (_, true) |- _ =>
       intros c0 st0 Hc0 Hin0 Hk0 Hsb0 Hcl0; exfalso;
       destruct (runner_working s a _ HO Hst ltac:(cbn; lia)) as [Hrun Hnw];
       destruct (wc_drain_fin _ HW _ _ _ (owned_running _ Hrun Hnw) E) as [-> Hem]; apply bool_decide_eq_true in Hem;
       rewrite sresb_setstack in Hsb0; change (sresb (s <| qs := Idle |>) c0) with (sresb s c0) in Hsb0;
       assert (Hold : exists st1, stacks s !! c0 = Some st1 /\ FSBwait ∈ st1) by
         (rewrite stacks_setstack in Hc0; destruct (decide (c0 = a)) as [->|Hne];
          [ rewrite list_lookup_insert in Hc0 by (by eapply lookup_lt_Some); injection Hc0 as <-; eexists; split; [exact Hst|by right]
          | rewrite list_lookup_insert_ne in Hc0 by done; by eexists ]);
       destruct Hold as (st1 & Hc1 & Hin1); pose proof (HSB c0 st1 Hc1) as Hsb; unfold sb_ok in Hsb;
       assert (Hw : cntf is_sbwait st1 > 0) by (apply cntf_pos; by exists FSBwait);
       destruct (cntf is_sbwait st1); [lia|]; rewrite Hsb0 in Hsb; cbn in Hsb; apply posb_true in Hsb; unfold nsb in Hsb;
       rewrite (no_hands T s a FDRfin rest c0 HO HK Hst eq_refl eq_refl), Hem in Hsb; cbn in Hsb; lia end).
    all: eapply (kwait_keep T s _ a _ _ Hst); [solve_stacks|exact HK|..].
    (* 1: no new FSBwait frame *)
    all: try (lazymatch goal with |- FSBwait ∈ _ -> FSBwait ∈ _ =>
       intros Hin; mem_splitK Hin; try discriminate Hin; try (apply in_opt_wakeK in Hin as [? Hin]; discriminate Hin);
       try (apply in_wake_framesK in Hin as [? Hin]; discriminate Hin); rewrite ?elem_of_cons; auto 6 end).
    (* 2: flags *)
    all: try (lazymatch goal with |- forall c, _ -> kickb ?s1 c = false -> kickb _ c = false =>
       intros c0 _; rewrite (kickb_kicks s s1 c0 ltac:(solve_kicks)); done end).
    all: try (lazymatch goal with |- forall c, _ -> sresb ?s1 c = false -> sresb _ c = false =>
       intros c0 _; rewrite (sresb_sress s s1 c0 ltac:(solve_sress)); done end).
    (* 5: FRQ1 frames in flight stay *)
    all: try (lazymatch goal with |- np _ _ > 0 -> np _ _ > 0 =>
       intros Hn; eapply Nat.lt_le_trans; [exact Hn|eapply np_mono; [exact Hst|solve_stacks|cnt_le] ] end).
    all: try (assert (Hrun := runner_owned s a _ HO Hst ltac:(cbn; lia))).
    (* 4: the queue state, table by table *)
    all: try (lazymatch goal with E : t_desync _ _ = (_, _) |- claimb T (qs _) = true -> _ => intros Hcl; cbn in Hcl; left;
       destruct (decide (qs s = Idle)) as [Hi|Hn]; [rewrite Hi; apply (cc_idle _ HC)|rewrite (wc_desync_other _ HW _ _ _ E Hn) in Hcl; exact Hcl] end).
    all: try (lazymatch goal with E : t_wake_queue _ _ = (_, _) |- claimb T (qs _) = true -> _ => intros Hcl; cbn in Hcl; subst;
       pose proof (cc_wq _ HC _ _ _ E Hcl) as Hc; try discriminate Hc;
       right; left; apply np_pos_fsat; eexists a, FRQ1; split; [eapply fsat_new; [exact Hst|solve_stacks|left]|done] end).
    all: try (lazymatch goal with |- claimb T (qs _) = true -> _ => intros Hcl; cbn in Hcl; tbl_facts HT;
       repeat match goal with H : _ /\ _ |- _ => destruct H end; subst;
       first [ left; exact Hcl | exfalso; apply (claimb_owned T HT) in Hcl as [Hcl _]; first [discriminate Hcl | congruence] ] end).
    (* 4: the queue state *)
    all: try (lazymatch goal with |- claimb T (qs _) = true -> _ => intros Hcl; cbn in Hcl;
       first [ left; exact Hcl
             | exfalso; apply (claimb_owned T HT) in Hcl as [Hcl _]; first [discriminate Hcl | congruence]
             | right; left; apply np_pos_fsat; eexists a, FRQ1; split; [eapply fsat_new; [exact Hst|solve_stacks|rewrite ?elem_of_cons; solve [auto] ]|done] ] end).
    (* 6: the registered / in-flight queue wake-up; only steps of actors that do not run the queue matter *)
    all: try (lazymatch goal with |- wakeq _ = true -> _ => intros Hw Hcl0 Hcl;
       try (exfalso; apply (claimb_owned T HT) in Hcl0 as [Hcl0 _]; rewrite Hcl0 in Hrun; discriminate Hrun) end).
    all: try (lazymatch goal with |- wakeq ?s1 = true \/ _ => left; revert Hw; apply wakeq_eq;
       [ unfold hsusp; cbn; first [reflexivity | destruct (jobs s); reflexivity] | intros e0 He; cvp s a e0 Hst He ] end).
    all: try (lazymatch goal with |- wakeq ?s1 = true \/ _ => left; revert Hw; eapply wakeq_push;
       [ cbn; reflexivity | intros e0 He; cvp s a e0 Hst He ] end).
    (* the waker steps *)
    all: try (match goal with E1 : t_dw_wake _ ?d0 = _ |- _ => rewrite (wc_dw_wake _ HW) in E1; destruct d0; try discriminate E1; injection E1 as <- end).
    all: try (match goal with E1 : t_dw_wake_with _ ?d0 = _ |- _ => rewrite (wc_dw_wake_with _ HW) in E1; destruct d0; try discriminate E1; injection E1 as <- end).
    all: try (lazymatch goal with Hst : stacks _ !! _ = Some (FWakeWith _ _ :: _), E : getdw _ _ = (DWWoken, _) |- wakeq _ = true \/ _ =>
                left; revert Hw; apply wakeq_eq; [reflexivity|intros e0 He; exact (cv_wake_with_now _ _ _ _ _ _ _ Hst E He)] end).
    all: try (lazymatch goal with Hst : stacks _ !! _ = Some (FWakeWith _ _ :: _), E : getdw _ _ = (_, _) |- wakeq _ = true \/ _ =>
                left; revert Hw; apply wakeq_eq; [reflexivity|intros e0 He; exact (cv_wake_with_later _ _ _ _ _ _ _ _ HD Hst E ltac:(done) He)] end).
    all: try (lazymatch goal with Hst : stacks _ !! _ = Some (FWake (WDrain _) :: _), E0 : getdw _ _ = (?st, _) |- wakeq _ = true \/ _ =>
                left; revert Hw; apply wakeq_eq; [reflexivity|intros e0 He; exact (cv_wake_drain s a _ st _ rest e0 HD Hst E0 He)] end).
    all: try (lazymatch goal with Hst : stacks _ !! _ = Some (FWake (WDouble _) :: _), E : getdbl _ _ = Some _ |- wakeq _ = true \/ _ =>
                left; revert Hw; apply wakeq_eq; [reflexivity|intros e0 He; exact (cv_wake_double_some _ _ _ _ _ _ _ Hst E He)] end).
    all: try (lazymatch goal with Hst : stacks _ !! _ = Some (FWake (WDouble _) :: _), E : getdbl _ _ = None |- wakeq _ = true \/ _ =>
                left; revert Hw; apply wakeq_eq; [reflexivity|intros e0 He; exact (cv_wake_double_none _ _ _ _ _ Hst E He)] end).
    all: try (lazymatch goal with Hst : stacks _ !! _ = Some (FFire _ :: _) |- wakeq _ = true \/ _ =>
                left; revert Hw; apply wakeq_eq; [reflexivity|intros e0 He; exact (cv_fire _ _ _ _ _ Hst He)] end).
    (* a oneshot of future_sync fires on its owner's thread *)
    all: try (lazymatch goal with |- wakeq (setstack (setev (addlog ?s0 ?l0) _ _) _ (wake_frames _ ++ ?rest0)) = true \/ _ =>
                left; revert Hw; apply wakeq_eq; [reflexivity|intros e0 He; exact (cv_fire_gen (addlog s0 l0) a _ [] _ rest0 e0 Hst eq_refl He)] end).
    all: try (lazymatch goal with |- wakeq (setstack (setev _ _ _) _ (wake_frames _ ++ ?x :: ?rest0)) = true \/ _ =>
                left; revert Hw; apply wakeq_eq; [reflexivity|intros e0 He; exact (cv_fire_gen s a _ [x] _ rest0 e0 Hst eq_refl He)] end).
    (* WakeQueue *)
    all: try (lazymatch goal with E : t_wake_queue _ _ = (_, _) |- wakeq _ = true \/ _ => cbn in Hcl; subst;
       pose proof (cc_wq _ HC _ _ _ E Hcl) as Hc; try discriminate Hc;
       right; apply np_pos_fsat; eexists a, FRQ1; split; [eapply fsat_new; [exact Hst|solve_stacks|left]|done] end).
    (* flags set by the step *)
    all: try (lazymatch goal with |- forall c, _ -> sresb (setstack (setsres _ _ true) _ _) c = false -> _ =>
       intros c0 _; rewrite sresb_setstack; intros Hx; apply sresb_set_false in Hx; exact Hx end).
    all: try (lazymatch goal with |- forall c, _ -> kickb (setstack (setkick _ _ _) _ _) c = false -> _ =>
       intros c0 Hca; rewrite kickb_setstack; destruct (decide (c0 = a)) as [->|Hne];
       [ exfalso; specialize (Hca eq_refl); apply elem_of_cons in Hca as [Hca|Hca]; [discriminate Hca|]; by eapply (no_sbwait_rest s a _ rest HP Hst)
       | by rewrite kickb_setkick_ne ] end).
    - (* FDQwfw *) intros Hcl. cbn in Hcl. rewrite (cc_wfw _ HC) in Hcl. discriminate Hcl.
    - (* FDQwfp: the queue waits for the poll of f; the DoubleWaker about to be installed carries the queue waker *)
      intros _. right; right.
      pose proof (iw_frames _ HWk a (FDQwfp f d) ltac:(eexists; split; [exact Hst|left])) as Hok. cbn in Hok.
      unfold wakeq. change (hsusp (setstack _ _ _)) with (hsusp s). destruct (hsusp s) as [e|] eqn:Eh; [|discriminate Hok].
      apply cover_iff. right; right. exists a, d, (WDouble (length (dbl s))). split; [|split].
      + eapply fsat_new; [exact Hst|solve_stacks|left].
      + cbn. unfold dbl_q, getdbl. cbn. by rewrite list_lookup_middle.
      + eapply (gd_np s); [reflexivity|reflexivity| |exact Hok]. eapply np_mono; [exact Hst|solve_stacks|cnt_le].
    - (* FSDpush *) intros c0 Hca. rewrite sresb_setstack. change (sresb (addlog ?x _) c0) with (sresb x c0).
      destruct (decide (c0 = a)) as [->|Hne]; [|by rewrite sresb_set_ne].
      exfalso. specialize (Hca eq_refl). apply elem_of_cons in Hca as [Hca|Hca]; [discriminate Hca|]. by eapply (no_sbwait_rest s a _ rest HP Hst).
    - (* FROpend *) intros Hcl. cbn in Hcl. destruct (runner_working s a _ HO Hst ltac:(cbn; lia)) as [_ Hnw].
      destruct (oc_roj_pend _ HT _ Hrun Hnw) as (q' & Hq & Ho). rewrite Hq in E. injection E as <-.
      apply (claimb_owned T HT) in Hcl as [Hcl _]. congruence.
    - intros Hcl. cbn in Hcl. destruct (runner_working s a _ HO Hst ltac:(cbn; lia)) as [_ Hnw].
      destruct (oc_roj_pend _ HT _ Hrun Hnw) as (q' & Hq & Ho). rewrite Hq in E. injection E as <-.
      apply (claimb_owned T HT) in Hcl as [Hcl _]. congruence.
    - (* FDRpend *) intros Hcl. cbn in Hcl. destruct (runner_working s a _ HO Hst ltac:(cbn; lia)) as [_ Hnw].
      destruct (oc_drain_pend _ HT _ Hrun Hnw) as [Hd|[Hd _]]; cbn zeta in Hd.
      + rewrite Hd, (cc_wfw _ HC) in Hcl. discriminate Hcl.
      + apply (claimb_owned T HT) in Hcl as [Hcl _]. congruence.
    - intros Hcl. cbn in Hcl. destruct (runner_working s a _ HO Hst ltac:(cbn; lia)) as [_ Hnw].
      destruct (oc_drain_pend _ HT _ Hrun Hnw) as [Hd|[Hd _]]; cbn zeta in Hd.
      + rewrite Hd, (cc_wfw _ HC) in Hcl. discriminate Hcl.
      + apply (claimb_owned T HT) in Hcl as [Hcl _]. congruence.
    - (* FDRfin, more jobs *) intros Hcl. cbn in Hcl. destruct (runner_working s a _ HO Hst ltac:(cbn; lia)) as [_ Hnw].
      apply (oc_drain_fin _ HT _ _ _ _ Hrun Hnw) in E as [Ho _]. apply (claimb_owned T HT) in Hcl as [Hcl _]. congruence.
    - (* WakeQueue that does not go on to reschedule_queue leaves a state that cannot be claimed *)
      intros Hcl. cbn in Hcl. pose proof (cc_wq _ HC _ _ _ E0 Hcl) as Hc. discriminate Hc.
    - cbn in Hcl. pose proof (cc_wq _ HC _ _ _ E0 Hcl) as Hc. discriminate Hc.
    - (* WakeThread: only a queue parked in WaitingForWake may become claimable (Idle) - its WakeQueue wake-up is still to come *)
      intros Hcl. cbn in Hcl. destruct (qs s) eqn:Eq.
      + left. apply (cc_idle _ HC).
      + left. apply (cc_pending _ HC).
      + rewrite (wc_wt_running _ HW) in Hcl by done. by apply (claimb_owned T HT) in Hcl as [Hcl _].
      + destruct (wc_wt_wfw _ HW) as [Hi|Hi]; rewrite Hi in Hcl; [|by rewrite (cc_wfw _ HC) in Hcl].
        right; right. pose proof (iw_queue _ HWk) as HQ. unfold queue_ok in HQ. rewrite Eq in HQ.
        unfold wakeq. change (hsusp (setstack _ _ _)) with (hsusp s). destruct (hsusp s) as [e|]; [|done].
        eapply (cv_plain s _ a [_] rest _ e); [exact Hst|solve_stacks| | |by intros|done|done|exact HQ].
        * intros fr Hin. by right.
        * intros fr ->%elem_of_list_singleton. done.
      + rewrite (wc_wt_wfu _ HW) in Hcl. by apply (claimb_owned T HT) in Hcl as [Hcl _].
      + left. apply (cc_wfp _ HC).
      + rewrite (wc_wt_running _ HW) in Hcl by done. by apply (claimb_owned T HT) in Hcl as [Hcl _].
      + done.
  Qed.
End KW.

Ltac norm_stacks_in H :=
  rewrite ?stacks_setstack in H;
  rewrite ?stacks_addlog, ?stacks_setf, ?stacks_setev, ?stacks_setdw, ?stacks_setdbl, ?stacks_settoken, ?stacks_setsres, ?stacks_setkick, ?stacks_kickall in H;
  rewrite ?stacks_addlog, ?stacks_setf, ?stacks_setev, ?stacks_setdw, ?stacks_setdbl, ?stacks_settoken, ?stacks_setsres, ?stacks_setkick, ?stacks_kickall in H.
Section KW2.
  Context (T : ftables).
  Lemma step_kfd1 s a s' : (forall c st j, stacks s !! c = Some st -> FD1 j ∈ st -> notsync j) -> step T s a = Some s' ->
    forall c st j, stacks s' !! c = Some st -> FD1 j ∈ st -> notsync j.
  Proof.
    intros HK Hstep. step_split Hstep Ea Est.
    all: try discriminate Hstep.
    all: injection Hstep as <-.
    all: pop_cont_split.
    all: pose proof (stacks_lookup _ _ _ Ea) as Hst; rewrite Est in Hst.
    all: try match goal with k : kont |- _ => destruct k end.
    all: intros c0 st0 j0 Hc0 Hin0.
    all: norm_stacks_in Hc0.
    all: (destruct (decide (c0 = a)) as [->|Hne]; [|rewrite list_lookup_insert_ne in Hc0 by done; by eapply HK]).
    all: rewrite list_lookup_insert in Hc0 by (by eapply lookup_lt_Some).
    all: injection Hc0 as <-.
    all: mem_splitK Hin0; try discriminate Hin0; try (apply in_opt_wakeK in Hin0 as [? Hin0]; discriminate Hin0);
         try (apply in_wake_framesK in Hin0 as [? Hin0]; discriminate Hin0).
    all: try (injection Hin0 as ->; done).
    all: try (eapply (HK a _ j0 Hst); rewrite ?elem_of_cons; auto 6; fail).
  Qed.

  Lemma step_kpush s a s' : Inv_op s -> (forall c st op tk, stacks s !! c = Some st -> FSBpush op tk ∈ st -> kickb s c = true) ->
    step T s a = Some s' -> forall c st op tk, stacks s' !! c = Some st -> FSBpush op tk ∈ st -> kickb s' c = true.
  Proof.
    intros HP HK Hstep. step_split Hstep Ea Est.
    all: try discriminate Hstep.
    all: injection Hstep as <-.
    all: pop_cont_split.
    all: pose proof (stacks_lookup _ _ _ Ea) as Hst; rewrite Est in Hst.
    all: try match goal with k : kont |- _ => destruct k end.
    all: intros c0 st0 op0 tk0 Hc0 Hin0.
    (* reschedule_queue *)
    all: try (lazymatch goal with |- context [kickall] => rewrite kickb_setstack; apply kickb_kickall;
              apply lookup_lt_Some in Hc0; rewrite stacks_setstack, insert_length, stacks_kickall in Hc0; exact Hc0 end).
    all: norm_stacks_in Hc0.
    all: (destruct (decide (c0 = a)) as [->|Hne];
          [ rewrite list_lookup_insert in Hc0 by (by eapply lookup_lt_Some); injection Hc0 as <-
          | rewrite list_lookup_insert_ne in Hc0 by done ]).
    (* the other actors: their flag is not touched *)
    all: try (lazymatch goal with Hne : _ <> _ |- kickb ?s1 _ = true =>
              first [ rewrite (kickb_kicks s s1 c0 ltac:(solve_kicks)) | rewrite kickb_setstack, kickb_setkick_ne by done ]; by eapply HK end).
    (* the stepping actor *)
    all: mem_splitK Hin0; try discriminate Hin0; try (apply in_opt_wakeK in Hin0 as [? Hin0]; discriminate Hin0);
         try (apply in_wake_framesK in Hin0 as [? Hin0]; discriminate Hin0).
    all: try (lazymatch goal with |- kickb ?s1 _ = true =>
              rewrite (kickb_kicks s s1 a ltac:(solve_kicks)); eapply (HK a _ op0 tk0 Hst); rewrite ?elem_of_cons; auto 6 end; fail).
    - rewrite kickb_setstack. apply kickb_setkick_eq. by eapply lookup_lt_Some.
    - rewrite kickb_setstack. apply kickb_setkick_eq. by eapply lookup_lt_Some.
    - exfalso. pose proof (op_top_only _ _ _ _ HP Hst eq_refl) as Hz. by pose proof (cntf_zero_all _ _ Hz _ Hin0).
  Qed.
End KW2.

(* ---------- the whole invariant, reachability ---------- *)
Section KAll.
  Context (T : ftables) (HT : own_cond T) (HW : wake_cond T) (HC : claim_cond T).
  Lemma step_K s a s' : Inv_own s -> Inv_op s -> Inv_dw s -> Inv_wake s -> Inv_task s -> Inv_K T s -> step T s a = Some s' -> Inv_K T s'.
  Proof.
    intros HO HP HD HWk HTk HK Hs. split.
    - eapply (step_kwait T HT HW HC s a s'); try done. apply (it_sb _ HTk).
    - eapply (step_kpush T s a s' HP); [apply (k_push _ _ HK)|exact Hs].
    - eapply (step_kfd1 T s a s'); [apply (k_fd1 _ _ HK)|exact Hs].
  Qed.
End KAll.
Lemma init_K T scripts npool nev : Inv_K T (init scripts npool nev).
Proof.
  assert (Hst : forall c st, stacks (init scripts npool nev) !! c = Some st -> st = [FPIdle] \/ exists sc, st = [FTop sc]).
  { intros c st Hc. unfold stacks, init in Hc; cbn in Hc. rewrite list_lookup_fmap in Hc.
    destruct ((((fun sc => mk_actor [FTop sc]) <$> scripts) ++ replicate npool (mk_actor [FPIdle])) !! c) as [ac|] eqn:E; [|done].
    cbn in Hc. injection Hc as <-. apply elem_of_list_lookup_2 in E. apply elem_of_app in E as [E|E].
    - apply elem_of_list_fmap in E as (sc & -> & _). right. by eexists.
    - apply elem_of_replicate in E as [-> _]. by left. }
  split.
  - intros c st Hc Hin. destruct (Hst c st Hc) as [->|[sc ->]]; by apply elem_of_list_singleton in Hin.
  - intros c st op tk Hc Hin. destruct (Hst c st Hc) as [->|[sc ->]]; by apply elem_of_list_singleton in Hin.
  - intros c st j Hc Hin. destruct (Hst c st Hc) as [->|[sc ->]]; by apply elem_of_list_singleton in Hin.
Qed.
