(* C06: preservation of the wake invariant, waker calls (part 2) *)
From stdpp Require Import list numbers option.
From RecordUpdate Require Import RecordUpdate.
From L2 Require Import Model Base Own Jobs Shape DwInv Wake WakeInv WakeLem WakeStep1.
#[global] Unset Lia Cache.

Section Steps.
  Context (T : ftables) (HT : own_cond T) (HC : jobs_cond T) (HW : wake_cond T).

  Lemma gd_np s s' e d : s'.(evs) = s.(evs) -> s'.(dws) = s.(dws) -> np (is_wake (WDrain d)) s <= np (is_wake (WDrain d)) s' ->
    gd s e d = true -> gd s' e d = true.
  Proof.
    intros H1 H2 Hn. unfold gd. rewrite (unfreg_evs s s' _ _ H1), (dw_woken_dws s s' _ H2), !orb_true_iff.
    intros [[?|?]|?]; [by left; left|left; right; by eapply posb_mono|by right].
  Qed.

  (* WakeQueue.wake, the core section *)
  Lemma ws_wake_queue s a q cont rest : Inv_own s -> Inv_wake s -> stacks s !! a = Some (FWake WQueue :: rest) ->
    T.(t_wake_queue) s.(qs) = (q, cont) ->
    Inv_wake (setstack (s <| qs := q |>) a (if cont then FRQ1 :: rest else rest)).
  Proof.
    intros HO [IF IQ] Hst E.
    set (pre := if cont then [FRQ1] else []).
    assert (Hnew : (if cont then FRQ1 :: rest else rest) = pre ++ rest) by (subst pre; by destruct cont).
    rewrite Hnew. set (s' := setstack _ _ _).
    assert (Hs : stacks s' = <[a := pre ++ rest]> (stacks s)) by (subst s'; solve_stacks).
    assert (Hnf : forall fr, fr ∈ pre ++ rest -> fr ∈ rest \/ frame_ok s' a fr = true).
    { subst pre. destruct cont; [intros fr [->|Hin]%elem_of_cons; [by right|by left]|by left]. }
    assert (Hnw : forall w, w <> WQueue -> np (is_wake w) s' = np (is_wake w) s).
    { intros w Hw. eapply np_same; [exact Hst|exact Hs|]. subst pre. destruct cont; cbn; by rewrite bool_decide_false. }
    assert (Hnu : forall c, np (is_unpark c) s' = np (is_unpark c) s).
    { intros c. eapply np_same; [exact Hst|exact Hs|]. subst pre. by destruct cont. }
    assert (Htk : forall c, tokb s' c = tokb s c) by (intros c; subst s'; by rewrite tokb_setstack).
    destruct (owned (qs s)) eqn:Ho.
    - (* somebody runs the queue: the wake is latched *)
      pose proof (oc_wq _ HT _ _ _ E) as (Hk1 & Hk2 & _). rewrite Ho in Hk1.
      split; [|by apply queue_ok_owned].
      eapply (frames_other_tview s _ a _ rest _ HO IF Hst); [exact Hs|exact Hnf|]. intros _.
      assert (Hrun : running (qs s) = true -> q = AwokenWhileRunning).
      { intros Hr. pose proof (wc_wq_running _ HW _ Hr) as H. by rewrite E in H. }
      split.
      + done.
      + unfold awoken. intros Ha. change (qs s') with q. rewrite Hrun; [done|by destruct (qs s)].
      + intros e Hr _. right. unfold awoken. change (qs s') with q. by rewrite (Hrun Hr).
      + intros c e Hg. left. unfold gt in *. by rewrite (unfreg_evs s s') , Hnw.
      + change (qs s') with q. intros Hw. destruct q; try done. by rewrite Hk2.
      + intros c _ _. unfold unp. by rewrite Hnu, Htk.
      + intros e d _. apply gd_np; [done|done|]. by rewrite Hnw.
    - (* nobody runs it *)
      split; [eapply (frames_other_tview s _ a _ rest _ HO IF Hst); [exact Hs|exact Hnf|congruence]|].
      pose proof (np_upd is_rq1 s s' a _ _ Hst Hs) as Hr. pose proof (np_upd is_push s s' a _ _ Hst Hs) as Hp.
      rewrite !cntf_app in Hr, Hp. cbn [cntf is_rq1 is_push] in Hr, Hp.
      unfold queue_ok in *. change (qs s') with q. change (jobs s') with (jobs s). change (hsusp s') with (hsusp s).
      change (insched s') with (insched s).
      destruct (qs s) eqn:Eq; try done.
      + rewrite (wc_wq_idle _ HW) in E. injection E as <- <-. destruct (jobs s); [done|].
        subst pre. cbn [cntf is_rq1] in Hr. destruct (np is_rq1 s'); [lia|done].
      + pose proof (wc_wq_pending _ HW) as H. rewrite E in H. cbn in H. subst q.
        assert (cntf is_push pre = 0) by (subst pre; by destruct cont). eapply posb_mono; [|exact IQ]. lia.
      + rewrite (wc_wq_wfw _ HW) in E. injection E as <- <-. destruct (jobs s); [done|].
        subst pre. cbn [cntf is_rq1] in Hr. destruct (np is_rq1 s'); [lia|done].
      + rewrite (wc_wq_wfp _ HW) in E. injection E as <- <-. destruct (hsusp s); [|done].
        subst pre. cbn [cntf is_rq1] in Hr. destruct (np is_rq1 s'); [lia|]. by rewrite orb_true_r.
      + by destruct (io_nopanic _ HO).
  Qed.

  (* the task waker: only an unpark follows *)
  Lemma ws_wake_task s a c0 rest : Inv_own s -> Inv_wake s -> stacks s !! a = Some (FWake (WTask c0) :: rest) ->
    Inv_wake (setstack s a (FUnpark c0 :: rest)).
  Proof.
    intros HO [IF IQ] Hst.
    assert (Hs : stacks (setstack s a (FUnpark c0 :: rest)) = <[a := [FUnpark c0] ++ rest]> (stacks s)) by solve_stacks.
    split.
    - eapply (frames_other_tview s _ a _ rest _ HO IF Hst); [exact Hs| |].
      { intros fr [->|Hin]%elem_of_cons; [by right|by left]. }
      intros _. apply tview_mono; try done.
      + intros w Hw. eapply np_mono; [exact Hst|exact Hs|]. destruct w; try done; cnt_le.
      + intros c _. apply unp_mono; [by rewrite tokb_setstack|]. eapply np_mono; [exact Hst|exact Hs|cnt_le].
    - eapply (queue_ok_mono s); try done.
      + intros e. eapply (cover_keep s _ a _ rest [FUnpark c0]); try done.
        * intros d _. apply gd_np; [done|done|]. eapply np_mono; [exact Hst|exact Hs|cnt_le].
        * by intros w [= <-].
      + eapply np_mono; [exact Hst|exact Hs|cnt_le].
      + eapply np_mono; [exact Hst|exact Hs|cnt_le].
  Qed.

  (* WakeThread.wake, the core section; the unpark follows *)
  Lemma ws_wake_thread s a c0 rest : Inv_own s -> Inv_wake s -> stacks s !! a = Some (FWake (WThread c0) :: rest) ->
    Inv_wake (setstack (s <| qs := T.(t_wake_thread) s.(qs) |>) a (FUnpark c0 :: rest)).
  Proof.
    intros HO [IF IQ] Hst. set (q := t_wake_thread T (qs s)). set (s' := setstack _ _ _).
    assert (Hs : stacks s' = <[a := [FUnpark c0] ++ rest]> (stacks s)) by (subst s'; solve_stacks).
    assert (Hnf : forall fr, fr ∈ [FUnpark c0] ++ rest -> fr ∈ rest \/ frame_ok s' a fr = true).
    { intros fr [->|Hin]%elem_of_cons; [by right|by left]. }
    assert (Hnw : forall w, w <> WThread c0 -> np (is_wake w) s' = np (is_wake w) s).
    { intros w Hw. eapply np_same; [exact Hst|exact Hs|]. cbn. by rewrite bool_decide_false by congruence. }
    assert (Hnu : forall c, np (is_unpark c) s <= np (is_unpark c) s') by (intros c; eapply np_mono; [exact Hst|exact Hs|cnt_le]).
    assert (Hnu0 : posb (np (is_unpark c0) s') = true).
    { apply posb_true, np_pos_fsat. exists a, (FUnpark c0). split; [eapply fsat_new; [exact Hst|exact Hs|left]|]. cbn. by apply bool_decide_eq_true. }
    assert (Htk : forall c, tokb s' c = tokb s c) by (intros c; subst s'; by rewrite tokb_setstack).
    destruct (owned (qs s)) eqn:Ho.
    - pose proof (oc_wt _ HT (qs s)) as (Hk1 & _). fold q in Hk1. rewrite Ho in Hk1.
      split; [|by apply queue_ok_owned].
      eapply (frames_other_tview s _ a _ rest _ HO IF Hst); [exact Hs|exact Hnf|]. intros _.
      assert (Hrun : running (qs s) = true -> q = AwokenWhileRunning) by (intros Hr; by apply (wc_wt_running _ HW)).
      assert (Hwfu : is_wfu (qs s) = true -> q = Running).
      { intros Hw. subst q. destruct (qs s); try done. by apply (wc_wt_wfu _ HW). }
      assert (Hnq : is_wfu q = false).
      { destruct (is_wfu (qs s)) eqn:Ew; [by rewrite Hwfu|]. rewrite Hrun; [done|]. by destruct (qs s). }
      split.
      + done.
      + unfold awoken. intros Ha. change (qs s') with q. rewrite Hrun; [done|by destruct (qs s)].
      + intros e Hr _. right. unfold awoken. change (qs s') with q. by rewrite (Hrun Hr).
      + intros c e Hg. destruct (decide (c = c0)) as [->|Hne].
        * right. change (qs s') with q. split; [done|]. split; [done|].
          destruct (is_wfu (qs s)) eqn:Ew; [by left|right]. unfold awoken. change (qs s') with q. rewrite Hrun; [done|by destruct (qs s)].
        * left. unfold gt in *. rewrite (unfreg_evs s s') by done. rewrite Hnw by congruence. done.
      + change (qs s') with q. by rewrite Hnq.
      + intros c _ _. apply unp_mono; [by rewrite Htk|done].
      + intros e d _. apply gd_np; [done|done|]. by rewrite Hnw.
    - split; [eapply (frames_other_tview s _ a _ rest _ HO IF Hst); [exact Hs|exact Hnf|congruence]|].
      assert (Hc : forall e, cover s e = true -> cover s' e = true).
      { intros e. eapply (cover_keep s s' a _ rest [FUnpark c0]); try done.
        - intros d _. apply gd_np; [done|done|]. by rewrite Hnw.
        - by intros w [= <-]. }
      assert (Hr : np is_rq1 s' = np is_rq1 s) by (by eapply np_same; [exact Hst|exact Hs|]).
      assert (Hp : np is_push s' = np is_push s) by (by eapply np_same; [exact Hst|exact Hs|]).
      unfold queue_ok in *. change (qs s') with q. change (jobs s') with (jobs s). change (hsusp s') with (hsusp s).
      change (insched s') with (insched s). rewrite Hr, Hp. subst q.
      destruct (qs s) eqn:Eq; try done.
      + rewrite (wc_wt_other _ HW) by (by left). destruct (jobs s); [done|]. rewrite orb_true_iff in *.
        destruct IQ as [H|H]; [by left|right]. destruct (hsusp s); [by apply Hc|done].
      + rewrite (wc_wt_other _ HW) by (right; by left). done.
      + destruct (hsusp s) as [e|]; [|done]. destruct (wc_wt_wfw _ HW) as [->| ->]; [|by apply Hc].
        destruct (jobs s); [done|]. rewrite (Hc e IQ). by rewrite orb_true_r.
      + rewrite (wc_wt_other _ HW) by (right; right; by eexists). destruct (hsusp s) as [e|]; [|done].
        rewrite !orb_true_iff in *. destruct IQ as [[[H|H]|H]|H]; [left; left; left; by apply Hc|by left; left; right|by left; right|by right].
      + by destruct (io_nopanic _ HO).
  Qed.
End Steps.
