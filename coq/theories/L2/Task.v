(* C07: the awaiting task is always woken.  A task whose poll returned Pending has its waker stored in the future's cell while the
   result is still missing, or a wake-up for it is latched / in flight.  Definitions (boolean, testable). *)
From stdpp Require Import list numbers option.
From RecordUpdate Require Import RecordUpdate.
From L2 Require Import Model Base Own Jobs Shape DwInv Fut Wake.
#[global] Unset Lia Cache.

#[export] Instance fres_eq_dec : EqDecision fres. Proof. solve_decision. Defined.
(* jobs that will signal f *)
Definition is_psig (f : nat) (p : fprim) : bool := match p with PSignal f' => bool_decide (f' = f) | _ => false end.
Definition sgj (f : nat) (j : job) : bool := match j with JFut _ _ sc => existsb (is_psig f) sc | _ => false end.
Definition sgf (f : nat) (fr : frame) : bool :=
  match fr with FJob j _ _ | FDRrequeue j | FDQrequeue _ _ j | FROpend j | FROcheck j | FROpark j | FD1 j => sgj f j | _ => false end.
Fixpoint cnts (f : nat) (l : list job) : nat := match l with [] => 0 | j :: r => (if sgj f j then 1 else 0) + cnts f r end.
Definition nsig (f : nat) (s : state) : nat := np (sgf f) s + cnts f s.(jobs).

Definition tw (s : state) (c f : nat) : bool :=
  tokb s c || posb (np (is_unpark c) s) || posb (np (is_wake (WTask c)) s)
  || (bool_decide ((getf s f).(res) = FNone) && bool_decide ((getf s f).(fwaker) = Some (WTask c))).
(* poll frames above an await continuation while the outcome of the poll is still open (the waker is stored at FDQstore -> FDQwfp
   and FDQempty1 -> FDQempty2, and by the Wait arm of poll itself) *)
Definition pollprog (fr : frame) : option nat :=
  match fr with
  | FSFpoll f | FDQtake f | FDQdeq f | FDQrequeue f _ _ | FDQtake2 f _ | FDQstore f _ | FDQempty1 f | FJob _ _ (KDq f _) => Some f
  | _ => None
  end.
Definition inprog_for (prev : option frame) (f : nat) : bool :=
  match prev with Some x => match pollprog x with Some f' => bool_decide (f' = f) | None => false end | None => false end.
(* the first await frame of a stack (from the top) carries the task-wake obligation, unless a poll of that future is in progress *)
Fixpoint twf (s : state) (c : nat) (prev : option frame) (st : list frame) : bool :=
  match st with
  | [] => true
  | y :: r => match y with
              | FAwRet f => inprog_for prev f || tw s c f
              | FPark f => tw s c f
              | _ => twf s c (Some y) r
              end
  end.
(* a caller blocked in sync_background still has its job in the queue (or in a runner's hand) unless it has been run *)
Definition sbj (c : nat) (j : job) : bool := match j with JSync _ c' _ => bool_decide (c' = c) | _ => false end.
Definition sbf (c : nat) (fr : frame) : bool :=
  match fr with FJob j _ _ | FDRrequeue j | FDQrequeue _ _ j | FROpend j | FROcheck j | FROpark j | FD1 j => sbj c j | _ => false end.
Fixpoint cntb (c : nat) (l : list job) : nat := match l with [] => 0 | j :: r => (if sbj c j then 1 else 0) + cntb c r end.
Definition nsb (c : nat) (s : state) : nat := np (sbf c) s + cntb c s.(jobs).
Definition is_sbwait (fr : frame) : bool := match fr with FSBwait | FSBclaim => true | _ => false end.
Definition sresb (s : state) (c : nat) : bool := default false (sress s !! c).
Definition sb_ok (s : state) (c : nat) (st : list frame) : bool :=
  negb (posb (cntf is_sbwait st)) || sresb s c || posb (nsb c s).
(* frames of drain_queue at which the result is known to be missing *)
Definition rn_ok (s : state) (fr : frame) : bool :=
  match fr with FDQdeq f | FDQstore f _ | FDQempty1 f => bool_decide ((getf s f).(res) = FNone) | _ => true end.

Record Inv_task (s : state) : Prop := {
  it_tw : forall c st, stacks s !! c = Some st -> twf s c None st = true;
  it_sb : forall c st, stacks s !! c = Some st -> sb_ok s c st = true;
  it_rn : forall c st fr, stacks s !! c = Some st -> fr ∈ st -> rn_ok s fr = true;
  it_sig : forall f, f < length s.(futs) -> (getf s f).(res) = FNone -> nsig f s >= 1;
}.
Definition task_ok (s : state) : bool :=
  forallb (fun '(c, st) => twf s c None st && sb_ok s c st && forallb (rn_ok s) st) (imap (fun c st => (c, st)) (stacks s))
  && forallb (fun f => match (getf s f).(res) with FNone => posb (nsig f s) | _ => true end) (seq 0 (length s.(futs))).

(* ---------- the mechanism, step by step (these are facts about single critical sections) ---------- *)
Lemma getf_setf_eq s f c : f < length s.(futs) -> getf (setf s f c) f = c.
Proof. intros H. unfold getf, setf; cbn. by rewrite list_lookup_insert. Qed.

(* poll: when the result is missing and the queue is run by somebody else, the task's waker is stored in the SAME critical section
   in which the result was found missing, and the poll returns Pending (the await continuation becomes the top frame) *)
Lemma poll_wait_stores_waker T s a ac f rest st' :
  s.(actors) !! a = Some ac -> ac.(stack) = FSFpoll f :: rest -> f < length s.(futs) ->
  (getf s f).(res) = FNone -> T.(t_poll) f s.(qs) = (st', PAWait) ->
  exists s', step T s a = Some s' /\ stacks s' = <[a := rest]> (stacks s) /\
             (getf s' f).(res) = FNone /\ (getf s' f).(fwaker) = Some (WTask a).
Proof.
  intros Ea Est Hf Hr Hp. unfold step. rewrite Ea. cbn. rewrite Est. cbn. unfold take_f, take_res. rewrite Hr, Hp. cbn.
  eexists. split; [done|]. split; [solve_stacks|].
  assert (getf (setstack (setf (s <| qs := st' |>) f (getf (s <| qs := st' |>) f <| fwaker := Some (WTask a) |>)) a rest) f
          = getf (s <| qs := st' |>) f <| fwaker := Some (WTask a) |>) as ->.
  { transitivity (getf (setf (s <| qs := st' |>) f (getf (s <| qs := st' |>) f <| fwaker := Some (WTask a) |>)) f); [done|].
    by apply getf_setf_eq. }
  cbn. split; [exact Hr|done].
Qed.

(* signal: result := Some (own value), the stored waker is taken and called on this thread, in that order *)
Lemma signal_calls_stored_waker T s a ac op f l w k rest :
  s.(actors) !! a = Some ac -> ac.(stack) = FJob (JFut op Waiting (PSignal f :: l)) w k :: rest -> f < length s.(futs) ->
  exists s', step T s a = Some s' /\ (getf s' f).(res) = FSome op /\ (getf s' f).(fwaker) = None /\
             stacks s' = <[a := opt_wake (getf s f).(fwaker) ++ FJob (JFut op Waiting l) w k :: rest]> (stacks s) /\
             s'.(log) = GSig f op :: s.(log).
Proof.
  intros Ea Est Hf. unfold step. rewrite Ea. cbn. rewrite Est. cbn.
  eexists. split; [done|].
  assert (forall x, getf (setstack (addlog (setf s f {| res := FSome op; fwaker := None |}) [GSig f op]) a x) f
          = {| res := FSome op; fwaker := None |}) as ->.
  { intros x. transitivity (getf (setf s f {| res := FSome op; fwaker := None |}) f); [done|]. by apply getf_setf_eq. }
  split; [done|]. split; [done|]. split; [solve_stacks|done].
Qed.
