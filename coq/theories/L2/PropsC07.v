(* C07 (one queue): future_desync/after futures deliver their operation's result exactly once.  Layer L2.
   PROVED:
     [C07_safety]       Resolve f at most once in the ghost log; no thread ever is at a program point where the code panics (second
                        take of a result "already returned", Panic arms of the tables, unexpected state in run_one_job_now);
                        exactly one consumer per future until its result is taken, none afterwards;
     [C07_value]        Resolve f v only after Sig f v (the value is the signalling operation's own; any tables);
     [C07_waker_steps]  poll stores the task waker in the SAME critical section in which it found the result missing and returns
                        Pending; signal sets the result, takes the stored waker and calls it (single-step facts);
     detached / dropped / never polled futures: the job is owned by the queue and runs: PropsC06.C06_terminal_partial_L2.
     [C07_task_invariant] / [C07_complete_full]  the awaiting task is always woken: the first await frame of every stack carries its
                        wake-up guarantee (token, pending unpark / task-waker call, or waker stored while the result is missing and the
                        signalling job still exists); hence, with >= 1 pool runner, in a terminal state with all events fired every
                        caller has finished its script;
     [C07_full]         the conjunction of all of the above.
   The signaller's Drop (Canceled) is not modelled: a queued job is never dropped in this model.  The zero-pool variant is C06's. *)
From L2 Require Import Model Fut Sig Task TaskInv Term Complete Main.
Theorem C07_safety_partial_L2 : C07_safety.
Proof. exact C07_safety_main. Qed.
Theorem C07_value_L2 : C07_value.
Proof. exact C07_value_main. Qed.
Theorem C07_waker_steps_L2 : C07_waker_steps.
Proof. exact C07_waker_steps_main. Qed.
Theorem C07_task_parts_L2 : C07_task_parts.
Proof. exact C07_task_parts_main. Qed.
Theorem C07_task_invariant_L2 : C07_task_invariant.
Proof. exact C07_task_invariant_main. Qed.
Theorem C07_complete_L2 : C07_complete_full.
Proof. exact C07_complete_main. Qed.
Theorem C07_full_L2 : C07_full.
Proof. exact C07_full_main. Qed.
Print Assumptions C07_safety_partial_L2.
Print Assumptions C07_value_L2.
Print Assumptions C07_waker_steps_L2.
Print Assumptions C07_task_parts_L2.
Print Assumptions C07_complete_L2.
Print Assumptions C07_full_L2.
