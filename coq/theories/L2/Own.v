(* C01 part 1: at most one actor runs the queue.  Counting formulation: every runner episode keeps exactly ONE marker frame
   on its actor's stack from the step that claims the queue to the step that gives it up. *)
From stdpp Require Import list numbers option.
From RecordUpdate Require Import RecordUpdate.
From L2 Require Import Model Base.
#[global] Unset Lia Cache.

Definition marker (fr : frame) : bool :=
  match fr with
  | FDRdeq | FDRrequeue _ | FDRpend | FDRfin
  | FClosure _ _ | FSIidle | FSDpush _ _ | FSDloop | FSDidle | FROdeq | FROpend _ | FROcheck _ | FROpark _
  | FDQtake _ | FDQdeq _ | FDQrequeue _ _ _ | FDQtake2 _ _ | FDQwfw _ _ | FDQstore _ _ | FDQwfp _ _
  | FDQempty1 _ | FDQempty2 _ | FDQidle _
  | FJob _ _ _ => true
  | _ => false
  end.
Definition parkfr (fr : frame) : bool := match fr with FROcheck _ | FROpark _ => true | _ => false end.
Definition owned (st : qstate) : bool := match st with Running | AwokenWhileRunning | WaitingForUnpark => true | _ => false end.
Definition b2n (b : bool) : nat := if b then 1 else 0.

Definition keeps (st st' : qstate) : Prop :=
  owned st' = owned st /\ (st' = WaitingForUnpark -> st = WaitingForUnpark) /\ (st' = Panicked -> st = Panicked).

Record own_cond (T : ftables) : Prop := {
  oc_desync : forall st st' act, T.(ft_base).(t_desync) st = (st', act) -> keeps st st' /\ (act = DAPanic -> st = Panicked);
  oc_resched : forall st ne st' p, T.(ft_base).(t_resched) st ne = (st', p) -> keeps st st';
  oc_wq : forall st st' c, T.(t_wake_queue) st = (st', c) -> keeps st st';
  oc_wt : forall st, keeps st (T.(t_wake_thread) st);
  oc_sync : forall st e st' act, T.(ft_base).(t_sync) st e = (st', act) ->
     match act with SAImmediate | SADrain => owned st = false /\ st <> Panicked /\ st' = Running
                  | SABackground => st' = st | SAPanic => st' = st /\ st = Panicked end;
  oc_poll : forall f st st' act, T.(t_poll) f st = (st', act) ->
     match act with PADrain => owned st = false /\ st <> Panicked /\ st' = Running | PAWait => st' = st | PAPanic => st' = st /\ st = Panicked end;
  oc_next : forall st st', T.(ft_base).(t_next) st = Some st' -> owned st = false /\ st <> Panicked /\ st' = Running;
  oc_claim : forall st st', T.(ft_base).(t_claim) st = Some st' -> owned st = false /\ st <> Panicked /\ st' = Running;
  oc_drain_pend : forall st, owned st = true -> st <> WaitingForUnpark ->
     let st' := T.(t_drain_pend) st in st' = WaitingForWake \/ (owned st' = true /\ st' <> WaitingForUnpark);
  oc_drain_fin : forall st e st' d, owned st = true -> st <> WaitingForUnpark -> T.(ft_base).(t_drain_fin) st e = (st', d) ->
     if d then owned st' = false /\ st' <> Panicked else owned st' = true /\ st' <> WaitingForUnpark;
  oc_roj_pend : forall st, owned st = true -> st <> WaitingForUnpark -> exists st', T.(t_roj_pend) st = Some st' /\ owned st' = true;
  oc_roj_park : forall st, owned st = true -> T.(t_roj_park) st <> PKPanic;
  oc_roj_break : forall st, T.(t_roj_park) st = PKBreak -> st <> WaitingForUnpark;
}.

Record Inv_own (s : state) : Prop := {
  io_cnt : np marker s = b2n (owned s.(qs));
  io_park : s.(qs) = WaitingForUnpark -> np parkfr s = 1;
  io_nopanic : s.(qs) <> Panicked;
}.

Lemma np_upd P s s' a old new :
  stacks s !! a = Some old -> stacks s' = <[a := new]> (stacks s) -> np P s' + cntf P old = np P s + cntf P new.
Proof. intros H E. unfold np. rewrite E. by apply npl_insert. Qed.

Lemma cntf_le P Q st : (forall fr, P fr = true -> Q fr = true) -> cntf P st <= cntf Q st.
Proof. intros H. induction st as [|x st IH]; cbn; [lia|]. destruct (P x) eqn:E; [rewrite (H _ E); lia|destruct (Q x); lia]. Qed.
Lemma npl_le P Q L : (forall fr, P fr = true -> Q fr = true) -> npl P L <= npl Q L.
Proof. intros H. induction L as [|x L IH]; cbn; [lia|]. pose proof (cntf_le P Q x H). lia. Qed.
Lemma park_le_marker s : np parkfr s <= np marker s.
Proof. apply npl_le. by intros []. Qed.

(* the update lemma: one actor replaces [old] by [new]; how the queue state may move with it *)
Lemma own_update s s' a old new :
  Inv_own s -> stacks s !! a = Some old -> stacks s' = <[a := new]> (stacks s) ->
  b2n (owned s'.(qs)) + cntf marker old = b2n (owned s.(qs)) + cntf marker new ->
  (s'.(qs) = WaitingForUnpark -> (s.(qs) = WaitingForUnpark /\ cntf parkfr new = cntf parkfr old) \/ cntf parkfr new >= 1) ->
  s'.(qs) <> Panicked ->
  Inv_own s'.
Proof.
  intros [I1 I2 I3] Ha Hs Hm Hp Hn.
  pose proof (np_upd marker s s' a old new Ha Hs) as E1.
  pose proof (np_upd parkfr s s' a old new Ha Hs) as E2.
  assert (Hc : np marker s' = b2n (owned (qs s'))) by lia.
  split; [done| |done].
  intros Hw. pose proof (park_le_marker s'). rewrite Hc, Hw in H. cbn in H.
  pose proof (npl_ge parkfr _ _ _ Ha) as Hge0. fold (np parkfr s) in Hge0.
  destruct (Hp Hw) as [[Hw0 Heq]|Hge]; [specialize (I2 Hw0); lia|lia].
Qed.

Definition workfr (fr : frame) : bool := marker fr && negb (parkfr fr).
Lemma cntf_split st : cntf marker st = cntf parkfr st + cntf workfr st.
Proof. induction st as [|x st IH]; cbn; [done|]. rewrite IH. unfold workfr. destruct x; cbn; lia. Qed.
Lemma npl_split L : npl marker L = npl parkfr L + npl workfr L.
Proof. induction L as [|x L IH]; cbn; [done|]. rewrite IH, cntf_split. lia. Qed.

Lemma b2n_owned_le st : b2n (owned st) <= 1. Proof. destruct (owned st); cbn; lia. Qed.

(* the actor whose stack carries a marker is the runner; at a working (non-park) marker the state is Running or Awoken *)
Lemma runner_owned s a st : Inv_own s -> stacks s !! a = Some st -> cntf marker st >= 1 -> owned s.(qs) = true.
Proof.
  intros [I1 _ _] Ha Hm. pose proof (npl_ge marker _ _ _ Ha) as H. fold (np marker s) in H. rewrite I1 in H.
  destruct (owned (qs s)); [done|cbn in H; lia].
Qed.
Lemma runner_working s a st : Inv_own s -> stacks s !! a = Some st -> cntf workfr st >= 1 ->
  owned s.(qs) = true /\ s.(qs) <> WaitingForUnpark.
Proof.
  intros HI Ha Hw. assert (Hm : cntf marker st >= 1) by (rewrite cntf_split; lia).
  split; [by eapply runner_owned|]. intros Hq. destruct HI as [I1 I2 _]. specialize (I2 Hq).
  pose proof (npl_ge workfr _ _ _ Ha) as H. unfold np in *. rewrite npl_split, Hq in I1. cbn in I1. lia.
Qed.
Lemma not_owned_no_marker s a st : Inv_own s -> stacks s !! a = Some st -> owned s.(qs) = false -> cntf marker st = 0.
Proof.
  intros HI Ha Ho. destruct (decide (cntf marker st = 0)); [done|].
  assert (owned (qs s) = true) by (eapply runner_owned; [done..|lia]). congruence.
Qed.

Lemma cntf_wake_frames P ws : (forall w, P (FWake w) = false) -> cntf P (wake_frames ws) = 0.
Proof. intros H. induction ws as [|w ws IH]; [done|]. change (cntf P (FWake w :: wake_frames ws) = 0). cbn [cntf]. by rewrite H, IH. Qed.
Lemma cntf_opt_wake P ow : (forall w, P (FWake w) = false) -> cntf P (opt_wake ow) = 0.
Proof. intros H. destruct ow; cbn; [by rewrite H|done]. Qed.

Ltac tbl_facts HT :=
  repeat match goal with
  | E : t_desync _ _ = (_, _) |- _ => apply (oc_desync _ HT) in E; destruct E as [E ?]
  | E : t_resched _ _ _ = (_, _) |- _ => apply (oc_resched _ HT) in E
  | E : t_wake_queue _ _ = (_, _) |- _ => apply (oc_wq _ HT) in E
  | E : t_sync _ _ _ = (_, _) |- _ => apply (oc_sync _ HT) in E; cbn in E
  | E : t_poll _ _ _ = (_, _) |- _ => apply (oc_poll _ HT) in E; cbn in E
  | E : t_next _ _ = Some _ |- _ => apply (oc_next _ HT) in E
  | E : t_claim _ _ = Some _ |- _ => apply (oc_claim _ HT) in E
  end.

Section Pres.
  Context (T : ftables) (HT : own_cond T).

  Lemma step_own s a s' : Inv_own s -> step T s a = Some s' -> Inv_own s'.
  Proof.
    intros HI Hstep. step_split Hstep Ea Est.
    all: try discriminate Hstep.
    all: injection Hstep as <-.
    all: pop_cont_split.
    all: pose proof (stacks_lookup _ _ _ Ea) as Hst; rewrite Est in Hst.
    all: eapply (own_update s _ a _ _ HI Hst); [ solve_stacks | .. ].
    all: try (assert (Hrun := runner_working s a _ HI Hst ltac:(cbn; lia)); destruct Hrun as [Hrun Hnw]).
    all: try (assert (Hrun := runner_owned s a _ HI Hst ltac:(cbn; lia))).
    all: tbl_facts HT.
    all: pose proof (io_nopanic _ HI) as Hnp.
    all: try (pose proof (oc_wt _ HT (qs s)) as Hwt).
    all: try (pose proof (oc_drain_pend _ HT (qs s) Hrun Hnw) as Hdp; cbn zeta in Hdp).
    all: try (match goal with E : t_drain_fin _ _ _ = _ |- _ => apply (oc_drain_fin _ HT _ _ _ _ Hrun Hnw) in E end).
    all: try (match goal with E : t_roj_pend _ _ = _ |- _ => destruct (oc_roj_pend _ HT _ Hrun Hnw) as (? & Hrp1 & Hrp2); rewrite Hrp1 in E; inversion E; subst end).
    all: try (match goal with E : t_roj_park _ _ = PKPanic |- _ => exfalso; by apply (oc_roj_park _ HT _ Hrun) end).
    all: unfold keeps in *.
    all: cbn -[cntf]; rewrite ?cntf_app, ?cntf_wake_frames, ?cntf_opt_wake by done; cbn.
    all: try (first [lia | congruence | intuition congruence]; fail).
    all: repeat match goal with H : _ /\ _ |- _ => destruct H end.
    all: subst.
    all: try match goal with k : kont |- _ => destruct k end.
    all: cbn -[cntf] in *.
    all: repeat match goal with H : owned _ = _ |- _ => rewrite H in * end.
    all: cbn -[cntf] in *.
    all: try (first [lia | congruence | intuition congruence]; fail).
    all: try (match goal with q : qstate |- _ => destruct q; cbn in *; first [lia | congruence | intuition congruence] end; fail).
    all: try (match goal with E : t_roj_park _ _ = PKBreak |- _ => apply (oc_roj_break _ HT) in E end; intuition congruence).
    all: destruct (t_drain_pend T (qs s)) eqn:Edp; cbn in *; try discriminate; intuition (try congruence; try lia).
  Qed.
End Pres.

Lemma np_init P scripts npool nev : (forall sc, P (FTop sc) = false) -> P FPIdle = false -> np P (init scripts npool nev) = 0.
Proof.
  intros H1 H2. unfold np, stacks, init; cbn. rewrite fmap_app, <- list_fmap_compose, fmap_replicate. cbn.
  induction scripts as [|sc scripts IH]; cbn.
  - induction npool as [|n IHn]; cbn; [done|]. by rewrite H2, IHn.
  - by rewrite H1, IH.
Qed.
Lemma init_own scripts npool nev : Inv_own (init scripts npool nev).
Proof. split; [by rewrite np_init|done|done]. Qed.

Lemma run_inv (I : state -> Prop) T : (forall s a s', I s -> step T s a = Some s' -> I s') ->
  forall tr s s', I s -> run T s tr = Some s' -> I s'.
Proof.
  intros Hstep tr. unfold run. induction tr as [|a tr IH]; intros s s' HI; cbn.
  - by intros [= <-].
  - destruct (step T s a) as [s1|] eqn:E; cbn.
    + apply IH. by eapply Hstep.
    + clear. induction tr; cbn; [done|done].
Qed.

Section Reach.
  Context (T : ftables) (HT : own_cond T).
  Theorem reachable_own scripts npool nev tr s : run T (init scripts npool nev) tr = Some s -> Inv_own s.
  Proof. apply (run_inv Inv_own T); [intros; by eapply step_own|apply init_own]. Qed.

  (* at most one marker frame in the whole system: two different actors never both run the queue,
     and an actor never runs it twice (no nested claim) *)
  Corollary exclusive scripts npool nev tr s a b sa sb :
    run T (init scripts npool nev) tr = Some s ->
    stacks s !! a = Some sa -> stacks s !! b = Some sb -> cntf marker sa >= 1 -> cntf marker sb >= 1 ->
    a = b /\ cntf marker sa = 1.
  Proof.
    intros Hr Ha Hb Hca Hcb. apply reachable_own in Hr. destruct Hr as [I1 _ _].
    pose proof (b2n_owned_le (qs s)) as Hle. rewrite <- I1 in Hle.
    pose proof (npl_ge marker _ _ _ Ha) as H1. fold (np marker s) in H1.
    split; [|lia]. destruct (decide (a = b)) as [|Hne]; [done|]. exfalso.
    assert (H2 := npl_insert marker (stacks s) a sa [] Ha). cbn in H2.
    assert (Hb' : <[a := []]> (stacks s) !! b = Some sb) by (by rewrite list_lookup_insert_ne).
    pose proof (npl_ge marker _ _ _ Hb') as H3. unfold np in *. lia.
  Qed.
End Reach.
