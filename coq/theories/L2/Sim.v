(* simulation helpers and Examples (vm_compute only) *)
From stdpp Require Import list numbers option.
From RecordUpdate Require Import RecordUpdate.
From L2 Require Import Model Inst.

Definition G := gen_ftables.
Definition nact (s : state) := length s.(actors).
Definition enabled_list (s : state) : list nat := filter (fun a => enabled G s a = true) (seq 0 (nact s)).

(* pseudo-random scheduler: linear congruential choice among the enabled actors; returns the final state and the trace *)
Fixpoint rrun (fuel : nat) (seed : nat) (s : state) (acc : list nat) : state * list nat * bool :=
  match fuel with
  | 0 => (s, rev acc, false)
  | S n => match enabled_list s with
           | [] => (s, rev acc, true)
           | en => let seed' := (seed * 1103 + 12345) mod 65521 in
                   let a := default 0 (en !! ((seed' / 7) mod length en)) in
                   match step G s a with
                   | Some s' => rrun n seed' s' (a :: acc)
                   | None => (s, rev acc, false)
                   end
           end
  end.
Definition final (scripts : list (list cop)) npool nev seed := rrun 2000 seed (init scripts npool nev) [].
Definition complete (s : state) : bool :=
  bool_decide (s.(qs) = Idle) && bool_decide (s.(jobs) = []) &&
  forallb (fun ac => match ac.(stack) with [FTop []] | [FPIdle] => true | _ => false end) s.(actors).
Definition ok (scripts : list (list cop)) npool nev seed : bool :=
  let '(s, _, term) := final scripts npool nev seed in term && complete s.
Definition all_ok scripts npool nev (n : nat) : bool := forallb (ok scripts npool nev) (seq 0 n).
Definition starts (s : state) : list nat := omap (fun e => match e with GStart o => Some o | _ => None end) (rev s.(log)).

(* 1. pool context: future job awaits event 0, fired by a second caller at an arbitrary moment; a desync behind it *)
Definition P1 := [[OFuture [PTouch; PAwait 0; PTouch] UDetach; ODesync]; [OFire 0]].
Example sim_pool : all_ok P1 1 1 200 = true. Proof. vm_compute. reflexivity. Qed.
(* 2. sync context: the sync caller drains the queue (no pool runner at all) and parks in WaitingForUnpark *)
Definition P2 := [[OFuture [PAwait 0] UDetach; OSync]; [OFire 0]].
Example sim_sync : all_ok P2 0 1 200 = true. Proof. vm_compute. reflexivity. Qed.
(* 3. poll context: the awaiting task drains the queue itself (no pool runner) *)
Definition P3 := [[OFuture [PAwait 0; PTouch] UAwait]; [OFire 0]].
Example sim_poll : all_ok P3 0 1 200 = true. Proof. vm_compute. reflexivity. Qed.
