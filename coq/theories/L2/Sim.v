(* simulation helpers and Examples (vm_compute only) *)
From stdpp Require Import list numbers option.
From RecordUpdate Require Import RecordUpdate.
From L2 Require Import Model GenTables.

Definition G := gen_ftables.
Definition nact (s : state) := length s.(actors).
Definition enabled_list (s : state) : list nat := filter (fun a => enabled G s a = true) (seq 0 (nact s)).

(* pseudo-random scheduler: linear congruential choice among the enabled actors; returns the final state and the trace *)
Fixpoint rrun (fuel : nat) (seed : N) (s : state) (acc : list nat) : state * list nat * bool :=
  match fuel with
  | 0 => (s, rev acc, false)
  | S n => match enabled_list s with
           | [] => (s, rev acc, true)
           | en => let seed' := ((seed * 1103 + 12345) mod 65521)%N in
                   let a := default 0 (en !! (N.to_nat ((seed' / 7) mod N.of_nat (length en))%N)) in
                   match step G s a with
                   | Some s' => rrun n seed' s' (a :: acc)
                   | None => (s, rev acc, false)
                   end
           end
  end.
Definition final (scripts : list (list cop)) npool nev (seed : nat) := rrun 2000 (N.of_nat seed) (init scripts npool nev) [].
Definition complete (s : state) : bool :=
  bool_decide (s.(qs) = Idle) && bool_decide (s.(jobs) = []) &&
  forallb (fun ac => match ac.(stack) with [FTop []] | [FPIdle] => true | _ => false end) s.(actors).
Definition ok (scripts : list (list cop)) npool nev seed : bool :=
  let '(s, _, term) := final scripts npool nev seed in term && complete s.
Definition all_ok scripts npool nev (n : nat) : bool := forallb (ok scripts npool nev) (seq 0 n).
Definition starts (s : state) : list nat := omap (fun e => match e with GStart o => Some o | _ => None end) (rev s.(log)).

(* 1. pool context: future job awaits event 0, fired by a second caller at an arbitrary moment; a desync behind it *)
Definition P1 := [[OFuture [PTouch; PAwait 0; PTouch] UDetach; ODesync]; [OFire 0]].
Example sim_pool : all_ok P1 1 1 200 = true. Proof. vm_compute. reflexivity. Qed.
(* 2. sync context: the sync caller drains the queue (no pool runner at all) and parks in WaitingForUnpark *)
Definition P2 := [[OFuture [PAwait 0] UDetach; OSync]; [OFire 0]].
Example sim_sync : all_ok P2 0 1 200 = true. Proof. vm_compute. reflexivity. Qed.
(* 3. poll context: the awaiting task drains the queue itself (no pool runner) *)
Definition P3 := [[OFuture [PAwait 0; PTouch] UAwait]; [OFire 0]].
Example sim_poll : all_ok P3 0 1 200 = true. Proof. vm_compute. reflexivity. Qed.

(* did some state along the run satisfy p? *)
Fixpoint rsee (p : state -> bool) (fuel : nat) (seed : N) (s : state) : bool :=
  p s || match fuel with
  | 0 => false
  | S n => match enabled_list s with
           | [] => false
           | en => let seed' := ((seed * 1103 + 12345) mod 65521)%N in
                   let a := default 0 (en !! (N.to_nat ((seed' / 7) mod N.of_nat (length en))%N)) in
                   match step G s a with Some s' => rsee p n seed' s' | None => false end
           end
  end.
Definition sees p scripts npool nev (n : nat) : bool :=
  existsb (fun seed => rsee p 2000 (N.of_nat seed) (init scripts npool nev)) (seq 0 n).
Definition q_is (st : qstate) (s : state) : bool := bool_decide (s.(qs) = st).
Definition dw_is (st : dwstate) (s : state) : bool := existsb (fun c => bool_decide (c.1 = st)) s.(dws).

(* the wake arrives during the poll / while parking (latched) / after parking, in each context *)
Example see_pool_awoken : sees (q_is AwokenWhileRunning) P1 1 1 200 = true. Proof. vm_compute. reflexivity. Qed.
Example see_pool_parked : sees (q_is WaitingForWake) P1 1 1 200 = true. Proof. vm_compute. reflexivity. Qed.
Example see_sync_awoken : sees (q_is AwokenWhileRunning) P2 0 1 200 = true. Proof. vm_compute. reflexivity. Qed.
Example see_sync_parked : sees (q_is WaitingForUnpark) P2 0 1 200 = true. Proof. vm_compute. reflexivity. Qed.
Example see_poll_woken_early : sees (dw_is DWWoken) P3 0 1 200 = true. Proof. vm_compute. reflexivity. Qed.
Example see_poll_willwake : sees (dw_is DWWillWake) P3 0 1 200 = true. Proof. vm_compute. reflexivity. Qed.
Example see_poll_parked : sees (q_is (WaitingForPoll 0)) P3 0 1 200 = true. Proof. vm_compute. reflexivity. Qed.

(* 4. two futures on one queue awaited by two tasks, two events, a pool runner racing the pollers *)
Definition P4 := [[OFuture [PAwait 0] UAwait]; [OFuture [PAwait 1; PTouch] UAwait]; [OFire 1; OFire 0]].
Example sim_two_futures : all_ok P4 1 2 300 = true. Proof. vm_compute. reflexivity. Qed.
(* 5. stale wakers: the job is first polled by the polling task (DrainWaker registered with event 0), the task drops the future,
      the pool runner re-polls the job and registers WakeQueue as well; both wakers are called when the event fires *)
Definition P5 := [[OFuture [PAwait 0; PAwait 1] (UDropAfter 2); ODesync]; [OFire 0; OFire 1]].
Example sim_stale : all_ok P5 1 2 300 = true. Proof. vm_compute. reflexivity. Qed.
(* 6. suspend / resume: a sync issued during the suspension, resumed by firing event 0 *)
Definition P6 := [[ODesync; OSuspend 0 UAwait; OFire 0]; [OSync]].
Example sim_suspend : all_ok P6 1 1 300 = true. Proof. vm_compute. reflexivity. Qed.
(* 7. SchedulerFuture::sync() *)
Definition P7 := [[OFuture [PAwait 0] USync; ODesync]; [OFire 0]].
Example sim_fsync : all_ok P7 1 1 300 = true. Proof. vm_compute. reflexivity. Qed.
