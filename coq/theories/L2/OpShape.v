(* stack shape of callers: the script frame FTop (pool: FPIdle) is the bottom frame, and at most one operation-level frame of the
   operation in progress is on the stack (so a parked sync caller has no await frame below it, and vice versa) *)
From stdpp Require Import list numbers option.
From RecordUpdate Require Import RecordUpdate.
From L2 Require Import Model Base Own Shape.
#[global] Unset Lia Cache.

Definition botfr (fr : frame) : bool := match fr with FTop _ | FPIdle => true | _ => false end.
(* what follows the first bottom frame *)
Fixpoint afterbot (st : list frame) : list frame := match st with [] => [] | fr :: r => if botfr fr then r else afterbot r end.
Definition opfr (fr : frame) : bool :=
  match fr with
  | FUse _ _ | FAwRet _ | FPark _ | FDropRet _ _ | FFS1 _
  | FS1 _ _ | FClosure _ _ | FSIidle | FSDpush _ _ | FSDloop | FSDidle | FSBreg _ _ | FSBpush _ _ | FSBwait | FSBdone
  | FROdeq | FROpend _ | FROcheck _ | FROpark _ | FJob _ _ KRoj => true
  | _ => false
  end.
Definition opshape (st : list frame) : Prop := afterbot st = [] /\ cntf opfr st <= 1.
Definition Inv_op (s : state) : Prop := forall c st, stacks s !! c = Some st -> opshape st.

Lemma op_update s s' a old new :
  Inv_op s -> stacks s !! a = Some old -> stacks s' = <[a := new]> (stacks s) -> (opshape old -> opshape new) -> Inv_op s'.
Proof.
  intros HI Ha Hs Hn c st Hc. rewrite Hs in Hc. destruct (decide (c = a)) as [->|Hne].
  - rewrite list_lookup_insert in Hc by (by eapply lookup_lt_Some). injection Hc as <-. apply Hn. by eapply HI.
  - rewrite list_lookup_insert_ne in Hc by done. by eapply HI.
Qed.
Lemma afterbot_nobot pre r : cntf botfr pre = 0 -> afterbot (pre ++ r) = afterbot r.
Proof. induction pre as [|x pre IH]; cbn; [done|]. destruct (botfr x); [lia|]. intros H. by apply IH. Qed.
Lemma afterbot_opfr st : afterbot st = [] -> botfr (default FD2 (head st)) = true -> cntf opfr st = 0.
Proof. destruct st as [|x r]; cbn; [done|]. intros H Hb. rewrite Hb in H. subst r. by destruct x. Qed.
