(* ([FSBdone], the last section of sync_background, is NOT counted: during the waiter's take-over it lies below the frames of the
   sync_drain-style loop [FSDloop ..]) *)
(* stack shape of callers: the script frame FTop (pool: FPIdle) is the bottom frame, and at most one operation-level frame of the
   operation in progress is on the stack (so a parked sync caller has no await frame below it, and vice versa) *)
From stdpp Require Import list numbers option.
From RecordUpdate Require Import RecordUpdate.
From L2 Require Import Model Base Own Shape.
#[global] Unset Lia Cache.

Definition botfr (fr : frame) : bool := match fr with FTop _ | FPIdle => true | _ => false end.
(* what follows the first bottom frame *)
Fixpoint afterbot (st : list frame) : list frame := match st with [] => [] | fr :: r => if botfr fr then r else afterbot r end.
Definition opfr (fr : frame) : bool :=
  match fr with
  | FUse _ _ | FAwRet _ | FPark _ | FDropRet _ _ | FFS1 _ | FY _ _ _ _
  | FS1 _ _ | FClosure _ _ | FSIidle | FSDpush _ _ | FSDloop | FSDidle | FSBreg _ _ | FSBpush _ _ | FSBwait | FSBclaim
  | FROdeq | FROpend _ | FROcheck _ | FROpark _ | FJob _ _ KRoj => true
  | _ => false
  end.
Definition opshape (st : list frame) : Prop := afterbot st = [] /\ cntf opfr st <= 1.
Definition Inv_op (s : state) : Prop := forall c st, stacks s !! c = Some st -> opshape st.

Lemma op_update s s' a old new :
  Inv_op s -> stacks s !! a = Some old -> stacks s' = <[a := new]> (stacks s) -> (opshape old -> opshape new) -> Inv_op s'.
Proof.
  intros HI Ha Hs Hn c st Hc. rewrite Hs in Hc. destruct (decide (c = a)) as [->|Hne].
  - rewrite list_lookup_insert in Hc by (by eapply lookup_lt_Some). injection Hc as <-. apply Hn. by eapply HI.
  - rewrite list_lookup_insert_ne in Hc by done. by eapply HI.
Qed.
Lemma afterbot_nobot pre r : cntf botfr pre = 0 -> afterbot (pre ++ r) = afterbot r.
Proof. induction pre as [|x pre IH]; cbn; [done|]. destruct (botfr x); [lia|]. intros H. by apply IH. Qed.
Lemma afterbot_opfr st : afterbot st = [] -> botfr (default FD2 (head st)) = true -> cntf opfr st = 0.
Proof. destruct st as [|x r]; cbn; [done|]. intros H Hb. rewrite Hb in H. subst r. by destruct x. Qed.

Section Pres.
  Context (T : ftables).
  Lemma step_op s a s' : Inv_op s -> step T s a = Some s' -> Inv_op s'.
  Proof.
    intros HI Hstep. step_split Hstep Ea Est.
    all: try discriminate Hstep.
    all: injection Hstep as <-.
    all: pop_cont_split.
    all: pose proof (stacks_lookup _ _ _ Ea) as Hst; rewrite Est in Hst.
    all: try match goal with k : kont |- _ => destruct k end.
    all: eapply (op_update s _ a _ _ HI Hst); [solve_stacks|].
    all: unfold opshape; cbn; intros [H1 H2]; try subst rest.
    all: rewrite ?afterbot_nobot by (first [by apply cntf_opt_wake|by apply cntf_wake_frames]).
    all: rewrite ?cntf_app, ?cntf_opt_wake, ?cntf_wake_frames by done; cbn.
    all: try (split; [done|lia]).
  Qed.
End Pres.
Lemma init_op scripts npool nev : Inv_op (init scripts npool nev).
Proof.
  intros c st Hc. unfold stacks, init in Hc; cbn in Hc. rewrite list_lookup_fmap in Hc.
  destruct ((((fun sc => mk_actor [FTop sc]) <$> scripts) ++ replicate npool (mk_actor [FPIdle])) !! c) as [ac|] eqn:E; [|done].
  cbn in Hc. injection Hc as <-. apply elem_of_list_lookup_2 in E. apply elem_of_app in E as [E|E].
  - apply elem_of_list_fmap in E as (sc & -> & _). split; cbn; [done|lia].
  - apply elem_of_replicate in E as [-> _]. split; cbn; [done|lia].
Qed.
(* uses *)
Lemma op_top_only s a fr rest : Inv_op s -> stacks s !! a = Some (fr :: rest) -> opfr fr = true -> cntf opfr rest = 0.
Proof. intros HI Ha Ho. destruct (HI a _ Ha) as [_ H]. cbn in H. rewrite Ho in H. lia. Qed.
Lemma op_bot_alone s a fr rest : Inv_op s -> stacks s !! a = Some (fr :: rest) -> botfr fr = true -> rest = [].
Proof. intros HI Ha Hb. destruct (HI a _ Ha) as [H _]. cbn in H. by rewrite Hb in H. Qed.
