(* Zero pool: the combined invariant, its reachability, and the terminal theorem: the awaiting caller finishes. *)
From stdpp Require Import list numbers option.
From RecordUpdate Require Import RecordUpdate.
From L2 Require Import Model Base Own Jobs Shape OpShape DwInv Pool Fut Wake WakeInv WakeLem Term Task TaskInv Complete Zero ZeroInv ZeroCover ZeroTz.
#[global] Unset Lia Cache.

Record Inv_zero (s : state) : Prop := {
  iz_all2 : Inv_all2 s;
  iz_zp : Inv_zp s;
  iz_rn2 : forall c st fr, stacks s !! c = Some st -> fr ∈ st -> rn2_ok s fr = true;
  iz_zq : Inv_zq s;
  iz_tz : Inv_tz s }.

Lemma init_stacks0 scripts nev : stacks (init scripts 0 nev) = (fun sc => [FTop sc]) <$> scripts.
Proof. unfold stacks, init; cbn. rewrite app_nil_r, <- list_fmap_compose. done. Qed.

Lemma init_zero sc0 others nev : forallb awaitb sc0 = true -> Forall (fun sc => forallb fireb sc = true) others ->
  Inv_zero (init (sc0 :: others) 0 nev).
Proof.
  intros H0 Ho.
  assert (Hst : forall c st, stacks (init (sc0 :: others) 0 nev) !! c = Some st ->
            (c = 0 /\ st = [FTop sc0]) \/ (c <> 0 /\ exists sc, st = [FTop sc] /\ forallb fireb sc = true)).
  { intros c st. rewrite init_stacks0. destruct c as [|c]; [cbn; intros [= <-]; by left|].
    rewrite fmap_cons, lookup_cons. rewrite list_lookup_fmap. destruct (others !! c) as [sc|] eqn:E; [|done]. cbn. intros [= <-]. right. split; [done|].
    exists sc. split; [done|]. eapply (Forall_lookup_1 _ _ _ _ Ho E). }
  split.
  - apply init_all2.
  - split; [|done]. intros c st Hc. destruct (Hst c st Hc) as [[-> ->]|(Hne & sc & -> & Hf)]; unfold stk_ok.
    + cbn. by rewrite H0.
    + rewrite bool_decide_false by done. cbn. by rewrite Hf.
  - intros c st fr Hc Hin. destruct (Hst c st Hc) as [[-> ->]|(Hne & sc & -> & Hf)]; by apply elem_of_list_singleton in Hin as ->.
  - split; [done|]. intros f Hq. discriminate Hq.
  - intros st0 f Hc Haw. destruct (Hst 0 st0 Hc) as [[_ ->]|[? _]]; [|done].
    destruct Haw as [H|H]; by apply elem_of_list_singleton in H.
Qed.

Section Reach0.
  Context (T : ftables) (HA : all_cond T) (HZ : zero_cond T).
  Lemma step_zero s a s' : Inv_zero s -> step T s a = Some s' -> Inv_zero s'.
  Proof.
    intros [H2 HZP I2 HQ I] Hs. pose proof (i2_all _ H2) as HI.
    pose proof (ac_own _ HA) as HTo. pose proof (ac_wake _ HA) as HW.
    split.
    - by eapply step_all2.
    - by eapply step_zp.
    - eapply (step_rn2 T); try eassumption; [apply (ia_own _ HI)|apply (ia_shape _ HI)|apply (ia_fut _ HI)|apply (i2_task _ H2)].
    - eapply (step_zq T); try eassumption; [apply (ia_own _ HI)|apply (i2_op _ H2)|apply (ia_fut _ HI)].
    - eapply (step_tz T); try eassumption;
        [apply (ia_own _ HI)|apply (ia_shape _ HI)|apply (i2_op _ H2)|apply (ia_dw _ HI)|apply (ia_fut _ HI)|apply (ia_wake _ HI)].
  Qed.
  Theorem reachable_zero sc0 others nev tr s : forallb awaitb sc0 = true -> Forall (fun sc => forallb fireb sc = true) others ->
    run T (init (sc0 :: others) 0 nev) tr = Some s -> Inv_zero s.
  Proof. intros H0 Ho. apply (run_inv Inv_zero T); [intros; by eapply step_zero|by apply init_zero]. Qed.
End Reach0.

Lemma poll_needs_cont st x g : pollall st = true -> x ∈ st -> pollfam x = Some g -> cntf opfr st > 0.
Proof.
  induction st as [|y r IH]; [by intros _ ?%elem_of_nil|]. cbn. intros [Hy Hr]%andb_true_iff Hin Hp.
  apply elem_of_cons in Hin as [<-|Hin].
  - unfold adjok in Hy. rewrite Hp in Hy. destruct r as [|z r2]; [done|]. cbn. destruct z; try done; cbn; lia.
  - specialize (IH Hr Hin Hp). lia.
Qed.
Lemma pollprog2_fam x g : pollprog2 x = Some g -> pollfam x = Some g.
Proof. destruct x; try done. Qed.

Section Terminal0.
  Context (T : ftables) (HA : all_cond T).
  Context (s : state) (HZ0 : Inv_zero s) (Hterm : terminal T s) (Hfired : all_fired s).
  Let H2 := iz_all2 _ HZ0.
  Let HI := i2_all _ H2.
  Let Hnp : no_panic T s := fun a => fut_no_panic T s a (ac_own _ HA) (ia_own _ HI) (ia_fut _ HI).

  Lemma term_tcover e : tcover s e = false.
  Proof.
    destruct (tcover s e) eqn:E; [|done]. exfalso. apply tcover_iff in E as [(Hf & _)|[(c & w & Hf & _)|(c & d & w & Hf & _)]].
    - by rewrite Hfired in Hf.
    - pose proof (np_pos_wake s c w Hf) as H. by rewrite (term_npwake T s HI Hterm Hnp) in H.
    - assert (Hq : np toponly s > 0) by (apply np_pos_fsat; exists c, (FWakeWith d w); split; [done|done]).
      rewrite (term_quiet T s HI Hterm Hnp toponly) in Hq; [lia|]. intros ? ?. by right.
  Qed.

  Theorem zero_terminal st : stacks s !! 0 = Some st -> st = [FTop []].
  Proof.
    intros Hc. destruct (term_top T s HI Hterm Hnp 0 st Hc) as (fr & rest & -> & Hb).
    destruct (stacks_actor s 0 _ Hc) as (ac & Ea & Est).
    pose proof (Hterm 0) as Hs. unfold step in Hs. rewrite Ea in Hs. cbn in Hs. rewrite Est in Hs.
    pose proof (zp_stacks _ (iz_zp _ HZ0) 0 _ Hc) as Hk. unfold stk_ok in Hk. cbn in Hk.
    destruct fr; try done; cbn in Hs.
    - (* FTop [] *) destruct script; [|done]. by rewrite (op_bot_alone s 0 _ rest (i2_op _ H2) Hc eq_refl).
    - (* FPark f *) exfalso. destruct (token ac) eqn:Etok; [done|].
      assert (Htk : tokb s 0 = false) by (unfold tokb; by rewrite (toks_lookup _ _ _ Ea), Etok).
      destruct (iz_tz _ HZ0 _ f Hc ltac:(right; left)) as [(x & Hx & Hp)|[Ht|[Hu|(Hq & e & He)]]].
      + apply elem_of_cons in Hx as [->|Hx]; [discriminate Hp|].
        pose proof (if_poll _ (ia_fut _ HI) _ _ Hc) as Hpo. cbn in Hpo.
        pose proof (poll_needs_cont rest x f Hpo Hx (pollprog2_fam _ _ Hp)) as Hn.
        rewrite (op_top_only s 0 _ rest (i2_op _ H2) Hc eq_refl) in Hn. lia.
      + congruence.
      + rewrite (term_quiet T s HI Hterm Hnp (is_unpark 0)) in Hu; [lia|]. intros []; try done. by left.
      + by rewrite term_tcover in He.
  Qed.
End Terminal0.

Lemma step_stacks_len T s a s' : step T s a = Some s' -> length (stacks s') = length (stacks s).
Proof.
  intros Hstep. step_split Hstep Ea Est.
  all: try discriminate Hstep.
  all: injection Hstep as <-.
  all: match goal with |- length (stacks ?x) = _ => assert (Hs : exists new, stacks x = <[a := new]> (stacks s)) by (eexists; solve_stacks) end.
  all: destruct Hs as [new ->]; by rewrite insert_length.
Qed.
Lemma run_stacks_len T tr : forall s s', run T s tr = Some s' -> length (stacks s') = length (stacks s).
Proof.
  unfold run. induction tr as [|a tr IH]; intros s s'; cbn; [by intros [= <-]|].
  destruct (step T s a) as [s1|] eqn:E; cbn.
  - intros H. rewrite (IH _ _ H). by eapply step_stacks_len.
  - intros H. exfalso. clear -H. induction tr; cbn in H; [done|auto].
Qed.

(* C06, zero pool runners: the awaiting caller finishes its script *)
Theorem C06_zero_pool T (HA : all_cond T) (HZ : zero_cond T) sc0 others nev tr s :
  forallb awaitb sc0 = true -> Forall (fun sc => forallb fireb sc = true) others ->
  run T (init (sc0 :: others) 0 nev) tr = Some s -> terminal T s -> all_fired s -> stacks s !! 0 = Some [FTop []].
Proof.
  intros H0 Ho Hr Ht Hf. pose proof (reachable_zero T HA HZ _ _ _ _ _ H0 Ho Hr) as HZ0.
  destruct (stacks s !! 0) as [st|] eqn:E.
  - by rewrite (zero_terminal T HA s HZ0 Ht Hf st E).
  - exfalso. apply lookup_ge_None_1 in E. rewrite (run_stacks_len _ _ _ _ Hr), init_stacks0 in E. cbn in E. lia.
Qed.
Print Assumptions C06_zero_pool.
