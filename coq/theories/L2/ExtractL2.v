(* Extraction of the executable L2 model (one queue with futures) together with the tables generated from the current source.
   ExtrOcamlBasic only: bool, option, list, prod, sumbool, unit map to OCaml's; nat stays a datatype. *)
From stdpp Require Import list numbers option.
From L0 Require Import Types.
From Gen Require Import Tables.
From L2 Require Import Model GenTables.
Require Import ExtrOcamlBasic.
Extraction Language OCaml.
(* [step] = the model with the code's order facts (= stepF code_ffacts, Facts.stepF_code); stepF / gen_ffacts are extracted too so
   that a driver may replay the model with the facts read from the source *)
Extraction "l2model.ml" step stepF step_label frame_label init would_panic gen_ftables gen_ffacts code_ffacts.
