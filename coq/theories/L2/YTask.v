(* future_sync: the owner task of a SyncFuture that has returned Pending (waiting for queue_ready, or inside the user future waiting
   for an external event) is going to be woken: its task waker is registered with the cell it waits for, or a wake-up / unpark
   is in flight, or the token is there.  (In WaitingForScheduler the SyncFuture is its SchedulerFuture: Task.twf.) *)
From stdpp Require Import list numbers option.
From RecordUpdate Require Import RecordUpdate.
From L2 Require Import Model Base Own Jobs Shape OpShape DwInv Fut Wake WakeInv WakeLem WakeStep1 WakeStep2 WakeStep3 WakeStep4 WakeStep5 Task TaskInv.
#[global] Unset Lia Cache.

Definition twr (s : state) (c e : nat) : bool :=
  tokb s c || posb (np (is_unpark c) s) || posb (np (is_wake (WTask c)) s) || unfreg s e (WTask c).
Definition twr2 (s : state) (c e1 e2 : nat) : bool :=
  tokb s c || posb (np (is_unpark c) s) || posb (np (is_wake (WTask c)) s) || (unfreg s e1 (WTask c) && unfreg s e2 (WTask c)).
Definition yguar (s : state) (c : nat) (y : ydat) (st : ystate) : bool :=
  match st with
  | YQueue _ => twr s c y.(y_r)
  | YFuture (PAwait e :: _) => twr s c e
  | YFuture (PAwaitEither e1 e2 :: _) => twr2 s c e1 e2
  | _ => false
  end.
Definition yob (s : state) (c : nat) (fr : frame) : bool :=
  match fr with FY YPpend y st _ | FY YPpark y st _ => yguar s c y st | _ => true end.
Definition Inv_ytw (s : state) : Prop := forall c st fr, stacks s !! c = Some st -> fr ∈ st -> yob s c fr = true.

Lemma yob_trans s s' c fr :
  (tokb s c = true -> tokb s' c = true) ->
  (posb (np (is_unpark c) s) = true -> posb (np (is_unpark c) s') = true \/ tokb s' c = true) ->
  (posb (np (is_wake (WTask c)) s) = true -> posb (np (is_wake (WTask c)) s') = true \/ posb (np (is_unpark c) s') = true) ->
  (forall e, unfreg s e (WTask c) = true -> unfreg s' e (WTask c) = true \/ posb (np (is_wake (WTask c)) s') = true) ->
  yob s c fr = true -> yob s' c fr = true.
Proof.
  intros Ht Hu Hw He.
  assert (H1 : forall e, twr s c e = true -> twr s' c e = true).
  { intros e. unfold twr. rewrite !orb_true_iff. intros [[[H|H]|H]|H].
    - left; left; left. by apply Ht.
    - destruct (Hu H); [left; left; by right|left; left; by left].
    - destruct (Hw H); [left; by right|left; left; by right].
    - destruct (He e H); [by right|left; by right]. }
  assert (H2 : forall e1 e2, twr2 s c e1 e2 = true -> twr2 s' c e1 e2 = true).
  { intros e1 e2. unfold twr2. rewrite !orb_true_iff, !andb_true_iff. intros [[[H|H]|H]|[Ha Hb]].
    - left; left; left. by apply Ht.
    - destruct (Hu H); [left; left; by right|left; left; by left].
    - destruct (Hw H); [left; by right|left; left; by right].
    - destruct (He e1 Ha); [|left; by right]. destruct (He e2 Hb); [by right|left; by right]. }
  destruct fr; try done. destruct pc; try done; cbn; destruct st as [b|[|[] b]]; try done; try apply H1; apply H2.
Qed.
Lemma ytw_update s s' a old new :
  stacks s !! a = Some old -> stacks s' = <[a := new]> (stacks s) -> Inv_ytw s ->
  (forall fr, fr ∈ new -> fr ∈ old \/ yob s' a fr = true) ->
  (forall c fr, c < length (stacks s) -> (c = a -> fr ∈ new /\ fr ∈ old) -> yob s c fr = true -> yob s' c fr = true) ->
  Inv_ytw s'.
Proof.
  intros Ha Hs HI Hnew Hoth c st fr Hc Hin. rewrite Hs in Hc. destruct (decide (c = a)) as [->|Hne].
  - rewrite list_lookup_insert in Hc by (by eapply lookup_lt_Some). injection Hc as <-.
    destruct (Hnew fr Hin) as [Ho|?]; [|done]. apply Hoth; [by eapply lookup_lt_Some|done|]. by eapply HI.
  - rewrite list_lookup_insert_ne in Hc by done. apply Hoth; [by eapply lookup_lt_Some|done|]. by eapply HI.
Qed.
Lemma isy_opfr fr : (match fr with FY _ _ _ _ => True | _ => False end) -> opfr fr = true. Proof. by destruct fr. Qed.
(* an obligated frame below an operation-level top frame does not exist *)
Lemma yob_rest_trivial s a fr0 rest s' c fr : Inv_op s -> stacks s !! a = Some (fr0 :: rest) -> opfr fr0 = true -> fr ∈ rest -> yob s' c fr = true.
Proof.
  intros HP Hst Ho Hin. pose proof (op_top_only _ _ _ _ HP Hst Ho) as Hz. pose proof (cntf_zero_all _ _ Hz _ Hin) as Hf.
  destruct fr; try done.
Qed.

Lemma tokb_settoken_true s c c0 : tokb s c0 = true -> tokb (settoken s c true) c0 = true.
Proof.
  unfold tokb. rewrite toks_settoken. destruct (decide (c0 = c)) as [->|Hne]; [|by rewrite list_lookup_insert_ne].
  destruct (toks s !! c) eqn:E; [|done]. intros _. rewrite list_lookup_insert; [done|by eapply lookup_lt_Some].
Qed.
Lemma tokb_settoken_eq s c : c < length (stacks s) -> tokb (settoken s c true) c = true.
Proof. intros H. unfold tokb. rewrite toks_settoken, list_lookup_insert; [done|]. unfold toks, stacks in *. rewrite fmap_length in H. by rewrite fmap_length. Qed.
(* a registered task waker survives the registration of further wakers, the replacement of the context waker of a oneshot, and
   the discarding of another task's receiver waker *)
Lemma unfreg_done_task s e w e' c : unfreg s e' (WTask c) = true ->
  unfreg (setev s e (getev s e <| wakers := w :: List.filter is_anytask (getev s e).(wakers) |>)) e' (WTask c) = true.
Proof.
  unfold unfreg. intros [Hf Hin]%andb_true_iff. apply negb_true_iff in Hf. destruct (decide (e' = e)) as [->|Hne].
  - rewrite getev_setev_eq by (by apply getev_fired_range). cbn. rewrite Hf. cbn. apply bool_decide_eq_true in Hin.
    apply bool_decide_eq_true. right. apply elem_of_list_In, filter_In. split; [by apply elem_of_list_In|done].
  - rewrite getev_setev_ne by done. by rewrite Hf, Hin.
Qed.
Lemma unfreg_unreg_other s e a e' c : c <> a -> unfreg s e' (WTask c) = true ->
  unfreg (setev s e (getev s e <| wakers := List.filter (fun w => negb (is_task a w)) (getev s e).(wakers) |>)) e' (WTask c) = true.
Proof.
  intros Hca. unfold unfreg. intros [Hf Hin]%andb_true_iff. apply negb_true_iff in Hf. destruct (decide (e' = e)) as [->|Hne].
  - rewrite getev_setev_eq by (by apply getev_fired_range). cbn. rewrite Hf. cbn. apply bool_decide_eq_true in Hin.
    apply bool_decide_eq_true. apply elem_of_list_In, filter_In. split; [by apply elem_of_list_In|]. cbn.
    apply negb_true_iff, Nat.eqb_neq. done.
  - rewrite getev_setev_ne by done. by rewrite Hf, Hin.
Qed.
(* the owner of a oneshot receiver polls again: its waker is replaced *)
Lemma unfreg_rereg_self s e a : (getev s e).(fired) = false ->
  unfreg (setev s e (getev s e <| wakers := WTask a :: List.filter (fun w => negb (is_task a w)) (getev s e).(wakers) |>)) e (WTask a) = true.
Proof.
  intros Hf. unfold unfreg. rewrite getev_setev_eq by (by apply getev_fired_range). cbn. rewrite Hf. cbn. apply bool_decide_eq_true. left.
Qed.
Lemma unfreg_rereg_other s e a e' c : c <> a -> unfreg s e' (WTask c) = true ->
  unfreg (setev s e (getev s e <| wakers := WTask a :: List.filter (fun w => negb (is_task a w)) (getev s e).(wakers) |>)) e' (WTask c) = true.
Proof.
  intros Hca. unfold unfreg. intros [Hf Hin]%andb_true_iff. apply negb_true_iff in Hf. destruct (decide (e' = e)) as [->|Hne].
  - rewrite getev_setev_eq by (by apply getev_fired_range). cbn. rewrite Hf. cbn. apply bool_decide_eq_true in Hin.
    apply bool_decide_eq_true. right. apply elem_of_list_In, filter_In. split; [by apply elem_of_list_In|]. cbn.
    apply negb_true_iff, Nat.eqb_neq. done.
  - rewrite getev_setev_ne by done. by rewrite Hf, Hin.
Qed.
Lemma unfreg_rereg_mono s e a e' c : unfreg s e' (WTask c) = true ->
  unfreg (setev s e (getev s e <| wakers := WTask a :: List.filter (fun w => negb (is_task a w)) (getev s e).(wakers) |>)) e' (WTask c) = true.
Proof.
  intros Hu. destruct (decide (c = a)) as [->|Hne]; [|by apply unfreg_rereg_other].
  destruct (decide (e' = e)) as [->|Hne].
  - apply unfreg_rereg_self. unfold unfreg in Hu. apply andb_true_iff in Hu as [Hf _]. by apply negb_true_iff in Hf.
  - unfold unfreg in *. by rewrite getev_setev_ne.
Qed.
(* the event fires: a registered task waker is now in flight on the firing thread *)
Lemma unfreg_fired s s' a old post e e' c :
  stacks s !! a = Some old -> stacks s' = <[a := wake_frames (rev (getev s e).(wakers)) ++ post]> (stacks s) ->
  (forall x, x <> e -> getev s' x = getev s x) ->
  unfreg s e' (WTask c) = true -> unfreg s' e' (WTask c) = true \/ posb (np (is_wake (WTask c)) s') = true.
Proof.
  intros Ha Hs Hev Hu. destruct (decide (e' = e)) as [->|Hne].
  - right. unfold unfreg in Hu. apply andb_true_iff in Hu as [_ Hin]. apply bool_decide_eq_true in Hin.
    apply (np_pos_wake s' a). eapply fsat_new; [exact Ha|exact Hs|]. apply elem_of_app. left. apply in_wake_frames. by apply elem_of_rev.
  - left. unfold unfreg in *. by rewrite Hev.
Qed.

Lemma unfreg_alloc s (s' : state) l e w : s'.(evs) = s.(evs) ++ l -> unfreg s e w = true -> unfreg s' e w = true.
Proof.
  intros H Hu. unfold unfreg in *. assert (Hlt : e < length (evs s)).
  { apply andb_true_iff in Hu as [Hf _]. apply negb_true_iff in Hf. by apply getev_fired_range. }
  unfold getev in *. by rewrite H, lookup_app_l.
Qed.
Lemma getev_reg_fired s e w e' : (getev (setev s e (getev s e <| wakers := w :: (getev s e).(wakers) |>)) e').(fired) = (getev s e').(fired).
Proof.
  destruct (decide (e' = e)) as [->|Hne]; [|by rewrite getev_setev_ne].
  destruct (decide (e < length (evs s))); [by rewrite getev_setev_eq|]. unfold getev, setev; cbn. by rewrite list_insert_ge by lia.
Qed.

Ltac mem_splitY Hin :=
  rewrite ?elem_of_app, ?elem_of_cons in Hin;
  repeat match type of Hin with _ \/ _ => destruct Hin as [Hin|Hin] end.
Lemma in_opt_wakeY fr o : fr ∈ opt_wake o -> exists w, fr = FWake w.
Proof. destruct o; cbn; [|by intros ?%elem_of_nil]. intros ->%elem_of_list_singleton. by eexists. Qed.
Lemma in_wake_framesY fr ws : fr ∈ wake_frames ws -> exists w, fr = FWake w.
Proof. unfold wake_frames. intros (w & -> & _)%elem_of_list_fmap. by eexists. Qed.

Section YT.
  Context (T : ftables).
  Lemma step_ytw s a s' : Inv_op s -> Inv_ytw s -> step T s a = Some s' -> Inv_ytw s'.
  Proof.
    intros HP HI Hstep. step_split Hstep Ea Est.
    all: try discriminate Hstep.
    all: injection Hstep as <-.
    all: pop_cont_split.
    all: pose proof (stacks_lookup _ _ _ Ea) as Hst; rewrite Est in Hst.
    all: try match goal with k : kont |- _ => destruct k end.
    all: eapply (ytw_update s _ a _ _ Hst); [solve_stacks|exact HI| |].
    (* the frames of the new stack: old ones, or new ones without an obligation *)
    all: try (lazymatch goal with |- forall fr, fr ∈ _ -> fr ∈ _ \/ _ =>
       intros fr Hin; mem_splitY Hin;
       try (apply in_opt_wakeY in Hin as [? ->]; by right); try (apply in_wake_framesY in Hin as [? ->]; by right);
       first [ right; subst fr; reflexivity | left; rewrite ?elem_of_cons; solve [auto 6] ] end).
    all: cbn [ret_ready ret_pending].
    (* stability of the obligations: tokens, unpark / task-wake frames in flight, registrations *)
    all: try (lazymatch goal with |- forall c fr, _ -> _ -> yob _ c fr = true -> yob ?s1 c fr = true =>
       intros c0 fr Hlt Hca Hy;
       assert (Hs1 : stacks s1 = <[a := _]> (stacks s)) by solve_stacks;
       pose proof (np_upd (is_unpark c0) s s1 a _ _ Hst Hs1) as U1;
       pose proof (np_upd (is_wake (WTask c0)) s s1 a _ _ Hst Hs1) as U2;
       cbn [cntf is_unpark is_wake app opt_wake ret_ready ret_pending] in U1, U2; rewrite ?cntf_app, ?cntf_wake_frames, ?cntf_opt_wake in U1, U2 by done;
       cbn [cntf is_unpark is_wake app ret_ready ret_pending] in U1, U2;
       apply (yob_trans s s1 c0 fr); [ | | | |exact Hy];
       [ intros Ht; rewrite (tokb_toks s s1 c0 ltac:(solve_toks)); exact Ht
       | rewrite !posb_true; repeat case_bool_decide; simplify_eq; lia
       | rewrite !posb_true; repeat case_bool_decide; simplify_eq; lia
       | intros e0 Hu; left; rewrite (unfreg_evs s s1 e0 _ eq_refl); exact Hu ] end).
    (* registrations *)
    all: try (lazymatch goal with |- forall c fr, _ -> _ -> yob _ c fr = true -> yob ?s1 c fr = true =>
       lazymatch s1 with context [Build_evcell true nil] => fail | context [setev] => idtac end;
       intros c0 fr Hlt Hca Hy;
       assert (Hs1 : stacks s1 = <[a := _]> (stacks s)) by solve_stacks;
       pose proof (np_upd (is_unpark c0) s s1 a _ _ Hst Hs1) as U1;
       pose proof (np_upd (is_wake (WTask c0)) s s1 a _ _ Hst Hs1) as U2;
       cbn [cntf is_unpark is_wake app] in U1, U2;
       apply (yob_trans s s1 c0 fr); [ | | | |exact Hy];
       [ intros Ht; rewrite (tokb_toks s s1 c0 ltac:(solve_toks)); exact Ht
       | rewrite !posb_true; repeat case_bool_decide; simplify_eq; lia
       | rewrite !posb_true; repeat case_bool_decide; simplify_eq; lia
       | intros e0 Hu; left; first [ by apply unfreg_reg_mono | by apply unfreg_done_task | by do 2 apply unfreg_reg_mono | by apply unfreg_rereg_mono ] ] end).
    (* a cell fires *)
    all: try (lazymatch goal with |- forall c fr, _ -> _ -> yob _ c fr = true -> yob ?s1 c fr = true =>
       lazymatch s1 with context [Build_evcell true nil] => idtac end;
       intros c0 fr Hlt Hca Hy;
       assert (Hs1 : stacks s1 = <[a := _]> (stacks s)) by solve_stacks;
       pose proof (np_upd (is_unpark c0) s s1 a _ _ Hst Hs1) as U1;
       pose proof (np_upd (is_wake (WTask c0)) s s1 a _ _ Hst Hs1) as U2;
       rewrite ?cntf_app in U1, U2; rewrite (cntf_wake_frames (is_unpark c0)) in U1 by done; cbn [cntf is_unpark is_wake app] in U1, U2;
       apply (yob_trans s s1 c0 fr); [ | | | |exact Hy];
       [ intros Ht; rewrite (tokb_toks s s1 c0 ltac:(solve_toks)); exact Ht
       | rewrite !posb_true; repeat case_bool_decide; simplify_eq; lia
       | rewrite !posb_true; repeat case_bool_decide; simplify_eq; lia
       | intros e0 Hu; eapply (unfreg_fired s s1 a _ _ _ e0 c0 Hst Hs1); [|exact Hu];
         intros x Hx; change (getev (setstack ?X _ _) x) with (getev X x); by rewrite getev_setev_ne ] end).
    (* the stepping actor consumes its own park token: it has no pending obligation *)
    all: try (lazymatch goal with |- forall c fr, _ -> _ -> yob _ c fr = true -> yob (setstack (settoken _ _ false) _ _) c fr = true =>
       intros c0 fr Hlt Hca Hy; destruct (decide (c0 = a)) as [->|Hne];
       [ destruct (Hca eq_refl) as [Hn _]; mem_splitY Hn; try (subst fr; reflexivity); by eapply (yob_rest_trivial s a _ rest _ a fr HP Hst)
       | lazymatch goal with |- yob ?s1 _ _ = true =>
           assert (Hs1 : stacks s1 = <[a := _]> (stacks s)) by solve_stacks;
           pose proof (np_upd (is_unpark c0) s s1 a _ _ Hst Hs1) as U1;
           pose proof (np_upd (is_wake (WTask c0)) s s1 a _ _ Hst Hs1) as U2;
           cbn [cntf is_unpark is_wake app] in U1, U2;
           apply (yob_trans s s1 c0 fr); [ | | | |exact Hy];
           [ rewrite tokb_setstack, tokb_set_ne by done; done
           | rewrite !posb_true; repeat case_bool_decide; simplify_eq; lia
           | rewrite !posb_true; repeat case_bool_decide; simplify_eq; lia
           | intros e0 Hu; left; rewrite (unfreg_evs s s1 e0 _ eq_refl); exact Hu ] end ] end).
    - (* future_sync allocates its two oneshot cells *)
      intros c0 fr Hlt Hca Hy;
      lazymatch goal with |- yob ?s1 _ _ = true =>
        assert (Hs1 : stacks s1 = <[a := _]> (stacks s)) by solve_stacks;
        pose proof (np_upd (is_unpark c0) s s1 a _ _ Hst Hs1) as U1;
        pose proof (np_upd (is_wake (WTask c0)) s s1 a _ _ Hst Hs1) as U2;
        cbn [cntf is_unpark is_wake app] in U1, U2;
        apply (yob_trans s s1 c0 fr); [ | | | |exact Hy] end.
      + intros Ht. match goal with |- tokb ?s1 _ = true => rewrite (tokb_toks s s1 c0 ltac:(solve_toks)) end. exact Ht.
      + rewrite !posb_true; repeat case_bool_decide; simplify_eq; lia.
      + rewrite !posb_true; repeat case_bool_decide; simplify_eq; lia.
      + intros e0 Hu. left. eapply (unfreg_alloc s); [reflexivity|exact Hu].
    - (* FUnpark c *)
      intros c0 fr Hlt Hca Hy;
      lazymatch goal with |- yob ?s1 _ _ = true =>
        assert (Hs1 : stacks s1 = <[a := _]> (stacks s)) by solve_stacks;
        pose proof (np_upd (is_unpark c0) s s1 a _ _ Hst Hs1) as U1;
        pose proof (np_upd (is_wake (WTask c0)) s s1 a _ _ Hst Hs1) as U2;
        cbn [cntf is_unpark is_wake app] in U1, U2;
        apply (yob_trans s s1 c0 fr); [ | | | |exact Hy] end.
      + intros Ht. rewrite tokb_setstack. by apply tokb_settoken_true.
      + rewrite !posb_true. intros Hn. destruct (decide (c = c0)) as [->|Hne].
        * right. rewrite tokb_setstack. by apply tokb_settoken_eq.
        * left. rewrite bool_decide_false in U1 by done. lia.
      + rewrite !posb_true; repeat case_bool_decide; simplify_eq; lia.
      + intros e0 Hu. left. match goal with |- unfreg ?s1 _ _ = true => rewrite (unfreg_evs s s1 e0 _ eq_refl) end. exact Hu.
    - (* YPrecv registers the task waker with queue_ready *)
      intros fr [->|Hin]%elem_of_cons; [right|left; by right]. cbn. unfold twr. apply orb_true_iff. right.
      change (unfreg (setstack ?x _ _) ?e ?w) with (unfreg x e w). by apply unfreg_rereg_self.
    - (* the user future registers with an event *)
      intros fr [->|Hin]%elem_of_cons; [right|left; by right]. cbn. unfold twr. apply orb_true_iff. right.
      change (unfreg (setstack ?x _ _) ?e0 ?w) with (unfreg x e0 w). by apply unfreg_register.
    - (* ... with two events *)
      intros fr [->|Hin]%elem_of_cons; [right|left; by right]. cbn. unfold twr2. apply orb_true_iff. right.
      change (unfreg (setstack ?x _ _) ?e0 ?w) with (unfreg x e0 w). match goal with H : _ || _ = false |- _ => apply orb_false_iff in H as [F1 F2] end. apply andb_true_iff. split.
      + apply unfreg_reg_mono. by apply unfreg_register.
      + apply unfreg_register. by rewrite getev_reg_fired.
    - (* the poll returned Pending, the task goes to sleep: the obligation is carried over *)
      intros fr [->|Hin]%elem_of_cons; [right|left; by right].
      pose proof (HI a _ (FY YPpend y st UAwait) Hst ltac:(left)) as Hy.
      change (yob ?s1 a (FY YPpark y st UAwait)) with (yob s1 a (FY YPpend y st UAwait)).
      lazymatch goal with |- yob ?s1 _ _ = true =>
        assert (Hs1 : stacks s1 = <[a := _]> (stacks s)) by solve_stacks;
        pose proof (np_upd (is_unpark a) s s1 a _ _ Hst Hs1) as U1;
        pose proof (np_upd (is_wake (WTask a)) s s1 a _ _ Hst Hs1) as U2;
        cbn [cntf is_unpark is_wake app] in U1, U2;
        apply (yob_trans s s1 a _); [ | | | |exact Hy] end.
      + intros Ht. match goal with |- tokb ?s1 _ = true => rewrite (tokb_toks s s1 a ltac:(solve_toks)) end. exact Ht.
      + rewrite !posb_true; lia.
      + rewrite !posb_true; lia.
      + intros e0 Hu. left. match goal with |- unfreg ?s1 _ _ = true => rewrite (unfreg_evs s s1 e0 _ eq_refl) end. exact Hu.
    - (* the receiver is dropped: the owner's own waker is discarded, the others stay *)
      intros c0 fr Hlt Hca Hy. destruct (decide (c0 = a)) as [->|Hne].
      + destruct (Hca eq_refl) as [Hn _]. apply elem_of_cons in Hn as [->|Hn]; [reflexivity|]. by eapply (yob_rest_trivial s a _ rest _ a fr HP Hst).
      + lazymatch goal with |- yob ?s1 _ _ = true =>
          assert (Hs1 : stacks s1 = <[a := _]> (stacks s)) by solve_stacks;
          pose proof (np_upd (is_unpark c0) s s1 a _ _ Hst Hs1) as U1;
          pose proof (np_upd (is_wake (WTask c0)) s s1 a _ _ Hst Hs1) as U2;
          cbn [cntf is_unpark is_wake app] in U1, U2;
          apply (yob_trans s s1 c0 fr); [ | | | |exact Hy] end.
        * intros Ht. match goal with |- tokb ?s1 _ = true => rewrite (tokb_toks s s1 c0 ltac:(solve_toks)) end. exact Ht.
        * rewrite !posb_true; lia.
        * rewrite !posb_true; lia.
        * intros e0 Hu. left. change (unfreg (setstack ?x _ _) ?e1 ?w) with (unfreg x e1 w). by apply unfreg_unreg_other.
  Qed.
End YT.

Lemma init_ytw scripts npool nev : Inv_ytw (init scripts npool nev).
Proof.
  intros c st fr Hc Hin. unfold stacks, init in Hc; cbn in Hc. rewrite list_lookup_fmap in Hc.
  destruct ((((fun sc => mk_actor [FTop sc]) <$> scripts) ++ replicate npool (mk_actor [FPIdle])) !! c) as [ac|] eqn:E; [|done].
  cbn in Hc. injection Hc as <-. apply elem_of_list_lookup_2 in E. apply elem_of_app in E as [E|E].
  - apply elem_of_list_fmap in E as (sc & -> & _). by apply elem_of_list_singleton in Hin as ->.
  - apply elem_of_replicate in E as [-> _]. by apply elem_of_list_singleton in Hin as ->.
Qed.
