From stdpp Require Import list numbers option.
From RecordUpdate Require Import RecordUpdate.
From L2 Require Import Model Base Own Jobs Shape DwInv Wake WakeInv WakeLem WakeStep1 WakeStep2 WakeStep3 WakeStep4 WakeStep5.
#[global] Unset Lia Cache.

Section Pres.
  Ltac hyp := first [eassumption|reflexivity].
  Context (T : ftables) (HT : own_cond T) (HC : jobs_cond T) (HW : wake_cond T).

  Lemma step_wake_inv s a s' : Inv_own s -> Inv_jobs s -> Inv_shape s -> Inv_dw s -> Inv_wake s -> step T s a = Some s' -> Inv_wake s'.
  Proof.
    intros HO HJ HS HD HI Hstep. pose proof HI as [IF IQ]. step_split Hstep Ea Est.
    all: try discriminate Hstep.
    all: injection Hstep as <-.
    all: pop_cont_split.
    all: pose proof (stacks_lookup _ _ _ Ea) as Hst; rewrite Est in Hst.
    all: try match goal with k : kont |- _ => destruct k end.
    all: match goal with |- Inv_wake ?s' =>
           try (assert (Q : qview s s') by first [eapply qview_intro; [exact Hst|solve_stacks|reflexivity|reflexivity|reflexivity|reflexivity|solve_toks] | eapply (qview_intro_alloc _ _ _ _ _ 2); [exact Hst|solve_stacks|reflexivity|reflexivity|reflexivity|reflexivity|solve_toks] ]) end.
    (* ---- quiet steps ---- *)
    all: try (lazymatch goal with Q : qview _ _ |- _ => idtac | |- _ => shelve end).
    all: split.
    all: try (lazymatch goal with |- forall c fr, fsat _ c fr -> _ =>
              first [ eapply (frames_runner_step' s _ a _ _ _ HO Hst eq_refl); [solve_stacks|]
                    | eapply (frames_other_step' s _ a _ _ _ Hst); [solve_stacks| | |exact IF] ] end).
    (* obligations of new frames *)
    all: try (lazymatch goal with |- forall fr, fr ∈ _ -> _ \/ _ =>
              intros fr0 Hin; repeat (apply elem_of_cons in Hin as [->|Hin]; [right|]); [..|first [by left|left; by right] ]; try reflexivity; try (cbn; by apply bool_decide_eq_true) end).

    (* stability of the runner's obligations under a quiet step of somebody else *)
    all: try (lazymatch goal with |- forall c fr, marker fr = true -> _ =>
              intros c0 fr0 Hm Hf Hok; pose proof (fsat_marker_owned s c0 fr0 HO Hf Hm) as Hown;
              apply (frame_ok_quiet s _ Q); [ | |exact Hok] end).


    all: try (lazymatch goal with |- forall e, hsusp _ = Some e -> _ =>
              intros ?e ?He; unfold hsusp; cbn; first [eassumption | by apply hsusp_push] end).
    all: try (lazymatch goal with |- qs _ = qs _ =>
              cbn; first [ reflexivity
                         | match goal with E : t_desync _ _ = _ |- _ => pose proof (wc_desync_owned _ HW _ Hown) as Hd; rewrite E in Hd; exact Hd end
                         | match goal with E : t_sync _ _ _ = _ |- _ => apply (oc_sync _ HT) in E; cbn in E; exact E end
                         | match goal with E : t_poll _ _ _ = _ |- _ => apply (oc_poll _ HT) in E; cbn in E; exact E end ] end).

    (* queue_ok under quiet steps *)
    all: try (lazymatch goal with |- queue_ok _ = true =>
              first [ apply (queue_ok_quiet_same s _ Q); [cbn; first [reflexivity|tbl_facts HT; intuition congruence]|reflexivity|reflexivity|exact IQ]
                    | apply queue_ok_owned; cbn; tbl_facts HT; intuition (subst; done)
                    | eapply (queue_ok_quiet_stale s _ Q T HW); [eassumption|reflexivity|reflexivity|exact IQ] ] end).

    all: try (assert (Hrun := runner_owned s a _ HO Hst ltac:(cbn; lia))).
    all: try (lazymatch goal with |- qs _ = qs _ => exfalso; tbl_facts HT; destruct_and?; congruence end).
    all: try (lazymatch goal with |- queue_ok _ = true => apply queue_ok_owned; cbn; first [exact Hrun|
               match goal with E : t_roj_pend _ _ = Some _ |- _ =>
                 destruct (runner_working s a _ HO Hst ltac:(cbn; lia)) as [_ Hnw];
                 destruct (oc_roj_pend _ HT _ Hrun Hnw) as (? & Hrp1 & Hrp2); rewrite Hrp1 in E; by injection E as <- end] end).
    all: try (lazymatch goal with |- queue_ok _ = true =>
              eapply (queue_ok_quiet_push s _ Q); [ | |reflexivity|reflexivity|exact IQ];
              [ cbn; first [reflexivity | match goal with E : t_desync _ _ = _ |- _ => eapply (wc_desync_other _ HW); [exact E|];
                                             intros Hi; rewrite Hi, (wc_desync_idle _ HW) in E; congruence end]
              | first [ congruence | intros Hi; match goal with E : t_desync _ _ = _ |- _ => rewrite Hi, (wc_desync_idle _ HW) in E; congruence end ] ] end).
    (* new frames whose obligation is literally the old top frame's *)
    all: try (lazymatch goal with |- frame_ok ?s' _ _ = true =>
              lazymatch goal with Hst : stacks _ !! _ = Some (?fr0 :: _) |- _ =>
                refine (frame_ok_quiet s s' Q a fr0 _ _ (IF a fr0 _));
                [reflexivity | intros ?e ?He; unfold hsusp; cbn; eassumption | eexists; split; [exact Hst|left] ] end end).

    all: try (lazymatch goal with Hst : stacks _ !! _ = Some (?fr0 :: _) |- _ =>
                assert (Hok0 := IF a fr0 ltac:(eexists; split; [exact Hst|left])); cbn in Hok0 end).
    all: try (destruct (runner_working s a _ HO Hst ltac:(cbn; lia)) as [_ Hnw]).
    (* requeue: the parked job becomes the head *)
    all: try (lazymatch goal with |- frame_ok _ _ _ = true => idtac end;
              lazymatch goal with Est : stack _ = FDQrequeue _ _ ?j :: _ |- _ => idtac | Est : stack _ = FDRrequeue ?j :: _ |- _ => idtac end;
              destruct (susp j) as [e|] eqn:Es; [|done]; cbn; unfold hsusp; cbn; rewrite Es;
              unfold awoken in *; cbn; rewrite ?(q_gd _ _ Q), ?(q_gq _ _ Q); exact Hok0).
    (* FROpend -> FROcheck *)
    all: try (lazymatch goal with Est : stack _ = FROpend ?j :: _ |- frame_ok _ _ _ = true =>
              destruct (susp j) as [e|] eqn:Es; [|done]; cbn; rewrite Es, E0, (q_gt _ _ Q);
              apply orb_true_iff in Hok0 as [Ha|Hg]; [|done]; exfalso; unfold awoken in Ha;
              destruct (qs s) eqn:Eq; try done; apply (wc_roj_pend_awoken _ HW) in E; by destruct q end).
    (* FROcheck -> FROpark *)
    all: try (lazymatch goal with Est : stack _ = FROcheck ?j :: _ |- frame_ok _ _ _ = true =>
              apply (wc_roj_park _ HW) in E; destruct (susp j) as [e|] eqn:Es; [|done]; cbn; rewrite Es, E in *; cbn in *;
              by rewrite (q_gt _ _ Q) end).
    (* FDRpend parks the queue / goes round again *)
    all: try (lazymatch goal with Est : stack _ = FDRpend :: _ |- queue_ok _ = true =>
              first [ cbn; destruct (t_drain_pend T (qs s)) eqn:Ed; try done; cbn;
                      destruct (hsusp s) as [e|] eqn:Eh; [|done]; unfold hsusp in *; cbn; rewrite Eh, (q_cover _ _ Q);
                      apply orb_true_iff in Hok0 as [Ha|Hg]; [|by apply gq_cover]; exfalso; unfold awoken in Ha;
                      destruct (qs s) eqn:Eq; try done; by apply (wc_drain_pend_awoken _ HW)
                    | apply queue_ok_owned; cbn; destruct (oc_drain_pend _ HT (qs s) Hrun Hnw) as [Hd|[Hd _]]; [|done];
                      cbn zeta in Hd; by rewrite Hd in E ] end).
    (* FDRfin *)
    all: try (lazymatch goal with Est : stack _ = FDRfin :: _ |- queue_ok _ = true =>
              first [ apply (wc_drain_fin _ HW) in E as [-> Hem]; [|by apply owned_running]; apply bool_decide_eq_true in Hem;
                      unfold queue_ok; cbn; by rewrite Hem
                    | apply queue_ok_owned; cbn; by apply (oc_drain_fin _ HT _ _ _ _ Hrun Hnw) in E as [E _] ] end).
    Unshelve.

    (* ---- the steps that touch what the invariant looks at ---- *)
    all: try (eapply ws_push; hyp; fail).
    all: try (eapply ws_fd1_sched; hyp; fail).
    all: try (eapply ws_unpark; hyp; fail).
    all: try (eapply ws_park; hyp; fail).
    all: try (eapply ws_ropark; hyp; fail).
    all: try (eapply ws_wake_task; hyp; fail).
    all: try (eapply ws_wake_thread; hyp; fail).
    all: try (eapply ws_fire; hyp; fail).
    all: try (eapply (ws_rq1 _ HW _ _ _ true); hyp; fail).
    all: try (eapply (ws_rq1 _ HW _ _ _ false); hyp; fail).
    all: try (eapply (ws_wake_queue _ HT HW _ _ _ true); hyp; fail).
    all: try (eapply (ws_wake_queue _ HT HW _ _ _ false); hyp; fail).
    all: try (eapply ws_sbpush_idle; hyp; fail).
    all: try (eapply ws_wake_double_some; hyp; fail).
    all: try (eapply ws_wake_double_none; hyp; fail).

    all: try (eapply ws_dqdeq; hyp; fail).
    all: try (eapply ws_dqwfw; hyp; fail).
    all: try (eapply ws_dqwfp; hyp; fail).
    all: try (eapply ws_await_pending; hyp; fail).
    all: try (eapply ws_await_either_pending; hyp; fail).
    (* future_sync *)
    all: try (eapply ws_send_ready; hyp; fail).
    all: try (eapply ws_await_done_pending; hyp; fail).
    all: try (lazymatch goal with |- Inv_wake (setstack (setev (addlog ?s0 ?l0) _ _) _ (wake_frames _ ++ ?rest0)) =>
              eapply (ws_fire_gen (addlog s0 l0) a _ [] _ rest0 (Inv_own_addlog _ _ HO) (Inv_wake_addlog _ _ HI) Hst); [reflexivity|by intros ? ?%elem_of_nil] end; fail).
    all: try (lazymatch goal with |- Inv_wake (setstack (setev _ _ _) _ (wake_frames _ ++ ?x :: ?rest0)) =>
              eapply (ws_fire_gen s a _ [x] _ rest0 HO HI Hst); [reflexivity|intros ? ->%elem_of_list_singleton; done] end; fail).
    all: try (eapply (ws_signal _ _ _ _ _ _ _ _ _ _ HO HI Hst); reflexivity).
    all: try (eapply (ws_release_idle _ _ _ _ []); [exact HO|exact HI|exact Hst|reflexivity|]; by intros ? ?%elem_of_nil).
    (* the SyncFuture's owner: its own task-waker registrations and its own park token *)
    all: try (lazymatch goal with |- Inv_wake ?s1 =>
              eapply (ws_task_step s s1 a _ _ rest HO HS HI Hst); [solve_stacks|reflexivity..| | ];
              [ intros c0 Hne; first [ rewrite (tokb_toks s s1 c0 ltac:(solve_toks)); done | rewrite tokb_setstack, tokb_set_ne by done; done ]
              | first [ apply evs_task_eq_refl; reflexivity | apply evs_reg_task | apply evs_unreg_task | apply evs_rereg_task
                      | eapply evs_task_eq_trans; [apply evs_reg_task|apply evs_reg_task] ] ] end; fail).
    (* DrainWaker tables *)
    all: try (match goal with E1 : t_dw_wake _ ?d0 = _ |- _ => rewrite (wc_dw_wake _ HW) in E1; destruct d0; try discriminate E1; injection E1 as <- end).
    all: try (match goal with E1 : t_dw_wake_with _ ?d0 = _ |- _ => rewrite (wc_dw_wake_with _ HW) in E1; destruct d0; try discriminate E1; injection E1 as <- end).
    all: try (eapply ws_wake_with_now; hyp; fail).
    all: try (eapply (ws_wake_with_later _ _ _ _ _ _ _ HO HD HI Hst); [eassumption|done]; fail).
    all: try (match goal with E0 : getdw _ _ = (?st, _) |- _ => apply (ws_wake_drain s a _ st _ rest HO HD HI Hst E0) end; fail).

  Qed.
End Pres.
