(* C08: every step only adds to the state (calls of future_sync, fired cells, futures, operation ids, ghost log) *)
From stdpp Require Import list numbers option.
From RecordUpdate Require Import RecordUpdate.
From L2 Require Import Model Base Own Jobs Fut YDefs YMono.
#[global] Unset Lia Cache.

Lemma fired_insert (L : list evcell) e0 c e : (fired (default ev0 (L !! e0)) = true -> fired c = true) ->
  fired (default ev0 (L !! e)) = true -> fired (default ev0 (<[e0 := c]> L !! e)) = true.
Proof.
  intros H. destruct (decide (e = e0)) as [->|Hne]; [|by rewrite list_lookup_insert_ne].
  destruct (decide (e0 < length L)); [rewrite list_lookup_insert by done; cbn; exact H|by rewrite list_insert_ge by lia].
Qed.
Section S.
  Context (T : ftables).
  Lemma step_ext s a s' : step T s a = Some s' -> ext s s'.
  Proof.
    intros Hstep. step_split Hstep Ea Est.
    all: try discriminate Hstep.
    all: injection Hstep as <-.
    all: split.
    all: try (lazymatch goal with |- _ <= _ => cbn; rewrite ?insert_length, ?app_length; cbn; rewrite ?insert_length; lia end).
    all: try (lazymatch goal with |- forall t, t ∈ Ys _ -> t ∈ Ys _ => intros t Ht; unfold Ys in *; cbn; rewrite ?elem_of_cons; auto end).
    all: try (lazymatch goal with |- forall e, e ∈ log _ -> e ∈ log _ => intros e0 He; cbn; rewrite ?elem_of_cons; auto end).
    all: try (lazymatch goal with |- forall t, t ∈ Ys _ -> _ \/ _ => intros t Ht; unfold Ys in Ht |- *; cbn in Ht; rewrite ?elem_of_cons in Ht;
                first [by left | destruct Ht as [->|Ht]; [right; cbn; lia | by left] ] end).
    all: try (lazymatch goal with |- forall e, _ -> firedP _ e -> firedP _ e => intros e0 Hlt He; unfold firedP, getev in *; cbn;
                first [ exact He | by rewrite lookup_app_l | apply fired_insert; [cbn; first [intros _; reflexivity|intros H; exact H]|]; first [exact He| apply fired_insert; [cbn; first [intros _; reflexivity|intros H; exact H]|exact He] ] ] end).
  Qed.
  (* the calls of future_sync: unchanged, or one fresh call *)
  Lemma step_ys s a s' : step T s a = Some s' ->
    (Ys s' = Ys s /\ length s'.(evs) = length s.(evs)) \/
    (Ys s' = (s.(nextop), length s.(futs), length s.(evs)) :: Ys s /\ s'.(nextop) = S s.(nextop) /\
     length s'.(futs) = S (length s.(futs)) /\ length s'.(evs) = length s.(evs) + 2).
  Proof.
    intros Hstep. step_split Hstep Ea Est.
    all: try discriminate Hstep.
    all: injection Hstep as <-.
    all: try (left; split; [reflexivity|cbn; rewrite ?insert_length; reflexivity]).
    right. cbn. rewrite !app_length. cbn. repeat split; lia.
  Qed.
End S.

(* the first three clauses of Inv_y *)
Lemma step_y_rng nev T s a s' : Inv_y nev s -> step T s a = Some s' ->
  nev <= length s'.(evs) /\
  (forall o f r, (o, f, r) ∈ Ys s' -> o < s'.(nextop) /\ f < length s'.(futs) /\ nev <= r /\ r + 1 < length s'.(evs)) /\
  ysorted (Ys s').
Proof.
  intros HY Hstep. pose proof (step_ext T _ _ _ Hstep) as X. pose proof (y_rng _ _ HY) as HR.
  pose proof (x_evs _ _ X). pose proof (x_nop _ _ X). pose proof (x_futs _ _ X). pose proof (y_len _ _ HY).
  split; [lia|]. destruct (step_ys T _ _ _ Hstep) as [[-> He]|(-> & Hn & Hf & He)].
  - split; [|apply (y_sorted _ _ HY)]. intros o f r Hin. specialize (HR _ _ _ Hin). lia.
  - split.
    + intros o f r [[= -> -> ->]|Hin]%elem_of_cons; [lia|]. specialize (HR _ _ _ Hin). lia.
    + cbn. split; [|apply (y_sorted _ _ HY)]. intros o f r Hin. specialize (HR _ _ _ Hin). lia.
Qed.
