(* C06: the invariant as a Prop, the conditions on the tables, basic lemmas *)
From stdpp Require Import list numbers option.
From RecordUpdate Require Import RecordUpdate.
From L2 Require Import Model Base Own Jobs Wake.
#[global] Unset Lia Cache.

Definition fsat (s : state) (c : nat) (fr : frame) : Prop := exists st, stacks s !! c = Some st /\ fr ∈ st.

Record Inv_wake (s : state) : Prop := {
  iw_frames : forall c fr, fsat s c fr -> frame_ok s c fr = true;
  iw_queue : queue_ok s = true;
}.

Definition running (st : qstate) : bool := match st with Running | AwokenWhileRunning => true | _ => false end.

Record wake_cond (T : ftables) : Prop := {
  (* tables consulted by non-runners leave a queue that is being run alone *)
  wc_desync_owned : forall st, owned st = true -> (T.(ft_base).(t_desync) st).1 = st;
  wc_desync_idle : T.(ft_base).(t_desync) Idle = (Pending, DASchedule);
  wc_desync_sched : forall st st', T.(ft_base).(t_desync) st = (st', DASchedule) -> st = Idle /\ st' = Pending;
  wc_desync_other : forall st st' act, T.(ft_base).(t_desync) st = (st', act) -> st <> Idle -> st' = st;
  wc_resched_idle : forall ne, T.(ft_base).(t_resched) Idle ne = if ne then (Pending, true) else (Idle, false);
  wc_resched_wfp : forall f ne, T.(ft_base).(t_resched) (WaitingForPoll f) ne = (WaitingForPoll f, true);
  wc_resched_other : forall st ne st' p, T.(ft_base).(t_resched) st ne = (st', p) -> st <> Idle -> st' = st;
  wc_next_pending : T.(ft_base).(t_next) Pending = Some Running;
  wc_next_wfp : forall f, T.(ft_base).(t_next) (WaitingForPoll f) = Some Running;
  (* WakeQueue *)
  wc_wq_running : forall st, running st = true -> (T.(t_wake_queue) st).1 = AwokenWhileRunning;
  wc_wq_wfw : T.(t_wake_queue) WaitingForWake = (Idle, true);
  wc_wq_idle : T.(t_wake_queue) Idle = (Idle, true);
  wc_wq_wfp : forall f, T.(t_wake_queue) (WaitingForPoll f) = (WaitingForPoll f, true);
  wc_wq_wfu : (T.(t_wake_queue) WaitingForUnpark).1 = WaitingForUnpark;
  wc_wq_pending : (T.(t_wake_queue) Pending).1 = Pending;
  (* WakeThread *)
  wc_wt_running : forall st, running st = true -> T.(t_wake_thread) st = AwokenWhileRunning;
  wc_wt_wfu : T.(t_wake_thread) WaitingForUnpark = Running;
  wc_wt_wfw : T.(t_wake_thread) WaitingForWake = Idle \/ T.(t_wake_thread) WaitingForWake = WaitingForWake;
  wc_wt_other : forall st, st = Idle \/ st = Pending \/ (exists f, st = WaitingForPoll f) -> T.(t_wake_thread) st = st;
  (* the Pending arms *)
  wc_drain_pend_awoken : T.(t_drain_pend) AwokenWhileRunning <> WaitingForWake;
  wc_roj_pend_awoken : forall st', T.(t_roj_pend) AwokenWhileRunning = Some st' -> st' <> WaitingForUnpark;
  wc_roj_park : forall st, T.(t_roj_park) st = PKPark -> st = WaitingForUnpark;
  wc_drain_fin : forall st e st', running st = true -> T.(ft_base).(t_drain_fin) st e = (st', true) -> st' = Idle /\ e = true;
  (* DrainWaker *)
  wc_dw_wake : forall st, T.(t_dw_wake) st = match st with DWWillWake => (DWWoken, true) | _ => (DWWoken, false) end;
  wc_dw_wake_with : forall st, T.(t_dw_wake_with) st = match st with DWWoken => (DWWoken, true) | _ => (DWWillWake, false) end;
}.
