(* non-vacuity: the hypotheses of the main theorems are met by concrete, non-trivial runs under the GENERATED tables *)
From stdpp Require Import list numbers option.
From L2 Require Import Model GenTables Sim Base Own Jobs Fut Wake WakeInv Term Susp Inst YDefs YThm Main.

Lemma terminal_check s : enabled_list s = [] -> terminal G s.
Proof.
  intros H a. destruct (decide (a < nact s)) as [Hlt|Hge].
  - destruct (step G s a) eqn:E; [|done]. exfalso.
    assert (Hin : a ∈ enabled_list s).
    { unfold enabled_list. apply elem_of_list_filter. split; [|apply elem_of_list_In, in_seq; lia].
      unfold enabled. rewrite E. by apply bool_decide_eq_true. }
    rewrite H in Hin. by apply elem_of_nil in Hin.
  - unfold step. rewrite lookup_ge_None_2; [done|]. unfold nact in Hge. lia.
Qed.
Lemma all_fired_check s : forallb fired s.(evs) = true -> all_fired s.
Proof.
  intros H e. unfold getev. destruct (evs s !! e) as [c|] eqn:E; [|done]. cbn.
  apply elem_of_list_lookup_2 in E. rewrite forallb_forall in H. apply H. by apply elem_of_list_In.
Qed.

(* first state along a pseudo-random run that satisfies p, with the trace leading to it *)
Fixpoint rfind (p : state -> bool) (fuel : nat) (seed : N) (s : state) (acc : list nat) : option (state * list nat) :=
  if p s then Some (s, rev acc) else
  match fuel with
  | 0 => None
  | S n => match enabled_list s with
           | [] => None
           | en => let seed' := ((seed * 1103 + 12345) mod 65521)%N in
                   let a := default 0 (en !! (N.to_nat ((seed' / 7) mod N.of_nat (length en))%N)) in
                   match step G s a with Some s' => rfind p n seed' s' (a :: acc) | None => None end
           end
  end.

(* C06_terminal: pool context, the future job awaits event 0 (fired by another caller at a random moment), a desync behind it *)
Example C06_terminal_nonvacuous :
  exists tr s, run G (init P1 1 1) tr = Some s /\ terminal G s /\ all_fired s /\ length s.(log) >= 6.
Proof.
  destruct (final P1 1 1 3) as [[s tr] b] eqn:E. exists tr, s. vm_compute in E. injection E as <- <- _.
  split; [vm_compute; reflexivity|]. split; [apply terminal_check; vm_compute; reflexivity|].
  split; [apply all_fired_check; vm_compute; reflexivity|vm_compute; lia].
Qed.
(* ... and the same for the sync caller and the polling task as the runner, without any pool thread for the poller's run *)
Example C06_terminal_nonvacuous_sync :
  exists tr s, run G (init (P2 ++ [[OSync]]) 1 1) tr = Some s /\ terminal G s /\ all_fired s.
Proof.
  destruct (final (P2 ++ [[OSync]]) 1 1 5) as [[s tr] b] eqn:E. exists tr, s. vm_compute in E. injection E as <- <- _.
  split; [vm_compute; reflexivity|]. split; [apply terminal_check; vm_compute; reflexivity|apply all_fired_check; vm_compute; reflexivity].
Qed.

(* C13 / C01: a reachable state in which the suspend job is parked on its resume event, queue parked in WaitingForWake *)
Definition is_parked (s : state) : bool :=
  match s.(jobs), s.(qs) with JFut _ Waiting (PAwait 0 :: _) :: _, WaitingForWake => true | _, _ => false end.
Example C13_nonvacuous :
  exists tr s os, run G (init P6 1 1) tr = Some s /\ parked_on s os 0 /\ s.(qs) = WaitingForWake.
Proof.
  destruct (rfind is_parked 400 0%N (init P6 1 1) []) as [[s tr]|] eqn:E; [|vm_compute in E; discriminate].
  exists tr, s. vm_compute in E. injection E as <- <-. eexists.
  split; [vm_compute; reflexivity|]. split; [|vm_compute; reflexivity].
  eexists. right. split; [vm_compute; reflexivity|]. eexists. vm_compute. reflexivity.
Qed.

(* ---------- where the line of "when no other context is using the object" runs (C06/C07, zero pool threads) ----------
   Caller 0 suspends the queue and awaits the suspension (its poll drains the queue: the suspend job signals, then waits for the resumer:
   the poll returns Ready and leaves the queue parked in WaitingForWake with the DrainWaker pointing at WakeQueue).  It then schedules a
   second future and awaits it: poll sees WaitingForWake, stores the task waker and returns Pending (Wait arm).  Caller 1 now resumes
   (fires event 0): DrainWaker -> WakeQueue -> Idle -> reschedule_queue -> Pending, one entry in the schedule - and no pool thread to take
   it.  The task is never polled again.  All events are fired, no actor is enabled, caller 0 has not finished. *)
Fixpoint frun (fuel : nat) (s : state) (acc : list nat) : state * list nat :=
  match fuel with
  | 0 => (s, rev acc)
  | S n => match enabled_list s with
           | [] => (s, rev acc)
           | a :: _ => match step G s a with Some s' => frun n s' (a :: acc) | None => (s, rev acc) end
           end
  end.
Definition Pz := [[OSuspend 0 UAwait; OFuture [] UAwait]; [OFire 0]].
Example C06_zero_pool_needs_side_condition_refuted : ~ C06_zero_pool_any_script.
Proof.
  intros H. pose (r := frun 200 (init Pz 0 1) []).
  assert (Hrun : run G (init Pz 0 1) r.2 = Some r.1) by (vm_compute; reflexivity).
  assert (Ht : terminal G r.1) by (apply terminal_check; vm_compute; reflexivity).
  assert (Hf : all_fired r.1) by (apply all_fired_check; vm_compute; reflexivity).
  specialize (H G gen_all_cond _ [[OFire 0]] 1 r.2 r.1 ltac:(repeat constructor) Hrun Ht Hf).
  vm_compute in H. discriminate H.
Qed.
(* the stuck state: the queue is Pending with one schedule entry, the task is parked on its second future *)
Example C06_zero_pool_stuck_state :
  let s := (frun 200 (init Pz 0 1) []).1 in
  s.(qs) = Pending /\ s.(insched) = 2 /\ stacks s !! 0 = Some [FPark 2; FTop []] /\ length s.(jobs) = 2.
Proof. vm_compute. done. Qed.
(* the hypotheses of C06_zero_pool_full are satisfiable: a run of the generated tables in which the awaiting caller is parked on a
   future whose job waits for event 0 (the queue is in WaitingForPoll), is woken through the DoubleWaker when caller 1 fires the
   event, drains the queue itself and finishes *)
Definition Pz_ok := [[ODesync; OFuture [PAwait 0; PTouch] UAwait; OFuture [] UDetach]; [OFire 0]].
Example C06_zero_pool_nonvacuous :
  exists tr s, await_only [ODesync; OFuture [PAwait 0; PTouch] UAwait; OFuture [] UDetach] /\ Forall fire_only [[OFire 0]] /\
    run G (init Pz_ok 0 1) tr = Some s /\ terminal G s /\ all_fired s /\ stacks s !! 0 = Some [FTop []] /\
    (exists tr1 s1, run G (init Pz_ok 0 1) tr1 = Some s1 /\ s1.(qs) = WaitingForPoll 0 /\ exists rest, stacks s1 !! 0 = Some (FPark 0 :: rest)).
Proof.
  pose (r := frun 200 (init Pz_ok 0 1) []). exists r.2, r.1.
  split; [repeat constructor|]. split; [repeat constructor|].
  split; [vm_compute; reflexivity|]. split; [apply terminal_check; vm_compute; reflexivity|].
  split; [apply all_fired_check; vm_compute; reflexivity|]. split; [vm_compute; reflexivity|].
  exists (replicate 20 0). eexists. split; [vm_compute; reflexivity|]. vm_compute. split; [reflexivity|]. eexists. reflexivity.
Qed.
(* the zero-pool theorem instantiated with the generated tables *)
Example C06_zero_pool_generated sc0 others nev tr s : await_only sc0 -> Forall fire_only others ->
  run G (init (sc0 :: others) 0 nev) tr = Some s -> terminal G s -> all_fired s -> stacks s !! 0 = Some [FTop []].
Proof. apply C06_zero_pool_main; [apply gen_all_cond|apply gen_zero_cond]. Qed.
Print Assumptions C06_zero_pool_nonvacuous.
Print Assumptions C06_zero_pool_generated.

(* ---------- C08 (future_sync in L2): the hypotheses are met by runs in which the interesting events happen ---------- *)
(* awaited to completion: the user future awaits event 0 (fired by the other caller), completes inside the slot of job 0; the result
   is delivered after the slot job signalled; a desync of each caller around it *)
Definition PY := [[OFutSync [PAwait 0; PTouch] UAwait; ODesync]; [ODesync; OFire 0]].
Example C08_nonvacuous_await :
  exists tr s, ywf 1 PY /\ run G (init PY 1 1) tr = Some s /\ terminal G s /\ all_fired s /\ stacks s !! 0 = Some [FTop []] /\
    exists l2 l1, s.(log) = l2 ++ GResolve 0 0 :: l1 /\ GYnew 0 0 1 ∈ l1 /\ GUStart 0 ∈ l1 /\ GUFinish 0 ∈ l1 /\ GSig 0 0 ∈ l1.
Proof.
  destruct (final PY 1 1 3) as [[s tr] b] eqn:E. exists tr, s. vm_compute in E. injection E as <- <- _.
  split; [by repeat constructor|]. split; [vm_compute; reflexivity|]. split; [apply terminal_check; vm_compute; reflexivity|].
  split; [apply all_fired_check; vm_compute; reflexivity|].
  split; [vm_compute; reflexivity|]. exists [GFinish 2; GStart 2; GPush 2]. eexists. split; [vm_compute; reflexivity|].
  rewrite !elem_of_cons. tauto.
Qed.
(* dropped while the user future is pending (event 0 never fires): the user future is destroyed inside the slot, then task_finished
   is dropped, the slot job ends and the next operation starts *)
Definition PYD := [[OFutSync [PAwait 0] (UDropAfter 2); ODesync]; [ODesync]].
Example C08_nonvacuous_drop :
  exists tr s, ywf 1 PYD /\ run G (init PYD 1 1) tr = Some s /\ terminal G s /\ stacks s !! 0 = Some [FTop []] /\
    exists l2 l1, s.(log) = l2 ++ GYdrop 0 :: GUCancel 0 :: l1 /\ GYnew 0 0 1 ∈ l1 /\ GUStart 0 ∈ l1 /\ GStart 0 ∈ l1 /\
                  GFinish 0 ∈ l2 /\ GFinish 0 ∉ l1.
Proof.
  destruct (final PYD 1 1 2) as [[s tr] b] eqn:E. exists tr, s. vm_compute in E. injection E as <- <- _.
  split; [by repeat constructor|]. split; [vm_compute; reflexivity|]. split; [apply terminal_check; vm_compute; reflexivity|].
  split; [vm_compute; reflexivity|]. exists [GFinish 2; GStart 2; GFinish 1; GStart 1; GFinish 0; GSig 0 0; GPush 2]. eexists.
  split; [vm_compute; reflexivity|].
  rewrite !elem_of_cons, !elem_of_nil. split; [tauto|]. split; [tauto|]. split; [tauto|]. split; [tauto|].
  intros H. repeat (destruct H as [H|H]; [discriminate H|]). done.
Qed.
(* the C08 theorems instantiated with the generated tables *)
Example C08_2_generated scripts npool nev tr s l2 e l1 o : ywf nev scripts -> run G (init scripts npool nev) tr = Some s ->
  s.(log) = l2 ++ e :: l1 -> user_ev e = Some o ->
  exists la lb, l1 = la ++ GStart o :: lb /\ forall o', GStart o' ∉ la /\ GFinish o' ∉ la.
Proof. intros Hwf Hr E He. by destruct (proj1 (C08_2_main G gen_all_cond scripts npool nev tr s l2 e l1 Hwf Hr E) o He). Qed.
Example C08_5_generated scripts npool nev tr s : ywf nev scripts -> npool >= 1 -> run G (init scripts npool nev) tr = Some s ->
  terminal G s -> (forall e, e < nev -> (getev s e).(fired) = true) ->
  s.(qs) = Idle /\ s.(jobs) = [] /\ forall c st, stacks s !! c = Some st -> st = [FTop []] \/ st = [FPIdle].
Proof.
  intros Hwf Hn Hr Ht He. destruct (C08_5_main G gen_all_cond scripts npool nev tr s Hwf Hn Hr Ht He) as (_ & ? & ? & _ & ? & _). done.
Qed.
Print Assumptions C08_5_generated.
Print Assumptions C08_nonvacuous_await.
Print Assumptions C08_nonvacuous_drop.
Print Assumptions C08_2_generated.

(* C08 (5) with NO pool thread: caller 0 calls future_sync, polls once (its poll runs the slot job, the user future starts and waits for
   event 0), drops the future (the user future is destroyed inside the slot), then desync and sync; caller 1 fires event 0 afterwards.
   The sync of caller 0 drains the queue itself: the slot job sees Canceled and ends, everything finishes *)
Definition PZY := [[OFutSync [PAwait 0; PTouch] (UDropAfter 1); ODesync; OSync]; [OFire 0]].
Example C08_5_zero_pool_nonvacuous :
  let r := frun 400 (init PZY 0 1) [] in
  ywf 1 PZY /\ noawait [OFutSync [PAwait 0; PTouch] (UDropAfter 1); ODesync; OSync] /\
  run G (init PZY 0 1) r.2 = Some r.1 /\ terminal G r.1 /\ (forall e, e < 1 -> (getev r.1 e).(fired) = true) /\
  stacks r.1 !! 0 = Some [FTop []] /\ GUCancel 0 ∈ r.1.(log) /\ GYdrop 0 ∈ r.1.(log) /\ GFinish 0 ∈ r.1.(log).
Proof.
  cbv zeta. split; [by repeat constructor|]. split; [by repeat constructor|]. split; [vm_compute; reflexivity|].
  split; [apply terminal_check; vm_compute; reflexivity|]. split; [intros e He; assert (e = 0) as -> by lia; vm_compute; reflexivity|].
  split; [vm_compute; reflexivity|]. vm_compute log. rewrite !elem_of_cons. tauto.
Qed.
Example C08_5_dropping_caller_generated scripts npool nev tr s c sc : ywf nev scripts -> scripts !! c = Some sc -> noawait sc ->
  run G (init scripts npool nev) tr = Some s -> terminal G s -> (forall e, e < nev -> (getev s e).(fired) = true) ->
  stacks s !! c = Some [FTop []].
Proof. apply (C08_5_dropping_caller_finishes_main G gen_all_cond gen_claim_cond). Qed.
Print Assumptions C08_5_zero_pool_nonvacuous.
Print Assumptions C08_5_dropping_caller_generated.
