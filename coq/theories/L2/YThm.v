(* C08 on the real queue machinery (L2): the safety theorems about future_sync, read off the invariant Inv_y *)
From stdpp Require Import list numbers option.
From RecordUpdate Require Import RecordUpdate.
From L2 Require Import Model Base Own Jobs Shape DwInv Pool Fut Sig Wake WakeInv Term YDefs YMono YStep1 YStep2 YStep3 YInv.
#[global] Unset Lia Cache.

Definition user_ev (e : gev) : option nat :=
  match e with GUStart o | GUStep o | GUFinish o | GUCancel o => Some o | _ => None end.
(* l (newest first) ends inside the slot of operation o: o has started, and nothing has started or finished since *)
Definition in_slot (o : nat) (l : list gev) : Prop :=
  exists la lb, l = la ++ GStart o :: lb /\ forall o', GStart o' ∉ la /\ GFinish o' ∉ la.

Lemma wbn_open l : forall o, wbn l = Some (Some o) -> in_slot o l.
Proof.
  induction l as [|e l IH]; intros o H; [done|]. cbn in H. destruct (wbn l) as [cur|] eqn:E; [|done]. cbn in H.
  assert (Hkeep : cur = Some o -> (forall o', e <> GStart o' /\ e <> GFinish o') -> in_slot o (e :: l)).
  { intros -> Hne. destruct (IH o eq_refl) as (la & lb & -> & Hn). exists (e :: la), lb. split; [done|]. intros o'.
    destruct (Hn o') as [? ?]. destruct (Hne o') as [? ?]. split; intros [?|?]%elem_of_cons; done. }
  destruct e; cbn in H; try (apply Hkeep; [congruence|done]).
  - destruct cur; [done|]. injection H as ->. exists [], l. split; [done|]. intros o'. split; by intros ?%elem_of_nil.
  - destruct cur as [o'|]; [|done]. by destruct (decide (o0 = o')).
Qed.
Lemma logall_suffix P l2 l1 : logall P (l2 ++ l1) -> logall P l1.
Proof. induction l2; cbn; [done|]. intros [_ ?]. auto. Qed.
(* a user future that finished was not dropped; a dropped one did not finish *)
Lemma finish_drop_excl l o : logall evok l -> GUFinish o ∈ l -> GYdrop o ∈ l -> False.
Proof.
  intros HL Hf Hd. apply elem_of_list_split in Hd as (a & b & ->).
  pose proof (logall_split _ _ HL a _ b eq_refl) as Hk. cbn in Hk. destruct Hk as (_ & _ & Hnf & _).
  apply elem_of_app in Hf as [Hf|Hf]; [|apply elem_of_cons in Hf as [?|?]; done].
  apply elem_of_list_split in Hf as (a1 & a2 & ->). rewrite <- app_assoc in HL. cbn in HL.
  pose proof (logall_split _ _ HL a1 _ _ eq_refl) as Hk. cbn in Hk. destruct Hk as (_ & _ & _ & _ & _ & Hnd).
  apply Hnd. apply elem_of_app. right. left.
Qed.

Section Thm.
  Context (T : ftables) (HA : all_cond T).
  Context (scripts : list (list cop)) (npool nev : nat) (Hwf : ywf nev scripts).
  Context (tr : list nat) (s : state) (Hrun : run T (init scripts npool nev) tr = Some s).
  Let HI : Inv_yall nev s := reachable_yall nev T HA scripts npool tr s Hwf Hrun.
  Let HY : Inv_y nev s := ya_y _ _ HI.

  Lemma ev_ok l2 e l1 : s.(log) = l2 ++ e :: l1 -> evok e l1 /\ logall evok l1.
  Proof.
    intros E. pose proof (y_log _ _ HY) as HL. split; [by eapply logall_split|]. rewrite E in HL.
    apply logall_suffix in HL. by destruct HL.
  Qed.

  (* (2) every event of the user future lies inside the slot of its call's job: after Start o, before Finish o, and no other
     operation has started or finished since Start o *)
  Theorem user_events_in_slot l2 e l1 o : s.(log) = l2 ++ e :: l1 -> user_ev e = Some o ->
    in_slot o l1 /\ exists f r, GYnew o f r ∈ l1.
  Proof.
    intros E He. destruct (ev_ok _ _ _ E) as [Hk _]. destruct e; try discriminate He; injection He as ->; cbn in Hk.
    - destruct Hk as (Hc & Hw & _). split; [by apply wbn_open|done].
    - destruct Hk as (Hc & Hw & _). split; [by apply wbn_open|done].
    - destruct Hk as (Hc & Hw & _). split; [by apply wbn_open|done].
    - destruct Hk as (Hc & Hw & _). split; [by apply wbn_open|done].
  Qed.

  Lemma in_log l2 e l1 x : s.(log) = l2 ++ e :: l1 -> x ∈ l1 -> x ∈ s.(log).
  Proof. intros -> H. apply elem_of_app. right. by right. Qed.

  (* (3) the result of the SyncFuture's SchedulerFuture is delivered only after the slot job signalled it and after the user future
     completed, never after a drop; the slot job signals only after the user future completed or the SyncFuture was dropped
     (a started user future destroyed first); the user future starts and completes at most once *)
  Theorem result_after_completion l2 e l1 : s.(log) = l2 ++ e :: l1 ->
    (forall f v o r, e = GResolve f v -> GYnew o f r ∈ l1 -> v = o /\ GSig f o ∈ l1 /\ GUFinish o ∈ l1 /\ GYdrop o ∉ l1) /\
    (forall f v o r, e = GSig f v -> GYnew o f r ∈ l1 -> v = o /\ udone o l1) /\
    (forall o, e = GUFinish o -> GUStart o ∈ l1 /\ GUFinish o ∉ l1 /\ GUCancel o ∉ l1) /\
    (forall o, e = GUStart o -> GUStart o ∉ l1).
  Proof.
    intros E. destruct (ev_ok _ _ _ E) as [Hk HL]. split; [|split; [|split] ].
    - intros f v o r -> Hg. cbn in Hk. pose proof (Hk _ _ Hg) as Hfin.
      pose proof (resolve_after_signal T _ _ _ _ _ _ _ _ _ Hrun E) as Hsig.
      assert (Ht : (o, f, r) ∈ Ys s) by (apply ynews_in; by eapply in_log).
      destruct (y_t2 _ _ HY _ _ _ _ Ht (in_log _ _ _ _ E Hsig)) as [-> _].
      split; [done|]. split; [done|]. split; [done|]. intros Hd. by eapply finish_drop_excl.
    - intros f v o r -> Hg. cbn in Hk. by apply (Hk _ _ Hg).
    - intros o ->. cbn in Hk. destruct Hk as (_ & _ & ? & ? & ? & _). done.
    - intros o ->. cbn in Hk. tauto.
  Qed.

  (* (4) clean cancellation, for the field order of the code (`state` dropped before `task_finished`) *)
  Theorem clean_cancellation l2 e l1 : s.(log) = l2 ++ e :: l1 ->
    (forall o, user_ev e = Some o -> GYdrop o ∉ l1) /\
    (forall o, e = GUCancel o -> in_slot o l1 /\ GUStart o ∈ l1 /\ GUFinish o ∉ l1 /\ GUCancel o ∉ l1) /\
    (forall o, e = GYdrop o -> GYdrop o ∉ l1 /\ GUFinish o ∉ l1 /\ (GUStart o ∈ l1 -> GUCancel o ∈ l1)) /\
    (forall o f r, e = GFinish o -> GYnew o f r ∈ l1 -> udone o l1).
  Proof.
    intros E. destruct (ev_ok _ _ _ E) as [Hk HL]. split; [|split; [|split] ].
    - intros o He. destruct e; try discriminate He; injection He as ->; cbn in Hk; unfold urun in Hk; tauto.
    - intros o ->. cbn in Hk. destruct Hk as (_ & Hw & ? & ? & ? & _). split; [by apply wbn_open|done].
    - intros o ->. cbn in Hk. tauto.
    - intros o f r -> Hg. cbn in Hk. by eapply Hk.
  Qed.
End Thm.
