(* the stacks of the pool runners: idle, or exactly one drain episode (with waker calls above the job being polled) *)
From stdpp Require Import list numbers option.
From RecordUpdate Require Import RecordUpdate.
From L2 Require Import Model Base Own Shape.
#[global] Unset Lia Cache.

Definition poolm (fr : frame) : bool :=
  match fr with FDRdeq | FDRrequeue _ | FDRpend | FDRfin | FJob _ _ KDrain => true | _ => false end.
Fixpoint lastf (st : list frame) : option frame := match st with [] => None | [x] => Some x | _ :: r => lastf r end.
Definition ispool (st : list frame) : Prop := lastf st = Some FPIdle.
Definition pshape (st : list frame) : Prop :=
  st = [FPIdle] \/ exists pre m, st = pre ++ [m; FPIdle] /\ poolm m = true /\ forallb chain pre = true.
Definition isbot (o : option frame) : Prop := o = Some FPIdle \/ exists sc, o = Some (FTop sc).
Record Inv_pool (s : state) : Prop := {
  ip_shape : forall c st, stacks s !! c = Some st -> ispool st -> pshape st;
  ip_bottom : forall c st, stacks s !! c = Some st -> isbot (lastf st);
}.
Definition has_pool (s : state) : Prop := exists p st, stacks s !! p = Some st /\ ispool st.

Lemma last_cons_ne x l : l <> [] -> lastf (x :: l) = lastf l.
Proof. by destruct l. Qed.
Lemma last_app_ne pre l : l <> [] -> lastf (pre ++ l) = lastf l.
Proof. intros H. induction pre as [|x pre IH]; [done|]. change ((x :: pre) ++ l) with (x :: (pre ++ l)). rewrite last_cons_ne; [done|by destruct pre, l]. Qed.

Definition pshape' (rest : list frame) : Prop := exists pre m, rest = pre ++ [m; FPIdle] /\ poolm m = true /\ forallb chain pre = true.
Lemma pshape_inv fr rest : pshape (fr :: rest) ->
  (fr = FPIdle /\ rest = []) \/ (poolm fr = true /\ rest = [FPIdle]) \/ (chain fr = true /\ pshape' rest).
Proof.
  intros [[= -> ->]|(pre & m & E & Hm & Hc)]; [by left|right].
  destruct pre as [|x pre]; cbn in E; injection E as -> ->; [by left|right].
  cbn in Hc. apply andb_true_iff in Hc as [? ?]. split; [done|]. by exists pre, m.
Qed.
Lemma pshape_chain pre rest : forallb chain pre = true -> pshape' rest -> pshape (pre ++ rest).
Proof.
  intros Hc (pre' & m & -> & Hm & Hc'). right. exists (pre ++ pre'), m. rewrite app_assoc. split; [done|]. split; [done|].
  by rewrite forallb_app, Hc, Hc'.
Qed.
Lemma pshape_m pre m : poolm m = true -> forallb chain pre = true -> pshape (pre ++ [m; FPIdle]).
Proof. intros Hm Hc. right. by exists pre, m. Qed.

Lemma pool_update s s' a fr rest new :
  Inv_pool s -> stacks s !! a = Some (fr :: rest) -> stacks s' = <[a := new]> (stacks s) ->
  (isbot (lastf (fr :: rest)) -> isbot (lastf new) /\ (ispool new -> ispool (fr :: rest))) ->
  (pshape (fr :: rest) -> pshape new) -> Inv_pool s'.
Proof.
  intros [I1 I2] Ha Hs Hb Hps. pose proof (I2 _ _ Ha) as Hbot. destruct (Hb Hbot) as [Hb1 Hb2]. split.
  - intros c st Hc Hi. rewrite Hs in Hc. destruct (decide (c = a)) as [->|Hn].
    + rewrite list_lookup_insert in Hc by (by eapply lookup_lt_Some). injection Hc as <-. apply Hps. eapply I1; [exact Ha|by apply Hb2].
    + rewrite list_lookup_insert_ne in Hc by done. by eapply I1.
  - intros c st Hc. rewrite Hs in Hc. destruct (decide (c = a)) as [->|Hn].
    + rewrite list_lookup_insert in Hc by (by eapply lookup_lt_Some). by injection Hc as <-.
    + rewrite list_lookup_insert_ne in Hc by done. by eapply I2.
Qed.
