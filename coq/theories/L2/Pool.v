(* the stacks of the pool runners: idle, or exactly one drain episode (with waker calls above the job being polled) *)
From stdpp Require Import list numbers option.
From RecordUpdate Require Import RecordUpdate.
From L2 Require Import Model Base Own Shape.
#[global] Unset Lia Cache.

Definition poolm (fr : frame) : bool :=
  match fr with FDRdeq | FDRrequeue _ | FDRpend | FDRfin | FJob _ _ KDrain => true | _ => false end.
Fixpoint lastf (st : list frame) : option frame := match st with [] => None | [x] => Some x | _ :: r => lastf r end.
Definition ispool (st : list frame) : Prop := lastf st = Some FPIdle.
Definition pshape (st : list frame) : Prop :=
  st = [FPIdle] \/ exists pre m, st = pre ++ [m; FPIdle] /\ poolm m = true /\ forallb chain pre = true.
Definition isbot (o : option frame) : Prop := o = Some FPIdle \/ exists sc, o = Some (FTop sc).
Record Inv_pool (s : state) : Prop := {
  ip_shape : forall c st, stacks s !! c = Some st -> ispool st -> pshape st;
  ip_bottom : forall c st, stacks s !! c = Some st -> isbot (lastf st);
}.
Definition has_pool (s : state) : Prop := exists p st, stacks s !! p = Some st /\ ispool st.

Lemma last_cons_ne x l : l <> [] -> lastf (x :: l) = lastf l.
Proof. by destruct l. Qed.
Lemma last_app_ne pre l : l <> [] -> lastf (pre ++ l) = lastf l.
Proof. intros H. induction pre as [|x pre IH]; [done|]. change ((x :: pre) ++ l) with (x :: (pre ++ l)). rewrite last_cons_ne; [done|by destruct pre, l]. Qed.

Definition pshape' (rest : list frame) : Prop := exists pre m, rest = pre ++ [m; FPIdle] /\ poolm m = true /\ forallb chain pre = true.
Lemma pshape_inv fr rest : pshape (fr :: rest) ->
  (fr = FPIdle /\ rest = []) \/ (poolm fr = true /\ rest = [FPIdle]) \/ (chain fr = true /\ pshape' rest).
Proof.
  intros [[= -> ->]|(pre & m & E & Hm & Hc)]; [by left|right].
  destruct pre as [|x pre]; cbn in E; injection E as -> ->; [by left|right].
  cbn in Hc. apply andb_true_iff in Hc as [? ?]. split; [done|]. by exists pre, m.
Qed.
Lemma pshape_chain pre rest : forallb chain pre = true -> pshape' rest -> pshape (pre ++ rest).
Proof.
  intros Hc (pre' & m & -> & Hm & Hc'). right. exists (pre ++ pre'), m. rewrite app_assoc. split; [done|]. split; [done|].
  by rewrite forallb_app, Hc, Hc'.
Qed.
Lemma pshape_m pre m : poolm m = true -> forallb chain pre = true -> pshape (pre ++ [m; FPIdle]).
Proof. intros Hm Hc. right. by exists pre, m. Qed.

Lemma pool_update s s' a fr rest new :
  Inv_pool s -> stacks s !! a = Some (fr :: rest) -> stacks s' = <[a := new]> (stacks s) ->
  (isbot (lastf (fr :: rest)) -> isbot (lastf new) /\ (ispool new <-> ispool (fr :: rest))) ->
  (pshape (fr :: rest) -> pshape new) -> Inv_pool s' /\ (has_pool s -> has_pool s').
Proof.
  intros [I1 I2] Ha Hs Hb Hps. pose proof (I2 _ _ Ha) as Hbot. destruct (Hb Hbot) as [Hb1 Hb2]. split; [split|].
  - intros c st Hc Hi. rewrite Hs in Hc. destruct (decide (c = a)) as [->|Hn].
    + rewrite list_lookup_insert in Hc by (by eapply lookup_lt_Some). injection Hc as <-. apply Hps. eapply I1; [exact Ha|by apply Hb2].
    + rewrite list_lookup_insert_ne in Hc by done. by eapply I1.
  - intros c st Hc. rewrite Hs in Hc. destruct (decide (c = a)) as [->|Hn].
    + rewrite list_lookup_insert in Hc by (by eapply lookup_lt_Some). by injection Hc as <-.
    + rewrite list_lookup_insert_ne in Hc by done. by eapply I2.
  - intros (p & st & Hp & Hi). destruct (decide (p = a)) as [->|Hn].
    + exists a, new. split; [rewrite Hs, list_lookup_insert; [done|by eapply lookup_lt_Some]|]. rewrite Ha in Hp. injection Hp as <-. by apply Hb2.
    + exists p, st. split; [by rewrite Hs, list_lookup_insert_ne|done].
Qed.

Ltac tailvar l := lazymatch l with _ :: ?r => tailvar r | ?r => r end.
Lemma lastf_chain_app pre rest : rest <> [] -> lastf (pre ++ rest) = lastf rest. Proof. apply last_app_ne. Qed.

Section Pres.
  Context (T : ftables).
  Lemma step_pool_inv s a s' : Inv_pool s -> step T s a = Some s' -> Inv_pool s' /\ (has_pool s -> has_pool s').
  Proof.
    intros HI Hstep. step_split Hstep Ea Est.
    all: try discriminate Hstep.
    all: injection Hstep as <-.
    all: pop_cont_split.
    all: pose proof (stacks_lookup _ _ _ Ea) as Hst; rewrite Est in Hst.
    all: try match goal with k : kont |- _ => destruct k end.
    all: eapply (pool_update s _ a _ _ _ HI Hst); [solve_stacks| |].
    (* bottom frame *)
    all: try (lazymatch goal with |- isbot (lastf ?l) -> _ =>
              intros Hb; let r := tailvar l in destruct r as [|frz restz];
              [ cbn in Hb; first [ destruct Hb as [?|[? ?]]; discriminate | cbn; split; [first [by left|right; by eexists]|done] ]
              | unfold ispool; rewrite ?lastf_chain_app by done; cbn in *; split; done ] end).
    all: intros Hp; apply pshape_inv in Hp as [[Ez1 Ez2]|[[Hm Ez2]|[Hc Hp']]]; try discriminate; subst.
    all: try (by left).
    all: try (apply (pshape_m []); reflexivity).
    all: try (apply pshape_m; [reflexivity|apply chain_opt_wake]).
    all: try (match goal with |- pshape (?x :: ?y :: ?r) => apply (pshape_chain [x; y] r); [reflexivity|exact Hp'] end).
    all: try (match goal with |- pshape (?x :: ?r) => apply (pshape_chain [x] r); [reflexivity|exact Hp'] end).
    all: try (apply (pshape_chain []); [reflexivity|exact Hp']).
    all: try (apply pshape_chain; [first [apply chain_opt_wake|apply chain_wake_frames]|exact Hp']).
    all: try (apply pshape_m; [reflexivity|apply chain_wake_frames]).
  Qed.
End Pres.

Lemma init_pool scripts npool nev : Inv_pool (init scripts npool nev).
Proof.
  assert (H : forall c st, stacks (init scripts npool nev) !! c = Some st -> st = [FPIdle] \/ exists sc, st = [FTop sc]).
  { intros c st Hc. unfold stacks, init in Hc; cbn in Hc. rewrite list_lookup_fmap in Hc.
    destruct ((((fun sc => mk_actor [FTop sc]) <$> scripts) ++ replicate npool (mk_actor [FPIdle])) !! c) as [ac|] eqn:E; [|done].
    cbn in Hc. injection Hc as <-. apply elem_of_list_lookup_2 in E. apply elem_of_app in E as [E|E].
    - apply elem_of_list_fmap in E as (sc & -> & _). right. by exists sc.
    - apply elem_of_replicate in E as [-> _]. by left. }
  split; intros c st Hc; destruct (H c st Hc) as [->|[sc ->]].
  - by left.
  - done.
  - by left.
  - right. by exists sc.
Qed.
Lemma init_has_pool scripts npool nev : npool >= 1 -> has_pool (init scripts npool nev).
Proof.
  intros Hn. exists (length scripts), [FPIdle]. split; [|done].
  unfold stacks, init; cbn. rewrite list_lookup_fmap, lookup_app_r by (by rewrite fmap_length).
  rewrite fmap_length, Nat.sub_diag. destruct npool; [lia|done].
Qed.
