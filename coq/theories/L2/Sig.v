(* C07: a result is delivered only after it was signalled, and the delivered value is the one the signalling operation gave
   (the model uses the operation's id as its value) *)
From stdpp Require Import list numbers option.
From RecordUpdate Require Import RecordUpdate.
From L2 Require Import Model Base Own Fut.
#[global] Unset Lia Cache.

Fixpoint has_sig (f v : nat) (l : list gev) : bool :=
  match l with [] => false | GSig f' v' :: r => (bool_decide (f' = f) && bool_decide (v' = v)) || has_sig f v r | _ :: r => has_sig f v r end.
(* every Resolve f v in the log (newest first) has a Sig f v further down (older) *)
Fixpoint sigok (l : list gev) : bool :=
  match l with [] => true | GResolve f v :: r => has_sig f v r && sigok r | _ :: r => sigok r end.

Record Inv_sig (s : state) : Prop := {
  is_cell : forall f v, (getf s f).(res) = FSome v -> has_sig f v s.(log) = true;
  is_log : sigok s.(log) = true;
}.

Lemma res_setf_some s f c fq v : (getf (setf s f c) fq).(res) = FSome v -> (fq = f /\ c.(res) = FSome v) \/ (getf s fq).(res) = FSome v.
Proof.
  unfold getf, setf; cbn. destruct (decide (fq = f)) as [->|Hne]; [|rewrite list_lookup_insert_ne by done; by right].
  destruct (decide (f < length (futs s))).
  - rewrite list_lookup_insert by done. cbn. by left.
  - rewrite lookup_ge_None_2 by (rewrite insert_length; lia). done.
Qed.
Lemma res_alloc_some s (s' : state) l fq v : s'.(futs) = s.(futs) ++ l -> Forall (fun c => c = fc0) l ->
  (getf s' fq).(res) = FSome v -> (getf s fq).(res) = FSome v.
Proof.
  intros H Hl. unfold getf. rewrite H. destruct (decide (fq < length (futs s))).
  - by rewrite lookup_app_l.
  - rewrite lookup_app_r by lia. destruct (l !! (fq - length (futs s))) as [c|] eqn:E; cbn; [|done].
    apply elem_of_list_lookup_2 in E. rewrite (proj1 (List.Forall_forall _ _) Hl c) by (by apply elem_of_list_In). done.
Qed.

Section Pres.
  Context (T : ftables).
  Lemma step_sig s a s' : Inv_sig s -> step T s a = Some s' -> Inv_sig s'.
  Proof.
    intros [I1 I2] Hstep. step_split Hstep Ea Est.
    all: try discriminate Hstep.
    all: injection Hstep as <-.
    all: split.
    (* the log clause *)
    all: try (lazymatch goal with |- sigok _ = true =>
              cbn -[sigok has_sig]; rewrite ?log_setf; cbn -[has_sig]; rewrite ?I2, ?andb_true_r; try done;
              apply I1; rewrite ?getf_addlog'; done end).
    (* the cell clause *)
    all: intros fq vq Hr.
    all: try (match type of Hr with res (getf ?s' _) = _ => rewrite (getf_futs s' s fq eq_refl) in Hr end;
              specialize (I1 _ _ Hr); cbn -[has_sig]; cbn; rewrite ?I1, ?orb_true_r; done).
    (* fresh cells *)
    all: try (match type of Hr with res (getf ?s' _) = _ => apply (res_alloc_some s s' _ fq vq eq_refl ltac:(repeat constructor)) in Hr end;
              specialize (I1 _ _ Hr); cbn -[has_sig]; cbn; rewrite ?I1, ?orb_true_r; done).
    (* cells written *)
    all: match type of Hr with context [setf ?s0 ?f ?c] => match type of Hr with res (getf ?s' _) = _ =>
           rewrite (getf_futs s' (setf s0 f c) fq eq_refl) in Hr; apply res_setf_some in Hr as [[-> Hr]|Hr] end end.
    all: cbn in Hr; try discriminate Hr; rewrite ?getf_addlog' in Hr.
    all: try (injection Hr as <-; cbn; rewrite !bool_decide_true by done; done).
    all: try (match type of Hr with res (getf ?s1 ?f1) = _ => rewrite (getf_futs s1 s f1 eq_refl) in Hr end).
    all: try (specialize (I1 _ _ Hr)).
    all: cbn -[has_sig]; rewrite ?log_setf; cbn; rewrite ?I1, ?orb_true_r; try done.
  Qed.
End Pres.
Lemma init_sig scripts npool nev : Inv_sig (init scripts npool nev).
Proof. split; [|done]. intros f v. unfold getf, init; cbn. by rewrite lookup_nil. Qed.

(* reading of [sigok] *)
Lemma sigok_resolve l : sigok l = true -> forall l1 f v l2, l = l1 ++ GResolve f v :: l2 -> has_sig f v l2 = true.
Proof.
  induction l as [|ev l IH]; intros H l1 f v l2 E; [by destruct l1|].
  destruct l1 as [|x l1]; cbn in E; injection E as -> ->.
  - cbn in H. by apply andb_true_iff in H as [? _].
  - apply (IH ltac:(destruct x; cbn in H; try done; by apply andb_true_iff in H as [_ ?]) l1 f v l2 eq_refl).
Qed.
Lemma has_sig_in f v l : has_sig f v l = true -> GSig f v ∈ l.
Proof.
  induction l as [|ev l IH]; cbn; [done|]. destruct ev; try (intros H; right; by apply IH).
  rewrite orb_true_iff, andb_true_iff. intros [[H1 H2]|H]; [|right; by apply IH].
  apply bool_decide_eq_true in H1 as ->. apply bool_decide_eq_true in H2 as ->. left.
Qed.

Theorem resolve_after_signal T scripts npool nev tr s l1 f v l2 :
  run T (init scripts npool nev) tr = Some s -> s.(log) = l1 ++ GResolve f v :: l2 -> GSig f v ∈ l2.
Proof.
  intros Hr Hl.
  assert (HI : Inv_sig s) by (revert Hr; apply (run_inv Inv_sig T); [intros; by eapply step_sig|apply init_sig]).
  apply has_sig_in. by eapply sigok_resolve; [apply (is_log _ HI)|].
Qed.
