(* the generated tables (gen/Tables.v, written by the translator from the Rust source) packaged as an [ftables] *)
From stdpp Require Import list numbers option.
From L2 Require Import Model.
From Gen Require Import Tables.

Definition gen_ftables : ftables := {|
  ft_base := gen_tables; t_poll := g_poll; t_drain_pend := g_drain_pend; t_roj_pend := g_roj_pend; t_roj_park := g_roj_park;
  t_wake_queue := g_wake_queue; t_wake_thread := g_wake_thread; t_dw_wake := g_dw_wake; t_dw_wake_with := g_dw_wake_with |}.
(* the order facts of Model.ffacts as read from the source (located patterns of the table generator) *)
Definition gen_ffacts : ffacts := {|
  f_park_before_wake_with := fact_drain_queue_parks_before_wake_with;
  f_requeue_before_park := fact_drain_queue_requeues_pending && fact_drain_queue_requeue_first;
  f_future_drop_inert := fact_schedfuture_drop_inert;
  f_wake_thread_unparks_always := fact_wake_thread_unparks_always;
  f_syncfuture_state_dropped_first := fact_syncfuture_field_order |}.
