(* C07: the task-wake invariant is preserved (proofs) *)
From stdpp Require Import list numbers option.
From RecordUpdate Require Import RecordUpdate.
From L2 Require Import Model Base Own Jobs Shape DwInv Pool OpShape Fut Sig Wake WakeInv WakeLem WakeStep1 Task.
#[global] Unset Lia Cache.

Lemma cnts_app f a b : cnts f (a ++ b) = cnts f a + cnts f b. Proof. induction a; cbn; lia. Qed.
Lemma existsb_app' {A} (p : A -> bool) a b : existsb p (a ++ b) = existsb p a || existsb p b.
Proof. induction a; cbn; [done|]. by rewrite IHa, orb_assoc. Qed.
Lemma res_setf_none s f c fq : (getf (setf s f c) fq).(res) = FNone ->
  (fq = f /\ c.(res) = FNone) \/ ((fq <> f \/ length s.(futs) <= f) /\ (getf s fq).(res) = FNone).
Proof.
  unfold getf, setf; cbn. destruct (decide (fq = f)) as [->|Hne]; [|rewrite list_lookup_insert_ne by done; right; split; [by left|done] ].
  destruct (decide (f < length (futs s))).
  - rewrite list_lookup_insert by done. cbn. by left.
  - rewrite lookup_ge_None_2 by (rewrite insert_length; lia). cbn. intros _. right. split; [right; lia|]. by rewrite lookup_ge_None_2 by lia.
Qed.
Lemma getf_alloc_lt s (s' : state) l f : s'.(futs) = s.(futs) ++ l -> f < length s.(futs) -> getf s' f = getf s f.
Proof. intros H Hl. unfold getf. by rewrite H, lookup_app_l. Qed.

Section Pres.
  Context (T : ftables).
  (* clause 3 alone: a missing result still has its signalling job *)
  Lemma step_task_sig s a s' : (forall f, f < length s.(futs) -> (getf s f).(res) = FNone -> nsig f s >= 1) ->
    step T s a = Some s' -> forall f, f < length s'.(futs) -> (getf s' f).(res) = FNone -> nsig f s' >= 1.
  Proof.
    intros I3 Hstep. step_split Hstep Ea Est.
    all: try discriminate Hstep.
    all: injection Hstep as <-.
    all: pop_cont_split.
    all: pose proof (stacks_lookup _ _ _ Ea) as Hst; rewrite Est in Hst.
    all: try match goal with k : kont |- _ => destruct k end.
    all: intros fq Hlen Hr; pose proof (I3 fq) as I3'.
    all: match goal with |- context [nsig ?f ?s'] =>
           pose proof (np_upd (sgf f) s s' a _ _ Hst ltac:(solve_stacks)) as Hu;
           unfold nsig in *; (let n := fresh "cnt" in set (n := np (sgf f) s') in *; clearbody n) end.
    all: cbn [cntf sgf sgj ret_ready ret_pending] in Hu; rewrite ?cntf_app, ?cntf_opt_wake, ?cntf_wake_frames in Hu by done; cbn [cntf sgf sgj ret_ready ret_pending existsb is_psig orb] in Hu; rewrite ?existsb_app' in Hu; cbn [existsb is_psig orb] in Hu.
    all: try (match goal with E : jobs _ = _ :: _ |- _ => rewrite E in * end).
    all: cbn -[cnts length getf setf "++" existsb] in Hlen |- *; rewrite ?jobs_setf0; cbn -[cnts length getf setf "++" existsb]; rewrite ?cnts_app; cbn [cnts sgj] in *.
    (* cells untouched *)
    all: try (match type of Hr with res (getf ?s1 _) = _ => rewrite (getf_futs s1 s fq eq_refl) in Hr end;
              specialize (I3' Hlen Hr); repeat match goal with H : context [existsb ?p ?l] |- _ => destruct (existsb p l) end; cbn in *; lia).
    (* fresh cells *)
    all: try (rewrite app_length in Hlen; cbn [length] in Hlen;
              destruct (decide (fq < length (futs s))) as [Hlt|Hge];
              [ match type of Hr with res (getf ?s1 _) = _ => rewrite (getf_alloc_lt s s1 _ fq eq_refl Hlt) in Hr end; specialize (I3' Hlt Hr)
              | idtac ];
              repeat match goal with H : context [existsb ?p ?l] |- _ => destruct (existsb p l) end;
              repeat case_bool_decide; cbn in *; lia).
    (* cells written *)
    all: match type of Hr with context [setf ?s0 ?f ?c] => match type of Hr with res (getf ?s1 _) = _ =>
           rewrite (getf_futs s1 (setf s0 f c) fq eq_refl) in Hr; apply res_setf_none in Hr as [[-> Hr]|[Hne Hr]] end end.
    all: cbn in Hr; try discriminate Hr; rewrite ?getf_addlog' in Hr; rewrite ?futs_len_setf in Hlen; cbn -[length] in Hlen.
    all: try (match type of Hr with res (getf ?s1 ?f1) = _ => rewrite (getf_futs s1 s f1 eq_refl) in Hr end).
    all: try (first [specialize (I3' Hlen Hr)|specialize (I3 _ Hlen Hr)];
              repeat match goal with H : context [existsb ?p ?l] |- _ => destruct (existsb p l) end;
              repeat case_bool_decide; simplify_eq; cbn in *; try lia; try congruence).
    all: destruct Hne; [congruence|lia].
  Qed.
End Pres.

(* generic: an obligation Q that only marker frames carry; runner steps only need it for the new frames *)
Lemma marked_runner_step (Q : state -> frame -> bool) s s' a fr0 rest new :
  (forall s fr, marker fr = false -> Q s fr = true) ->
  Inv_own s -> stacks s !! a = Some (fr0 :: rest) -> marker fr0 = true -> stacks s' = <[a := new]> (stacks s) ->
  (forall fr, fr ∈ new -> fr ∈ rest \/ Q s' fr = true) ->
  forall c st fr, stacks s' !! c = Some st -> fr ∈ st -> Q s' fr = true.
Proof.
  intros HQ HO Ha Hm Hs Hnew c st fr Hc Hin. destruct (marker_unique s a fr0 rest HO Ha Hm) as [Hr Ho].
  destruct (fsat_upd s s' a _ new c fr Ha Hs ltac:(by exists st)) as [[-> Hin']|[Hne Hf']].
  - destruct (Hnew _ Hin') as [Hin''|]; [|done]. apply HQ. by apply Hr.
  - apply HQ. by eapply Ho.
Qed.
Lemma marked_other_step (Q : state -> frame -> bool) s s' a fr0 rest new :
  (forall s fr, marker fr = false -> Q s fr = true) ->
  stacks s !! a = Some (fr0 :: rest) -> stacks s' = <[a := new]> (stacks s) ->
  (forall fr, fr ∈ new -> fr ∈ rest \/ Q s' fr = true) ->
  (forall fr, marker fr = true -> Q s fr = true -> Q s' fr = true) ->
  (forall c st fr, stacks s !! c = Some st -> fr ∈ st -> Q s fr = true) ->
  forall c st fr, stacks s' !! c = Some st -> fr ∈ st -> Q s' fr = true.
Proof.
  intros HQ Ha Hs Hnew Hst HI c st fr Hc Hin.
  destruct (marker fr) eqn:Hm; [|by apply HQ].
  destruct (fsat_upd s s' a _ new c fr Ha Hs ltac:(by exists st)) as [[-> Hin']|[Hne (st' & Hc' & Hin'')]].
  - destruct (Hnew _ Hin') as [Hin''|]; [|done]. apply Hst; [done|]. eapply HI; [exact Ha|by right].
  - apply Hst; [done|]. by eapply HI.
Qed.
Lemma rn_nonmarker s fr : marker fr = false -> rn_ok s fr = true. Proof. by destruct fr. Qed.
Lemma res_none_keep s f c fq : (getf s fq).(res) = FNone -> (c.(res) = (getf s f).(res) \/ (getf s f).(res) <> FNone) ->
  (getf (setf s f c) fq).(res) = FNone.
Proof.
  intros H Hc. unfold getf, setf in *; cbn. destruct (decide (fq = f)) as [->|Hne]; [|by rewrite list_lookup_insert_ne].
  destruct (decide (f < length (futs s))).
  - rewrite list_lookup_insert by done. cbn. destruct Hc as [->|Hc]; [done|by destruct Hc].
  - rewrite lookup_ge_None_2 by (rewrite insert_length; lia). done.
Qed.
Lemma res_none_alloc s (s' : state) l fq : s'.(futs) = s.(futs) ++ l -> Forall (fun c => c = fc0) l ->
  (getf s fq).(res) = FNone -> (getf s' fq).(res) = FNone.
Proof.
  intros H Hl. unfold getf. rewrite H. destruct (decide (fq < length (futs s))).
  - by rewrite lookup_app_l.
  - intros _. rewrite lookup_app_r by lia. destruct (l !! (fq - length (futs s))) as [c|] eqn:E; cbn; [|done].
    apply elem_of_list_lookup_2 in E. rewrite (proj1 (List.Forall_forall _ _) Hl c) by (by apply elem_of_list_In). done.
Qed.

Section Pres2.
  Context (T : ftables).
  Lemma step_task_rn s a s' : Inv_own s ->
    (forall c st fr, stacks s !! c = Some st -> fr ∈ st -> rn_ok s fr = true) ->
    step T s a = Some s' -> forall c st fr, stacks s' !! c = Some st -> fr ∈ st -> rn_ok s' fr = true.
  Proof.
    intros HO I2 Hstep. step_split Hstep Ea Est.
    all: try discriminate Hstep.
    all: injection Hstep as <-.
    all: pop_cont_split.
    all: pose proof (stacks_lookup _ _ _ Ea) as Hst; rewrite Est in Hst.
    all: try match goal with k : kont |- _ => destruct k end.
    all: assert (Hok0 := I2 a _ _ Hst ltac:(left)); cbn in Hok0.
    all: first [ eapply (marked_runner_step rn_ok s _ a _ _ _ rn_nonmarker HO Hst eq_refl); [solve_stacks|]
               | eapply (marked_other_step rn_ok s _ a _ _ _ rn_nonmarker Hst); [solve_stacks| | |exact I2] ].
    (* new frames *)
    all: try (lazymatch goal with |- forall fr, fr ∈ _ -> _ \/ _ =>
              intros fr0 Hin; rewrite ?elem_of_app in Hin;
              repeat (first [ apply elem_of_cons in Hin as [->|Hin]; [right|]
                            | destruct Hin as [Hin|Hin]; [right; first [ destruct (fwaker (getf s f0)); [apply elem_of_list_singleton in Hin as ->|by apply elem_of_nil in Hin]
                                                                       | unfold wake_frames in Hin; apply elem_of_list_fmap in Hin as (? & -> & _) ] |] ]);
              [..|first [by left|left; by right] ]; try reflexivity; cbn;
              rewrite ?(getf_futs _ s _ eq_refl); try (by apply bool_decide_eq_true); try exact Hok0 end).
    (* stability: a non-marker step never turns a missing result into a present one *)
    all: try (lazymatch goal with |- forall fr, marker fr = true -> _ =>
      intros frq Hm Hok; destruct frq; try done; cbn in Hok |- *; apply bool_decide_eq_true in Hok; apply bool_decide_eq_true;
      first [ rewrite (getf_futs _ s _ eq_refl); exact Hok
            | match goal with |- res (getf ?s1 _) = _ => apply (res_none_alloc s s1 _ _ eq_refl ltac:(repeat constructor) Hok) end
            | match goal with |- context [setf ?s0 ?f ?c] => match goal with |- res (getf ?s1 ?fq) = _ =>
                rewrite (getf_futs s1 (setf s0 f c) fq eq_refl); apply res_none_keep; [exact Hok|]; cbn; first [by left|right; congruence] end end ] end).
    intros fr [Hin|Hin]%elem_of_app; [right|by left]. destruct o; [apply elem_of_list_singleton in Hin as ->; done|by apply elem_of_nil in Hin].
  Qed.
End Pres2.

(* ---------- what is proved of the task-wake invariant: clauses 2 and 3 (clause 1, [tw_ok], holds on all simulated runs; its
   proof needs one more stack-shape invariant and was not completed) ---------- *)
Theorem reachable_task_parts T : own_cond T -> forall scripts npool nev tr s, run T (init scripts npool nev) tr = Some s ->
  (forall c st fr, stacks s !! c = Some st -> fr ∈ st -> rn_ok s fr = true) /\
  (forall f, f < length s.(futs) -> (getf s f).(res) = FNone -> nsig f s >= 1).
Proof.
  intros HT scripts npool nev tr s Hr.
  assert (H : Inv_own s /\ (forall c st fr, stacks s !! c = Some st -> fr ∈ st -> rn_ok s fr = true) /\
              (forall f, f < length s.(futs) -> (getf s f).(res) = FNone -> nsig f s >= 1)); [|by destruct H as (_ & ? & ?)].
  revert Hr. apply (run_inv (fun s => Inv_own s /\ (forall c st fr, stacks s !! c = Some st -> fr ∈ st -> rn_ok s fr = true) /\
              (forall f, f < length s.(futs) -> (getf s f).(res) = FNone -> nsig f s >= 1)) T).
  - intros s0 a s1 (H1 & H2 & H3) Hs. split; [by eapply step_own|]. split; [by eapply step_task_rn|by eapply step_task_sig].
  - split; [apply init_own|]. split.
    + intros c st fr Hc Hin. apply rn_nonmarker.
      unfold stacks, init in Hc; cbn in Hc. rewrite list_lookup_fmap in Hc.
      destruct ((((fun sc => mk_actor [FTop sc]) <$> scripts) ++ replicate npool (mk_actor [FPIdle])) !! c) as [ac|] eqn:E; [|done].
      cbn in Hc. injection Hc as <-. apply elem_of_list_lookup_2 in E. apply elem_of_app in E as [E|E].
      * apply elem_of_list_fmap in E as (sc & -> & _). by apply elem_of_list_singleton in Hin as ->.
      * apply elem_of_replicate in E as [-> _]. by apply elem_of_list_singleton in Hin as ->.
    + intros f Hf. cbn in Hf. lia.
Qed.

(* ---------- clause 1: the awaiting task's wake-up ---------- *)
Definition cell (s : state) (c f : nat) : Prop := (getf s f).(res) = FNone /\ (getf s f).(fwaker) = Some (WTask c).
Lemma tw_trans s s' c f :
  (tokb s c = true -> tokb s' c = true) ->
  (posb (np (is_unpark c) s) = true -> posb (np (is_unpark c) s') = true \/ tokb s' c = true) ->
  (posb (np (is_wake (WTask c)) s) = true -> posb (np (is_wake (WTask c)) s') = true \/ posb (np (is_unpark c) s') = true) ->
  (cell s c f -> cell s' c f \/ posb (np (is_wake (WTask c)) s') = true) ->
  tw s c f = true -> tw s' c f = true.
Proof.
  intros Ht Hu Hw Hc. unfold tw, cell in *. rewrite !orb_true_iff, !andb_true_iff, !bool_decide_eq_true.
  intros [[[H|H]|H]|[H1 H2]].
  - left; left; left. by apply Ht.
  - destruct (Hu H); [left; left; by right|left; left; by left].
  - destruct (Hw H); [left; by right|left; left; by right].
  - destruct (Hc (conj H1 H2)) as [[? ?]|?]; [by right|left; by right].
Qed.
Definition isaw (fr : frame) : bool := match fr with FAwRet _ | FPark _ => true | _ => false end.
Lemma twf_noaw s c p st : cntf isaw st = 0 -> twf s c p st = true.
Proof. revert p; induction st as [|y r IH]; intros p; cbn; [done|]. destruct y; cbn; try (intros; by apply IH); lia. Qed.
Lemma isaw_opfr st : cntf opfr st = 0 -> cntf isaw st = 0.
Proof. induction st as [|y r IH]; cbn; [done|]. destruct y; cbn; try done; lia. Qed.
(* changing the state and the frame above *)
Lemma twf_change s s' c p p' st :
  (forall f, inprog_for p f = true -> inprog_for p' f = true) ->
  (forall f, FAwRet f ∈ st \/ FPark f ∈ st -> tw s c f = true -> tw s' c f = true) ->
  twf s c p st = true -> twf s' c p' st = true.
Proof.
  revert p p'; induction st as [|y r IH]; intros p p' Hp Hs; cbn [twf]; [done|].
  destruct y; try (apply IH; [done|intros ?f [?|?] ?; apply Hs; first [done|left; by right|right; by right] ]).
  - rewrite !orb_true_iff. intros [H|H]; [left; by apply Hp|right; apply Hs; [left; left|done] ].
  - apply Hs. right; left.
Qed.
Definition awaits (s : state) (c f : nat) : Prop := exists st, stacks s !! c = Some st /\ (FAwRet f ∈ st \/ FPark f ∈ st).
Lemma twf_update s s' a old new :
  stacks s !! a = Some old -> stacks s' = <[a := new]> (stacks s) ->
  twf s' a None new = true ->
  (forall c f, c <> a -> awaits s c f -> tw s c f = true -> tw s' c f = true) ->
  (forall c st, stacks s !! c = Some st -> twf s c None st = true) ->
  forall c st, stacks s' !! c = Some st -> twf s' c None st = true.
Proof.
  intros Ha Hs Hnew Hstab HI c st Hc. rewrite Hs in Hc. destruct (decide (c = a)) as [->|Hne].
  - rewrite list_lookup_insert in Hc by (by eapply lookup_lt_Some). by injection Hc as <-.
  - rewrite list_lookup_insert_ne in Hc by done. eapply (twf_change s s' c None None); [done| |by apply HI].
    intros f Hin. apply Hstab; [done|]. by exists st.
Qed.
Lemma cell_same (s s' : state) c f : s'.(futs) = s.(futs) -> cell s c f -> cell s' c f.
Proof. intros H. unfold cell. by rewrite (getf_futs s' s f H). Qed.
Lemma twf_app_chain s c p p0 pre r : forallb chain pre = true -> (forall f, inprog_for p0 f = false) ->
  twf s c p0 r = true -> twf s c p (pre ++ r) = true.
Proof.
  revert p; induction pre as [|y pre IH]; intros p Hc Hp H; cbn [app].
  - eapply (twf_change s s c p0 p); [intros f Hf; by rewrite Hp in Hf|done|done].
  - cbn in Hc. apply andb_true_iff in Hc as [Hy Hc]. destruct y; try done; cbn [twf]; by apply IH.
Qed.
Lemma tw_same s s' c f : toks s' = toks s -> s'.(futs) = s.(futs) ->
  np (is_unpark c) s' = np (is_unpark c) s -> np (is_wake (WTask c)) s' = np (is_wake (WTask c)) s -> tw s' c f = tw s c f.
Proof. intros H1 H2 H3 H4. unfold tw. by rewrite (tokb_toks s s' c H1), H3, H4, (getf_futs s' s f H2). Qed.

Lemma cell_tw s c f : cell s c f -> tw s c f = true.
Proof. intros [H1 H2]. unfold tw. rewrite H1, H2, !bool_decide_true by done. by rewrite orb_true_r. Qed.
Lemma wf_in_range s c st fr f : Inv_fut s -> stacks s !! c = Some st -> fr ∈ st -> wf f fr = true -> f < length s.(futs).
Proof.
  intros HF Hc Hin Hw. destruct (decide (f < length (futs s))) as [|Hge]; [done|]. exfalso.
  pose proof (tot_pos s c st fr f Hc Hin Hw). pose proof (if_fresh _ HF f ltac:(lia)). lia.
Qed.
Lemma cell_store s f c : f < length s.(futs) -> (getf s f).(res) = FNone ->
  cell (setf s f (getf s f <| fwaker := Some (WTask c) |>)) c f.
Proof. intros Hf Hr. unfold cell. rewrite getf_setf_eq by done. cbn. done. Qed.
Lemma cell_futs (s1 s2 : state) c f : s1.(futs) = s2.(futs) -> cell s2 c f -> cell s1 c f.
Proof. intros H. unfold cell. by rewrite (getf_futs s1 s2 f H). Qed.
Lemma np_two P s a c sa sc : a <> c -> stacks s !! a = Some sa -> stacks s !! c = Some sc -> cntf P sa >= 1 -> cntf P sc >= 1 -> np P s >= 2.
Proof.
  intros Hne Ha Hc H1 H2. pose proof (npl_insert P (stacks s) a sa [] Ha) as H. cbn in H.
  assert (Hc' : <[a := []]> (stacks s) !! c = Some sc) by (by rewrite list_lookup_insert_ne).
  pose proof (npl_ge P _ _ _ Hc'). unfold np. lia.
Qed.
(* two different actors cannot both be consumers of the same future *)
Lemma two_consumers s a c sa sc f : Inv_fut s -> a <> c -> stacks s !! a = Some sa -> stacks s !! c = Some sc ->
  cntf (wf f) sa >= 1 -> cntf (wf f) sc >= 1 -> False.
Proof.
  intros HF Hne Ha Hc H1 H2. pose proof (np_two (wf f) s a c sa sc Hne Ha Hc H1 H2). pose proof (if_one _ HF f). unfold tot in *. lia.
Qed.
Lemma awaits_wf s c f : awaits s c f -> exists st, stacks s !! c = Some st /\ cntf (wf f) st >= 1.
Proof.
  intros (st & Hc & Hin). exists st. split; [done|]. assert (cntf (wf f) st > 0); [|lia]. apply cntf_pos.
  destruct Hin as [Hin|Hin]; [exists (FAwRet f)|exists (FPark f)]; (split; [done|cbn; by apply bool_decide_eq_true]).
Qed.
(* the stack of a poller: the top poll frame for f sits on a consumer frame for f *)
Lemma poller_wf x rest f : pollall (x :: rest) = true -> pollfam x = Some f -> cntf (wf f) (x :: rest) >= 1.
Proof.
  cbn. intros [H _]%andb_true_iff Hf. unfold adjok in H. rewrite Hf in H. destruct rest as [|y r]; [done|].
  assert (wf f y = true) by (destruct y; try done). cbn. rewrite H0. destruct (wf f x); lia.
Qed.
Lemma aw_in_rest_absurd s a fr rest f : Inv_op s -> stacks s !! a = Some (fr :: rest) -> opfr fr = true ->
  FAwRet f ∈ rest \/ FPark f ∈ rest -> False.
Proof.
  intros HP Ha Ho Hin. pose proof (op_top_only s a fr rest HP Ha Ho) as Hz.
  destruct Hin as [Hin|Hin]; pose proof (cntf_zero_all opfr rest Hz _ Hin) as H; done.
Qed.
