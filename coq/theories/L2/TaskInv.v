(* C07: the task-wake invariant is preserved (proofs) *)
From stdpp Require Import list numbers option.
From RecordUpdate Require Import RecordUpdate.
From L2 Require Import Model Base Own Jobs Shape DwInv Pool OpShape Fut Sig Wake WakeInv WakeLem WakeStep1 Task.
#[global] Unset Lia Cache.

Lemma cnts_app f a b : cnts f (a ++ b) = cnts f a + cnts f b. Proof. induction a; cbn; lia. Qed.
Lemma existsb_app' {A} (p : A -> bool) a b : existsb p (a ++ b) = existsb p a || existsb p b.
Proof. induction a; cbn; [done|]. by rewrite IHa, orb_assoc. Qed.
Lemma res_setf_none s f c fq : (getf (setf s f c) fq).(res) = FNone ->
  (fq = f /\ c.(res) = FNone) \/ ((fq <> f \/ length s.(futs) <= f) /\ (getf s fq).(res) = FNone).
Proof.
  unfold getf, setf; cbn. destruct (decide (fq = f)) as [->|Hne]; [|rewrite list_lookup_insert_ne by done; right; split; [by left|done] ].
  destruct (decide (f < length (futs s))).
  - rewrite list_lookup_insert by done. cbn. by left.
  - rewrite lookup_ge_None_2 by (rewrite insert_length; lia). cbn. intros _. right. split; [right; lia|]. by rewrite lookup_ge_None_2 by lia.
Qed.
Lemma getf_alloc_lt s (s' : state) l f : s'.(futs) = s.(futs) ++ l -> f < length s.(futs) -> getf s' f = getf s f.
Proof. intros H Hl. unfold getf. by rewrite H, lookup_app_l. Qed.

Section Pres.
  Context (T : ftables).
  (* clause 3 alone: a missing result still has its signalling job *)
  Lemma step_task_sig s a s' : (forall f, f < length s.(futs) -> (getf s f).(res) = FNone -> nsig f s >= 1) ->
    step T s a = Some s' -> forall f, f < length s'.(futs) -> (getf s' f).(res) = FNone -> nsig f s' >= 1.
  Proof.
    intros I3 Hstep. step_split Hstep Ea Est.
    all: try discriminate Hstep.
    all: injection Hstep as <-.
    all: pop_cont_split.
    all: pose proof (stacks_lookup _ _ _ Ea) as Hst; rewrite Est in Hst.
    all: try match goal with k : kont |- _ => destruct k end.
    all: intros fq Hlen Hr; pose proof (I3 fq) as I3'.
    all: match goal with |- context [nsig ?f ?s'] =>
           pose proof (np_upd (sgf f) s s' a _ _ Hst ltac:(solve_stacks)) as Hu;
           unfold nsig in *; (let n := fresh "cnt" in set (n := np (sgf f) s') in *; clearbody n) end.
    all: cbn [cntf sgf sgj ret_ready ret_pending] in Hu; rewrite ?cntf_app, ?cntf_opt_wake, ?cntf_wake_frames in Hu by done; cbn [cntf sgf sgj ret_ready ret_pending existsb is_psig orb] in Hu; rewrite ?existsb_app' in Hu; cbn [existsb is_psig orb] in Hu.
    all: try (match goal with E : jobs _ = _ :: _ |- _ => rewrite E in * end).
    all: cbn -[cnts length getf setf "++" existsb] in Hlen |- *; rewrite ?jobs_setf0; cbn -[cnts length getf setf "++" existsb]; rewrite ?cnts_app; cbn [cnts sgj] in *.
    (* cells untouched *)
    all: try (match type of Hr with res (getf ?s1 _) = _ => rewrite (getf_futs s1 s fq eq_refl) in Hr end;
              specialize (I3' Hlen Hr); repeat match goal with H : context [existsb ?p ?l] |- _ => destruct (existsb p l) end; cbn in *; lia).
    (* fresh cells *)
    all: try (rewrite app_length in Hlen; cbn [length] in Hlen;
              destruct (decide (fq < length (futs s))) as [Hlt|Hge];
              [ match type of Hr with res (getf ?s1 _) = _ => rewrite (getf_alloc_lt s s1 _ fq eq_refl Hlt) in Hr end; specialize (I3' Hlt Hr)
              | idtac ];
              repeat match goal with H : context [existsb ?p ?l] |- _ => destruct (existsb p l) end;
              repeat case_bool_decide; cbn in *; lia).
    (* cells written *)
    all: match type of Hr with context [setf ?s0 ?f ?c] => match type of Hr with res (getf ?s1 _) = _ =>
           rewrite (getf_futs s1 (setf s0 f c) fq eq_refl) in Hr; apply res_setf_none in Hr as [[-> Hr]|[Hne Hr]] end end.
    all: cbn in Hr; try discriminate Hr; rewrite ?getf_addlog' in Hr; rewrite ?futs_len_setf in Hlen; cbn -[length] in Hlen.
    all: try (match type of Hr with res (getf ?s1 ?f1) = _ => rewrite (getf_futs s1 s f1 eq_refl) in Hr end).
    all: try (first [specialize (I3' Hlen Hr)|specialize (I3 _ Hlen Hr)];
              repeat match goal with H : context [existsb ?p ?l] |- _ => destruct (existsb p l) end;
              repeat case_bool_decide; simplify_eq; cbn in *; try lia; try congruence).
    all: destruct Hne; [congruence|lia].
  Qed.
End Pres.

(* generic: an obligation Q that only marker frames carry; runner steps only need it for the new frames *)
Lemma marked_runner_step (Q : state -> frame -> bool) s s' a fr0 rest new :
  (forall s fr, marker fr = false -> Q s fr = true) ->
  Inv_own s -> stacks s !! a = Some (fr0 :: rest) -> marker fr0 = true -> stacks s' = <[a := new]> (stacks s) ->
  (forall fr, fr ∈ new -> fr ∈ rest \/ Q s' fr = true) ->
  forall c st fr, stacks s' !! c = Some st -> fr ∈ st -> Q s' fr = true.
Proof.
  intros HQ HO Ha Hm Hs Hnew c st fr Hc Hin. destruct (marker_unique s a fr0 rest HO Ha Hm) as [Hr Ho].
  destruct (fsat_upd s s' a _ new c fr Ha Hs ltac:(by exists st)) as [[-> Hin']|[Hne Hf']].
  - destruct (Hnew _ Hin') as [Hin''|]; [|done]. apply HQ. by apply Hr.
  - apply HQ. by eapply Ho.
Qed.
Lemma marked_other_step (Q : state -> frame -> bool) s s' a fr0 rest new :
  (forall s fr, marker fr = false -> Q s fr = true) ->
  stacks s !! a = Some (fr0 :: rest) -> stacks s' = <[a := new]> (stacks s) ->
  (forall fr, fr ∈ new -> fr ∈ rest \/ Q s' fr = true) ->
  (forall fr, marker fr = true -> Q s fr = true -> Q s' fr = true) ->
  (forall c st fr, stacks s !! c = Some st -> fr ∈ st -> Q s fr = true) ->
  forall c st fr, stacks s' !! c = Some st -> fr ∈ st -> Q s' fr = true.
Proof.
  intros HQ Ha Hs Hnew Hst HI c st fr Hc Hin.
  destruct (marker fr) eqn:Hm; [|by apply HQ].
  destruct (fsat_upd s s' a _ new c fr Ha Hs ltac:(by exists st)) as [[-> Hin']|[Hne (st' & Hc' & Hin'')]].
  - destruct (Hnew _ Hin') as [Hin''|]; [|done]. apply Hst; [done|]. eapply HI; [exact Ha|by right].
  - apply Hst; [done|]. by eapply HI.
Qed.
Lemma rn_nonmarker s fr : marker fr = false -> rn_ok s fr = true. Proof. by destruct fr. Qed.
Lemma res_none_keep s f c fq : (getf s fq).(res) = FNone -> (c.(res) = (getf s f).(res) \/ (getf s f).(res) <> FNone) ->
  (getf (setf s f c) fq).(res) = FNone.
Proof.
  intros H Hc. unfold getf, setf in *; cbn. destruct (decide (fq = f)) as [->|Hne]; [|by rewrite list_lookup_insert_ne].
  destruct (decide (f < length (futs s))).
  - rewrite list_lookup_insert by done. cbn. destruct Hc as [->|Hc]; [done|by destruct Hc].
  - rewrite lookup_ge_None_2 by (rewrite insert_length; lia). done.
Qed.
Lemma res_none_alloc s (s' : state) l fq : s'.(futs) = s.(futs) ++ l -> Forall (fun c => c = fc0) l ->
  (getf s fq).(res) = FNone -> (getf s' fq).(res) = FNone.
Proof.
  intros H Hl. unfold getf. rewrite H. destruct (decide (fq < length (futs s))).
  - by rewrite lookup_app_l.
  - intros _. rewrite lookup_app_r by lia. destruct (l !! (fq - length (futs s))) as [c|] eqn:E; cbn; [|done].
    apply elem_of_list_lookup_2 in E. rewrite (proj1 (List.Forall_forall _ _) Hl c) by (by apply elem_of_list_In). done.
Qed.

Section Pres2.
  Context (T : ftables).
  Lemma step_task_rn s a s' : Inv_own s ->
    (forall c st fr, stacks s !! c = Some st -> fr ∈ st -> rn_ok s fr = true) ->
    step T s a = Some s' -> forall c st fr, stacks s' !! c = Some st -> fr ∈ st -> rn_ok s' fr = true.
  Proof.
    intros HO I2 Hstep. step_split Hstep Ea Est.
    all: try discriminate Hstep.
    all: injection Hstep as <-.
    all: pop_cont_split.
    all: pose proof (stacks_lookup _ _ _ Ea) as Hst; rewrite Est in Hst.
    all: try match goal with k : kont |- _ => destruct k end.
    all: assert (Hok0 := I2 a _ _ Hst ltac:(left)); cbn in Hok0.
    all: first [ eapply (marked_runner_step rn_ok s _ a _ _ _ rn_nonmarker HO Hst eq_refl); [solve_stacks|]
               | eapply (marked_other_step rn_ok s _ a _ _ _ rn_nonmarker Hst); [solve_stacks| | |exact I2] ].
    (* new frames *)
    all: try (lazymatch goal with |- forall fr, fr ∈ _ -> _ \/ _ =>
              intros fr0 Hin; rewrite ?elem_of_app in Hin;
              repeat (first [ apply elem_of_cons in Hin as [->|Hin]; [right|]
                            | destruct Hin as [Hin|Hin]; [right; first [ destruct (fwaker (getf s f0)); [apply elem_of_list_singleton in Hin as ->|by apply elem_of_nil in Hin]
                                                                       | unfold wake_frames in Hin; apply elem_of_list_fmap in Hin as (? & -> & _) ] |] ]);
              [..|first [by left|left; by right] ]; try reflexivity; cbn;
              rewrite ?(getf_futs _ s _ eq_refl); try (by apply bool_decide_eq_true); try exact Hok0 end).
    (* stability: a non-marker step never turns a missing result into a present one *)
    all: try (lazymatch goal with |- forall fr, marker fr = true -> _ =>
      intros frq Hm Hok; destruct frq; try done; cbn in Hok |- *; apply bool_decide_eq_true in Hok; apply bool_decide_eq_true;
      first [ rewrite (getf_futs _ s _ eq_refl); exact Hok
            | match goal with |- res (getf ?s1 _) = _ => apply (res_none_alloc s s1 _ _ eq_refl ltac:(repeat constructor) Hok) end
            | match goal with |- context [setf ?s0 ?f ?c] => match goal with |- res (getf ?s1 ?fq) = _ =>
                rewrite (getf_futs s1 (setf s0 f c) fq eq_refl); apply res_none_keep; [exact Hok|]; cbn; first [by left|right; congruence] end end ] end).
    intros fr [Hin|Hin]%elem_of_app; [right|by left]. destruct o; [apply elem_of_list_singleton in Hin as ->; done|by apply elem_of_nil in Hin].
  Qed.
End Pres2.

(* ---------- what is proved of the task-wake invariant: clauses 2 and 3 (clause 1, [tw_ok], holds on all simulated runs; its
   proof needs one more stack-shape invariant and was not completed) ---------- *)
Theorem reachable_task_parts T : own_cond T -> forall scripts npool nev tr s, run T (init scripts npool nev) tr = Some s ->
  (forall c st fr, stacks s !! c = Some st -> fr ∈ st -> rn_ok s fr = true) /\
  (forall f, f < length s.(futs) -> (getf s f).(res) = FNone -> nsig f s >= 1).
Proof.
  intros HT scripts npool nev tr s Hr.
  assert (H : Inv_own s /\ (forall c st fr, stacks s !! c = Some st -> fr ∈ st -> rn_ok s fr = true) /\
              (forall f, f < length s.(futs) -> (getf s f).(res) = FNone -> nsig f s >= 1)); [|by destruct H as (_ & ? & ?)].
  revert Hr. apply (run_inv (fun s => Inv_own s /\ (forall c st fr, stacks s !! c = Some st -> fr ∈ st -> rn_ok s fr = true) /\
              (forall f, f < length s.(futs) -> (getf s f).(res) = FNone -> nsig f s >= 1)) T).
  - intros s0 a s1 (H1 & H2 & H3) Hs. split; [by eapply step_own|]. split; [by eapply step_task_rn|by eapply step_task_sig].
  - split; [apply init_own|]. split.
    + intros c st fr Hc Hin. apply rn_nonmarker.
      unfold stacks, init in Hc; cbn in Hc. rewrite list_lookup_fmap in Hc.
      destruct ((((fun sc => mk_actor [FTop sc]) <$> scripts) ++ replicate npool (mk_actor [FPIdle])) !! c) as [ac|] eqn:E; [|done].
      cbn in Hc. injection Hc as <-. apply elem_of_list_lookup_2 in E. apply elem_of_app in E as [E|E].
      * apply elem_of_list_fmap in E as (sc & -> & _). by apply elem_of_list_singleton in Hin as ->.
      * apply elem_of_replicate in E as [-> _]. by apply elem_of_list_singleton in Hin as ->.
    + intros f Hf. cbn in Hf. lia.
Qed.

(* ---------- clause 1: the awaiting task's wake-up ---------- *)
Definition cell (s : state) (c f : nat) : Prop := (getf s f).(res) = FNone /\ (getf s f).(fwaker) = Some (WTask c).
Lemma tw_trans s s' c f :
  (tokb s c = true -> tokb s' c = true) ->
  (posb (np (is_unpark c) s) = true -> posb (np (is_unpark c) s') = true \/ tokb s' c = true) ->
  (posb (np (is_wake (WTask c)) s) = true -> posb (np (is_wake (WTask c)) s') = true \/ posb (np (is_unpark c) s') = true) ->
  (cell s c f -> cell s' c f \/ posb (np (is_wake (WTask c)) s') = true) ->
  tw s c f = true -> tw s' c f = true.
Proof.
  intros Ht Hu Hw Hc. unfold tw, cell in *. rewrite !orb_true_iff, !andb_true_iff, !bool_decide_eq_true.
  intros [[[H|H]|H]|[H1 H2]].
  - left; left; left. by apply Ht.
  - destruct (Hu H); [left; left; by right|left; left; by left].
  - destruct (Hw H); [left; by right|left; left; by right].
  - destruct (Hc (conj H1 H2)) as [[? ?]|?]; [by right|left; by right].
Qed.
Definition isaw (fr : frame) : bool := match fr with FAwRet _ | FPark _ => true | _ => false end.
Lemma twf_noaw s c p st : cntf isaw st = 0 -> twf s c p st = true.
Proof. revert p; induction st as [|y r IH]; intros p; cbn; [done|]. destruct y; cbn; try (intros; by apply IH); lia. Qed.
Lemma isaw_opfr st : cntf opfr st = 0 -> cntf isaw st = 0.
Proof. induction st as [|y r IH]; cbn; [done|]. destruct y; cbn; try done; lia. Qed.
(* changing the state and the frame above *)
Lemma twf_change s s' c p p' st :
  (forall f, inprog_for p f = true -> inprog_for p' f = true) ->
  (forall f, FAwRet f ∈ st \/ FPark f ∈ st -> tw s c f = true -> tw s' c f = true) ->
  twf s c p st = true -> twf s' c p' st = true.
Proof.
  revert p p'; induction st as [|y r IH]; intros p p' Hp Hs; cbn [twf]; [done|].
  destruct y; try (apply IH; [done|intros ?f [?|?] ?; apply Hs; first [done|left; by right|right; by right] ]).
  - rewrite !orb_true_iff. intros [H|H]; [left; by apply Hp|right; apply Hs; [left; left|done] ].
  - apply Hs. right; left.
Qed.
Definition awaits (s : state) (c f : nat) : Prop := exists st, stacks s !! c = Some st /\ (FAwRet f ∈ st \/ FPark f ∈ st).
Lemma twf_update s s' a old new :
  stacks s !! a = Some old -> stacks s' = <[a := new]> (stacks s) ->
  twf s' a None new = true ->
  (forall c f, c <> a -> awaits s c f -> tw s c f = true -> tw s' c f = true) ->
  (forall c st, stacks s !! c = Some st -> twf s c None st = true) ->
  forall c st, stacks s' !! c = Some st -> twf s' c None st = true.
Proof.
  intros Ha Hs Hnew Hstab HI c st Hc. rewrite Hs in Hc. destruct (decide (c = a)) as [->|Hne].
  - rewrite list_lookup_insert in Hc by (by eapply lookup_lt_Some). by injection Hc as <-.
  - rewrite list_lookup_insert_ne in Hc by done. eapply (twf_change s s' c None None); [done| |by apply HI].
    intros f Hin. apply Hstab; [done|]. by exists st.
Qed.
Lemma cell_same (s s' : state) c f : s'.(futs) = s.(futs) -> cell s c f -> cell s' c f.
Proof. intros H. unfold cell. by rewrite (getf_futs s' s f H). Qed.
Lemma twf_app_chain s c p p0 pre r : forallb chain pre = true -> (forall f, inprog_for p0 f = false) ->
  twf s c p0 r = true -> twf s c p (pre ++ r) = true.
Proof.
  revert p; induction pre as [|y pre IH]; intros p Hc Hp H; cbn [app].
  - eapply (twf_change s s c p0 p); [intros f Hf; by rewrite Hp in Hf|done|done].
  - cbn in Hc. apply andb_true_iff in Hc as [Hy Hc]. destruct y; try done; cbn [twf]; by apply IH.
Qed.
Lemma twf_app_frame s c p pre x r : forallb chain pre = true -> isaw x = false ->
  twf s c p (pre ++ x :: r) = twf s c (Some x) r.
Proof.
  revert p; induction pre as [|y pre IH]; intros p Hc Hx; cbn [app].
  - cbn [twf]. by destruct x.
  - cbn in Hc. apply andb_true_iff in Hc as [Hy Hc]. destruct y; try done; cbn [twf]; by apply IH.
Qed.
Lemma tw_same s s' c f : toks s' = toks s -> s'.(futs) = s.(futs) ->
  np (is_unpark c) s' = np (is_unpark c) s -> np (is_wake (WTask c)) s' = np (is_wake (WTask c)) s -> tw s' c f = tw s c f.
Proof. intros H1 H2 H3 H4. unfold tw. by rewrite (tokb_toks s s' c H1), H3, H4, (getf_futs s' s f H2). Qed.

Lemma cell_tw s c f : cell s c f -> tw s c f = true.
Proof. intros [H1 H2]. unfold tw. rewrite H1, H2, !bool_decide_true by done. by rewrite orb_true_r. Qed.
Lemma wf_in_range s c st fr f : Inv_fut s -> stacks s !! c = Some st -> fr ∈ st -> wf f fr = true -> f < length s.(futs).
Proof.
  intros HF Hc Hin Hw. destruct (decide (f < length (futs s))) as [|Hge]; [done|]. exfalso.
  pose proof (tot_pos s c st fr f Hc Hin Hw). pose proof (if_fresh _ HF f ltac:(lia)). lia.
Qed.
Lemma cell_store s f c : f < length s.(futs) -> (getf s f).(res) = FNone ->
  cell (setf s f (getf s f <| fwaker := Some (WTask c) |>)) c f.
Proof. intros Hf Hr. unfold cell. rewrite getf_setf_eq by done. cbn. done. Qed.
Lemma cell_futs (s1 s2 : state) c f : s1.(futs) = s2.(futs) -> cell s2 c f -> cell s1 c f.
Proof. intros H. unfold cell. by rewrite (getf_futs s1 s2 f H). Qed.
Lemma np_two P s a c sa sc : a <> c -> stacks s !! a = Some sa -> stacks s !! c = Some sc -> cntf P sa >= 1 -> cntf P sc >= 1 -> np P s >= 2.
Proof.
  intros Hne Ha Hc H1 H2. pose proof (npl_insert P (stacks s) a sa [] Ha) as H. cbn in H.
  assert (Hc' : <[a := []]> (stacks s) !! c = Some sc) by (by rewrite list_lookup_insert_ne).
  pose proof (npl_ge P _ _ _ Hc'). unfold np. lia.
Qed.
(* two different actors cannot both be consumers of the same future *)
Lemma two_consumers s a c sa sc f : Inv_fut s -> a <> c -> stacks s !! a = Some sa -> stacks s !! c = Some sc ->
  cntf (wf f) sa >= 1 -> cntf (wf f) sc >= 1 -> False.
Proof.
  intros HF Hne Ha Hc H1 H2. pose proof (np_two (wf f) s a c sa sc Hne Ha Hc H1 H2). pose proof (if_one _ HF f). unfold tot in *. lia.
Qed.
Lemma awaits_wf s c f : awaits s c f -> exists st, stacks s !! c = Some st /\ cntf (wf f) st >= 1.
Proof.
  intros (st & Hc & Hin). exists st. split; [done|]. assert (cntf (wf f) st > 0); [|lia]. apply cntf_pos.
  destruct Hin as [Hin|Hin]; [exists (FAwRet f)|exists (FPark f)]; (split; [done|cbn; by apply bool_decide_eq_true]).
Qed.
(* the stack of a poller: the top poll frame for f sits on a consumer frame for f *)
Lemma poller_wf x rest f : pollall (x :: rest) = true -> pollfam x = Some f -> cntf (wf f) (x :: rest) >= 1.
Proof.
  cbn. intros [H _]%andb_true_iff Hf. unfold adjok in H. rewrite Hf in H. destruct rest as [|y r]; [done|].
  assert (wf f y = true) by (destruct y; try done; by destruct pc). cbn. rewrite H0. destruct (wf f x); lia.
Qed.
Lemma aw_in_rest_absurd s a fr rest f : Inv_op s -> stacks s !! a = Some (fr :: rest) -> opfr fr = true ->
  FAwRet f ∈ rest \/ FPark f ∈ rest -> False.
Proof.
  intros HP Ha Ho Hin. pose proof (op_top_only s a fr rest HP Ha Ho) as Hz.
  destruct Hin as [Hin|Hin]; pose proof (cntf_zero_all opfr rest Hz _ Hin) as H; done.
Qed.

Lemma tw_cellstep s s' c f : toks s' = toks s -> np (is_unpark c) s <= np (is_unpark c) s' ->
  np (is_wake (WTask c)) s <= np (is_wake (WTask c)) s' ->
  (cell s c f -> cell s' c f \/ posb (np (is_wake (WTask c)) s') = true) -> tw s c f = true -> tw s' c f = true.
Proof.
  intros Ht Hu Hw Hc. apply tw_trans; [by rewrite (tokb_toks s s' c Ht)| | |done].
  - intros H. left. by eapply posb_mono.
  - intros H. left. by eapply posb_mono.
Qed.
Lemma cell_in_range s c f : cell s c f -> f < length s.(futs).
Proof. intros [_ H]. unfold getf in H. destruct (futs s !! f) eqn:E; [by eapply lookup_lt_Some|done]. Qed.
Lemma cell_setf_ne s f x c fq : fq <> f -> cell s c fq -> cell (setf s f x) c fq.
Proof. intros Hne. unfold cell, getf, setf; cbn. by rewrite list_lookup_insert_ne. Qed.
Lemma cell_setf_keep s f x c : x.(res) = (getf s f).(res) -> x.(fwaker) = (getf s f).(fwaker) -> cell s c f -> cell (setf s f x) c f.
Proof. intros H1 H2 Hc. pose proof (cell_in_range _ _ _ Hc). unfold cell. rewrite getf_setf_eq by done. rewrite H1, H2. exact Hc. Qed.
Lemma cell_alloc s (s' : state) l c f : s'.(futs) = s.(futs) ++ l -> cell s c f -> cell s' c f.
Proof. intros H Hc. pose proof (cell_in_range _ _ _ Hc). unfold cell. by rewrite (getf_alloc_lt s s' l f H). Qed.
Lemma tw_unpark s a c0 rest c f : stacks s !! a = Some (FUnpark c0 :: rest) -> c < length (stacks s) ->
  tw s c f = true -> tw (setstack (settoken s c0 true) a rest) c f = true.
Proof.
  intros Hst Hlt. set (s' := setstack _ _ _).
  assert (Hs : stacks s' = <[a := rest]> (stacks s)) by (subst s'; solve_stacks).
  pose proof (np_upd (is_unpark c) s s' a _ _ Hst Hs) as U1. pose proof (np_upd (is_wake (WTask c)) s s' a _ _ Hst Hs) as U2.
  cbn [cntf is_unpark is_wake] in U1, U2.
  assert (Htk : tokb s' c = if decide (c = c0) then true else tokb s c).
  { subst s'. rewrite tokb_setstack. destruct (decide (c = c0)) as [->|Hne]; [by apply tokb_set_eq|by apply tokb_set_ne]. }
  apply tw_trans.
  - rewrite Htk. by destruct (decide (c = c0)).
  - rewrite Htk, !posb_true. case_bool_decide; destruct (decide (c = c0)); simplify_eq; first [by right|left; lia].
  - rewrite !posb_true. lia.
  - intros Hc. left. exact (cell_same s s' c f eq_refl Hc).
Qed.

Section Pres3.
  Context (T : ftables).
  Lemma step_task_tw s a s' : Inv_own s -> Inv_fut s -> Inv_op s ->
    (forall c st fr, stacks s !! c = Some st -> fr ∈ st -> rn_ok s fr = true) ->
    (forall c st, stacks s !! c = Some st -> twf s c None st = true) ->
    step T s a = Some s' -> forall c st, stacks s' !! c = Some st -> twf s' c None st = true.
  Proof.
    intros HO HF HP I2 I1 Hstep. step_split Hstep Ea Est.
    all: try discriminate Hstep.
    all: injection Hstep as <-.
    all: pose proof (stacks_lookup _ _ _ Ea) as Hst; rewrite Est in Hst.
    all: pose proof (if_poll _ HF _ _ Hst) as Hpo.
    all: assert (Hok0 := I1 a _ Hst).
    all: pop_cont_split.
    all: try match goal with k : kont |- _ => destruct k end.
    (* a poll frame sits on its continuation: the no-continuation branch of pop_cont is impossible *)
    all: try (match goal with Hnc : nocont ?r |- _ => exfalso; cbn [pollall adjok pollfam] in Hpo; apply andb_true_iff in Hpo as [Hadj _];
              destruct r as [|[] ?]; try done; try (match goal with pc : ypc |- _ => destruct pc end; done) end).
    all: match goal with |- forall c st, stacks ?s1 !! c = Some st -> _ => eapply (twf_update s s1 a _ _ Hst ltac:(solve_stacks)); [ | |exact I1] end.
    all: try match goal with |- context [opt_wake ?o] => destruct o eqn:Eo end.
    all: cbn [opt_wake app].
    (* other actors, steps that only add to what they look at *)
    all: try (lazymatch goal with |- forall c f, c <> _ -> _ =>
              intros cq fq Hne Haw Htw; apply (tw_trans s); [ | | | |exact Htw];
              [ intros Ht; lazymatch goal with |- tokb ?s1 _ = true => rewrite (tokb_toks s s1 cq ltac:(solve_toks)); exact Ht end
              | intros Hp; left; eapply posb_mono; [eapply np_mono; [exact Hst|solve_stacks|cnt_le]|exact Hp]
              | intros Hp; left; eapply posb_mono; [eapply np_mono; [exact Hst|solve_stacks|cnt_le]|exact Hp]
              | intros Hc; left; lazymatch goal with |- cell ?s1 _ _ => exact (cell_same s s1 cq fq eq_refl Hc) end ] end).
    (* own stack, the await continuation was popped (Ready): nothing below it awaits *)
    all: try (lazymatch goal with |- twf _ _ None _ = true =>
              lazymatch goal with Hst : stacks _ !! _ = Some (_ :: ?xc :: ?rc) |- _ =>
                apply twf_noaw, isaw_opfr; destruct (HP a _ Hst) as [_ Hcnt]; cbn in Hcnt |- *; lia end end).
    (* own stack, FAwRet -> FPark *)
    all: try (lazymatch goal with Hst : stacks _ !! _ = Some (FAwRet ?f :: _) |- twf ?s1 _ None _ = true =>
              cbn [twf inprog_for orb] in Hok0 |- *; rewrite (tw_same s s1 a f); [exact Hok0|solve_toks|reflexivity
                |by eapply np_same; [exact Hst|solve_stacks|]|by eapply np_same; [exact Hst|solve_stacks|] ] end).
    (* own stack, the poll settles on Pending and the task waker is stored: FSFpoll (Wait arm), FDQstore, FDQempty1 *)
    all: try (lazymatch goal with |- twf ?s1 _ None _ = true =>
              lazymatch goal with
              | Hst : stacks _ !! _ = Some (FSFpoll ?f :: ?r0) |- _ => idtac
              | Hst : stacks _ !! _ = Some (FDQstore ?f _ :: ?r0) |- _ => idtac
              | Hst : stacks _ !! _ = Some (FDQempty1 ?f :: ?r0) |- _ => idtac end;
              lazymatch goal with Hst : stacks _ !! _ = Some (?x :: ?r0) |- _ =>
                lazymatch eval cbn in (pollfam x) with Some ?f =>
                  match goal with |- context [setf] => idtac end;
                  assert (Hrn : (getf s f).(res) = FNone) by
                    (first [ eassumption | pose proof (I2 a _ _ Hst ltac:(left)) as Hx; cbn in Hx; by apply bool_decide_eq_true in Hx ]);
                  cbn [pollall adjok pollfam] in Hpo; apply andb_true_iff in Hpo as [Hadj Hpo];
                  destruct r0 as [|y r1]; [done|]; destruct y; try done; try (match goal with pc : ypc |- _ => destruct pc; try done end);
                  cbn [iscont] in Hadj; apply bool_decide_eq_true in Hadj; subst;
                  [ (* FAwRet f *) cbn [twf]; apply orb_true_iff; right; apply cell_tw;
                    assert (Hlt : f < length (futs s)) by (eapply (wf_in_range s a _ (FAwRet f) f HF Hst); [right; left|cbn; by apply bool_decide_eq_true]);
                    eapply cell_futs; [|apply (cell_store s f a Hlt Hrn)]; reflexivity
                  | (* FDropRet f k *) cbn [twf]; apply twf_noaw, isaw_opfr; destruct (HP a _ Hst) as [_ Hcnt]; cbn in Hcnt; lia
                  | (* FY YPsfret *) cbn [twf]; apply twf_noaw, isaw_opfr; destruct (HP a _ Hst) as [_ Hcnt]; cbn in Hcnt; lia ] end end end).
    (* own stack, fire: the wake frames are pushed on top *)
    all: try (lazymatch goal with Hst : stacks _ !! _ = Some (FFire ?e0 :: _) |- twf ?s1 _ None _ = true =>
              cbn [twf] in Hok0; eapply (twf_app_chain s1 a None (Some (FFire e0))); [apply chain_wake_frames|done|];
              eapply (fun Hp Hs => twf_change s s1 a _ _ _ Hp Hs Hok0); [done|];
              intros fq _ Htw; apply (tw_trans s); [ | | | |exact Htw];
              [ intros Ht; rewrite (tokb_toks s s1 a ltac:(solve_toks)); exact Ht
              | intros Hp; left; eapply posb_mono; [eapply np_mono; [exact Hst|solve_stacks|rewrite cntf_app; cbn; lia]|exact Hp]
              | intros Hp; left; eapply posb_mono; [eapply np_mono; [exact Hst|solve_stacks|rewrite cntf_app; cbn; lia]|exact Hp]
              | intros Hc; left; exact (cell_same s s1 a fq eq_refl Hc) ] end).
    (* own stack, a oneshot fires (future_sync): the wake frames are pushed on top *)
    all: try (lazymatch goal with Hst : stacks _ !! _ = Some (?fr0 :: ?r) |- twf ?s1 _ None (wake_frames ?ws ++ ?r) = true =>
              cbn [twf] in Hok0; eapply (twf_app_chain s1 a None (Some fr0)); [apply chain_wake_frames|done|];
              eapply (fun Hp Hs => twf_change s s1 a _ _ _ Hp Hs Hok0); [done|] end).
    all: try (lazymatch goal with |- twf ?s1 _ None (wake_frames ?ws ++ ?x :: ?r) = true =>
              rewrite (twf_app_frame s1 a None (wake_frames ws) x r (chain_wake_frames _) eq_refl);
              cbn [twf] in Hok0; eapply (fun Hp Hs => twf_change s s1 a _ _ _ Hp Hs Hok0) end).
    (* own stack, generic: the frame above the first await frame changes, the state changes *)
    all: try (lazymatch goal with |- twf _ _ None _ = true =>
              try match goal with |- context [opt_wake ?o] => destruct o eqn:Eo end;
              cbn [twf] in Hok0; cbn [twf app opt_wake ret_ready ret_pending];
              try (cbn [inprog_for pollprog]; rewrite ?bool_decide_true by done; reflexivity);
              eapply (fun Hp Hs => twf_change s _ a _ _ _ Hp Hs Hok0) end).
    all: try (lazymatch goal with |- forall f, inprog_for _ f = true -> _ => intros ?f; cbn [inprog_for pollprog]; done end).
    (* stability of [tw s c f], result cells and tokens untouched: arithmetic on the frame counts *)
    all: try (lazymatch goal with
              | |- forall f, FAwRet f ∈ _ \/ _ -> tw _ _ _ = true -> tw ?s1 _ _ = true => intros fq _ Htw; pose (cq := a)
              | |- forall c f, c <> _ -> awaits _ c f -> tw _ c f = true -> tw ?s1 c f = true => intros cq fq _ _ Htw end;
              lazymatch goal with |- tw ?s1 _ _ = true =>
                assert (Hs1 : stacks s1 = <[a := _]> (stacks s)) by solve_stacks;
                pose proof (np_upd (is_unpark cq) s s1 a _ _ Hst Hs1) as U1;
                pose proof (np_upd (is_wake (WTask cq)) s s1 a _ _ Hst Hs1) as U2;
                cbn [cntf is_unpark is_wake app opt_wake] in U1, U2; rewrite ?cntf_app, ?cntf_wake_frames in U1, U2 by done;
                cbn [cntf is_unpark is_wake app] in U1, U2; try subst cq;
                apply (tw_trans s); [ | | | |exact Htw];
                [ intros Ht; rewrite (tokb_toks s s1 _ ltac:(solve_toks)); exact Ht
                | rewrite !posb_true; repeat case_bool_decide; simplify_eq; lia
                | rewrite !posb_true; repeat case_bool_decide; simplify_eq; lia
                | intros Hc; left; exact (cell_same s s1 _ fq eq_refl Hc) ] end).
    (* stability of [tw s c f] when result cells change *)
    all: try (lazymatch goal with
              | |- forall f, FAwRet f ∈ _ \/ _ -> tw _ _ _ = true -> tw ?s1 _ _ = true => intros fq Hinr Htw; pose (cq := a); assert (Hown : cq = a) by reflexivity
              | |- forall c f, c <> _ -> awaits _ c f -> tw _ c f = true -> tw ?s1 c f = true => intros cq fq Hne Haw Htw end;
              lazymatch goal with |- tw ?s1 _ _ = true =>
                assert (Hs1 : stacks s1 = <[a := _]> (stacks s)) by solve_stacks;
                pose proof (np_upd (is_unpark cq) s s1 a _ _ Hst Hs1) as U1;
                pose proof (np_upd (is_wake (WTask cq)) s s1 a _ _ Hst Hs1) as U2;
                cbn [cntf is_unpark is_wake app opt_wake] in U1, U2; rewrite ?cntf_app, ?cntf_wake_frames in U1, U2 by done;
                cbn [cntf is_unpark is_wake app] in U1, U2;
                apply (tw_cellstep s s1 cq fq); [solve_toks|repeat case_bool_decide; simplify_eq; lia|repeat case_bool_decide; simplify_eq; lia| |exact Htw];
                intros Hc;
                first [ left; eapply cell_alloc; [reflexivity|exact Hc]
                      | match goal with |- context [setf ?s0 ?f ?x] =>
                          destruct (decide (fq = f)) as [->|Hnf];
                          [ first [ (* take: the cell held a result *) destruct Hc as [Hc1 _]; rewrite ?getf_addlog' in *; congruence
                                  | (* signal *) right; destruct Hc as [_ Hc2]; rewrite Hc2 in *; simplify_eq; apply posb_true;
                                    rewrite bool_decide_true in U2 by done; lia
                                  | (* store by the awaiting actor itself *) left; subst cq; eapply cell_futs; [reflexivity|];
                                    apply cell_store; [by eapply cell_in_range|by destruct Hc]
                                  | (* store by somebody else: two consumers *) exfalso; destruct (awaits_wf _ _ _ Haw) as (sc & Hsc & Hwc);
                                    eapply (two_consumers s a cq _ sc f HF); [congruence|exact Hst|exact Hsc| |exact Hwc];
                                    apply poller_wf; [exact (if_poll _ HF _ _ Hst)|reflexivity] ]
                          | left; eapply cell_futs; [reflexivity|]; by apply cell_setf_ne ] end ] end).
    (* tokens *)
    all: try (lazymatch goal with Hst : stacks _ !! _ = Some (FROpark _ :: _) |- forall f, FAwRet f ∈ _ \/ _ -> _ =>
              intros fq Hin _; exfalso; eapply aw_in_rest_absurd; [exact HP|exact Hst|reflexivity|exact Hin] end).
    all: try (lazymatch goal with Hst : stacks _ !! _ = Some (FY _ _ _ _ :: _) |- forall f, FAwRet f ∈ _ \/ _ -> _ =>
              intros fq Hin _; exfalso; eapply aw_in_rest_absurd; [exact HP|exact Hst|reflexivity|exact Hin] end).
    all: try (lazymatch goal with Hst : stacks _ !! _ = Some (FUnpark _ :: _) |- _ =>
              first [ intros fq _ Htw; apply (tw_unpark s a _ _ a fq Hst); [by eapply lookup_lt_Some|exact Htw]
                    | intros cq fq _ (sc & Hsc & _) Htw; apply (tw_unpark s a _ _ cq fq Hst); [by eapply lookup_lt_Some|exact Htw] ] end).
    all: try (intros cq fq Hne Haw Htw; apply (tw_trans s); [ | | | |exact Htw];
              [ rewrite tokb_setstack, tokb_set_ne by done; done
              | intros Hp; left; eapply posb_mono; [eapply np_mono; [exact Hst|solve_stacks|cnt_le]|exact Hp]
              | intros Hp; left; eapply posb_mono; [eapply np_mono; [exact Hst|solve_stacks|cnt_le]|exact Hp]
              | intros Hc; left; lazymatch goal with |- cell ?s1 _ _ => exact (cell_same s s1 cq fq eq_refl Hc) end ]).
  Qed.
End Pres3.
(* ---------- clause 4: a caller blocked in sync_background still has its job somewhere ---------- *)
Lemma cntb_app c a b : cntb c (a ++ b) = cntb c a + cntb c b. Proof. induction a; cbn; lia. Qed.
Lemma sb_update s s' a old new :
  stacks s !! a = Some old -> stacks s' = <[a := new]> (stacks s) ->
  sb_ok s' a new = true ->
  (forall c, c <> a -> c < length (stacks s) -> (sresb s c = true -> sresb s' c = true) /\ (posb (nsb c s) = true -> posb (nsb c s') = true \/ sresb s' c = true)) ->
  (forall c st, stacks s !! c = Some st -> sb_ok s c st = true) ->
  forall c st, stacks s' !! c = Some st -> sb_ok s' c st = true.
Proof.
  intros Ha Hs Hnew Hstab HI c st Hc. rewrite Hs in Hc. destruct (decide (c = a)) as [->|Hne].
  - rewrite list_lookup_insert in Hc by (by eapply lookup_lt_Some). by injection Hc as <-.
  - rewrite list_lookup_insert_ne in Hc by done. pose proof (HI c st Hc) as H. destruct (Hstab c Hne ltac:(by eapply lookup_lt_Some)) as [H1 H2].
    unfold sb_ok in *. rewrite !orb_true_iff in *. destruct H as [[H|H]|H]; [by left; left|left; right; by apply H1|].
    destruct (H2 H); [by right|left; by right].
Qed.
Lemma sresb_sress (s s' : state) c : sress s' = sress s -> sresb s' c = sresb s c.
Proof. intros H. unfold sresb. by rewrite H. Qed.
Lemma sresb_set_ne s c c0 b : c <> c0 -> sresb (setsres s c0 b) c = sresb s c.
Proof. intros H. unfold sresb. by rewrite sress_setsres, list_lookup_insert_ne. Qed.
Lemma sresb_set_true s c : c < length (stacks s) -> sresb (setsres s c true) c = true.
Proof.
  intros H. unfold sresb. rewrite sress_setsres, list_lookup_insert; [done|]. unfold sress; rewrite fmap_length. unfold stacks in H. by rewrite fmap_length in H.
Qed.
Lemma sresb_setstack s a st c : sresb (setstack s a st) c = sresb s c.
Proof. unfold sresb. by rewrite sress_setstack. Qed.
Lemma sb_mono s s' c old new : cntf is_sbwait new <= cntf is_sbwait old ->
  (sresb s c = true -> sresb s' c = true) -> (posb (nsb c s) = true -> posb (nsb c s') = true \/ sresb s' c = true) ->
  sb_ok s c old = true -> sb_ok s' c new = true.
Proof.
  intros Hn H1 H2. unfold sb_ok. rewrite !orb_true_iff, !negb_true_iff. intros [[H|H]|H].
  - left; left. destruct (cntf is_sbwait old) eqn:E; [|done]. by assert (cntf is_sbwait new = 0) as -> by lia.
  - left; right. by apply H1.
  - destruct (H2 H); [by right|left; by right].
Qed.
Lemma jobs_setsres s c b : jobs (setsres s c b) = jobs s. Proof. done. Qed.
Lemma stacks_len_addlog s l : length (stacks (addlog s l)) = length (stacks s). Proof. done. Qed.
Lemma stacks_len_setf s f c : length (stacks (setf s f c)) = length (stacks s). Proof. done. Qed.

Section Pres4.
  Context (T : ftables).
  Lemma step_task_sb s a s' : Inv_op s ->
    (forall c st, stacks s !! c = Some st -> sb_ok s c st = true) ->
    step T s a = Some s' -> forall c st, stacks s' !! c = Some st -> sb_ok s' c st = true.
  Proof.
    intros HP I4 Hstep. step_split Hstep Ea Est.
    all: try discriminate Hstep.
    all: injection Hstep as <-.
    all: pop_cont_split.
    all: pose proof (stacks_lookup _ _ _ Ea) as Hst; rewrite Est in Hst.
    all: try match goal with k : kont |- _ => destruct k end.
    all: assert (Hok0 := I4 a _ Hst).
    all: destruct (HP a _ Hst) as [_ Hcnt].
    all: match goal with |- forall c st, stacks ?s1 !! c = Some st -> _ => eapply (sb_update s s1 a _ _ Hst ltac:(solve_stacks)); [ | |exact I4] end.
    (* the stepping actor pushes its own sync job *)
    all: try (lazymatch goal with |- sb_ok ?s1 _ (FSDloop :: _) = true =>
              lazymatch goal with Hst : stacks _ !! _ = Some (FSDpush _ _ :: _) |- _ =>
                unfold sb_ok; cbn in Hcnt |- *;
                assert (cntf is_sbwait rest = 0) as -> by (assert (cntf is_sbwait rest <= cntf opfr rest) by (apply cntf_le; by intros []); lia); done end end).
    all: try (lazymatch goal with Hst : stacks _ !! _ = Some (FSBpush _ _ :: _) |- sb_ok ?s1 _ _ = true =>
              unfold sb_ok; apply orb_true_iff; right; apply posb_true; unfold nsb;
              cbn -[cntb np]; rewrite cntb_app; cbn; rewrite bool_decide_true by done; lia end).
    (* both the stepping actor (cq = a) and the others: the same three observations *)
    all: lazymatch goal with
         | |- sb_ok ?s1 _ ?new = true => pose (cq := a); eapply (fun H1 H2 H3 => sb_mono s s1 cq _ new H1 H2 H3 Hok0)
         | |- forall c, c <> _ -> _ => intros cq Hne Hlt; split end.
    (* no new FSBwait frame *)
    all: try (lazymatch goal with |- cntf is_sbwait _ <= cntf is_sbwait _ => cbn; rewrite ?cntf_app, ?cntf_opt_wake, ?cntf_wake_frames by done; cbn; lia end).
    (* the result flag of cq *)
    all: try (lazymatch goal with |- sresb _ _ = true -> sresb ?s1 _ = true =>
              first [ rewrite (sresb_sress s s1 cq ltac:(rewrite ?sress_setstack, ?sress_settoken, ?sress_setkick, ?sress_kickall; reflexivity)); done
                    | rewrite sresb_setstack; intros Hs; lazymatch goal with |- sresb (setsres _ ?c0 true) _ = true =>
                        destruct (decide (cq = c0)) as [Hx|Hx]; [rewrite Hx; apply sresb_set_true; rewrite <- Hx; first [by (subst cq; eapply lookup_lt_Some)|idtac]|rewrite sresb_set_ne by done; exact Hs] end ] end).
    (* the job of cq *)
    all: try (lazymatch goal with |- posb (nsb _ _) = true -> posb (nsb _ ?s1) = true \/ _ =>
              pose proof (np_upd (sbf cq) s s1 a _ _ Hst ltac:(solve_stacks)) as U; unfold nsb;
              (let n := fresh "cnt" in set (n := np (sbf cq) s1) in *; clearbody n);
              cbn [cntf sbf sbj ret_ready ret_pending] in U; rewrite ?cntf_app, ?cntf_opt_wake, ?cntf_wake_frames in U by done;
              cbn [cntf sbf sbj ret_ready ret_pending] in U;
              try (match goal with E : jobs _ = _ :: _ |- _ => rewrite E in * end);
              cbn -[cntb sresb posb setsres]; rewrite ?jobs_setsres; cbn -[cntb sresb posb setsres]; rewrite ?cntb_app; cbn [cntb sbj];
              rewrite !posb_true; repeat match goal with H : context [sbj ?c ?j] |- _ => destruct (sbj c j) end;
              repeat case_bool_decide; simplify_eq; try (left; lia) end).
    all: try (right; rewrite sresb_setstack; apply sresb_set_true; rewrite ?stacks_len_addlog, ?stacks_len_setf, ?stacks_len_addlog;
              first [exact Hlt|subst cq; by eapply lookup_lt_Some]).
    all: try (lazymatch goal with |- sresb _ _ = true -> sresb _ _ = true =>
              rewrite sresb_setstack; intros Hs; change (sresb (addlog ?x _) cq) with (sresb x cq); rewrite sresb_set_ne by done; exact Hs end).
    all: try (lazymatch goal with |- _ < length _ => rewrite ?stacks_len_addlog, ?stacks_len_setf, ?stacks_len_addlog; first [exact Hlt|subst cq; by eapply lookup_lt_Some] end).
  Qed.
End Pres4.

(* ---------- the whole task invariant ---------- *)
Lemma init_stack_cases scripts npool nev c st : stacks (init scripts npool nev) !! c = Some st -> st = [FPIdle] \/ exists sc, st = [FTop sc].
Proof.
  intros Hc. unfold stacks, init in Hc; cbn in Hc. rewrite list_lookup_fmap in Hc.
  destruct ((((fun sc => mk_actor [FTop sc]) <$> scripts) ++ replicate npool (mk_actor [FPIdle])) !! c) as [ac|] eqn:E; [|done].
  cbn in Hc. injection Hc as <-. apply elem_of_list_lookup_2 in E. apply elem_of_app in E as [E|E].
  - apply elem_of_list_fmap in E as (sc & -> & _). right. by exists sc.
  - apply elem_of_replicate in E as [-> _]. by left.
Qed.
Lemma init_task scripts npool nev : Inv_task (init scripts npool nev).
Proof.
  split.
  - intros c st Hc. by destruct (init_stack_cases _ _ _ _ _ Hc) as [->|[sc ->]].
  - intros c st Hc. by destruct (init_stack_cases _ _ _ _ _ Hc) as [->|[sc ->]].
  - intros c st fr Hc Hin. apply rn_nonmarker. destruct (init_stack_cases _ _ _ _ _ Hc) as [->|[sc ->]]; by apply elem_of_list_singleton in Hin as ->.
  - intros f Hf. cbn in Hf. lia.
Qed.
Lemma step_task T s a s' : Inv_own s -> Inv_fut s -> Inv_op s -> Inv_task s -> step T s a = Some s' -> Inv_task s'.
Proof.
  intros HO HF HP [I1 I4 I2 I3] Hs. split.
  - by eapply step_task_tw.
  - by eapply step_task_sb.
  - by eapply step_task_rn.
  - by eapply step_task_sig.
Qed.
