(* C04 for ONE queue with future-based operations: sync returns.  Layer L2 with the waiter's loop of sync_background modelled
   (Model.v: FSBreg, FSBpush, FSBwait, FSBclaim; the `rescheduled` flag = kicked; reschedule_queue kicks every registered waiter;
   claim_pending_queue through the generated table t_claim; a successful claim runs jobs with run_one_job_now until the own job has
   run, then Idle + reschedule_queue).
     [C04_waiter_invariant]  every reachable state satisfies Waiter.Inv_K: a waiter whose job has not run and whose flag is clear
                             is going to be kicked whenever the queue can be claimed;
     [C04_sync_returns_full] in a terminal state with all events fired every actor is done or is a task parked awaiting a
                             SchedulerFuture - nobody is left inside sync - for ANY program and ANY number of pool runners, 0 included;
     [C04_waiter_takes_over] in particular no caller is left waiting in sync_background (state form of finding F6: queue in
                             WaitingForPoll f, f's future dropped, the queue woken and in the schedule, no pool thread free);
     [C04_noawait_caller_finishes]  a caller that never awaits a future finishes its script.
   Needs, besides all_cond, the table facts Waiter.claim_cond (Inst.gen_claim_cond; Inst.cl_claim_row is the row added by the repair
   d110293).  The condition is NEEDED: with the claim table as it was before the repair - which satisfies every other condition of
   the layer (Refute.old_claim_all_cond) - the run of [[future polled once and dropped; sync]; [fire]] with no pool thread ends
   with caller 0 waiting for ever (Refute.C04_needs_waiter_takeover_refuted, a concrete run; with the generated table the same
   program finishes: Refute.waiter_takeover_generated_table).
   Not covered: a task that AWAITS a future while the queue waits for the poll of ANOTHER, dropped future (no pool thread): see the
   report (candidate finding: poll refuses WaitingForPoll(other) just as claim_pending_queue did). *)
From L2 Require Import Model Wake WakeInv Term Waiter WaiterTerm Main Refute.
Theorem C04_waiter_invariant_L2 : C04_waiter_invariant.
Proof. exact C04_waiter_invariant_main. Qed.
Theorem C04_sync_returns_L2 : C04_sync_returns_full.
Proof. exact C04_sync_returns_main. Qed.
Theorem C04_waiter_takes_over_L2 : C04_waiter_takes_over.
Proof. exact C04_waiter_takes_over_main. Qed.
Theorem C04_noawait_caller_finishes_L2 : C04_noawait_caller_finishes.
Proof. exact C04_noawait_caller_finishes_main. Qed.
Theorem C04_needs_waiter_takeover_refuted_L2 : ~ C04_sync_returns_any_claim_table.
Proof. exact C04_sync_returns_needs_claim_cond. Qed.
Print Assumptions C04_waiter_invariant_L2.
Print Assumptions C04_sync_returns_L2.
Print Assumptions C04_waiter_takes_over_L2.
Print Assumptions C04_noawait_caller_finishes_L2.
Print Assumptions C04_needs_waiter_takeover_refuted_L2.
